(* Lemma b. of C01 (DESIGN.md Appendix A3) for the decoder's prefix tables, and the table part of C03 / C10:
   on a table returned by HuffmanTree::build_implicit,
     - for every stream there is exactly one symbol whose canonical code word is a prefix of the stream bits;
     - read_symbol returns that symbol and consumes exactly its length, whatever lies above the code word in the
       reservoir, provided the reservoir holds the code word (or the reader is exhausted: then it fails with
       BitStreamError exactly when the word is longer than what is left);
     - read_symbol / peek_symbol never panic and never run out of fuel, for any reservoir contents.
   The canonical code is `code_of` of Lossless_HuffmanSafe.v; `code_of_canonical` identifies it with
   Spec.PrefixCode.canonical (RFC 1951 3.2.2 as the WebP lossless specification prescribes). *)
From Coq Require Import ZArith NArith List Bool Lia FMapPositive.
From WebP Require Import Lib.Res Lib.Arr Lib.ZBits Gen.Tables Spec.PrefixCode Model.LosslessLib Model.BitReader Model.Huffman
     Proofs.Lossless_BitReader Proofs.Lossless_HuffmanSafe.
Import ListNotations.
Open Scope Z_scope.

Ltac Zify.zify_post_hook ::= Z.div_mod_to_equations.

(* ------------------------------------------------------------------------------------------------ *)
(* the secondary tree walk of read_symbol_slowpath follows `path`                                     *)
(* ------------------------------------------------------------------------------------------------ *)
Lemma land1_b2z w : Z.land w 1 = Z.b2z (Z.testbit w 0).
Proof. rewrite land1, Z.bit0_odd. apply mod2_b2z. Qed.

Lemma slowpath_path nodes code : wf_nodes nodes -> forall n fuel w idx depth leaf sym r,
  0 <= idx < vzlen nodes -> path nodes idx code n = Some leaf -> vz nodes leaf = Leaf sym ->
  (forall k, 0 <= k < Z.of_nat n -> Z.testbit w k = Z.testbit code (Z.of_nat n - 1 - k)) ->
  (n < fuel)%nat -> 0 <= depth -> depth + Z.of_nat n <= 255 ->
  read_symbol_slowpath fuel nodes w idx depth r = bind (consume r (depth + Z.of_nat n)) (fun r' => Ok (sym, r')).
Proof.
  intros Hwf. induction n as [|n IH]; intros fuel w idx depth leaf sym r Hidx Hp Hleaf Hbits Hfuel Hd0 Hd.
  - destruct fuel as [|fuel]; [lia|]. cbn [path] in Hp. injection Hp as <-. cbn [read_symbol_slowpath].
    rewrite vget_ok by assumption. cbn [bind]. rewrite Hleaf. replace (depth + Z.of_nat 0) with depth by lia. reflexivity.
  - destruct fuel as [|fuel]; [lia|]. cbn [path] in Hp. cbn [read_symbol_slowpath].
    rewrite vget_ok by assumption. cbn [bind].
    destruct (vz nodes idx) as [o| |] eqn:End; try discriminate.
    replace (255 <=? depth) with false by (symmetry; apply Z.leb_gt; lia).
    destruct (Hwf idx o Hidx End) as [Ho Hio].
    assert (Hbit : Z.land w 1 = Z.land (Z.shiftr code (Z.of_nat n)) 1).
    { rewrite !land1_b2z. f_equal. rewrite (Hbits 0 ltac:(lia)). rewrite Z.shiftr_spec by lia. f_equal. lia. }
    rewrite Hbit.
    assert (Hb : 0 <= Z.land (Z.shiftr code (Z.of_nat n)) 1 <= 1) by (rewrite land1; lia).
    rewrite (IH fuel (Z.shiftr w 1) _ (depth + 1) leaf sym r); auto; try lia.
    + replace (depth + 1 + Z.of_nat n) with (depth + Z.of_nat (S n)) by lia. reflexivity.
    + intros k Hk. rewrite Z.shiftr_spec by lia. rewrite (Hbits (k + 1) ltac:(lia)). f_equal. lia.
Qed.

(* ------------------------------------------------------------------------------------------------ *)
(* one table look-up                                                                                  *)
(* ------------------------------------------------------------------------------------------------ *)
Lemma land_mask v tb : 0 <= tb -> Z.land v (2 ^ tb - 1) = v mod 2 ^ tb.
Proof.
  intros H. replace (2 ^ tb - 1) with (Z.ones tb) by (unfold Z.ones; rewrite Z.shiftl_1_l; lia). apply Z.land_ones. assumption.
Qed.

Lemma entry_of_fields l sym : 1 <= l <= 15 -> 0 <= sym < 65536 ->
  Z.shiftr (entry_of l sym) 16 = l /\ (entry_of l sym) mod 2 ^ 16 = sym.
Proof.
  intros Hl Hs. unfold entry_of. rewrite (Z.mod_small sym) by (change (2 ^ 32) with 4294967296; lia).
  rewrite Z.lor_comm. rewrite Z.shiftl_mul_pow2 by lia.
  rewrite lor_low_high by (change (2 ^ 16) with 65536; lia). change (2 ^ 16) with 65536.
  rewrite Z.shiftr_div_pow2 by lia. change (2 ^ 16) with 65536. split; lia.
Qed.

(* the context a successfully built two-level table provides *)
Record tctx (lens hist : list Z) (mx tb : Z) (nc : list Z) (nodes : vec node) (table : arr) : Prop := {
  tc_ctx : code_ctx hist mx tb;
  tc_hist : forall i, 0 <= i -> zn hist i = if i =? 0 then 0 else cnt i lens;
  tc_last : forall i, mx < i -> zn hist i = 0;
  tc_kraft : curr_of hist (Z.to_nat mx) = 2 ^ (mx + 1);
  tc_lens : Forall (fun l => l = 0 \/ 1 <= l <= mx) lens;
  tc_len : Z.of_nat (length lens) <= 5957;
  tc_tab : table_inv hist tb nc nodes table;
  tc_wf : wf_nodes nodes;
  tc_good : good hist tb lens nodes table }.

(* the symbol whose code word is spelled by the low bits of v is found, and its length is consumed *)
Lemma lookup_code lens hist mx tb nc nodes table sym r :
  tctx lens hist mx tb nc nodes table -> (sym < length lens)%nat -> nth sym lens 0 <> 0 ->
  ((peek_full r) mod 2 ^ 16) mod 2 ^ (nth sym lens 0) = revl (nth sym lens 0) (code_of hist lens sym) ->
  read_symbol (Tree nodes table (2 ^ tb - 1)) r =
    bind (consume r (nth sym lens 0)) (fun r' => Ok (Z.of_nat sym, r')) /\
  peek_symbol (Tree nodes table (2 ^ tb - 1)) r =
    Ok (if nth sym lens 0 <=? tb then Some (nth sym lens 0, Z.of_nat sym) else None).
Proof.
  intros [Hcx Hzn Hlast Hk Hls Hlen (Htlen & Htab) Hwf Hg] Hs Hnz Hv.
  pose proof Hcx as [Hhist Hmx Htb _ _].
  assert (Htb' : 1 <= tb <= 10 /\ tb <= mx) by (clear - Hmx Htb; lia).
  remember (nth sym lens 0) as l eqn:El. remember (code_of hist lens sym) as c eqn:Ec.
  assert (Hl : 1 <= l <= mx).
  { pose proof (proj1 (Forall_forall _ _) Hls l ltac:(rewrite El; apply nth_In; assumption)) as H. cbn beta in H.
    clear - H Hnz. lia. }
  assert (Hsym : 0 <= Z.of_nat sym < 65536) by (clear - Hs Hlen; lia).
  assert (Hc0 : 0 <= c).
  { rewrite Ec. unfold code_of. pose proof (curr_of_bound hist (Z.to_nat (nth sym lens 0) - 1) Hhist) as H1.
    pose proof (cnt_nonneg (nth sym lens 0) (firstn sym lens)) as H2. unfold first. clear - H1 H2. lia. }
  destruct (Hg sym Hs ltac:(rewrite <- El; exact Hnz)) as [G1 G2]. rewrite <- El, <- Ec in G1, G2.
  clear Hcx Hzn Hlast Hk Hls Hhist Hg Ec El Hs Hlen Hnz.
  hide Htab; hide G1; hide G2; hide Hwf; hide Hv.
  set (v := peek_full r mod 2 ^ 16) in *.
  assert (Hpow : 0 < 2 ^ tb) by (apply Z.pow_pos_nonneg; lia).
  assert (Hj : 0 <= v mod 2 ^ tb < 2 ^ tb) by (apply Z.mod_pos_bound; assumption).
  hide Hj.
  unfold read_symbol, peek_symbol. fold v. rewrite land_mask by lia.
  rewrite zget_ok by (rewrite Htlen; unhide Hj; exact Hj). cbn [bind].
  destruct (Z_le_gt_dec l tb) as [Hshort|Hlong].
  - (* primary entry *)
    unhide G1. unhide Hv. unhide Hj.
    rewrite (G1 Hshort (v mod 2 ^ tb) Hj) by (rewrite mod_pow2_mod_pow2 by (clear - Hl Hshort; lia); exact Hv).
    clear G1 Hv Hj.
    destruct (entry_of_fields l (Z.of_nat sym) ltac:(clear - Hl Hmx; lia) Hsym) as [F1 F2]. rewrite F1, F2.
    replace (l =? 0) with false by (symmetry; apply Z.eqb_neq; clear - Hl; lia). cbn [negb].
    rewrite (Z.mod_small l) by (change (2 ^ 8) with 256; clear - Hl Hmx; lia).
    replace (l <=? tb) with true by (symmetry; apply Z.leb_le; exact Hshort). split; reflexivity.
  - (* secondary tree *)
    unhide G2. destruct (G2 ltac:(clear - Hlong; lia)) as (Gs & Gn & leaf & Gp & Gl). clear G2.
    assert (Hidx : v mod 2 ^ tb = revl l c mod 2 ^ tb).
    { unhide Hv. rewrite <- Hv. rewrite mod_pow2_mod_pow2 by (clear - Htb' Hlong; lia). reflexivity. }
    rewrite Hidx in *. rewrite Gs. cbn [Z.eqb negb].
    replace (l <=? tb) with false by (symmetry; apply Z.leb_gt; clear - Hlong; lia). split; [|reflexivity].
    unhide Htab. unhide Hj. destruct (Htab _ Hj) as [_ T3]. specialize (T3 Gs). clear Htab Hj.
    remember (az table (revl l c mod 2 ^ tb)) as e eqn:Ee.
    assert (He : 0 < e <= 65535).
    { split; [clear - T3 Gn; lia|]. rewrite Z.shiftr_div_pow2 in Gs by lia. change (2 ^ 16) with 65536 in Gs. clear - Gs T3. lia. }
    change 65535 with (Z.ones 16). rewrite Z.land_ones by lia.
    rewrite (Z.mod_small e) by (change (2 ^ 16) with 65536; clear - He; lia).
    unfold usub. replace (e <? 1) with false by (symmetry; apply Z.ltb_ge; clear - He; lia). cbn [bind].
    assert (Htb10 : tb = 10) by (clear - Htb Hl Hlong; lia).
    assert (Hl15 : l <= 15) by (clear - Hl Hmx; lia).
    unfold MAX_TABLE_BITS. change huffman_MAX_TABLE_BITS with 10. unhide Hwf.
    rewrite (slowpath_path nodes c Hwf (Z.to_nat (l - tb)) SLOWPATH_FUEL (Z.shiftr v 10) (e - 1) 10 leaf (Z.of_nat sym mod 2 ^ 16) r);
      auto.
    + rewrite Z2Nat.id by (clear - Hlong; lia). replace (10 + (l - tb)) with l by (clear - Htb10; lia).
      rewrite (Z.mod_small (Z.of_nat sym)) by (change (2 ^ 16) with 65536; exact Hsym). reflexivity.
    + clear - T3 He. lia.
    + intros k Hkk. rewrite Z2Nat.id in * by (clear - Hlong; lia). rewrite Z.shiftr_spec by (clear - Hkk; lia).
      assert (Hvb : Z.testbit v (k + 10) = Z.testbit (revl l c) (k + 10)).
      { unhide Hv. rewrite <- Hv. rewrite Z.mod_pow2_bits_low by (clear - Hkk Htb10; lia). reflexivity. }
      rewrite Hvb. rewrite revl_bits by (clear - Hkk Hc0 Hl Hl15; lia).
      replace (k + 10 <? l) with true by (symmetry; apply Z.ltb_lt; clear - Hkk Htb10; lia). f_equal. clear - Htb10. lia.
    + unfold SLOWPATH_FUEL. clear - Hlong Hl15 Htb10. lia.
    + clear. lia.
    + rewrite Z2Nat.id by (clear - Hlong; lia). clear - Hl15 Htb10. lia.
Qed.

(* ------------------------------------------------------------------------------------------------ *)
(* the canonical code is complete: every stream starts with exactly one code word                     *)
(* ------------------------------------------------------------------------------------------------ *)
(* the k-th symbol of length l *)
Lemma nth_occurrence l : forall ls k, 0 <= k < cnt l ls ->
  exists sym, (sym < length ls)%nat /\ nth sym ls 0 = l /\ cnt l (firstn sym ls) = k.
Proof.
  induction ls as [|x ls IH]; intros k Hk; cbn [cnt] in Hk; [lia|].
  destruct (Z.eqb_spec x l) as [->|Hne].
  - destruct (Z.eq_dec k 0) as [->|Hk0].
    + exists 0%nat. cbn [length nth firstn cnt]. repeat split; lia.
    + destruct (IH (k - 1) ltac:(lia)) as (sym & Hs & Hn & Hc). exists (S sym). cbn [length nth firstn cnt].
      rewrite Z.eqb_refl. repeat split; try lia; assumption.
  - destruct (IH k ltac:(lia)) as (sym & Hs & Hn & Hc). exists (S sym). cbn [length nth firstn cnt].
    replace (x =? l) with false by (symmetry; apply Z.eqb_neq; assumption). repeat split; try lia; assumption.
Qed.

(* upper end of the codes of length <= l, scaled to mx bits *)
Definition bound (hist : list Z) (mx : Z) (l : nat) : Z := curr_of hist l * 2 ^ (mx - Z.of_nat l - 1).

Lemma find_level hist mx x : hist_ok hist -> forall n, (n <= Z.to_nat mx)%nat -> 0 <= x < curr_of hist n * 2 ^ (mx - Z.of_nat n) / 2 ->
  exists l, (1 <= l <= n)%nat /\ curr_of hist (l - 1) * 2 ^ (mx - Z.of_nat l) <= x < (curr_of hist (l - 1) + zn hist (Z.of_nat l)) * 2 ^ (mx - Z.of_nat l).
Proof.
  intros Hh. induction n as [|n IH]; intros Hn Hx.
  - cbn [curr_of] in Hx. rewrite Z.mul_0_l in Hx. change (0 / 2) with 0 in Hx. lia.
  - assert (Hp : 0 < 2 ^ (mx - Z.of_nat (S n))) by (apply Z.pow_pos_nonneg; lia).
    assert (Hsplit : 2 ^ (mx - Z.of_nat n) = 2 * 2 ^ (mx - Z.of_nat (S n))).
    { replace (mx - Z.of_nat n) with (1 + (mx - Z.of_nat (S n))) by lia. rewrite Z.pow_add_r by lia. reflexivity. }
    assert (Hupper : curr_of hist (S n) * 2 ^ (mx - Z.of_nat (S n)) / 2 =
                     (curr_of hist n + zn hist (Z.of_nat (S n))) * 2 ^ (mx - Z.of_nat (S n))).
    { cbn [curr_of]. rewrite <- Z.mul_assoc, Z.mul_comm, Z.div_mul by lia. reflexivity. }
    rewrite Hupper in Hx.
    assert (Hprev : curr_of hist n * 2 ^ (mx - Z.of_nat n) / 2 = curr_of hist n * 2 ^ (mx - Z.of_nat (S n))).
    { rewrite Hsplit. rewrite (Z.mul_comm 2), Z.mul_assoc, Z.div_mul by lia. reflexivity. }
    destruct (Z_lt_ge_dec x (curr_of hist n * 2 ^ (mx - Z.of_nat (S n)))) as [Hlt|Hge].
    + destruct (IH ltac:(lia) ltac:(rewrite Hprev; lia)) as (l & Hl & Hr). exists l. split; [lia | exact Hr].
    + exists (S n). split; [lia|]. replace (S n - 1)%nat with n by lia. lia.
Qed.

Lemma exists_code hist mx tb s : code_ctx hist mx tb -> curr_of hist (Z.to_nat mx) = 2 ^ (mx + 1) -> 0 <= s ->
  exists l c, 1 <= l <= mx /\ first hist l <= c < lim hist l /\ s mod 2 ^ l = revl l c.
Proof.
  intros Hcx Hk Hs. pose proof Hcx as [Hhist Hmx Htb Hkraft Hprefix].
  set (x := revl mx (s mod 2 ^ mx)).
  assert (Hsm : 0 <= s mod 2 ^ mx < 2 ^ mx) by (apply Z.mod_pos_bound; apply Z.pow_pos_nonneg; lia).
  assert (Hx : 0 <= x < 2 ^ mx) by (split; [apply revl_nonneg; lia | apply revl_lt; lia]).
  destruct (find_level hist mx x Hhist (Z.to_nat mx) ltac:(lia)) as (ln & Hln & Hr).
  { rewrite Hk. rewrite Z2Nat.id by lia. replace (mx - mx) with 0 by lia. change (2 ^ 0) with 1.
    rewrite Z.mul_1_r. rewrite Z.pow_add_r by lia. change (2 ^ 1) with 2. rewrite Z.div_mul by lia. exact Hx. }
  set (l := Z.of_nat ln) in *.
  assert (Hl : 1 <= l <= mx) by lia.
  assert (Hp : 0 < 2 ^ (mx - l)) by (apply Z.pow_pos_nonneg; lia).
  exists l, (Z.shiftr x (mx - l)). split; [exact Hl|].
  assert (Hfirst : first hist l = curr_of hist (ln - 1)) by (unfold first, l; rewrite Nat2Z.id; reflexivity).
  split.
  - unfold lim. rewrite Hfirst. rewrite Z.shiftr_div_pow2 by lia. split.
    + apply Z.div_le_lower_bound; lia.
    + apply Z.div_lt_upper_bound; lia.
  - apply Z.bits_inj'. intros i Hi.
    assert (Hc0 : 0 <= Z.shiftr x (mx - l)) by (apply Z.shiftr_nonneg; lia).
    rewrite revl_bits by lia. destruct (Z_lt_ge_dec i l).
    + rewrite Z.mod_pow2_bits_low by lia. replace (i <? l) with true by (symmetry; apply Z.ltb_lt; lia).
      rewrite Z.shiftr_spec by lia. unfold x. rewrite revl_bits by lia.
      replace (l - 1 - i + (mx - l) <? mx) with true by (symmetry; apply Z.ltb_lt; lia).
      rewrite Z.mod_pow2_bits_low by lia. f_equal. lia.
    + rewrite Z.mod_pow2_bits_high by lia. replace (i <? l) with false by (symmetry; apply Z.ltb_ge; lia). reflexivity.
Qed.

(* existence of the decoded symbol, for any reservoir contents *)
Theorem exists_symbol lens hist mx tb nc nodes table s :
  tctx lens hist mx tb nc nodes table -> 0 <= s ->
  exists sym, (sym < length lens)%nat /\ nth sym lens 0 <> 0 /\
              s mod 2 ^ (nth sym lens 0) = revl (nth sym lens 0) (code_of hist lens sym).
Proof.
  intros [Hcx Hzn Hlast Hk Hls Hlen Htab Hwf Hg] Hs.
  destruct (exists_code hist mx tb s Hcx Hk Hs) as (l & c & Hl & Hc & Hm).
  assert (Hcnt : 0 <= c - first hist l < cnt l lens).
  { unfold lim in Hc. rewrite (Hzn l ltac:(lia)) in Hc. replace (l =? 0) with false in Hc by (symmetry; apply Z.eqb_neq; lia). lia. }
  destruct (nth_occurrence l lens (c - first hist l) Hcnt) as (sym & Hsym & Hn & Hf).
  exists sym. split; [assumption|]. rewrite Hn. split; [lia|]. unfold code_of. rewrite Hn, Hf. rewrite Hm. f_equal. lia.
Qed.

(* uniqueness: two symbols whose code words both start the same stream are the same symbol *)
Lemma cnt_firstn_inj l : forall ls a b, (a < length ls)%nat -> (b < length ls)%nat -> nth a ls 0 = l -> nth b ls 0 = l ->
  cnt l (firstn a ls) = cnt l (firstn b ls) -> a = b.
Proof.
  assert (H : forall ls a b, (a < b)%nat -> (b < length ls)%nat -> nth a ls 0 = l -> cnt l (firstn a ls) < cnt l (firstn b ls)).
  { induction ls as [|x ls IH]; intros a b Hab Hb Ha; [cbn in Hb; lia|].
    destruct b as [|b]; [lia|]. destruct a as [|a]; cbn [firstn cnt nth length] in *.
    - subst x. rewrite Z.eqb_refl. pose proof (cnt_nonneg l (firstn b ls)). lia.
    - specialize (IH a b ltac:(lia) ltac:(lia) Ha). lia. }
  intros ls a b Ha Hb Na Nb E. destruct (Nat.lt_trichotomy a b) as [Hlt|[->|Hgt]]; [|reflexivity|].
  - pose proof (H ls a b Hlt Hb Na). lia.
  - pose proof (H ls b a Hgt Ha Nb). lia.
Qed.

Theorem unique_symbol lens hist mx tb nc nodes table s a b :
  tctx lens hist mx tb nc nodes table ->
  (a < length lens)%nat -> nth a lens 0 <> 0 -> s mod 2 ^ (nth a lens 0) = revl (nth a lens 0) (code_of hist lens a) ->
  (b < length lens)%nat -> nth b lens 0 <> 0 -> s mod 2 ^ (nth b lens 0) = revl (nth b lens 0) (code_of hist lens b) ->
  a = b.
Proof.
  intros [Hcx Hzn Hlast Hk Hls Hlen Htab Hwf Hg] Ha Hna Hsa Hb Hnb Hsb.
  pose proof Hcx as [Hhist Hmx Htb Hkraft Hprefix].
  assert (Hrange : forall sym, (sym < length lens)%nat -> nth sym lens 0 <> 0 ->
            1 <= nth sym lens 0 <= mx /\ first hist (nth sym lens 0) <= code_of hist lens sym < lim hist (nth sym lens 0) /\
            0 <= code_of hist lens sym < 2 ^ (nth sym lens 0)).
  { intros sym Hs Hn. remember (nth sym lens 0) as l eqn:El.
    assert (Hl : 1 <= l <= mx).
    { pose proof (proj1 (Forall_forall _ _) Hls l ltac:(rewrite El; apply nth_In; assumption)) as H. cbn beta in H. clear - H Hn. lia. }
    split; [exact Hl|]. unfold code_of. rewrite <- El.
    pose proof (cnt_firstn_lt l lens sym Hs (eq_sym El)) as H1. pose proof (cnt_nonneg l (firstn sym lens)) as H2.
    pose proof (Hkraft l Hl) as Hkl. unfold lim in *. rewrite (Hzn l ltac:(clear - Hl; lia)) in *.
    replace (l =? 0) with false in * by (symmetry; apply Z.eqb_neq; clear - Hl; lia).
    pose proof (curr_of_bound hist (Z.to_nat l - 1) Hhist) as H3. unfold first in *.
    clear - H1 H2 H3 Hkl. lia. }
  destruct (Hrange a Ha Hna) as (Hla & Hca & Hcar). destruct (Hrange b Hb Hnb) as (Hlb & Hcb & Hcbr).
  remember (nth a lens 0) as la eqn:Ela. remember (nth b lens 0) as lb eqn:Elb.
  remember (code_of hist lens a) as ca eqn:Eca. remember (code_of hist lens b) as cb eqn:Ecb.
  assert (H15 : mx <= 15) by (clear - Hmx; lia).
  hide Hg; hide Htab; hide Hwf.
  assert (Hsame : la = lb /\ ca = cb).
  { destruct (Z.lt_trichotomy la lb) as [Hlt|[Heq|Hgt]].
    - exfalso. pose proof (slots_clash la lb ca cb s ltac:(clear - Hla Hlt; lia) ltac:(clear - Hlb H15; lia) Hcar Hcbr Hsa Hsb) as E.
      pose proof (no_prefix hist mx tb la lb cb Hcx ltac:(clear - Hla; lia) Hlt ltac:(clear - Hlb; lia) ltac:(clear - Hcb; lia)) as H.
      clear - E H Hca. lia.
    - split; [assumption|]. rewrite <- Heq in Hsb, Hcbr. rewrite Hsa in Hsb. apply revl_inj in Hsb; auto. clear - Hla H15. lia.
    - exfalso. pose proof (slots_clash lb la cb ca s ltac:(clear - Hlb Hgt; lia) ltac:(clear - Hla H15; lia) Hcbr Hcar Hsb Hsa) as E.
      pose proof (no_prefix hist mx tb lb la ca Hcx ltac:(clear - Hlb; lia) ltac:(clear - Hgt; lia) ltac:(clear - Hla; lia) ltac:(clear - Hca; lia)) as H.
      clear - E H Hcb. lia. }
  destruct Hsame as [Hl Hc]. rewrite Eca, Ecb in Hc. unfold code_of in Hc. rewrite <- Ela, <- Elb, <- Hl in Hc.
  apply (cnt_firstn_inj la lens a b Ha Hb); [symmetry; assumption | rewrite Hl; symmetry; assumption | clear - Hc; lia].
Qed.

(* ------------------------------------------------------------------------------------------------ *)
(* results in terms of build_implicit                                                                 *)
(* ------------------------------------------------------------------------------------------------ *)
(* the canonical code word of a used symbol, as the decoder assigns it (next_codes at the time of placement) *)
Definition hist_of (lens : list Z) : list Z :=
  map (fun i => if i =? 0 then 0 else cnt i lens) (map Z.of_nat (seq 0 16)).
Definition dec_code (lens : list Z) (sym : nat) : Z := code_of (hist_of lens) lens sym.

Lemma hist_of_zn lens i : 0 <= i -> (forall l, In l lens -> l <= 15) -> zn (hist_of lens) i = if i =? 0 then 0 else cnt i lens.
Proof.
  intros Hi Hmax. unfold zn, hist_of. destruct (Z_lt_ge_dec i 16) as [Hlt|Hge].
  - rewrite map_map. rewrite (nth_indep _ 0 ((fun x => if Z.of_nat x =? 0 then 0 else cnt (Z.of_nat x) lens) 0%nat))
      by (rewrite map_length, seq_length; lia).
    rewrite (map_nth (fun x => if Z.of_nat x =? 0 then 0 else cnt (Z.of_nat x) lens)). rewrite seq_nth by lia.
    cbn [plus]. rewrite Z2Nat.id by lia. reflexivity.
  - rewrite nth_overflow by (rewrite !map_length, seq_length; lia).
    replace (i =? 0) with false by (symmetry; apply Z.eqb_neq; lia). symmetry.
    assert (H : forall ls, (forall l, In l ls -> l <= 15) -> cnt i ls = 0).
    { induction ls as [|x ls IH]; intros Hm; [reflexivity|]. cbn [cnt].
      replace (x =? i) with false by (symmetry; apply Z.eqb_neq; pose proof (Hm x (or_introl eq_refl)); lia).
      rewrite IH; [reflexivity|]. intros l Hl. apply Hm. right. assumption. }
    apply H. assumption.
Qed.

Lemma first_ext h1 h2 : (forall i, 0 <= i -> zn h1 i = zn h2 i) -> forall l, curr_of h1 l = curr_of h2 l.
Proof. intros H. induction l as [|l IH]; [reflexivity|]. cbn [curr_of]. rewrite IH, H by lia. reflexivity. Qed.

Lemma code_of_ext h1 h2 lens sym : (forall i, 0 <= i -> zn h1 i = zn h2 i) -> code_of h1 lens sym = code_of h2 lens sym.
Proof. intros H. unfold code_of, first. rewrite (first_ext h1 h2 H). reflexivity. Qed.

(* a table built from at least two used symbols *)
Lemma built_tctx lens t : lens_ok lens -> Z.of_nat (length lens) <= 5957 -> built lens t -> 2 <= nz lens ->
  exists hist mx tb nc nodes table, t = Tree nodes table (2 ^ tb - 1) /\ tctx lens hist mx tb nc nodes table /\
    forall sym, code_of hist lens sym = dec_code lens sym.
Proof.
  intros Hok Hlen Hb Hnz. destruct Hb as [sym H1 _|hist mx tb nc nodes table H2 Hcx Hzn Hlast Hk Hls Htab Hwf Hg]; [lia|].
  exists hist, mx, tb, nc, nodes, table. split; [reflexivity|]. split; [constructor; assumption|].
  intros sym. unfold dec_code. apply code_of_ext. intros i Hi. rewrite (Hzn i Hi). symmetry. apply hist_of_zn; [assumption|].
  intros l Hin. pose proof (proj1 (Forall_forall _ _) Hok l Hin) as H. cbn beta in H. lia.
Qed.

(* C01 b. : read_symbol decodes the canonical code *)
Theorem read_symbol_correct lens t s r sym :
  lens_ok lens -> Z.of_nat (length lens) <= 5957 -> 2 <= nz lens -> build_implicit lens = Ok t ->
  R s r -> (sym < length lens)%nat -> nth sym lens 0 <> 0 ->
  s mod 2 ^ (nth sym lens 0) = revl (nth sym lens 0) (dec_code lens sym) ->
  (nth sym lens 0 <= nbits r \/ data r = []) ->
  (nth sym lens 0 <= nbits r ->
     exists r', read_symbol t r = Ok (Z.of_nat sym, r') /\ R (Z.shiftr s (nth sym lens 0)) r' /\
                nbits r' = nbits r - nth sym lens 0 /\ data r' = data r) /\
  (nbits r < nth sym lens 0 -> read_symbol t r = Err EBitStreamError).
Proof.
  intros Hok Hlen Hnz Hb HR Hs Hn Hm Hbits.
  destruct (build_implicit_spec lens Hok Hlen) as [E|(t' & E & Hbuilt)]; [congruence|].
  rewrite Hb in E. injection E as <-.
  destruct (built_tctx lens t Hok Hlen Hbuilt Hnz) as (hist & mx & tb & nc & nodes & table & -> & Hctx & Hcode).
  rewrite <- Hcode in Hm.
  assert (Hl : 1 <= nth sym lens 0 <= 15).
  { pose proof (proj1 (Forall_forall _ _) Hok (nth sym lens 0) ltac:(apply nth_In; assumption)) as H. cbn beta in H. lia. }
  assert (Hv : (peek_full r mod 2 ^ 16) mod 2 ^ (nth sym lens 0) = revl (nth sym lens 0) (code_of hist lens sym)).
  { rewrite mod_pow2_mod_pow2 by lia. rewrite (peek_full_low s r (nth sym lens 0) HR) by (try lia; exact Hbits). exact Hm. }
  destruct (lookup_code lens hist mx tb nc nodes table sym r Hctx Hs Hn Hv) as [Hread _]. rewrite Hread.
  split.
  - intros Hle. destruct (consume_R s r (nth sym lens 0) HR ltac:(lia)) as (r' & Ec & HR' & Hn' & Hd').
    rewrite Ec. cbn [bind]. exists r'. auto.
  - intros Hlt. rewrite consume_short by assumption. reflexivity.
Qed.

(* C03 for the table look-up: whatever the reservoir holds, read_symbol and peek_symbol return Ok or
   BitStreamError -- no panic (table index, `(entry & 0xffff) - 1`, tree index, u8 depth), no fuel exhaustion *)
Theorem read_symbol_total lens t r :
  lens_ok lens -> Z.of_nat (length lens) <= 5957 -> build_implicit lens = Ok t ->
  0 <= buffer r -> 0 <= nbits r ->
  (exists sym r', read_symbol t r = Ok (sym, r')) \/ read_symbol t r = Err EBitStreamError.
Proof.
  intros Hok Hlen Hb HB Hnb.
  destruct (build_implicit_spec lens Hok Hlen) as [E|(t' & E & Hbuilt)]; [congruence|].
  rewrite Hb in E. injection E as <-.
  destruct Hbuilt as [sym H1 _|hist mx tb nc nodes table H2 Hcx Hzn Hlast Hk Hls Htab Hwf Hg].
  - left. cbn [read_symbol]. eauto.
  - assert (Hctx : tctx lens hist mx tb nc nodes table) by (constructor; assumption).
    set (v := peek_full r mod 2 ^ 16).
    assert (Hv0 : 0 <= v) by (apply Z.mod_pos_bound; reflexivity).
    destruct (exists_symbol lens hist mx tb nc nodes table v Hctx Hv0) as (sym & Hs & Hn & Hm).
    destruct (lookup_code lens hist mx tb nc nodes table sym r Hctx Hs Hn Hm) as [Hread _]. rewrite Hread.
    assert (Hl : 1 <= nth sym lens 0 <= 15).
    { pose proof (proj1 (Forall_forall _ _) Hok (nth sym lens 0) ltac:(apply nth_In; assumption)) as H. cbn beta in H. lia. }
    unfold consume. destruct (nbits r <? nth sym lens 0); [right; reflexivity|].
    replace ((nth sym lens 0 <? 0) || (64 <=? nth sym lens 0)) with false
      by (symmetry; apply orb_false_iff; split; [apply Z.ltb_ge | apply Z.leb_gt]; lia).
    left. cbn [bind]. eauto.
Qed.

Theorem peek_symbol_total lens t r :
  lens_ok lens -> Z.of_nat (length lens) <= 5957 -> build_implicit lens = Ok t -> 0 <= buffer r ->
  exists o, peek_symbol t r = Ok o.
Proof.
  intros Hok Hlen Hb HB.
  destruct (build_implicit_spec lens Hok Hlen) as [E|(t' & E & Hbuilt)]; [congruence|].
  rewrite Hb in E. injection E as <-.
  destruct Hbuilt as [sym H1 _|hist mx tb nc nodes table H2 Hcx Hzn Hlast Hk Hls Htab Hwf Hg].
  - cbn [peek_symbol]. eauto.
  - assert (Hctx : tctx lens hist mx tb nc nodes table) by (constructor; assumption).
    assert (Hv0 : 0 <= peek_full r mod 2 ^ 16) by (apply Z.mod_pos_bound; reflexivity).
    destruct (exists_symbol lens hist mx tb nc nodes table _ Hctx Hv0) as (sym & Hs & Hn & Hm).
    destruct (lookup_code lens hist mx tb nc nodes table sym r Hctx Hs Hn Hm) as [_ Hpeek]. rewrite Hpeek. eauto.
Qed.

(* every stream starts with exactly one code word of a built table *)
Theorem code_complete lens t s :
  lens_ok lens -> Z.of_nat (length lens) <= 5957 -> 2 <= nz lens -> build_implicit lens = Ok t -> 0 <= s ->
  exists sym, (sym < length lens)%nat /\ nth sym lens 0 <> 0 /\
              s mod 2 ^ (nth sym lens 0) = revl (nth sym lens 0) (dec_code lens sym) /\
              forall sym', (sym' < length lens)%nat -> nth sym' lens 0 <> 0 ->
                           s mod 2 ^ (nth sym' lens 0) = revl (nth sym' lens 0) (dec_code lens sym') -> sym' = sym.
Proof.
  intros Hok Hlen Hnz Hb Hs.
  destruct (build_implicit_spec lens Hok Hlen) as [E|(t' & E & Hbuilt)]; [congruence|].
  rewrite Hb in E. injection E as <-.
  destruct (built_tctx lens t Hok Hlen Hbuilt Hnz) as (hist & mx & tb & nc & nodes & table & -> & Hctx & Hcode).
  destruct (exists_symbol lens hist mx tb nc nodes table s Hctx Hs) as (sym & Hsym & Hn & Hm).
  exists sym. split; [assumption|]. split; [assumption|]. split; [rewrite <- Hcode; exact Hm|].
  intros sym' Hs' Hn' Hm'. rewrite <- Hcode in Hm'.
  apply (unique_symbol lens hist mx tb nc nodes table s sym' sym Hctx); assumption.
Qed.

(* ------------------------------------------------------------------------------------------------ *)
(* the decoder's code words are the specification's canonical code (Spec.PrefixCode)                  *)
(* ------------------------------------------------------------------------------------------------ *)
Lemma count_eq_cnt b ls : count_eq b ls = cnt b ls.
Proof. induction ls as [|x ls IH]; cbn [count_eq cnt]; [reflexivity|]. rewrite IH. reflexivity. Qed.

Lemma next_code_curr lens hist : (forall i, 0 <= i -> zn hist i = bl_count lens i) ->
  forall n, next_code lens (S n) = curr_of hist n.
Proof.
  intros H. induction n as [|n IH].
  - cbn [next_code curr_of]. unfold bl_count. cbn. reflexivity.
  - change (next_code lens (S (S n))) with (2 * (next_code lens (S n) + bl_count lens (Z.of_nat (S n)))).
    rewrite IH. cbn [curr_of]. rewrite H by lia. reflexivity.
Qed.

Lemma canonical_from_nth all : forall rest seen sym, (sym < length rest)%nat ->
  nth sym (canonical_from all seen rest) 0 =
  if nth sym rest 0 =? 0 then 0
  else next_code all (Z.to_nat (nth sym rest 0)) + count_eq (nth sym rest 0) seen + count_eq (nth sym rest 0) (firstn sym rest).
Proof.
  induction rest as [|x rest IH]; intros seen sym Hs; [cbn in Hs; lia|].
  destruct sym as [|sym]; cbn [canonical_from nth firstn count_eq].
  - destruct (x =? 0); lia.
  - rewrite IH by (cbn [length] in Hs; lia). destruct (nth sym rest 0 =? 0); [reflexivity|]. cbn [count_eq]. lia.
Qed.

Theorem dec_code_canonical lens sym : lens_ok lens -> (sym < length lens)%nat -> nth sym lens 0 <> 0 ->
  dec_code lens sym = nth sym (canonical lens) 0.
Proof.
  intros Hok Hs Hn. unfold canonical. rewrite canonical_from_nth by assumption.
  replace (nth sym lens 0 =? 0) with false by (symmetry; apply Z.eqb_neq; assumption).
  assert (Hl : 1 <= nth sym lens 0 <= 15).
  { pose proof (proj1 (Forall_forall _ _) Hok (nth sym lens 0) ltac:(apply nth_In; assumption)) as H. cbn beta in H. lia. }
  assert (E : next_code lens (Z.to_nat (nth sym lens 0)) = curr_of (hist_of lens) (Z.to_nat (nth sym lens 0) - 1)).
  { replace (Z.to_nat (nth sym lens 0)) with (S (Z.to_nat (nth sym lens 0) - 1)) at 1 by lia.
    apply next_code_curr. intros i Hi. rewrite hist_of_zn; [|assumption|].
    - unfold bl_count. change count_eq with cnt. reflexivity.
    - intros l Hin. pose proof (proj1 (Forall_forall _ _) Hok l Hin) as H. cbn beta in H. lia. }
  rewrite E. unfold dec_code, code_of, first. change count_eq with cnt. cbn [cnt]. lia.
Qed.

Lemma rev_bits_nat_aux : forall n x acc, rev_bits_nat n x acc = rev_bits_aux n x acc.
Proof. induction n as [|n IH]; intros x acc; cbn [rev_bits_nat rev_bits_aux]; [reflexivity | apply IH]. Qed.

(* the word as it appears in the LSB-first stream *)
Theorem revl_rev_bits l c : 1 <= l <= 16 -> 0 <= c -> revl l c = rev_bits l c.
Proof.
  intros Hl Hc. apply Z.bits_inj'. intros i Hi. rewrite revl_bits by lia.
  unfold rev_bits. rewrite rev_bits_nat_aux, rev_aux_bits by lia. rewrite Z2Nat.id by lia.
  destruct (i <? l); [reflexivity | symmetry; apply Z.bits_0].
Qed.

Lemma map2_nth {A B} (f : A -> B -> Z) : forall la lb n da db, (n < length la)%nat -> (n < length lb)%nat ->
  nth n (map2 f la lb) 0 = f (nth n la da) (nth n lb db).
Proof.
  induction la as [|a la IH]; intros lb n da db Ha Hb; [cbn in Ha; lia|].
  destruct lb as [|b lb]; [cbn in Hb; lia|]. destruct n as [|n]; cbn [map2 nth]; [reflexivity|].
  apply IH; cbn [length] in *; lia.
Qed.

Lemma canonical_from_length all : forall rest seen, length (canonical_from all seen rest) = length rest.
Proof. induction rest as [|x rest IH]; intros seen; cbn [canonical_from length]; [reflexivity|]. rewrite IH. reflexivity. Qed.

(* C01 b. in the vocabulary of Spec.PrefixCode: if the stream starts with the stream word of `sym`
   (Spec.stream_codes = bit-reversed canonical code), read_symbol returns `sym` and consumes its length *)
Theorem read_symbol_spec lens t s r sym :
  lens_ok lens -> Z.of_nat (length lens) <= 5957 -> 2 <= nz lens -> build_implicit lens = Ok t ->
  R s r -> (sym < length lens)%nat -> nth sym lens 0 <> 0 ->
  s mod 2 ^ (nth sym lens 0) = nth sym (stream_codes lens) 0 ->
  nth sym lens 0 <= nbits r ->
  exists r', read_symbol t r = Ok (Z.of_nat sym, r') /\ R (Z.shiftr s (nth sym lens 0)) r' /\
             nbits r' = nbits r - nth sym lens 0 /\ data r' = data r.
Proof.
  intros Hok Hlen Hnz Hb HR Hs Hn Hm Hbits.
  assert (Hl : 1 <= nth sym lens 0 <= 15).
  { pose proof (proj1 (Forall_forall _ _) Hok (nth sym lens 0) ltac:(apply nth_In; assumption)) as H. cbn beta in H. lia. }
  unfold stream_codes in Hm. rewrite (map2_nth rev_bits lens (canonical lens) sym 0 0) in Hm
    by (try assumption; unfold canonical; rewrite canonical_from_length; assumption).
  rewrite <- dec_code_canonical in Hm by assumption.
  assert (Hc0 : 0 <= dec_code lens sym).
  { unfold dec_code, code_of, first. pose proof (cnt_nonneg (nth sym lens 0) (firstn sym lens)).
    assert (Hh : hist_ok (hist_of lens)).
    { intros i Hi. rewrite hist_of_zn; [|assumption|intros l Hin; pose proof (proj1 (Forall_forall _ _) Hok l Hin) as H0; cbn beta in H0; lia].
      destruct (i =? 0); [lia|]. pose proof (cnt_nonneg i lens). pose proof (cnt_le_length i lens). lia. }
    pose proof (curr_of_bound (hist_of lens) (Z.to_nat (nth sym lens 0) - 1) Hh). lia. }
  rewrite <- revl_rev_bits in Hm by lia.
  destruct (read_symbol_correct lens t s r sym Hok Hlen Hnz Hb HR Hs Hn Hm (or_introl Hbits)) as [H _]. apply H. assumption.
Qed.

Example read_symbol_example :
  (* lengths 2,1,3,3 : canonical codes 10, 0, 110, 111; stream bits 1,1,0 then 0 then 1,0 *)
  let t := build_implicit [2; 1; 3; 3] in
  canonical [2; 1; 3; 3] = [2; 0; 6; 7] /\
  bind t (fun t => bind (fill (init [19] [])) (fun r1 =>
  bind (read_symbol t r1) (fun '(s1, r2) => bind (read_symbol t r2) (fun '(s2, r3) =>
  bind (read_symbol t r3) (fun '(s3, _) => Ok (s1, s2, s3)))))) = Ok (2, 1, 0).
Proof. vm_compute. split; reflexivity. Qed.
