(* C11 for lossless payloads: the result of LosslessDecoder::decode_frame (Model/Lossless.v, tied to the code by the c01model
   correspondence) does not depend on what the caller's buffer held before, nor on the fill_buf schedule: for any two buffers of
   the right size (and any two schedules) both runs succeed with the same pixels, or both fail.  Same proof as
   C01_top.decode_frame_schedule_independent, with the buffer varied as well. *)
From Coq Require Import ZArith NArith List Bool Lia.
From WebP Require Import Lib.Res Lib.Arr Lib.ZBits
  Model.LosslessLib Model.BitReader Model.Huffman Model.LosslessTransform Model.Lossless
  Proofs.Lossless_BitReader Proofs.C04_bits
  Proofs.C01_stream Proofs.C01_codes Proofs.C01_pixlib Proofs.C01_pixels Proofs.C01_groups Proofs.C01_gspec Proofs.C01_final Proofs.C01_top.
From WebP Require Proofs.C01T_repr Proofs.C01T_index Proofs.C01_frame.
Import ListNotations.
Open Scope Z_scope.

Lemma frame_result_not_stuck data sched W h buf : Forall byte data -> Z.of_nat (length buf) = 4 * (W * h) ->
  (exists p, decode_frame data sched W h false buf = Ok p) \/ (exists e, decode_frame data sched W h false buf = Err e).
Proof.
  intros Hb Hl.
  assert (Hl' : zlen (of_list buf) = 4 * (W * h)) by (rewrite C01T_index.zlen_of_list; exact Hl).
  destruct (decode_frame_no_panic data sched W h (of_list buf) Hb Hl') as [Hp Hf].
  unfold decode_frame.
  destruct (decode_frame_arr data sched W h false (of_list buf)) as [o|e|q|]; cbn [bind].
  - left. eexists. reflexivity.
  - right. eexists. reflexivity.
  - exfalso. exact (Hp q eq_refl).
  - exfalso. exact (Hf eq_refl).
Qed.

Theorem decode_frame_buffer_and_schedule_independent data sched1 sched2 W h buf1 buf2 :
  Forall byte data -> Z.of_nat (length buf1) = 4 * (W * h) -> Z.of_nat (length buf2) = 4 * (W * h) ->
  (forall s0, V.read_header (V.Stream [] data) = Some (W, h, s0) -> in_format W h s0) ->
  match decode_frame data sched1 W h false buf1, decode_frame data sched2 W h false buf2 with
  | Ok p1, Ok p2 => p1 = p2
  | Err _, Err _ => True
  | _, _ => False
  end.
Proof.
  intros Hb Hl1 Hl2 Hf.
  destruct (frame_result_not_stuck data sched1 W h buf1 Hb Hl1) as [(p1 & E1)|(e1 & E1)];
  destruct (frame_result_not_stuck data sched2 W h buf2 Hb Hl2) as [(p2 & E2)|(e2 & E2)]; rewrite E1, E2; try exact I.
  - pose proof (decode_frame_sound data sched1 W h buf1 p1 Hb Hl1 E1 Hf) as S1.
    pose proof (decode_frame_sound data sched2 W h buf2 p2 Hb Hl2 E2 Hf) as S2.
    rewrite S1 in S2. injection S2 as <-. reflexivity.
  - (* first accepted, second rejected: impossible *)
    pose proof (decode_frame_sound data sched1 W h buf1 p1 Hb Hl1 E1 Hf) as S1.
    destruct (strict_decode_rgba data) as [[[w' h'] px]|] eqn:Es.
    + pose proof (strict_decode_rgba_sound _ _ Es) as S0. rewrite S1 in S0. injection S0 as <- <- <-.
      rewrite (decode_frame_matches_strict data sched2 W h buf2 p1 Hb Hl2 Es Hf) in E2. discriminate.
    + (* the strict specification rejects: the first run cannot have succeeded *)
      assert (Hn : strict_decode data = None).
      { unfold strict_decode_rgba, g_decode_rgba in Es. unfold strict_decode.
        destruct (g_decode strict_entropy_coded_image strict_spatially_coded_image data) as [[[w' h'] px]|]; [discriminate | reflexivity]. }
      assert (Hl' : zlen (of_list buf1) = 4 * (W * h)) by (rewrite C01T_index.zlen_of_list; exact Hl1).
      destruct (C01_frame.decode_frame_rejects strict_entropy_coded_image strict_spatially_coded_image rel rel_init read_bits_refines
                  P3_strict P4' P5_strict data sched1 W h (of_list buf1) Hb Hl' Hn) as (e & Ee).
      unfold decode_frame in E1. rewrite Ee in E1. discriminate.
  - pose proof (decode_frame_sound data sched2 W h buf2 p2 Hb Hl2 E2 Hf) as S2.
    destruct (strict_decode_rgba data) as [[[w' h'] px]|] eqn:Es.
    + pose proof (strict_decode_rgba_sound _ _ Es) as S0. rewrite S2 in S0. injection S0 as <- <- <-.
      rewrite (decode_frame_matches_strict data sched1 W h buf1 p2 Hb Hl1 Es Hf) in E1. discriminate.
    + assert (Hn : strict_decode data = None).
      { unfold strict_decode_rgba, g_decode_rgba in Es. unfold strict_decode.
        destruct (g_decode strict_entropy_coded_image strict_spatially_coded_image data) as [[[w' h'] px]|]; [discriminate | reflexivity]. }
      assert (Hl' : zlen (of_list buf2) = 4 * (W * h)) by (rewrite C01T_index.zlen_of_list; exact Hl2).
      destruct (C01_frame.decode_frame_rejects strict_entropy_coded_image strict_spatially_coded_image rel rel_init read_bits_refines
                  P3_strict P4' P5_strict data sched2 W h (of_list buf2) Hb Hl' Hn) as (e & Ee).
      unfold decode_frame in E2. rewrite Ee in E2. discriminate.
Qed.
