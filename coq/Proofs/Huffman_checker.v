(* C14, part B1: the boolean checker Spec.PrefixCode.c14_ok decides exactly the property c14_prop.  The oracle applies
   the extracted checker to the (flag, lengths, codes) that the implementation returned, so every `ok` it prints is a
   verified statement about the implementation's actual output. *)
From Coq Require Import ZArith List Bool Lia Arith.
From WebP Require Import Spec.PrefixCode.
Import ListNotations.
Open Scope Z_scope.

Lemma forallb_zero_nth (l : list Z) :
  forallb (fun x => x =? 0) l = true <-> (forall i, nth i l 0 = 0).
Proof.
  induction l as [|x tl IH]; cbn [forallb].
  - split; [intros _ [|i]; reflexivity | reflexivity].
  - rewrite andb_true_iff, Z.eqb_eq, IH. split.
    + intros [Hx Ht] [|i]; cbn [nth]; [exact Hx | apply Ht].
    + intros H. split; [exact (H O) | intros i; exact (H (S i))].
Qed.

Lemma list_eqb_eq (a b : list Z) : list_eqb a b = true <-> a = b.
Proof.
  revert b. induction a as [|x ta IH]; intros [|y tb]; cbn [list_eqb]; try (split; [discriminate | discriminate]).
  - split; reflexivity.
  - rewrite andb_true_iff, Z.eqb_eq, IH. split; [intros [-> ->]; reflexivity | intros H; inversion H; auto].
Qed.

Lemma forallb2_nth {A B} (f : A -> B -> bool) (la : list A) (lb : list B) (da : A) (db : B) :
  forallb2 f la lb = true <->
  (length lb = length la /\ forall i, (i < length la)%nat -> f (nth i la da) (nth i lb db) = true).
Proof.
  revert lb. induction la as [|a ta IH]; intros [|b tb]; cbn [forallb2 length].
  - split; [intros _; split; [reflexivity | intros i Hi; lia] | reflexivity].
  - split; [discriminate | intros [H _]; discriminate].
  - split; [discriminate | intros [H _]; discriminate].
  - rewrite andb_true_iff, IH. split.
    + intros [Hab [Hl Ht]]. split; [lia|]. intros [|i] Hi; cbn [nth]; [exact Hab | apply Ht; lia].
    + intros [Hl H]. split; [exact (H O ltac:(lia)) | split; [lia | intros i Hi; apply (H (S i)); lia]].
Qed.

Theorem c14_ok_spec : forall freqs L flag lens codes,
  c14_ok freqs L flag lens codes = true <-> c14_prop freqs L flag lens codes.
Proof.
  intros freqs L flag lens codes. unfold c14_ok, c14_prop.
  rewrite !andb_true_iff, !Nat.eqb_eq.
  destruct (used_count freqs <? 2) eqn:Hu; [apply Z.ltb_lt in Hu | apply Z.ltb_ge in Hu].
  - rewrite !andb_true_iff, negb_true_iff, !forallb_zero_nth. split.
    + intros [[Hl Hc] [[Hf Hz] Hcz]]. repeat split; try assumption; try (intros; lia).
    + intros [Hl [Hc [H1 _]]]. destruct (H1 Hu) as [Hf [Hz Hcz]]. repeat split; assumption.
  - rewrite !andb_true_iff, Z.eqb_eq, list_eqb_eq, (forallb2_nth _ freqs lens 0 0). split.
    + intros [[Hl Hc] [[[Hf [_ Hall]] Hk] Hcodes]].
      split; [exact Hl|]. split; [exact Hc|]. split; [intros; lia|]. intros _.
      split; [exact Hf|]. split; [|split; [|split; assumption]].
      * intros i Hi Hpos. specialize (Hall i Hi). apply Z.ltb_lt in Hpos. rewrite Hpos in Hall.
        apply andb_true_iff in Hall. rewrite !Z.leb_le in Hall. exact Hall.
      * intros i Hi Hnp. specialize (Hall i Hi).
        assert (E : (0 <? nth i freqs 0) = false) by (apply Z.ltb_ge; exact Hnp).
        rewrite E in Hall. apply Z.eqb_eq. exact Hall.
    + intros [Hl [Hc [_ H2]]]. destruct (H2 Hu) as [Hf [Hused [Hunused [Hk Hcodes]]]].
      split; [split; assumption|]. split; [split; [split; [exact Hf|] | exact Hk] | exact Hcodes].
      split; [exact Hl|]. intros i Hi.
      destruct (0 <? nth i freqs 0) eqn:E.
      * apply Z.ltb_lt in E. apply andb_true_iff. rewrite !Z.leb_le. apply Hused; assumption.
      * apply Z.ltb_ge in E. apply Z.eqb_eq. apply Hunused; assumption.
Qed.

(* the direction the check uses *)
Corollary c14_ok_sound : forall freqs L flag lens codes,
  c14_ok freqs L flag lens codes = true -> c14_prop freqs L flag lens codes.
Proof. intros. apply c14_ok_spec. assumption. Qed.

(* non-vacuity: a histogram that needs the limit (Fibonacci on 8 symbols, limit 4) and an accepted / a rejected output *)
Example c14_ok_accepts :
  c14_ok [1; 1; 2; 3; 5; 8; 13; 21] 4 true [4; 4; 4; 4; 4; 4; 3; 1] [5; 13; 3; 11; 7; 15; 1; 0] = true.
Proof. vm_compute. reflexivity. Qed.
Example c14_ok_rejects_incomplete :
  c14_ok [1; 1; 2; 3; 5; 8; 13; 21] 4 true [4; 4; 4; 4; 4; 4; 4; 1] [5; 13; 3; 11; 7; 15; 1; 0] = false.
Proof. vm_compute. reflexivity. Qed.
