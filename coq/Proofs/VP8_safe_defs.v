(* C03 for the VP8 key-frame decoder, part 0: the vocabulary shared by the three halves of the proof.
     rec_ok            what the parsing half (Model.Vp8Frame.parse_frame) hands on per macroblock, for EVERY payload:
                       enum fields within their Rust types, a segment id that indexes [Segment; 4], and 384 residuals that are
                       the inverse DCT of 24 coefficient blocks bounded so that add_residue cannot overflow an i32 (res_rel);
     rhdr_ok           the header fields the reconstruction reads, within the ranges read_frame_header can produce (sizes
                       0..16383 -- width or height 0 IS accepted by read_frame_header --, 6-bit level, 3-bit sharpness, 6-bit
                       signed deltas);
     frame_result_ok   what Vp8Decoder::decode_frame returns on success: a frame whose planes have the announced sizes whenever
                       both sizes are positive (a 0 x h or w x 0 frame has empty planes);
     vp8_safe_bytes    the C03 statement for a frame decoder: on every BYTE string shorter than 2^63 it returns Ok with such a
                       frame or Err -- never a panic, never out of fuel.  (ReadImage_safe.vp8_safe asks this of every list of
                       integers and asks 1 <= width, height of every Ok result; the second demand is refuted for the faithful
                       model by a width-0 header: VP8_safe_main.vp8_safe_refuted.) *)
From Coq Require Import ZArith List Bool Lia.
From WebP Require Import Lib.Res Lib.ZBits Model.Vp8Parse Model.Vp8Recon.
From WebP Require Proofs.C15_model.
From WebP Require Import Proofs.VP8_decode_shape Proofs.VP8_recon_mb Proofs.ReadImage_lossy.
Import ListNotations.
Open Scope Z_scope.

Definition rec_ok (r : MacroBlock * list Z) : Prop :=
  rec_shape (fst r) /\ 0 <= mb_segmentid (fst r) <= 3 /\ exists rr, res_rel (snd r) rr.

Definition lf63 (x : Z) : Prop := -63 <= x <= 63.

Definition rhdr_ok (h : RHdr) : Prop :=
  0 <= rh_width h <= 16383 /\ 0 <= rh_height h <= 16383 /\
  rh_mbwidth h = (rh_width h + 15) / 16 /\ rh_mbheight h = (rh_height h + 15) / 16 /\
  0 <= rh_filter_level h <= 63 /\ 0 <= rh_sharpness_level h <= 7 /\
  length (rh_segment h) = 4%nat /\ Forall (fun s => lf63 (sg_loopfilter_level s)) (rh_segment h) /\
  lf63 (nth 0 (rh_ref_delta h) 0) /\ lf63 (nth 0 (rh_mode_delta h) 0).

Definition frame_result_ok (w h : Z) (yp up vp : list Z) : Prop :=
  0 <= w <= 16383 /\ 0 <= h <= 16383 /\ (1 <= w -> 1 <= h -> planes_ok w h yp up vp).

Definition vp8_safe_bytes (vp8 : list Z -> res (Z * Z * list Z * list Z * list Z)) : Prop :=
  forall data, Forall byte data -> C15_model.len data < 2 ^ 63 ->
  match vp8 data with
  | Ok (w, h, yp, up, vp) => frame_result_ok w h yp up vp
  | Err _ => True
  | Panic _ | OutOfFuel => False
  end.
