(* C10, second half, for the bit reader of the lossless decoder (Model/BitReaderIO.v):
   (a) fill_io_no_fault            : without a fault the I/O-level script machine is Model/BitReader.run;
   (b) bit_reader_fault_surfaces   : one failing fill_buf call, at ANY index k: if the fault-free run makes call k, the faulty run
                                     ends with Err EIoFault in the very operation that makes that call, after exactly k + 1 calls,
                                     having delivered exactly the values of the operations completed before (a prefix of the
                                     fault-free values); otherwise nothing changes.  No hypothesis on data, schedule or script.
   (c) the NUMBER of calls depends on the schedule (call_count_not_schedule_independent), the values and the outcome do not
       (run_io_schedule_independent, from Lossless_BitReader.fill_schedule_independent). *)
From Coq Require Import ZArith List Bool Lia.
From WebP Require Import Lib.Res Lib.ZBits Model.BitReader Model.BitReaderIO Proofs.Lossless_BitReader Proofs.BitReaderIO_laws.
Import ListNotations.
Open Scope Z_scope.

(* run_io in projection form *)
Lemma run_io_eq d s fa ops :
  run_io d s fa ops =
  (rev (fst (fst (run_io_from (init_io d s fa) ops []))),
   rmap (fun _ => observe (br (snd (run_io_from (init_io d s fa) ops [])))) (snd (fst (run_io_from (init_io d s fa) ops []))),
   calls (snd (run_io_from (init_io d s fa) ops []))).
Proof. unfold run_io. destruct (run_io_from (init_io d s fa) ops []) as [[vs out] r]. reflexivity. Qed.

(* delivered values only grow *)
Lemma run_io_from_acc : forall ops r acc, exists rest, fst (fst (run_io_from r ops acc)) = rest ++ acc.
Proof.
  induction ops as [|o tl IH]; intros r acc; cbn [run_io_from].
  - exists []. reflexivity.
  - destruct (step_io o r) as [[vs| e | p | ] r'].
    + destruct (IH r' (vs ++ acc)) as (rest & E). exists (rest ++ vs). rewrite E. apply app_assoc.
    + exists []. reflexivity.
    + exists []. reflexivity.
    + exists []. reflexivity.
Qed.

(* ---------- (a) no fault ---------- *)
Lemma run_io_from_free : forall ops r acc, fail_at r = None ->
  fst (fst (run_io_from r ops acc)) = fst (run_from (br r) ops acc) /\
  match snd (run_from (br r) ops acc) with
  | Ok b' => snd (fst (run_io_from r ops acc)) = Ok tt /\ br (snd (run_io_from r ops acc)) = b'
  | Err e => snd (fst (run_io_from r ops acc)) = Err e
  | Panic p => snd (fst (run_io_from r ops acc)) = Panic p
  | OutOfFuel => snd (fst (run_io_from r ops acc)) = OutOfFuel
  end.
Proof.
  induction ops as [|o tl IH]; intros r acc H; cbn [run_io_from run_from].
  - cbn [fst snd]. auto.
  - pose proof (step_io_free o r H) as Hs.
    destruct (step (br r) o) as [[vs b']| e | p | ].
    + destruct Hs as (c' & ->). apply (IH (mkio b' c' None) (vs ++ acc) eq_refl).
    + destruct (step_io o r) as [x r1]. cbn [fst] in Hs. subst x. cbn [fst snd]. auto.
    + destruct (step_io o r) as [x r1]. cbn [fst] in Hs. subst x. cbn [fst snd]. auto.
    + destruct (step_io o r) as [x r1]. cbn [fst] in Hs. subst x. cbn [fst snd]. auto.
Qed.

Theorem fill_io_no_fault : forall d s ops, fst (run_io d s None ops) = run d s ops.
Proof.
  intros d s ops. rewrite run_io_eq. cbn [fst]. unfold run.
  pose proof (run_io_from_free ops (init_io d s None) [] eq_refl) as [H1 H2]. cbn [init_io br] in H1, H2.
  destruct (run_from (init d s) ops []) as [vs' rr]. cbn [fst snd] in H1, H2. rewrite H1.
  destruct rr as [b'| e | p | ].
  - destruct H2 as [-> <-]. reflexivity.
  - rewrite H2. reflexivity.
  - rewrite H2. reflexivity.
  - rewrite H2. reflexivity.
Qed.

(* ---------- (b) one fault ---------- *)
Lemma run_io_from_fault : forall ops r acc k, fail_at r = None ->
  fail_at (snd (run_io_from r ops acc)) = None /\ calls r <= calls (snd (run_io_from r ops acc)) /\
  (k < calls r \/ calls (snd (run_io_from r ops acc)) <= k ->
     run_io_from (arm k r) ops acc = (fst (run_io_from r ops acc), arm k (snd (run_io_from r ops acc)))) /\
  (calls r <= k < calls (snd (run_io_from r ops acc)) ->
     exists (j : nat) vj rj r'',
       (j < length ops)%nat /\
       run_io_from r (firstn j ops) acc = (vj, Ok tt, rj) /\
       calls rj <= k < calls (snd (run_io_from r (firstn (S j) ops) acc)) /\
       run_io_from (arm k r) ops acc = (vj, Err EIoFault, r'') /\ calls r'' = k + 1 /\
       exists rest, fst (fst (run_io_from r ops acc)) = rest ++ vj).
Proof.
  induction ops as [|o tl IH]; intros r acc k H.
  - cbn [run_io_from fst snd]. split; [assumption|]. split; [lia|]. split; [reflexivity | lia].
  - cbn [run_io_from].
    destruct (FaultLaw_step o r k H) as (S1 & S2 & S3 & S4).
    destruct (step_io o r) as [x r1] eqn:Es. cbn [fst snd] in S1, S2, S3, S4.
    assert (Hhere : calls r <= k < calls r1 ->
              exists (j : nat) vj rj r'',
                (j < length (o :: tl))%nat /\
                run_io_from r (firstn j (o :: tl)) acc = (vj, Ok tt, rj) /\
                calls rj <= k < calls (snd (run_io_from r (firstn (S j) (o :: tl)) acc)) /\
                match step_io o (arm k r) with
                | (Ok vs, r') => run_io_from r' tl (vs ++ acc)
                | (Err e, r') => (acc, Err e, r')
                | (Panic p, r') => (acc, Panic p, r')
                | (OutOfFuel, r') => (acc, OutOfFuel, r')
                end = (vj, Err EIoFault, r'') /\ calls r'' = k + 1).
    { intros Hk. destruct (S3 Hk) as (r'' & E & C & _). exists 0%nat, acc, r, r''.
      cbn [firstn length run_io_from]. rewrite Es, E.
      split; [lia|]. split; [reflexivity|]. split; [|split; [reflexivity | exact C]].
      destruct x; cbn [snd]; lia. }
    destruct x as [vs| e | p | ].
    + destruct (IH r1 (vs ++ acc) k S1) as (I1 & I2 & I3 & I4).
      split; [exact I1|]. split; [lia|]. split.
      * intros Hk. rewrite (S4 ltac:(lia)). apply I3. lia.
      * intros Hk. destruct (Z_lt_ge_dec k (calls r1)) as [Hlt|Hge].
        -- destruct (Hhere ltac:(lia)) as (j & vj & rj & r'' & J1 & J2 & J3 & J4 & J5).
           exists j, vj, rj, r''. split; [exact J1|]. split; [exact J2|]. split; [exact J3|]. split; [exact J4|]. split; [exact J5|].
           (* j = 0 here: vj = acc *)
           destruct (S3 ltac:(lia)) as (r3 & E & _ & _). rewrite E in J4. injection J4 as <- _.
           destruct (run_io_from_acc tl r1 (vs ++ acc)) as (rest & Er). exists (rest ++ vs). rewrite Er. apply app_assoc.
        -- destruct (I4 ltac:(lia)) as (j & vj & rj & r'' & J1 & J2 & J3 & J4 & J5 & J6).
           exists (S j), vj, rj, r''. cbn [firstn length run_io_from]. rewrite Es.
           split; [lia|]. split; [exact J2|]. split; [exact J3|].
           rewrite (S4 ltac:(lia)). split; [exact J4|]. split; [exact J5 | exact J6].
    + split; [exact S1|]. split; [exact S2|]. split.
      * intros Hk. rewrite (S4 Hk). reflexivity.
      * intros Hk. destruct (Hhere Hk) as (j & vj & rj & r'' & J1 & J2 & J3 & J4 & J5).
        exists j, vj, rj, r''. split; [exact J1|]. split; [exact J2|]. split; [exact J3|]. split; [exact J4|]. split; [exact J5|].
        destruct (S3 Hk) as (r3 & E & _ & _). rewrite E in J4. injection J4 as <- _. exists []. reflexivity.
    + split; [exact S1|]. split; [exact S2|]. split.
      * intros Hk. rewrite (S4 Hk). reflexivity.
      * intros Hk. destruct (Hhere Hk) as (j & vj & rj & r'' & J1 & J2 & J3 & J4 & J5).
        exists j, vj, rj, r''. split; [exact J1|]. split; [exact J2|]. split; [exact J3|]. split; [exact J4|]. split; [exact J5|].
        destruct (S3 Hk) as (r3 & E & _ & _). rewrite E in J4. injection J4 as <- _. exists []. reflexivity.
    + split; [exact S1|]. split; [exact S2|]. split.
      * intros Hk. rewrite (S4 Hk). reflexivity.
      * intros Hk. destruct (Hhere Hk) as (j & vj & rj & r'' & J1 & J2 & J3 & J4 & J5).
        exists j, vj, rj, r''. split; [exact J1|]. split; [exact J2|]. split; [exact J3|]. split; [exact J4|]. split; [exact J5|].
        destruct (S3 Hk) as (r3 & E & _ & _). rewrite E in J4. injection J4 as <- _. exists []. reflexivity.
Qed.

(* One injected fill_buf failure at call index k, for EVERY data, schedule, script and k.
   n = number of fill_buf calls of the fault-free run.
   - 0 <= k < n: there is an operation index j such that the first j operations complete (fault-free: Ok, values vj, cj calls),
     call k is made during operation j (cj <= k < calls after j + 1 operations), and the faulty run is exactly
     (vj, Err EIoFault, k + 1): not Ok, not Panic, not BitStreamError, k + 1 calls made; vj is a prefix of the fault-free values.
   - otherwise the faulty run is the fault-free run. *)
Theorem bit_reader_fault_surfaces : forall (d s : list Z) (ops : list brop) (k : Z),
  (0 <= k < snd (run_io d s None ops) ->
     exists (j : nat) (vj : list Z) (obsj : Z * list Z * Z) (cj : Z),
       (j < length ops)%nat /\
       run_io d s None (firstn j ops) = (vj, Ok obsj, cj) /\
       cj <= k < snd (run_io d s None (firstn (S j) ops)) /\
       run_io d s (Some k) ops = (vj, Err EIoFault, k + 1) /\
       exists rest, fst (fst (run_io d s None ops)) = vj ++ rest)
  /\ (k < 0 \/ snd (run_io d s None ops) <= k -> run_io d s (Some k) ops = run_io d s None ops).
Proof.
  intros d s ops k.
  destruct (run_io_from_fault ops (init_io d s None) [] k eq_refl) as (F1 & F2 & F3 & F4).
  change (arm k (init_io d s None)) with (init_io d s (Some k)) in F3, F4.
  change (calls (init_io d s None)) with 0 in F2, F3, F4.
  rewrite (run_io_eq d s None ops). cbn [fst snd]. split.
  - intros Hk. destruct (F4 Hk) as (j & vj & rj & r'' & J1 & J2 & J3 & J4 & J5 & rest & J6).
    exists j, (rev vj), (observe (br rj)), (calls rj).
    split; [exact J1|]. split; [rewrite run_io_eq, J2; reflexivity|].
    split; [rewrite run_io_eq; cbn [snd]; exact J3|].
    split; [rewrite run_io_eq, J4; cbn [fst snd rmap bind]; rewrite J5; reflexivity|].
    exists (rev rest). rewrite J6. apply rev_app_distr.
  - intros Hk. rewrite run_io_eq. rewrite (F3 Hk). cbn [fst snd arm br calls]. reflexivity.
Qed.

(* the outcome alone *)
Corollary bit_reader_fault_outcome : forall (d s : list Z) (ops : list brop) (k : Z),
  0 <= k < snd (run_io d s None ops) ->
  exists m : nat, run_io d s (Some k) ops = (firstn m (fst (run d s ops)), Err EIoFault, k + 1).
Proof.
  intros d s ops k Hk. destruct (proj1 (bit_reader_fault_surfaces d s ops k) Hk) as (j & vj & obsj & cj & _ & _ & _ & E & rest & Hr).
  exists (length vj). rewrite E. rewrite <- fill_io_no_fault. rewrite Hr.
  rewrite firstn_app, Nat.sub_diag, firstn_all. cbn [firstn]. rewrite app_nil_r. reflexivity.
Qed.

Corollary bit_reader_fault_beyond : forall (d s : list Z) (ops : list brop) (k : Z),
  k < 0 \/ snd (run_io d s None ops) <= k -> fst (run_io d s (Some k) ops) = run d s ops.
Proof.
  intros d s ops k Hk. rewrite (proj2 (bit_reader_fault_surfaces d s ops k) Hk). apply fill_io_no_fault.
Qed.

(* ---------- (c) what depends on the schedule and what does not ---------- *)
Theorem run_io_schedule_independent : forall (d s1 s2 : list Z) (ops : list brop),
  Forall byte d -> fst (run_io d s1 None ops) = fst (run_io d s2 None ops).
Proof. intros d s1 s2 ops Hd. rewrite !fill_io_no_fault. apply fill_schedule_independent. assumption. Qed.

(* a fault at a reached call gives the I/O error under every schedule; WHICH operation it interrupts depends on the schedule,
   because the number of fill_buf calls does: one fill of 12 bytes is 1 call through a Cursor and 8 calls byte by byte *)
Example call_count_depends_on_schedule :
  run_io [1; 2; 3; 4; 5; 6; 7; 8; 9; 10; 11; 12] [] None [OFill] = ([], Ok (56, [8; 9; 10; 11; 12], 1976943448883713), 1)
  /\ run_io [1; 2; 3; 4; 5; 6; 7; 8; 9; 10; 11; 12] [1; 1; 1; 1; 1; 1; 1; 1] None [OFill] = ([], Ok (56, [8; 9; 10; 11; 12], 1976943448883713), 8).
Proof. split; vm_compute; reflexivity. Qed.

Theorem call_count_not_schedule_independent :
  ~ (forall (d s1 s2 : list Z) (ops : list brop), Forall byte d -> snd (run_io d s1 None ops) = snd (run_io d s2 None ops)).
Proof.
  intros H. specialize (H [1; 2; 3; 4; 5; 6; 7; 8; 9; 10; 11; 12] [] [1; 1; 1; 1; 1; 1; 1; 1] [OFill]).
  assert (Hb : Forall byte [1; 2; 3; 4; 5; 6; 7; 8; 9; 10; 11; 12]) by (repeat constructor; unfold byte; lia).
  specialize (H Hb). vm_compute in H. discriminate.
Qed.

(* the hypotheses of (b) are satisfiable: 12 bytes in windows of 3; the fault-free run makes 16 calls and ends with BitStreamError
   in the last read_bits, whose own refill makes call 15 (it sees the empty buffer) *)
Definition ex_data : list Z := [156; 65; 225; 7; 200; 19; 33; 90; 1; 2; 3; 4].
Definition ex_sched : list Z := [3; 3; 3; 3; 3; 3; 3; 3; 3; 3; 3; 3; 3; 3; 3; 3; 3; 3; 3; 3].
Definition ex_ops : list brop := [OReadBits 32 3; OTake 20; OFill; OReadBits 32 30; OReadBits 32 30; OReadBits 32 30].
Example fault_instance :
  run_io ex_data ex_sched None ex_ops = ([4; 796723; 36147215; 403704529], Err EBitStreamError, 16)
  /\ run_io ex_data ex_sched None (firstn 2 ex_ops) = ([4; 796723], Ok (33, [90; 1; 2; 3; 4], 1109889039), 8)
  /\ run_io ex_data ex_sched None (firstn 3 ex_ops) = ([4; 796723], Ok (57, [3; 4], 1128873134100495), 12)
  (* call 9 is made by the OFill (operation 2): two values were delivered before *)
  /\ run_io ex_data ex_sched (Some 9) ex_ops = ([4; 796723], Err EIoFault, 10)
  (* call 15 is made by the operation that ends in BitStreamError on the fault-free run: the I/O error wins *)
  /\ run_io ex_data ex_sched (Some 15) ex_ops = ([4; 796723; 36147215; 403704529], Err EIoFault, 16)
  /\ run_io ex_data ex_sched (Some 16) ex_ops = run_io ex_data ex_sched None ex_ops
  (* the same script through a Cursor makes 9 calls; call 1 belongs to the OFill as well *)
  /\ run_io ex_data [] None ex_ops = ([4; 796723; 36147215; 403704529], Err EBitStreamError, 9)
  /\ run_io ex_data [] (Some 1) ex_ops = ([4; 796723], Err EIoFault, 2).
Proof. repeat split; vm_compute; reflexivity. Qed.
