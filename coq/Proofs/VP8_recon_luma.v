(* Proofs/VP8_recon_luma.v -- (i), luma, sub-block predicted macroblocks: the loop of predict_4x4 over the 16 sub-blocks
   of the bordered workspace = Spec.VP8.recon_subs on the frame.  The relation [ws_inv k] says: the border cells of the
   workspace and the cells of the sub-blocks already done (raster index < k) hold the samples of the current reference
   plane; the four above-right cells of rows 0, 4, 8, 12 hold the above-right rule of Spec.VP8.recon_sub. *)
From Coq Require Import ZArith NArith List Bool Lia.
From WebP Require Import Lib.Res Lib.ZBits Lib.Arr Gen.Tables Spec.VP8Tables Spec.VP8 Model.Vp8Predict Model.Vp8Recon
  Proofs.VP8_predict_base Proofs.VP8_predict_sub Proofs.VP8_predict_border Proofs.VP8_predict
  Proofs.VP8_recon_base Proofs.VP8_recon_plane Proofs.VP8_recon_bytes.
Import ListNotations.
Open Scope Z_scope.
Ltac Zify.zify_post_hook ::= Z.div_mod_to_equations.

(* ------------------------------------------------------------------------------------------------------------ *)
(* small facts about Spec.VP8                                                                                   *)
(* ------------------------------------------------------------------------------------------------------------ *)
Lemma idct_length b : length (fst (idct b)) = 16%nat.
Proof.
  unfold idct.
  do 16 (destruct b as [|? b]; [reflexivity|]). destruct b; [|reflexivity].
  match goal with |- context [if ?c then _ else _] => destruct c end; reflexivity.
Qed.

Lemma pred4_length m X A B C D E F G H I J K L : length (pred4 m X A B C D E F G H I J K L) = 16%nat.
Proof.
  unfold pred4.
  repeat match goal with |- context [if ?c then _ else _] => destruct c; [reflexivity|] end. reflexivity.
Qed.

Lemma land3 k : 0 <= k -> Z.land k 3 = k mod 4.
Proof. intros H. change 3 with (Z.ones 2). rewrite Z.land_ones by lia. reflexivity. Qed.
Lemma shiftr2 k : Z.shiftr k 2 = k / 4.
Proof. rewrite Z.shiftr_div_pow2 by lia. reflexivity. Qed.

Lemma zip_add_clip_bytes l1 l2 k : byte (nth k (zip_with add_clip l1 l2) 0).
Proof.
  revert l2 k. induction l1 as [|a l1 IH]; intros [|b l2] [|k]; cbn [zip_with nth]; try exact byte_0.
  - apply clip255_byte.
  - apply IH.
Qed.

Lemma res_block_ok resdata start : 0 <= start -> start + 16 <= len resdata -> res_block resdata start = Ok (sub resdata start 16).
Proof.
  intros H0 H1. unfold res_block. rewrite ltb_false by lia. rewrite ltb_false by lia. reflexivity.
Qed.

(* ------------------------------------------------------------------------------------------------------------ *)
(* the workspace of macroblock (mx, my) against the current reference plane                                     *)
(* ------------------------------------------------------------------------------------------------------------ *)
Section LumaSub.
  Variables (mbw mx my : Z).
  Hypothesis Hmx : 0 <= mx < mbw.
  Hypothesis Hmy : 0 <= my.

  Definition cell_ok (p : plane) (ws : list Z) (c r : Z) : Prop :=
    get ws (r * 21 + c) = pget p (16 * mx + c - 1) (16 * my + r - 1).
  (* raster index of the sub-block that contains sample (i, j) of the macroblock *)
  Definition blk (i j : Z) : Z := 4 * (j / 4) + i / 4.
  (* Spec.VP8.recon_sub's above-right samples of the right column of sub-blocks *)
  Definition trv (p : plane) (i : Z) : Z :=
    if mx =? mbw - 1 then pget p (16 * mx + 15) (16 * my - 1) else pget p (16 * mx + 16 + i) (16 * my - 1).

  Definition ws_inv (k : Z) (p : plane) (ws : list Z) : Prop :=
    len ws = 357 /\ bytes ws /\
    (forall c r, 0 <= c <= 16 -> 0 <= r <= 16 -> (c = 0 \/ r = 0 \/ blk (c - 1) (r - 1) < k) -> cell_ok p ws c r) /\
    (forall sy i, 0 <= sy < 4 -> 0 <= i < 4 -> get ws (4 * sy * 21 + 17 + i) = trv p i).

  (* what create_border_luma establishes *)
  Lemma ws_inv_start p ws : luma_border p mbw mx my ws -> bytes ws -> ws_inv 0 p ws.
  Proof.
    intros (Hl & HP & HT & HTR & HR & HL) Hb. split; [exact Hl|]. split; [exact Hb|]. split.
    - intros c r Hc Hr Hd. unfold cell_ok.
      assert (Hbk : c = 0 \/ r = 0).
      { destruct Hd as [?|[?|Hk]]; [lia|lia|]. unfold blk in Hk. lia. }
      destruct (Z.eq_dec r 0) as [->|Hr0].
      + destruct (Z.eq_dec c 0) as [->|Hc0].
        * replace (0 * 21 + 0) with 0 by lia. rewrite HP. f_equal; lia.
        * replace (0 * 21 + c) with (1 + (c - 1)) by lia. rewrite HT by lia. f_equal; lia.
      + assert (c = 0) by lia. subst c. replace (r * 21 + 0) with ((1 + (r - 1)) * 21) by lia. rewrite HL by lia. f_equal; lia.
    - intros sy i Hsy Hi. unfold trv. destruct (HR i Hi) as (R4 & R8 & R12).
      assert (E : sy = 0 \/ sy = 1 \/ sy = 2 \/ sy = 3) by lia.
      destruct E as [-> | [-> | [-> | ->]]].
      + replace (4 * 0 * 21 + 17 + i) with (17 + i) by lia. apply HTR; lia.
      + replace (4 * 1 * 21 + 17 + i) with (4 * 21 + 17 + i) by lia. rewrite R4. apply HTR; lia.
      + replace (4 * 2 * 21 + 17 + i) with (8 * 21 + 17 + i) by lia. rewrite R8. apply HTR; lia.
      + replace (4 * 3 * 21 + 17 + i) with (12 * 21 + 17 + i) by lia. rewrite R12. apply HTR; lia.
  Qed.

  (* the 13 neighbours of sub-block k in the workspace are those Spec.VP8.recon_sub reads from the plane *)
  Lemma nb_eq k p ws : 0 <= k < 16 -> ws_inv k p ws ->
    let sx := k mod 4 in let sy := k / 4 in
    let x0 := sx * 4 + 1 in let y0 := sy * 4 + 1 in
    let x := 16 * mx + 4 * sx in let y := 16 * my + 4 * sy in
    let tr := fun i => if sx <? 3 then pget p (x + 4 + i) (y - 1) else trv p i in
    nbX ws x0 y0 21 = pget p (x - 1) (y - 1) /\
    (nbT ws x0 y0 21 0 = pget p x (y - 1) /\ nbT ws x0 y0 21 1 = pget p (x + 1) (y - 1) /\
     nbT ws x0 y0 21 2 = pget p (x + 2) (y - 1) /\ nbT ws x0 y0 21 3 = pget p (x + 3) (y - 1)) /\
    (nbT ws x0 y0 21 4 = tr 0 /\ nbT ws x0 y0 21 5 = tr 1 /\ nbT ws x0 y0 21 6 = tr 2 /\ nbT ws x0 y0 21 7 = tr 3) /\
    (nbL ws x0 y0 21 0 = pget p (x - 1) y /\ nbL ws x0 y0 21 1 = pget p (x - 1) (y + 1) /\
     nbL ws x0 y0 21 2 = pget p (x - 1) (y + 2) /\ nbL ws x0 y0 21 3 = pget p (x - 1) (y + 3)).
  Proof.
    intros Hk (Hl & Hb & Hc & Htr). cbv zeta.
    set (sx := k mod 4). set (sy := k / 4).
    assert (Hsx : 0 <= sx < 4) by (unfold sx; lia). assert (Hsy : 0 <= sy < 4) by (unfold sy; lia).
    assert (Ek : k = 4 * sy + sx) by (unfold sx, sy; lia).
    (* a cell of row 4 sy (the row above the sub-block) at column c <= 16, or of column 4 sx (left of it) *)
    assert (Top : forall c, 0 <= c <= 16 -> c <= 4 * sx + 8 ->
                  get ws (4 * sy * 21 + c) = pget p (16 * mx + c - 1) (16 * my + 4 * sy - 1)).
    { intros c Hc0 Hc1. apply (Hc c (4 * sy)); [lia|lia|].
      destruct (Z.eq_dec c 0); [left; assumption|]. destruct (Z.eq_dec sy 0) as [E0|E0]; [right; left; lia|].
      right; right. unfold blk. lia. }
    assert (Left : forall j, 0 <= j < 4 ->
                   get ws ((4 * sy + 1 + j) * 21 + 4 * sx) = pget p (16 * mx + 4 * sx - 1) (16 * my + (4 * sy + 1 + j) - 1)).
    { intros j Hj. apply (Hc (4 * sx) (4 * sy + 1 + j)); [lia|lia|].
      destruct (Z.eq_dec sx 0) as [E0|E0]; [left; lia|]. right; right. unfold blk. lia. }
    unfold nbX, nbT, nbL.
    split; [|split; [|split]].
    - replace ((sy * 4 + 1 - 1) * 21 + (sx * 4 + 1) - 1) with (4 * sy * 21 + 4 * sx) by lia.
      rewrite Top by lia. f_equal; lia.
    - repeat split.
      + replace ((sy * 4 + 1 - 1) * 21 + (sx * 4 + 1) + 0) with (4 * sy * 21 + (4 * sx + 1)) by lia. rewrite Top by lia. f_equal; lia.
      + replace ((sy * 4 + 1 - 1) * 21 + (sx * 4 + 1) + 1) with (4 * sy * 21 + (4 * sx + 2)) by lia. rewrite Top by lia. f_equal; lia.
      + replace ((sy * 4 + 1 - 1) * 21 + (sx * 4 + 1) + 2) with (4 * sy * 21 + (4 * sx + 3)) by lia. rewrite Top by lia. f_equal; lia.
      + replace ((sy * 4 + 1 - 1) * 21 + (sx * 4 + 1) + 3) with (4 * sy * 21 + (4 * sx + 4)) by lia. rewrite Top by lia. f_equal; lia.
    - destruct (Z.ltb_spec sx 3) as [L|L].
      + repeat split.
        * replace ((sy * 4 + 1 - 1) * 21 + (sx * 4 + 1) + 4) with (4 * sy * 21 + (4 * sx + 5)) by lia. rewrite Top by lia. f_equal; lia.
        * replace ((sy * 4 + 1 - 1) * 21 + (sx * 4 + 1) + 5) with (4 * sy * 21 + (4 * sx + 6)) by lia. rewrite Top by lia. f_equal; lia.
        * replace ((sy * 4 + 1 - 1) * 21 + (sx * 4 + 1) + 6) with (4 * sy * 21 + (4 * sx + 7)) by lia. rewrite Top by lia. f_equal; lia.
        * replace ((sy * 4 + 1 - 1) * 21 + (sx * 4 + 1) + 7) with (4 * sy * 21 + (4 * sx + 8)) by lia. rewrite Top by lia. f_equal; lia.
      + assert (sx = 3) by lia. repeat split.
        * replace ((sy * 4 + 1 - 1) * 21 + (sx * 4 + 1) + 4) with (4 * sy * 21 + 17 + 0) by lia. apply Htr; lia.
        * replace ((sy * 4 + 1 - 1) * 21 + (sx * 4 + 1) + 5) with (4 * sy * 21 + 17 + 1) by lia. apply Htr; lia.
        * replace ((sy * 4 + 1 - 1) * 21 + (sx * 4 + 1) + 6) with (4 * sy * 21 + 17 + 2) by lia. apply Htr; lia.
        * replace ((sy * 4 + 1 - 1) * 21 + (sx * 4 + 1) + 7) with (4 * sy * 21 + 17 + 3) by lia. apply Htr; lia.
    - repeat split.
      + replace ((sy * 4 + 1 + 0) * 21 + (sx * 4 + 1) - 1) with ((4 * sy + 1 + 0) * 21 + 4 * sx) by lia. rewrite Left by lia. f_equal; lia.
      + replace ((sy * 4 + 1 + 1) * 21 + (sx * 4 + 1) - 1) with ((4 * sy + 1 + 1) * 21 + 4 * sx) by lia. rewrite Left by lia. f_equal; lia.
      + replace ((sy * 4 + 1 + 2) * 21 + (sx * 4 + 1) - 1) with ((4 * sy + 1 + 2) * 21 + 4 * sx) by lia. rewrite Left by lia. f_equal; lia.
      + replace ((sy * 4 + 1 + 3) * 21 + (sx * 4 + 1) - 1) with ((4 * sy + 1 + 3) * 21 + 4 * sx) by lia. rewrite Left by lia. f_equal; lia.
  Qed.

  (* one sub-block: predict_sub then add_residue on the workspace = recon_sub on the plane *)
  Lemma sub_step k p ws m rb : 0 <= k < 16 -> ws_inv k p ws -> p_w p = 16 * mbw -> 0 <= m <= 9 ->
    length rb = 16%nat -> res_ok rb ->
    let sx := k mod 4 in let sy := k / 4 in
    exists ws1 ws2,
      predict_sub (bmode_to_rfc m) ws (sx * 4 + 1) (sy * 4 + 1) 21 = Ok ws1 /\
      add_residue ws1 rb (sy * 4 + 1) (sx * 4 + 1) 21 = Ok ws2 /\
      ws_inv (k + 1) (recon_sub mbw p mx my sx sy m rb) ws2.
  Proof.
    intros Hk Hinv Hw Hm Lrb Hrb. cbv zeta.
    pose proof (nb_eq k p ws Hk Hinv) as Hnb. cbv zeta in Hnb.
    destruct Hinv as (Hl & Hb & Hc & Htr).
    set (sx := k mod 4) in *. set (sy := k / 4) in *.
    assert (Hsx : 0 <= sx < 4) by (unfold sx; lia). assert (Hsy : 0 <= sy < 4) by (unfold sy; lia).
    assert (Ek : k = 4 * sy + sx) by (unfold sx, sy; lia).
    assert (Hf : fits4 ws (sx * 4 + 1) (sy * 4 + 1) 21) by (apply fits4_luma; assumption).
    destruct (predict_then_residue_no_panic m ws rb (sx * 4 + 1) (sy * 4 + 1) 21 Hm Hb Hf Lrb Hrb) as (ws1 & ws2 & E1 & E2 & L2).
    exists ws1, ws2. split; [exact E1|]. split; [exact E2|].
    assert (Hb1 : bytes ws1) by (eapply predict_sub_bytes; eassumption).
    assert (L1 : len ws1 = len ws).
    { destruct (predict_sub_no_panic m ws (sx * 4 + 1) (sy * 4 + 1) 21 Hm Hb Hf) as (a' & E' & L'). rewrite E1 in E'. injection E' as <-. exact L'. }
    assert (Hf1 : fits4 ws1 (sx * 4 + 1) (sy * 4 + 1) 21) by (unfold fits4 in *; rewrite L1; exact Hf).
    assert (Hb2 : bytes ws2) by (eapply add_residue_bytes; eassumption).
    (* the reference prediction = the workspace prediction *)
    set (x := 16 * mx + 4 * sx) in *. set (y := 16 * my + 4 * sy) in *.
    set (tr := fun i => if sx <? 3 then pget p (x + 4 + i) (y - 1) else trv p i) in *.
    set (pred := pred4 m (pget p (x - 1) (y - 1)) (pget p x (y - 1)) (pget p (x + 1) (y - 1)) (pget p (x + 2) (y - 1))
                       (pget p (x + 3) (y - 1)) (tr 0) (tr 1) (tr 2) (tr 3)
                       (pget p (x - 1) y) (pget p (x - 1) (y + 1)) (pget p (x - 1) (y + 2)) (pget p (x - 1) (y + 3))).
    assert (Epred : pred4_ws m ws (sx * 4 + 1) (sy * 4 + 1) 21 = pred).
    { destruct Hnb as (EX & (ET0 & ET1 & ET2 & ET3) & (ET4 & ET5 & ET6 & ET7) & (EL0 & EL1 & EL2 & EL3)).
      unfold pred4_ws, pred. rewrite EX, ET0, ET1, ET2, ET3, ET4, ET5, ET6, ET7, EL0, EL1, EL2, EL3. reflexivity. }
    assert (Erec : recon_sub mbw p mx my sx sy m rb = store4x4 p x y pred rb).
    { unfold recon_sub. fold x. fold y. unfold pred, tr, trv. reflexivity. }
    rewrite Erec.
    assert (Lpred : length pred = 16%nat) by apply pred4_length.
    assert (Hx : 0 <= x /\ x + 4 <= p_w p) by (unfold x; lia).
    assert (Hy : 0 <= y) by (unfold y; lia).
    (* cells of the workspace afterwards *)
    assert (In2 : forall r c, 0 <= r < 4 -> 0 <= c < 4 ->
              get ws2 ((sy * 4 + 1 + r) * 21 + (sx * 4 + 1) + c) =
              clip255 (nth (Z.to_nat (4 * r + c)) pred 0 + nth (Z.to_nat (4 * r + c)) rb 0)).
    { intros r c Hr Hcc. rewrite <- Epred. eapply predict_then_residue; eassumption. }
    assert (Out2 : forall j, 0 <= j -> (forall r c, 0 <= r < 4 -> 0 <= c < 4 -> j <> (sy * 4 + 1 + r) * 21 + (sx * 4 + 1) + c) ->
              get ws2 j = get ws j).
    { intros j Hj Hne.
      rewrite (proj1 (add_residue_untouched ws1 ws2 rb (sx * 4 + 1) (sy * 4 + 1) 21 j Hb1 Hf1 Lrb Hrb E2 Hj Hne)).
      eapply predict_sub_untouched; eassumption. }
    split; [lia|]. split; [exact Hb2|]. split.
    - intros c r Hcr Hrange Hd. unfold cell_ok.
      destruct (Z.eq_dec c 0) as [Hc0|Hc0]; [|destruct (Z.eq_dec r 0) as [Hr0|Hr0]; [|destruct (Z.eq_dec (blk (c - 1) (r - 1)) k) as [Hbk|Hbk]]].
      + (* left border column *)
        rewrite Out2 by (try intros; lia). rewrite store4x4_out by (try assumption; lia).
        apply Hc; [lia|lia|left; assumption].
      + rewrite Out2 by (try intros; lia). rewrite store4x4_out by (try assumption; lia).
        apply Hc; [lia|lia|right; left; assumption].
      + (* a cell of sub-block k *)
        unfold blk in Hbk.
        set (cc := c - 1 - 4 * sx). set (rr := r - 1 - 4 * sy).
        assert (Hcc : 0 <= cc < 4) by (unfold cc; lia). assert (Hrr : 0 <= rr < 4) by (unfold rr; lia).
        replace (r * 21 + c) with ((sy * 4 + 1 + rr) * 21 + (sx * 4 + 1) + cc) by (unfold cc, rr; lia).
        rewrite In2 by assumption.
        replace (16 * mx + c - 1) with (x + cc) by (unfold x, cc; lia).
        replace (16 * my + r - 1) with (y + rr) by (unfold y, rr; lia).
        rewrite store4x4_in by (try assumption; lia). reflexivity.
      + (* a cell of an earlier sub-block *)
        assert (Hlt : blk (c - 1) (r - 1) < k) by (destruct Hd as [?|[?|?]]; lia).
        unfold blk in Hbk, Hlt.
        rewrite Out2 by (try intros; lia).
        rewrite store4x4_out by (try assumption; unfold x, y; lia).
        apply Hc; [lia|lia|right; right; exact Hlt].
    - intros sy' i Hsy' Hi.
      rewrite Out2 by (try intros; lia).
      rewrite Htr by assumption. unfold trv.
      destruct (Z.eqb_spec mx (mbw - 1)) as [Elast|Elast]; rewrite store4x4_out by (try assumption; unfold x, y; lia); reflexivity.
  Qed.

  Lemma recon_sub_pw p sx sy m rb : p_w (recon_sub mbw p mx my sx sy m rb) = p_w p.
  Proof. unfold recon_sub. apply store4x4_pw. Qed.
  Lemma recon_sub_alen p sx sy m rb : alen (p_a (recon_sub mbw p mx my sx sy m rb)) = alen (p_a p).
  Proof. unfold recon_sub. apply store4x4_alen. Qed.
  Lemma recon_sub_pbytes p sx sy m rb : pbytes p -> pbytes (recon_sub mbw p mx my sx sy m rb).
  Proof. unfold recon_sub. apply pbytes_store4x4. Qed.

  (* outside the macroblock nothing changes *)
  Lemma recon_sub_out p sx sy m rb x' y' : p_w p = 16 * mbw -> 0 <= sx < 4 -> 0 <= sy < 4 -> length rb = 16%nat ->
    x' < p_w p -> ~ (16 * mx <= x' < 16 * mx + 16 /\ 16 * my <= y' < 16 * my + 16) ->
    pget (recon_sub mbw p mx my sx sy m rb) x' y' = pget p x' y'.
  Proof.
    intros Hw Hsx Hsy Lrb Hx' Hout. unfold recon_sub.
    apply store4x4_out; try assumption; try lia. apply pred4_length.
  Qed.

  (* the loop: sub-blocks k .. 15 *)
  Lemma predict_4x4_loop modes resdata : len modes = 16 -> len resdata >= 256 ->
    forall n k ws p ms bs ok,
    Z.of_nat n + k = 16 -> 0 <= k -> length ms = n -> length bs = n ->
    (forall t, (t < n)%nat -> get modes (k + Z.of_nat t) = bmode_to_rfc (nth t ms 0) /\ 0 <= nth t ms 0 <= 9) ->
    (forall t, (t < n)%nat -> sub resdata ((k + Z.of_nat t) * 16) 16 = fst (idct (nth t bs []))) ->
    (forall t, (t < n)%nat -> res_ok (fst (idct (nth t bs [])))) ->
    ws_inv k p ws -> p_w p = 16 * mbw ->
    exists ws', predict_4x4_from n k ws 21 modes resdata = Ok ws' /\
                ws_inv 16 (fst (recon_subs mbw p mx my ms bs k ok)) ws'.
  Proof.
    intros Lm Lr. induction n as [|n IH]; intros k ws p ms bs ok Hn Hk Lms Lbs Hmodes Hres Hok Hinv Hw.
    - destruct ms; [|discriminate]. cbn [predict_4x4_from recon_subs fst]. exists ws. split; [reflexivity|].
      replace 16 with k by lia. exact Hinv.
    - destruct ms as [|m ms]; [discriminate|]. destruct bs as [|b bs]; [discriminate|].
      cbn [predict_4x4_from recon_subs].
      destruct (Hmodes 0%nat ltac:(lia)) as [Em Hm]. cbn [nth] in Em, Hm. replace (k + Z.of_nat 0) with k in Em by lia.
      pose proof (Hres 0%nat ltac:(lia)) as Er. cbn [nth] in Er. replace (k + Z.of_nat 0) with k in Er by lia.
      pose proof (Hok 0%nat ltac:(lia)) as Hrk. cbn [nth] in Hrk.
      rewrite rd_ok by lia. cbn [bind]. rewrite Em.
      destruct (sub_step k p ws m (fst (idct b)) ltac:(lia) Hinv Hw Hm (idct_length b) Hrk) as (ws1 & ws2 & E1 & E2 & Hinv2).
      cbv zeta in E1, E2, Hinv2.
      rewrite E1. cbn [bind]. rewrite res_block_ok by lia. cbn [bind]. rewrite Er. rewrite E2. cbn [bind].
      destruct (idct b) as [res okb] eqn:Eidct. cbn [fst] in *.
      rewrite land3 by lia. rewrite shiftr2.
      apply (IH (k + 1) ws2 (recon_sub mbw p mx my (k mod 4) (k / 4) m res) ms bs (ok && okb)).
      + lia.
      + lia.
      + cbn [length] in Lms. lia.
      + cbn [length] in Lbs. lia.
      + intros t Ht. specialize (Hmodes (S t) ltac:(lia)). cbn [nth] in Hmodes.
        replace (k + 1 + Z.of_nat t) with (k + Z.of_nat (S t)) by lia. exact Hmodes.
      + intros t Ht. specialize (Hres (S t) ltac:(lia)). cbn [nth] in Hres.
        replace (k + 1 + Z.of_nat t) with (k + Z.of_nat (S t)) by lia. exact Hres.
      + intros t Ht. specialize (Hok (S t) ltac:(lia)). cbn [nth] in Hok. exact Hok.
      + exact Hinv2.
      + rewrite recon_sub_pw. exact Hw.
  Qed.

  (* what the loop leaves outside the macroblock, and its size / byte invariants *)
  Lemma recon_subs_frame : forall ms bs k p ok,
    p_w p = 16 * mbw -> 0 <= k -> k + Z.of_nat (length ms) <= 16 ->
    let p' := fst (recon_subs mbw p mx my ms bs k ok) in
    p_w p' = p_w p /\ alen (p_a p') = alen (p_a p) /\ (pbytes p -> pbytes p') /\
    forall x' y', x' < p_w p -> ~ (16 * mx <= x' < 16 * mx + 16 /\ 16 * my <= y' < 16 * my + 16) -> pget p' x' y' = pget p x' y'.
  Proof.
    induction ms as [|m ms IH]; intros bs k p ok Hw Hk Hlen; cbv zeta.
    - cbn [recon_subs fst]. split; [reflexivity|]. split; [reflexivity|]. split; [auto|]. intros; reflexivity.
    - destruct bs as [|b bs]; [cbn [recon_subs fst]; split; [reflexivity|]; split; [reflexivity|]; split; [auto|]; intros; reflexivity|].
      cbn [recon_subs]. destruct (idct b) as [res okb] eqn:Eidct.
      assert (Lres : length res = 16%nat) by (pose proof (idct_length b) as L; rewrite Eidct in L; exact L).
      rewrite land3 by lia. rewrite shiftr2. cbn [length] in Hlen.
      destruct (IH bs (k + 1) (recon_sub mbw p mx my (k mod 4) (k / 4) m res) (ok && okb)) as (W & A & B & O).
      { rewrite recon_sub_pw. exact Hw. } { lia. } { lia. }
      cbv zeta in W, A, B, O. rewrite recon_sub_pw in W. rewrite recon_sub_alen in A.
      split; [exact W|]. split; [exact A|]. split; [intros Hp; apply B; apply recon_sub_pbytes; exact Hp|].
      intros x' y' Hx' Hout. rewrite O by (rewrite ?recon_sub_pw; assumption).
      apply recon_sub_out; try assumption; lia.
  Qed.
End LumaSub.
