(* C04 layer 3 (part): BitWriter.  Writing the sequence (bits_1, n_1), (bits_2, n_2), ... and flushing produces the
   little-endian byte string of the number  sum_k bits_k * 2^(n_1 + ... + n_(k-1)),  i.e. the LSB-first packing of the
   fields, zero-padded to a whole number of bytes; no panic, no error on a sink that does not fail. *)
From Coq Require Import ZArith List Bool Lia.
From WebP Require Import Lib.Res Lib.ZBits Gen.Kernels Model.EncoderHeap Model.Encoder Proofs.Huffman_lists.
Import ListNotations.
Open Scope Z_scope.
Open Scope res_scope.

(* value of a byte string read as a little-endian number *)
Fixpoint le_val (bs : list Z) : Z := match bs with [] => 0 | b :: t => b + 256 * le_val t end.

(* LSB-first packing of a list of (bits, n) fields: (value, total number of bits) *)
Definition pack_step (st : Z * Z) (w : Z * Z) : Z * Z := (fst st + fst w * 2 ^ snd st, snd st + snd w).
Definition pack (ws : list (Z * Z)) : Z * Z := fold_left pack_step ws (0, 0).

Fixpoint write_all_bits (ws : list (Z * Z)) : M bitwriter unit :=
  match ws with
  | [] => ret tt
  | (b, n) :: tl => write_bits b n ;; write_all_bits tl
  end.

Definition field_ok (w : Z * Z) : Prop := 0 <= snd w <= 64 /\ 0 <= fst w < 2 ^ snd w.

(* ---- little-endian facts ---- *)
Lemma le_val_app a b : le_val (a ++ b) = le_val a + 2 ^ (8 * zlen a) * le_val b.
Proof.
  induction a as [|x t IH]; cbn [app le_val].
  - change (zlen (@nil Z)) with 0. change (2 ^ (8 * 0)) with 1. lia.
  - rewrite IH, zlen_cons. pose proof (zlen_nonneg t). replace (8 * (zlen t + 1)) with (8 * zlen t + 8) by lia.
    rewrite Z.pow_add_r by lia. change (2 ^ 8) with 256. lia.
Qed.

Lemma le_bytes_length n x : length (le_bytes n x) = n.
Proof. revert x. induction n as [|n IH]; intros x; cbn [le_bytes length]; [reflexivity | rewrite IH; reflexivity]. Qed.

Lemma le_val_le_bytes n x : 0 <= x -> le_val (le_bytes n x) = x mod 2 ^ (8 * Z.of_nat n).
Proof.
  revert x. induction n as [|n IH]; intros x Hx; cbn [le_bytes le_val].
  - change (2 ^ (8 * Z.of_nat 0)) with 1. rewrite Z.mod_1_r. reflexivity.
  - rewrite IH by (apply Z.div_pos; lia).
    replace (8 * Z.of_nat (S n)) with (8 + 8 * Z.of_nat n) by lia. rewrite Z.pow_add_r by lia. change (2 ^ 8) with 256.
    pose proof (pow2_pos (8 * Z.of_nat n) ltac:(lia)) as Hp.
    rewrite (Z.rem_mul_r x 256 (2 ^ (8 * Z.of_nat n))) by lia. lia.
Qed.

Lemma le_bytes_firstn : forall n k x, (k <= n)%nat -> firstn k (le_bytes n x) = le_bytes k x.
Proof.
  induction n as [|n IH]; intros [|k] x Hk; cbn [le_bytes firstn]; try reflexivity; try lia.
  rewrite IH by lia. reflexivity.
Qed.

Definition byte_list (l : list Z) : Prop := Forall (fun b => 0 <= b < 256) l.

Lemma le_bytes_bytes n x : byte_list (le_bytes n x).
Proof.
  revert x. induction n as [|n IH]; intros x; cbn [le_bytes]; constructor; [|apply IH].
  apply Z.mod_pos_bound. lia.
Qed.

Lemma le_val_range l : byte_list l -> 0 <= le_val l < 2 ^ (8 * zlen l).
Proof.
  induction 1 as [|b t Hb _ IH]; cbn [le_val]; [change (zlen (@nil Z)) with 0; change (2 ^ (8 * 0)) with 1; lia|].
  rewrite zlen_cons. pose proof (zlen_nonneg t). replace (8 * (zlen t + 1)) with (8 + 8 * zlen t) by lia.
  rewrite Z.pow_add_r by lia. change (2 ^ 8) with 256. lia.
Qed.

(* a byte string is determined by its length and its value *)
Lemma le_val_inj : forall l, byte_list l -> l = le_bytes (length l) (le_val l).
Proof.
  induction 1 as [|b t Hb Ht IH]; cbn [length le_bytes le_val]; [reflexivity|].
  replace ((b + 256 * le_val t) mod 256) with b by lia.
  replace ((b + 256 * le_val t) / 256) with (le_val t) by lia.
  rewrite <- IH. reflexivity.
Qed.

(* ---- the invariant ---- *)
Record binv (w : bitwriter) (acc tot : Z) : Prop := {
  bi_fault : s_fault (bw_sink w) = -1;
  bi_calls : 0 <= s_calls (bw_sink w);
  bi_nbits : 0 <= bw_nbits w < 64;
  bi_buffer : 0 <= bw_buffer w < 2 ^ bw_nbits w;
  bi_bytes : byte_list (sink_bytes (bw_sink w));
  bi_tot : tot = 8 * zlen (sink_bytes (bw_sink w)) + bw_nbits w;
  bi_acc : acc = le_val (sink_bytes (bw_sink w)) + 2 ^ (8 * zlen (sink_bytes (bw_sink w))) * bw_buffer w
}.

Lemma sink_write_ok s bytes : s_fault s = -1 -> 0 <= s_calls s -> bytes <> [] ->
  exists s', sink_write_all bytes s = (s', Ok tt) /\ s_fault s' = -1 /\ 0 <= s_calls s'
             /\ sink_bytes s' = sink_bytes s ++ bytes.
Proof.
  intros Hf Hc Hne. unfold sink_write_all. destruct bytes as [|b t]; [contradiction|].
  replace (s_calls s =? s_fault s) with false by (symmetry; apply Z.eqb_neq; lia).
  eexists. split; [reflexivity|]. cbn [s_fault s_calls s_out]. split; [exact Hf|]. split; [lia|].
  unfold sink_bytes. cbn [s_out rev]. rewrite concat_app. cbn [concat]. rewrite app_nil_r. reflexivity.
Qed.

Lemma shl_mod64 bits k : 0 <= k < 64 -> (bits * 2 ^ k) mod two64 = (bits mod 2 ^ (64 - k)) * 2 ^ k.
Proof.
  intros Hk. unfold two64. change 18446744073709551616 with (2 ^ 64).
  replace (2 ^ 64) with (2 ^ (64 - k) * 2 ^ k) by (rewrite <- Z.pow_add_r by lia; f_equal; lia).
  rewrite Z.mul_mod_distr_r; [reflexivity | apply Z.pow_nonzero; lia | apply Z.pow_nonzero; lia].
Qed.

Lemma write_bits_ok w acc tot bits n : binv w acc tot -> field_ok (bits, n) ->
  exists w', write_bits bits n w = (w', Ok tt) /\ binv w' (acc + bits * 2 ^ tot) (tot + n).
Proof.
  intros [Hf Hc Hnb Hbuf Hby Htot Hacc] [Hn Hb]. cbn [fst snd] in Hn, Hb.
  unfold write_bits. replace (64 <? n) with false by (symmetry; apply Z.ltb_ge; lia).
  replace (64 <=? bw_nbits w) with false by (symmetry; apply Z.leb_gt; lia).
  set (k := bw_nbits w) in *. set (buf := bw_buffer w) in *. set (out := sink_bytes (bw_sink w)) in *.
  pose proof (zlen_nonneg out) as Hl0.
  pose proof (pow2_pos k ltac:(lia)) as Hpk. pose proof (pow2_pos (64 - k) ltac:(lia)) as Hp64k.
  rewrite (shl_mod64 bits k) by lia.
  rewrite (lor_low_high buf (bits mod 2 ^ (64 - k)) k) by lia.
  set (lo := bits mod 2 ^ (64 - k)). set (hi := bits / 2 ^ (64 - k)).
  assert (Hbits : bits = hi * 2 ^ (64 - k) + lo) by (unfold hi, lo; pose proof (Z.div_mod bits (2 ^ (64 - k)) ltac:(lia)); lia).
  assert (Hlo : 0 <= lo < 2 ^ (64 - k)) by (apply Z.mod_pos_bound; lia).
  assert (Hhi : 0 <= hi) by (apply Z.div_pos; lia).
  replace (u8_max <? k + n) with false by (symmetry; apply Z.ltb_ge; unfold u8_max; lia).
  assert (E64 : 2 ^ 64 = 2 ^ (64 - k) * 2 ^ k) by (rewrite <- Z.pow_add_r by lia; f_equal; lia).
  assert (Hbuf' : 0 <= buf + lo * 2 ^ k < 2 ^ 64) by (rewrite E64; nia).
  destruct (64 <=? k + n) eqn:E; [apply Z.leb_le in E | apply Z.leb_gt in E].
  - (* the buffer fills up: eight bytes go out *)
    destruct (sink_write_ok (bw_sink w) (le_bytes 8 (buf + lo * 2 ^ k)) Hf Hc) as [s' [Ew [Hf' [Hc' Hsb]]]].
    { cbn [le_bytes]. discriminate. }
    rewrite Ew. replace (n <? k + n - 64) with false by (symmetry; apply Z.ltb_ge; lia).
    replace (k + n - 64 <? 64) with true by (symmetry; apply Z.ltb_lt; lia).
    eexists. split; [reflexivity|]. fold out in Hsb.
    assert (Ehi : (if n - (k + n - 64) <? 64 then Z.shiftr bits (n - (k + n - 64)) else 0) = hi).
    { replace (n - (k + n - 64)) with (64 - k) by lia. destruct (64 - k <? 64) eqn:E2.
      - rewrite Z.shiftr_div_pow2 by lia. reflexivity.
      - apply Z.ltb_ge in E2. assert (k = 0) by lia. unfold hi. symmetry. apply Z.div_small.
        replace (64 - k) with 64 by lia. assert (2 ^ n <= 2 ^ 64) by (apply Z.pow_le_mono_r; lia). lia. }
    rewrite Ehi.
    assert (Hhib : hi < 2 ^ (k + n - 64)).
    { unfold hi. apply Z.div_lt_upper_bound; [lia|]. rewrite <- Z.pow_add_r by lia. replace (64 - k + (k + n - 64)) with n by lia. lia. }
    constructor; cbn [bw_sink bw_buffer bw_nbits].
    + exact Hf'. + exact Hc'. + lia. + lia.
    + rewrite Hsb. apply Forall_app. split; [exact Hby | apply le_bytes_bytes].
    + rewrite Hsb, zlen_app. unfold zlen at 2. rewrite le_bytes_length. change (Z.of_nat 8) with 8. lia.
    + rewrite Hsb, zlen_app, le_val_app. unfold zlen at 3. rewrite le_bytes_length. change (Z.of_nat 8) with 8.
      rewrite le_val_le_bytes by lia. change (8 * Z.of_nat 8) with 64. rewrite Z.mod_small by lia.
      replace (8 * (zlen out + 8)) with (8 * zlen out + 64) by lia. rewrite Z.pow_add_r by lia.
      rewrite Hacc, Htot. rewrite Z.pow_add_r by lia. rewrite Hbits at 1. rewrite E64. ring.
  - (* the field fits *)
    eexists. split; [reflexivity|].
    assert (Hlo' : lo = bits).
    { unfold lo. apply Z.mod_small. assert (2 ^ n <= 2 ^ (64 - k)) by (apply Z.pow_le_mono_r; lia). lia. }
    constructor; cbn [bw_sink bw_buffer bw_nbits]; fold out.
    + exact Hf. + exact Hc. + lia.
    + rewrite Hlo'. rewrite Z.pow_add_r by lia. nia.
    + exact Hby.
    + lia.
    + rewrite Hlo', Hacc, Htot. rewrite Z.pow_add_r by lia. ring.
Qed.

Lemma write_all_bits_ok : forall ws w acc tot, binv w acc tot -> Forall field_ok ws ->
  exists w', write_all_bits ws w = (w', Ok tt)
             /\ binv w' (fst (fold_left pack_step ws (acc, tot))) (snd (fold_left pack_step ws (acc, tot))).
Proof.
  induction ws as [|[b n] tl IH]; intros w acc tot I HF; cbn [write_all_bits fold_left].
  - exists w. split; [reflexivity | exact I].
  - apply Forall_cons_iff in HF. destruct HF as [H1 HF].
    destruct (write_bits_ok w acc tot b n I H1) as [w1 [E1 I1]].
    unfold mbind. rewrite E1. unfold pack_step at 2 4. cbn [fst snd]. apply IH; assumption.
Qed.

Lemma flush_ok w acc tot : binv w acc tot ->
  exists w', flush w = (w', Ok tt) /\ sink_bytes (bw_sink w') = le_bytes (Z.to_nat ((tot + 7) / 8)) acc.
Proof.
  intros I. unfold flush, mbind.
  (* padding to a byte boundary *)
  assert (P : exists w1, (if bw_nbits w mod 8 =? 0 then (w, Ok tt) else write_bits 0 (8 - bw_nbits w mod 8) w) = (w1, Ok tt)
              /\ binv w1 acc (8 * ((tot + 7) / 8)) /\ bw_nbits w1 mod 8 = 0).
  { pose proof (bi_nbits _ _ _ I) as Hnb. pose proof (bi_tot _ _ _ I) as Ht.
    pose proof (Z.mod_pos_bound (bw_nbits w) 8 ltac:(lia)) as Hm.
    destruct (bw_nbits w mod 8 =? 0) eqn:E.
    - apply Z.eqb_eq in E. exists w. split; [reflexivity|]. split; [|exact E].
      replace (8 * ((tot + 7) / 8)) with tot; [exact I|]. lia.
    - apply Z.eqb_neq in E.
      destruct (write_bits_ok w acc tot 0 (8 - bw_nbits w mod 8) I) as [w1 [E1 I1]].
      { split; cbn [fst snd]; [lia | split; [lia | apply pow2_pos; lia]]. }
      exists w1. split; [exact E1|]. rewrite Z.mul_0_l, Z.add_0_r in I1.
      assert (Et : tot + (8 - bw_nbits w mod 8) = 8 * ((tot + 7) / 8)) by lia.
      rewrite Et in I1. split; [exact I1|].
      pose proof (bi_tot _ _ _ I1) as Ht1. pose proof (bi_nbits _ _ _ I1). lia. }
  destruct P as [w1 [E1 [I1 Hm8]]]. rewrite E1.
  destruct I1 as [Hf Hc Hnb Hbuf Hby Htot Hacc].
  set (out := sink_bytes (bw_sink w1)) in *. pose proof (zlen_nonneg out) as Hl0.
  assert (Hlen : (tot + 7) / 8 = zlen out + bw_nbits w1 / 8) by lia.
  destruct (0 <? bw_nbits w1) eqn:E.
  - apply Z.ltb_lt in E.
    assert (Hk : 1 <= bw_nbits w1 / 8 <= 7) by lia.
    destruct (sink_write_ok (bw_sink w1) (firstn (Z.to_nat (bw_nbits w1 / 8)) (le_bytes 8 (bw_buffer w1))) Hf Hc) as [s' [Ew [_ [_ Hsb]]]].
    { rewrite le_bytes_firstn by lia. destruct (Z.to_nat (bw_nbits w1 / 8)) eqn:Ek; [lia | cbn [le_bytes]; discriminate]. }
    rewrite Ew. eexists. split; [reflexivity|]. cbn [bw_sink]. rewrite Hsb. fold out.
    rewrite le_bytes_firstn by lia.
    (* value of the final string is acc, its length the number of bytes: conclude by le_val_inj *)
    set (fin := out ++ le_bytes (Z.to_nat (bw_nbits w1 / 8)) (bw_buffer w1)).
    assert (Hfb : byte_list fin) by (apply Forall_app; split; [exact Hby | apply le_bytes_bytes]).
    assert (Hfl : length fin = Z.to_nat ((tot + 7) / 8)).
    { unfold fin. rewrite app_length, le_bytes_length. unfold zlen in Hlen. lia. }
    assert (Hfv : le_val fin = acc).
    { unfold fin. rewrite le_val_app, le_val_le_bytes by lia. rewrite Z2Nat.id by lia.
      replace (8 * (bw_nbits w1 / 8)) with (bw_nbits w1) by lia. rewrite Z.mod_small by lia. lia. }
    rewrite (le_val_inj fin Hfb), Hfl, Hfv. reflexivity.
  - apply Z.ltb_ge in E. assert (E0 : bw_nbits w1 = 0) by lia. rewrite E0 in *.
    exists w1. split; [reflexivity|]. fold out.
    change (2 ^ 0) with 1 in Hbuf. assert (bw_buffer w1 = 0) by lia.
    rewrite (le_val_inj out Hby). f_equal; [unfold zlen in Hlen; lia | lia].
Qed.

Theorem bitwriter_packs : forall ws, Forall field_ok ws ->
  exists w', (write_all_bits ws ;; flush) (new_bitwriter (new_sink (-1))) = (w', Ok tt)
             /\ sink_bytes (bw_sink w') = le_bytes (Z.to_nat ((snd (pack ws) + 7) / 8)) (fst (pack ws)).
Proof.
  intros ws HF.
  assert (I0 : binv (new_bitwriter (new_sink (-1))) 0 0).
  { constructor; cbn; try lia; try constructor. }
  destruct (write_all_bits_ok ws _ 0 0 I0 HF) as [w1 [E1 I1]].
  destruct (flush_ok w1 _ _ I1) as [w2 [E2 Hb]].
  exists w2. unfold mbind. rewrite E1. split; [exact E2 | exact Hb].
Qed.

(* non-vacuity: 3 bits, 14 bits and 64 bits in a row; the third field straddles the 64-bit buffer *)
Example bitwriter_packs_instance :
  let ws := [(5, 3); (12345, 14); (18446744073709551615, 64)] in
  Forall field_ok ws /\
  sink_bytes (bw_sink (fst ((write_all_bits ws ;; flush) (new_bitwriter (new_sink (-1))))))
  = [205; 129; 255; 255; 255; 255; 255; 255; 255; 255; 1].
Proof.
  cbv zeta. split; [|vm_compute; reflexivity].
  repeat constructor; cbn [fst snd]; try lia; vm_compute; congruence.
Qed.
