(* C01 / C03, inverse transforms, (d'): the colour table of the colour indexing transform.
   Model.Lossless.adjust_color_map (lossless.rs: every byte from the fifth on gets the byte four places earlier added,
   wrapping) refines the specification's `undo_deltas` (section 4.4: the table is subtraction-coded pixel by pixel, per
   channel), and never panics. *)
From Coq Require Import ZArith NArith List Bool Lia.
From WebP Require Import Lib.Res Lib.Arr Lib.ZBits Gen.Kernels Model.LosslessLib Model.LosslessTransform Model.Lossless
  Proofs.Lossless_HuffmanSafe Proofs.Lossless_CopyWithin Proofs.C01T_repr Proofs.C01T_index.
From WebP Require Spec.VP8L Proofs.C04_arr.
Import ListNotations.
Open Scope Z_scope.

Ltac Zify.zify_post_hook ::= Z.div_mod_to_equations.

Lemma undo_deltas_length : forall l prev, length (V.undo_deltas prev l) = length l.
Proof. induction l as [|x t IH]; intros prev; cbn [V.undo_deltas length]; [reflexivity | rewrite IH; reflexivity]. Qed.

Lemma undo_deltas_nth : forall l prev i, (i < length l)%nat ->
  nth i (V.undo_deltas prev l) 0 =
  V.add_pixels (match i with O => prev | S k => nth k (V.undo_deltas prev l) 0 end) (nth i l 0).
Proof.
  induction l as [|x t IH]; intros prev i Hi; [cbn [length] in Hi; lia|].
  cbn [V.undo_deltas]. destruct i as [|k]; [reflexivity|]. cbn [nth]. cbn [length] in Hi.
  rewrite IH by lia. destruct k; reflexivity.
Qed.

Lemma chan_zero c : chan c 0 = 0.
Proof. unfold chan. destruct (c =? 0); [reflexivity|]. destruct (c =? 1); [reflexivity|]. destruct (c =? 2); reflexivity. Qed.

Theorem adjust_color_map_refines cm deltas n : repr cm deltas n -> zlen cm = 4 * n -> 1 <= n ->
  exists cm', adjust_color_map cm = Ok cm' /\ zlen cm' = zlen cm /\
              repr cm' (of_list (V.undo_deltas 0 (V.pixel_list deltas))) n.
Proof.
  intros Hr Hlen Hn. pose proof (repr_alen _ _ _ Hr) as Ha.
  set (L := V.pixel_list deltas). set (U := V.undo_deltas 0 L).
  assert (HL : L = map (fun j => V.pix deltas (Z.of_nat j)) (seq 0 (Z.to_nat n))).
  { unfold L. rewrite C04_arr.pixel_list_spec. do 2 f_equal. lia. }
  assert (HLlen : length L = Z.to_nat n) by (rewrite HL, map_length, seq_length; reflexivity).
  assert (HLn : forall i, 0 <= i < n -> nth (Z.to_nat i) L 0 = V.pix deltas i).
  { intros i Hi. rewrite HL, nth_map_seq by lia. f_equal. lia. }
  assert (HUlen : length U = Z.to_nat n) by (unfold U; rewrite undo_deltas_length; exact HLlen).
  set (T := fun i => nth (Z.to_nat i) U 0).
  assert (HT0 : T 0 = V.add_pixels 0 (V.pix deltas 0)).
  { unfold T, U. rewrite undo_deltas_nth by lia. change (Z.to_nat 0) with 0%nat. rewrite <- (HLn 0) by lia. reflexivity. }
  assert (HTS : forall i, 1 <= i < n -> T i = V.add_pixels (T (i - 1)) (V.pix deltas i)).
  { intros i Hi. unfold T, U. rewrite undo_deltas_nth by lia. rewrite (HLn i) by lia.
    replace (Z.to_nat i) with (S (Z.to_nat (i - 1))) by lia. reflexivity. }
  unfold adjust_color_map.
  set (P := fun (i : Z) (cur : arr) => zlen cur = zlen cm /\
              forall k, 0 <= k < 4 * n -> az cur k = if k <? i then chan (k mod 4) (T (k / 4)) else az cm k).
  destruct (for_range_inv P (fun i cm0 => bind (zget cm0 i) (fun a => bind (zget cm0 (i - 4)) (fun b => zset cm0 i (wadd8 a b))))
              4 (zlen cm) cm ltac:(lia)) as (cm' & E & Hl' & Hz').
  - split; [reflexivity|]. intros k Hk. destruct (Z.ltb_spec k 4) as [H4|H4]; [|reflexivity].
    replace (k / 4) with 0 by lia. replace (k mod 4) with k by lia. rewrite HT0, chan_add_pixels, chan_zero by lia.
    replace k with (4 * 0 + k) at 1 by lia. rewrite (repr_chan _ _ _ 0 k Hr) by lia.
    pose proof (chan_byte k (V.pix deltas 0)) as B. unfold byte in B. unfold wadd8. lia.
  - intros i cur Hi (Hl & Hz). rewrite !zget_ok by lia. cbn [bind].
    destruct (zset_ok cur i (wadd8 (az cur i) (az cur (i - 4))) ltac:(lia)) as (c1 & E1 & L1 & Z1).
    exists c1. split; [exact E1|]. split; [lia|]. intros k Hk. rewrite Z1 by lia.
    destruct (Z.eqb_spec k i) as [->|Hne].
    + replace (i <? i + 1) with true by (symmetry; apply Z.ltb_lt; lia).
      rewrite (Hz i), (Hz (i - 4)) by lia.
      replace (i <? i) with false by (symmetry; apply Z.ltb_ge; lia).
      replace (i - 4 <? i) with true by (symmetry; apply Z.ltb_lt; lia).
      replace ((i - 4) mod 4) with (i mod 4) by lia. replace ((i - 4) / 4) with (i / 4 - 1) by lia.
      rewrite (HTS (i / 4)) by lia. rewrite chan_add_pixels by lia.
      replace i with (4 * (i / 4) + i mod 4) at 1 by lia. rewrite (repr_chan _ _ _ (i / 4) (i mod 4) Hr) by lia.
      unfold wadd8. f_equal. lia.
    + rewrite (Hz k Hk). destruct (Z.ltb_spec k i); destruct (Z.ltb_spec k (i + 1)); try reflexivity; lia.
  - exists cm'. split; [exact E|]. split; [exact Hl'|].
    apply repr_intro; [lia | |].
    + unfold of_list. cbn [alen]. fold L. fold U. rewrite HUlen. lia.
    + intros i Hi. fold L. fold U. unfold V.pix. rewrite C04_arr.araw_of_list. replace (N.to_nat (Z.to_N i)) with (Z.to_nat i) by lia.
      fold (T i). split.
      * apply cell_chan. intros c Hc. rewrite Hz' by lia. replace (4 * i + c <? zlen cm) with true by (symmetry; apply Z.ltb_lt; lia).
        replace ((4 * i + c) mod 4) with c by lia. replace ((4 * i + c) / 4) with i by lia. reflexivity.
      * destruct (Z.eq_dec i 0) as [->|Hne]; [rewrite HT0 | rewrite HTS by lia]; apply add_pixels_range.
Qed.

Corollary adjust_color_map_no_panic cm deltas n : repr cm deltas n -> zlen cm = 4 * n -> 1 <= n ->
  forall p, adjust_color_map cm <> Panic p.
Proof. intros Hr Hl Hn p. destruct (adjust_color_map_refines cm deltas n Hr Hl Hn) as (cm' & E & _). rewrite E. discriminate. Qed.

Example adjust_color_map_example :
  let cm := of_list [1; 2; 3; 4; 255; 254; 253; 252; 10; 10; 10; 10] in
  let deltas := of_list [V.argb 4 1 2 3; V.argb 252 255 254 253; V.argb 10 10 10 10] in
  adjust_color_map cm = Ok (of_list [1; 2; 3; 4; 0; 0; 0; 0; 10; 10; 10; 10]) /\
  V.undo_deltas 0 (V.pixel_list deltas) = [V.argb 4 1 2 3; 0; V.argb 10 10 10 10].
Proof. vm_compute. split; reflexivity. Qed.
