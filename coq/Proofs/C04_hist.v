(* C04 layer L4 (histogram side): the counting loop of encode_frame walks the same segmentation as the emitting loop,
   never overflows a counter, and leaves a positive count at every symbol the emitting loop will write. *)
From Coq Require Import ZArith NArith List Bool Lia.
From WebP Require Import Lib.Res Lib.Arr Lib.ZBits Gen.Kernels Model.EncoderHeap Model.Encoder Spec.LZ77Prefix
  Proofs.Huffman_lists Proofs.Encoder_runs Proofs.C04_bits Proofs.C04_arr Proofs.C04_tokens.
Import ListNotations.
Open Scope Z_scope.

Definition hinv (n : N) (a : arr) (B : Z) : Prop :=
  alen a = n /\ (forall j, 0 <= araw a j) /\ asum a (N.to_nat n) <= B.
Definition mono (a a' : arr) : Prop := forall j, araw a j <= araw a' j.

Lemma hinv_weaken n a B B' : hinv n a B -> B <= B' -> hinv n a B'.
Proof. intros [H1 [H2 H3]] Hle. split; [exact H1|]. split; [exact H2 | lia]. Qed.

Lemma mono_refl a : mono a a.
Proof. intros j. lia. Qed.

Lemma mono_trans a b c : mono a b -> mono b c -> mono a c.
Proof. intros H1 H2 j. specialize (H1 j). specialize (H2 j). lia. Qed.

Lemma ainc_hinv n a B i : hinv n a B -> 0 <= i < Z.of_N n -> B + 1 <= u32_max ->
  exists a', ainc a i = Ok a' /\ hinv n a' (B + 1) /\ mono a a' /\ 0 < araw a' (Z.to_N i).
Proof.
  intros [Hl [Hnn Hs]] Hi HB.
  pose proof (asum_ge a (N.to_nat n) (Z.to_nat i) Hnn ltac:(lia)) as Hge.
  replace (N.of_nat (Z.to_nat i)) with (Z.to_N i) in Hge by lia.
  destruct (ainc_ok a i ltac:(rewrite Hl; exact Hi) ltac:(lia)) as [a' [E [Hl' Hv]]].
  exists a'. split; [exact E|]. split; [|split].
  - split; [rewrite Hl'; exact Hl|]. split.
    + intros j. rewrite Hv. specialize (Hnn j). destruct (j =? Z.to_N i)%N; lia.
    + rewrite (asum_inc a a' (Z.to_N i) Hv). destruct (Z.to_N i <? N.of_nat (N.to_nat n))%N; lia.
  - intros j. rewrite Hv. destruct (j =? Z.to_N i)%N; lia.
  - rewrite Hv, N.eqb_refl. specialize (Hnn (Z.to_N i)). lia.
Qed.

Lemma ainc_if_hinv (c : bool) n a B i : hinv n a B -> 0 <= i < Z.of_N n -> B + 1 <= u32_max ->
  exists a', (if c then ainc a i else Ok a) = Ok a' /\ hinv n a' (B + 1) /\ mono a a' /\ (c = true -> 0 < araw a' (Z.to_N i)).
Proof.
  intros H Hi HB. destruct c.
  - destruct (ainc_hinv n a B i H Hi HB) as [a' [E [H1 [H2 H3]]]]. exists a'. split; [exact E|]. split; [exact H1|]. split; [exact H2|]. intros _. exact H3.
  - exists a. split; [reflexivity|]. split; [apply (hinv_weaken _ _ _ _ H); lia|]. split; [apply mono_refl | discriminate].
Qed.

Definition run_symbol (run : Z) : Z := 256 + fst (fst (run_token run)).

Lemma count_run_update_hinv run a B : hinv 280 a B -> 0 <= run <= 4096 -> B + 1 <= u32_max ->
  exists a', count_run_update run a = Ok a' /\ hinv 280 a' (B + 1) /\ mono a a'
             /\ (0 < run -> 0 < araw a' (Z.to_N (run_symbol run))).
Proof.
  intros H Hr HB. unfold count_run_update. destruct (0 <? run) eqn:E0.
  - apply Z.ltb_lt in E0. pose proof (run_token_roundtrip run ltac:(lia)) as RT. unfold run_symbol. unfold run_token in *.
    destruct (run <=? 4) eqn:E4.
    + cbn [fst] in *. destruct RT as [Hp _]. replace (256 + run - 1) with (256 + (run - 1)) by lia.
      destruct (ainc_hinv 280 a B (256 + (run - 1)) H ltac:(lia) HB) as [a' [E [H1 [H2 H3]]]].
      exists a'. split; [exact E|]. split; [exact H1|]. split; [exact H2|]. intros _. exact H3.
    + apply Z.leb_gt in E4. destruct (length_to_symbol (wrapU 16 run)) as [symbol extra]. cbn [fst] in *.
      destruct RT as [Hp [_ [_ [_ [_ Hok]]]]]. rewrite (Hok ltac:(lia)).
      destruct (ainc_hinv 280 a B (256 + symbol) H ltac:(lia) HB) as [a' [E [H1 [H2 H3]]]].
      exists a'. split; [exact E|]. split; [exact H1|]. split; [exact H2|]. intros _. exact H3.
  - exists a. split; [reflexivity|]. split; [apply (hinv_weaken _ _ _ _ H); lia|]. split; [apply mono_refl|].
    apply Z.ltb_ge in E0. lia.
Qed.

Definition pix_bytes (p : pixel) : Prop :=
  let '(r, g, b, a) := p in 0 <= r < 256 /\ 0 <= g < 256 /\ 0 <= b < 256 /\ 0 <= a < 256.

Definition seg_hist (ct : color) (f0 f1 f2 f3 : arr) (sg : pixel * Z) : Prop :=
  let '((r, g, b, a), run) := sg in
  0 < araw f1 (Z.to_N g)
  /\ (is_color ct = true -> 0 < araw f0 (Z.to_N r) /\ 0 < araw f2 (Z.to_N b))
  /\ (is_alpha ct = true -> 0 < araw f3 (Z.to_N a))
  /\ (0 < run -> 0 < araw f1 (Z.to_N (run_symbol run)))
  /\ 0 <= run <= 4096.

Lemma count_loop_ok ct : forall fuel pxs f0 f1 f2 f3 B,
  (length pxs < fuel)%nat -> Forall pix_bytes pxs ->
  hinv 256 f0 B -> hinv 280 f1 B -> hinv 256 f2 B -> hinv 256 f3 B -> B + 2 * zlen pxs <= u32_max ->
  exists f0' f1' f2' f3',
    count_loop fuel ct pxs f0 f1 f2 f3 = Ok (f0', f1', f2', f3')
    /\ hinv 256 f0' (B + 2 * zlen pxs) /\ hinv 280 f1' (B + 2 * zlen pxs)
    /\ hinv 256 f2' (B + 2 * zlen pxs) /\ hinv 256 f3' (B + 2 * zlen pxs)
    /\ mono f0 f0' /\ mono f1 f1' /\ mono f2 f2' /\ mono f3 f3'
    /\ Forall (seg_hist ct f0' f1' f2' f3') (segments fuel pxs).
Proof.
  induction fuel as [|fuel IH]; intros pxs f0 f1 f2 f3 B Hfuel Hbytes H0 H1 H2 H3 HB; [lia|].
  destruct pxs as [|p rest0].
  - exists f0, f1, f2, f3. change (zlen (@nil pixel)) with 0. rewrite Z.mul_0_r, Z.add_0_r.
    split; [reflexivity|]. repeat split; try assumption; try apply mono_refl; try apply H0; try apply H1; try apply H2; try apply H3.
    constructor.
  - apply Forall_cons_iff in Hbytes. destruct Hbytes as [Hp Hbytes]. destruct p as [[[r g] b] a]. destruct Hp as [Hr [Hg [Hb Ha]]].
    rewrite zlen_cons in HB. pose proof (zlen_nonneg rest0) as Hz0. cbn [length] in Hfuel.
    cbn [count_loop segments].
    destruct (ainc_if_hinv (is_color ct) 256 f0 B r H0 ltac:(lia) ltac:(lia)) as [f0a [E0 [H0a [M0 P0]]]]. rewrite E0. cbn [bind].
    destruct (ainc_hinv 280 f1 B g H1 ltac:(lia) ltac:(lia)) as [f1a [E1 [H1a [M1 P1]]]]. rewrite E1. cbn [bind].
    destruct (ainc_if_hinv (is_color ct) 256 f2 B b H2 ltac:(lia) ltac:(lia)) as [f2a [E2 [H2a [M2 P2]]]]. rewrite E2. cbn [bind].
    destruct (ainc_if_hinv (is_alpha ct) 256 f3 B a H3 ltac:(lia) ltac:(lia)) as [f3a [E3 [H3a [M3 P3]]]]. rewrite E3. cbn [bind].
    destruct (take_run_spec (r, g, b, a) rest0 0 ltac:(lia)) as [m [rest' [Etr [Hrest Hm]]]]. rewrite Z.add_0_l in Etr, Hm.
    rewrite Etr.
    destruct (count_run_update_hinv (Z.of_nat m) f1a (B + 1) H1a ltac:(lia) ltac:(lia)) as [f1b [E1b [H1b [M1b P1b]]]].
    rewrite E1b. cbn [bind].
    assert (Hlr : length rest0 = (m + length rest')%nat) by (rewrite Hrest, app_length, repeat_length; reflexivity).
    assert (Hzr : zlen rest' <= zlen rest0) by (unfold zlen; lia).
    destruct (IH rest' f0a f1b f2a f3a (B + 1 + 1)) as [f0' [f1' [f2' [f3' [E [G0 [G1 [G2 [G3 [N0 [N1 [N2 [N3 HF]]]]]]]]]]]]].
    + lia.
    + rewrite Hrest in Hbytes. apply Forall_app in Hbytes. apply Hbytes.
    + apply (hinv_weaken _ _ _ _ H0a); lia.
    + exact H1b.
    + apply (hinv_weaken _ _ _ _ H2a); lia.
    + apply (hinv_weaken _ _ _ _ H3a); lia.
    + lia.
    + rewrite zlen_cons. exists f0', f1', f2', f3'. split; [exact E|].
      split; [apply (hinv_weaken _ _ _ _ G0); lia|]. split; [apply (hinv_weaken _ _ _ _ G1); lia|].
      split; [apply (hinv_weaken _ _ _ _ G2); lia|]. split; [apply (hinv_weaken _ _ _ _ G3); lia|].
      split; [eapply mono_trans; eassumption|].
      split; [eapply mono_trans; [exact M1|]; eapply mono_trans; eassumption|].
      split; [eapply mono_trans; eassumption|]. split; [eapply mono_trans; eassumption|].
      constructor; [|exact HF]. unfold seg_hist.
      split; [pose proof (M1b (Z.to_N g)); pose proof (N1 (Z.to_N g)); lia|].
      split; [intros Hc; specialize (P0 Hc); specialize (P2 Hc); pose proof (N0 (Z.to_N r)); pose proof (N2 (Z.to_N b)); lia|].
      split; [intros Hc; specialize (P3 Hc); pose proof (N3 (Z.to_N a)); lia|].
      split; [intros Hc; specialize (P1b Hc); pose proof (N1 (Z.to_N (run_symbol (Z.of_nat m)))); lia | lia].
Qed.
