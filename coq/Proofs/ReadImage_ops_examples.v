(* Glue, part 14: non-vacuity of run_ops_from_file -- the two-frame animation with an unknown chunk between its ANMF chunks
   (Proofs/ReadImage_examples.v: ex_anim_gap, stub frame decoder), a call sequence with read_image in the middle, exhaustion,
   a buffer refill and a reset. *)
From Coq Require Import ZArith List Bool Lia.
From WebP Require Import Lib.Res Lib.ZBits Spec.Container Spec.YUV.
From WebP Require Import Proofs.Container_bytes Proofs.ReadImage_lossy Proofs.ReadImage_frame Proofs.ReadImage_anim Proofs.ReadImage_ops
  Proofs.ReadImage_examples.
From WebP Require Model.Anim.
From WebP Require Import Model.ReadImage Model.ReadImageOps.
Import ListNotations.
Open Scope Z_scope.

Definition ex_ops : list Anim.mop :=
  [Anim.MFrame; Anim.MImage; Anim.MFrame; Anim.MFrame; Anim.MFill 238; Anim.MFrame; Anim.MReset; Anim.MImage; Anim.MFrame].

(* computed by the byte-level interpreter on the file bytes *)
Example run_ops_computed :
  match M.new (serialize ex_anim_gap) with
  | Ok dec =>
      run_ops stub_vp8 dec ex_ops (initial_fstate dec) (repeat 90 6)
      = [ (RoFrame (Ok 70), ex_rgb); (RoImage (Ok tt) true, ex_rgb); (RoFrame (Ok 80), ex_rgb);
          (RoFrame (Err ENoMoreFrames), ex_rgb); (RoFill, repeat 238 6); (RoFrame (Err ENoMoreFrames), repeat 238 6);
          (RoReset (Ok tt), repeat 238 6); (RoImage (Ok tt) true, ex_rgb); (RoFrame (Ok 70), ex_rgb) ]
  | _ => False
  end.
Proof. vm_compute. reflexivity. Qed.

(* the hypotheses of run_ops_from_file hold for that file: for EVERY call sequence the byte-level trace is Model.Anim's *)
Example run_ops_from_file_instance :
  let ms := [mframe_of (ex_frame 70) false ex_rgb; mframe_of (ex_frame 80) false ex_rgb] in
  exists dec, M.new (serialize ex_anim_gap) = Ok dec /\
    forall ops buf, len buf = 6 ->
      run_ops stub_vp8 dec ops (initial_fstate dec) buf = map conv (Anim.run_ops (anim_file ex_anim_gap ms) ops Anim.fresh_state buf).
Proof.
  cbv zeta.
  assert (Hpl : planes_ok 2 1 [100; 200] [90] [160]).
  { unfold planes_ok. repeat split; try lia; try reflexivity; repeat constructor; unfold byte; lia. }
  assert (Hwf : wf ex_anim_gap = true) by (vm_compute; reflexivity).
  assert (Hfd : forall dur, frame_decodes stub_vp8 2 1 (ex_frame dur) (mframe_of (ex_frame dur) false ex_rgb)).
  { intros dur. unfold frame_decodes. cbn [ex_frame f_w1 f_h1 f_x f_y f_image].
    repeat split; try lia; [vm_compute; discriminate|].
    exists [100; 200], [90], [160]. split; [reflexivity|]. split; [exact Hpl | reflexivity]. }
  destruct (run_ops_from_file stub_vp8 ex_anim_gap
              [mframe_of (ex_frame 70) false ex_rgb; mframe_of (ex_frame 80) false ex_rgb] Hwf eq_refl)
    as (_ & dec & Hnew & Hrun).
  - repeat constructor; apply Hfd.
  - vm_compute. reflexivity.
  - exists dec. split; [exact Hnew | exact Hrun].
Qed.
