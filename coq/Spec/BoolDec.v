(* Spec/BoolDec.v -- the boolean entropy decoder of RFC 6386 section 7 in its reference form.

   This is the decoder of the RFC ("bool_decoder": a [value] holding two bytes of input, a [range] in 128..255 and
   a [bit_count] of shifts since the last byte was fetched), written one bit at a time:

       split = 1 + (((range - 1) * prob) >> 8);  SPLIT = split << 8
       if value >= SPLIT then  bit = 1, range -= split, value -= SPLIT   else  bit = 0, range = split
       while range < 128:  value <<= 1; range <<= 1; if ++bit_count == 8 then bit_count = 0, value |= next_byte()

   and past the end of the data [next_byte] yields 0.  libwebp's VP8GetBit (utils/bit_reader_inl_utils.h) is the
   same computation on a wider window (range_ = range - 1, value_ >> bits_ = value >> 8, "value > split" =
   "value >= SPLIT"); VP8GetSigned(v) is a read with probability 128 used as a sign.

   Ghost fields.  [fetched], [past] and [starved] do not influence any decoded value; they only record how far the
   decoder has run so that "the data ran out" can be *stated*:
     fetched  = number of next_byte calls so far  (so the total number of shifts is  S = 8*(fetched-2) + bit_count)
     past     = how many of them were beyond the end of the data (zero bytes supplied)
     starved  = sticky; set when a read_bool *starts* (or the decoder is created) in a state where libwebp would
                have had to load a byte beyond the end, i.e. where fewer than 8 unread data bits back the window:
                S > 8*len - 8, which in terms of the fields is  past >= 2  \/  (past = 1 /\ bit_count > 0).
                This is exactly libwebp's VP8BitReader.eof_ (VP8LoadFinalBytes sets it the first time a load is
                needed with buf_ == buf_end_; loads are requested at the start of VP8GetBit when bits_ < 0, and
                bits_ = 8*loaded - 8 - S).  After eof_ libwebp's values are unspecified (it stops shifting in
                zeros) but every caller then rejects the frame, so the zero-byte convention here is unobservable.
   The crate's decoder (vp8_arithmetic_decoder.rs) tolerates one more byte: a request issued at shift count S needs
   bytes 0 .. floor((S+7)/8) ([bytes_needed]); property C15 is stated with that function. *)
From Coq Require Import ZArith List Bool.
Import ListNotations.
Open Scope Z_scope.

Record bstate := mkB {
  rest : list Z;        (* bytes not yet fetched *)
  value : Z;            (* 2-byte window, value < range * 256 *)
  range : Z;            (* 128..255 between reads *)
  bit_count : Z;        (* 0..7 shifts since the last fetch *)
  fetched : Z;          (* ghost *)
  past : Z;             (* ghost *)
  starved : bool        (* ghost, sticky *)
}.

Definition shift_count (s : bstate) : Z := 8 * (fetched s - 2) + bit_count s.
(* bytes a request issued in state s needs to be present: indices 0 .. floor((S+7)/8) *)
Definition bytes_needed (s : bstate) : Z := (shift_count s + 7) / 8 + 1.
Definition exhausted (s : bstate) : bool := (2 <=? past s) || ((past s =? 1) && (0 <? bit_count s)).

(* next_byte: the byte and the state after fetching it *)
Definition next_byte (s : bstate) : Z * bstate :=
  match rest s with
  | b :: tl => (b, mkB tl (value s) (range s) (bit_count s) (fetched s + 1) (past s) (starved s))
  | [] => (0, mkB [] (value s) (range s) (bit_count s) (fetched s + 1) (past s + 1) (starved s))
  end.

(* init_bool_decoder: value = first two bytes (big endian), range = 255, bit_count = 0 *)
Definition bd_init (data : list Z) : bstate :=
  let s0 := mkB data 0 255 0 0 0 false in
  let '(b0, s1) := next_byte s0 in
  let '(b1, s2) := next_byte s1 in
  let s3 := mkB (rest s2) (b0 * 256 + b1) 255 0 (fetched s2) (past s2) false in
  mkB (rest s3) (value s3) (range s3) (bit_count s3) (fetched s3) (past s3) (exhausted s3).

(* the renormalisation loop; at most 7 iterations because range >= 1 *)
Fixpoint normalize (fuel : nat) (s : bstate) : bstate :=
  match fuel with
  | O => s
  | S k =>
    if range s <? 128 then
      let v := Z.shiftl (value s) 1 in
      let r := Z.shiftl (range s) 1 in
      let bc := bit_count s + 1 in
      if bc =? 8 then
        let '(b, s') := next_byte s in
        normalize k (mkB (rest s') (Z.lor v b) r 0 (fetched s') (past s') (starved s'))
      else
        normalize k (mkB (rest s) v r bc (fetched s) (past s) (starved s))
    else s
  end.

(* read_bool: one bit with probability prob/256 of being 0 *)
Definition read_bool (prob : Z) (s : bstate) : Z * bstate :=
  let st := starved s || exhausted s in
  let split := 1 + Z.shiftr ((range s - 1) * prob) 8 in
  let SPLIT := Z.shiftl split 8 in
  if SPLIT <=? value s then
    (1, normalize 8 (mkB (rest s) (value s - SPLIT) (range s - split) (bit_count s) (fetched s) (past s) st))
  else
    (0, normalize 8 (mkB (rest s) (value s) split (bit_count s) (fetched s) (past s) st)).

Definition read_flag (s : bstate) : Z * bstate := read_bool 128 s.

(* read_literal n: n bits, most significant first, each with probability 128  (RFC: L(n); libwebp VP8GetValue) *)
Fixpoint read_literal_aux (n : nat) (acc : Z) (s : bstate) : Z * bstate :=
  match n with
  | O => (acc, s)
  | S k => let '(b, s') := read_bool 128 s in read_literal_aux k (2 * acc + b) s'
  end.
Definition read_literal (n : Z) (s : bstate) : Z * bstate := read_literal_aux (Z.to_nat n) 0 s.

(* magnitude of n bits followed by a sign bit  (libwebp VP8GetSignedValue) *)
Definition read_signed (n : Z) (s : bstate) : Z * bstate :=
  let '(v, s1) := read_literal n s in
  let '(sg, s2) := read_flag s1 in
  (if sg =? 1 then - v else v, s2).

(* optional signed value: a flag, then (only if set) magnitude and sign; 0 otherwise
   (RFC header fields such as quantizer / loop-filter deltas; vp8_arithmetic_decoder.rs read_optional_signed_value) *)
Definition read_opt_signed (n : Z) (s : bstate) : Z * bstate :=
  let '(f, s1) := read_flag s in
  if f =? 1 then read_signed n s1 else (0, s1).

(* treed_read (RFC section 8.1): walk a tree array from index [start] *)
Fixpoint treed_read_aux (fuel : nat) (tree probs : list Z) (i : Z) (s : bstate) : Z * bstate :=
  match fuel with
  | O => (0, s)
  | S k =>
    let '(b, s') := read_bool (nth (Z.to_nat (Z.shiftr i 1)) probs 0) s in
    let j := nth (Z.to_nat (i + b)) tree 0 in
    if 0 <? j then treed_read_aux k tree probs j s' else (- j, s')
  end.
Definition treed_read (tree probs : list Z) (start : Z) (s : bstate) : Z * bstate :=
  treed_read_aux (length tree) tree probs start s.

(* ------------------------------------------------------------------------------------------------------------ *)
(* Scripts: a data string and a sequence of requests (used by the oracle for property C15)                      *)
(* ------------------------------------------------------------------------------------------------------------ *)
Inductive bd_op :=
  | BdBool (prob : Z)
  | BdFlag
  | BdLit (n : Z)
  | BdOptSigned (n : Z)
  | BdTree (tree probs : list Z) (start : Z).

Definition run_op (o : bd_op) (s : bstate) : Z * bstate :=
  match o with
  | BdBool p => read_bool p s
  | BdFlag => read_flag s
  | BdLit n => read_literal n s
  | BdOptSigned n => read_opt_signed n s
  | BdTree t p i => treed_read t p i s
  end.

(* values returned by the requests, and the shift count at which each request was issued *)
Fixpoint run_ops (ops : list bd_op) (s : bstate) (vals shifts : list Z) : list Z * list Z * bstate :=
  match ops with
  | [] => (rev vals, rev shifts, s)
  | o :: tl => let '(v, s') := run_op o s in run_ops tl s' (v :: vals) (shift_count s :: shifts)
  end.
Definition run (data : list Z) (ops : list bd_op) : list Z := fst (fst (run_ops ops (bd_init data) [] [])).
(* values, shift counts before each request, final shift count, libwebp's eof flag at the end *)
Definition run_ext (data : list Z) (ops : list bd_op) : list Z * list Z * Z * bool :=
  let '(vs, ss, s) := run_ops ops (bd_init data) [] [] in (vs, ss, shift_count s, starved s).

(* distinctive aliases for extraction *)
Definition booldec_run := run.
Definition booldec_run_ext := run_ext.
