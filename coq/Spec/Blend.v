(* Specification of non-premultiplied "over" compositing (WebP container spec, "Assembling the canvas"):
     blend.A   = src.A + dst.A * (1 - src.A / 255)
     blend.RGB = (src.RGB * src.A + dst.RGB * dst.A * (1 - src.A / 255)) / blend.A       (0 when blend.A = 0)
   cleared of denominators so that everything is an integer:
     255 * blend.A        = D            with D = 255*sa + da*(255 - sa)
     blend.C  (exact)     = N / D        with N = 255*sc*sa + dc*da*(255 - sa)                                  *)
From Coq Require Import ZArith.
Open Scope Z_scope.

Definition D (sa da : Z) : Z := 255 * sa + da * (255 - sa).
Definition N (sc sa dc da : Z) : Z := 255 * sc * sa + dc * da * (255 - sa).

(* result alpha [ra] is within 1 of the exact alpha D/255 *)
Definition alpha_close (sa da ra : Z) : Prop := Z.abs (255 * ra - D sa da) <= 255.
(* result channel [rc] differs from the exact value N/D by at most 2 code values when weighted by ra/255:
     |rc - N/D| * ra / 255 <= 2      <->     |rc * D - N| * ra <= 2 * 255 * D        (D > 0) *)
Definition chan_close (sc sa dc da rc ra : Z) : Prop :=
  Z.abs (rc * D sa da - N sc sa dc da) * ra <= 2 * 255 * D sa da.
Definition chan_range (sc dc rc : Z) : Prop := Z.min sc dc - 1 <= rc <= Z.max sc dc + 1.
