(* RFC 6386 section 7.3: the reference boolean entropy decoder (bool_decoder), transcribed literally, and on top of it
   the composite readers of sections 7.3 / 8.1 / 9 (read_literal, flag, optional signed value, treed_read).

       void init_bool_decoder(bool_decoder *d, uint8 *start_partition, unsigned int sz) {
         { int i = 0; d->value = 0;             /* value = first 2 input bytes */
           while (++i <= 2) d->value = (d->value << 8) | next_byte(d); }
         d->range = 255;  d->bit_count = 0; }

       int read_bool(bool_decoder *d, Prob probability) {
         Split split = 1 + (((d->range - 1) * probability) >> 8);
         bool_value SPLIT = (bool_value) split << 8;
         int retval;
         if (d->value >= SPLIT) { retval = 1; d->range -= split; d->value -= SPLIT; }
         else                   { retval = 0; d->range = split; }
         while (d->range < 128) {               /* shift out irrelevant value bits */
           d->value <<= 1;  d->range <<= 1;
           if (++d->bit_count == 8) { d->bit_count = 0; d->value |= next_byte(d); } }
         return retval; }

   `next_byte` returns 0 once the partition is used up (the reference reads zeros past the end).
   Two ghost fields, used only to state the exhaustion condition, do not influence any value returned:
     shifts = number of renormalisation shifts executed so far (S);
     need   = number of input bytes the requests issued so far have needed: a read_bool issued at shift count S
              looks at input bits 0 .. S+7, i.e. at bytes 0 .. (S+7)/8, so it needs (S+7)/8 + 1 bytes.
   No Rust structure appears here. *)
From Coq Require Import ZArith List Bool.
Import ListNotations.
Open Scope Z_scope.

Record st := mk { input : list Z;      (* bytes not yet consumed *)
                  value : Z;           (* "bool_value": two bytes *)
                  range : Z;           (* 128..255 between calls *)
                  bit_count : Z;       (* 0..7: shifts since the last byte was taken *)
                  shifts : Z;          (* ghost: S *)
                  need : Z }.          (* ghost: bytes needed by the requests so far *)

Definition next_byte (l : list Z) : Z * list Z := match l with [] => (0, []) | b :: tl => (b, tl) end.

Definition init (data : list Z) : st :=
  let '(b0, r0) := next_byte data in
  let '(b1, r1) := next_byte r0 in
  mk r1 (Z.lor (Z.shiftl (Z.lor (Z.shiftl 0 8) b0) 8) b1) 255 0 0 0.

(* one iteration of the renormalisation loop body *)
Definition shift1 (s : st) : st :=
  let v := Z.shiftl (value s) 1 in
  let r := Z.shiftl (range s) 1 in
  if bit_count s + 1 =? 8
  then let '(b, tl) := next_byte (input s) in mk tl (Z.lor v b) r 0 (shifts s + 1) (need s)
  else mk (input s) v r (bit_count s + 1) (shifts s + 1) (need s).

(* while (range < 128) ...: range >= 1 on entry, so at most 7 iterations *)
Fixpoint renorm (fuel : nat) (s : st) : st :=
  match fuel with
  | O => s
  | S f => if range s <? 128 then renorm f (shift1 s) else s
  end.

Definition bytes_for_shift_count (sc : Z) : Z := (sc + 7) / 8 + 1.

Definition read_bool (s : st) (prob : Z) : bool * st :=
  let split := 1 + Z.shiftr ((range s - 1) * prob) 8 in
  let SPLIT := Z.shiftl split 8 in
  let nd := Z.max (need s) (bytes_for_shift_count (shifts s)) in
  if SPLIT <=? value s
  then (true, renorm 7 (mk (input s) (value s - SPLIT) (range s - split) (bit_count s) (shifts s) nd))
  else (false, renorm 7 (mk (input s) (value s) split (bit_count s) (shifts s) nd)).

Definition b2z (b : bool) : Z := if b then 1 else 0.

(* read_bool with probability 1/2 (the RFC's `L(1)` / flag) *)
Definition read_flag (s : st) : bool * st := read_bool s 128.

(* uint32 read_literal(d, n) { uint32 v = 0; while (n--) v = (v << 1) + read_bool(d, 128); return v; } *)
Fixpoint read_literal_from (n : nat) (v : Z) (s : st) : Z * st :=
  match n with
  | O => (v, s)
  | S k => let '(b, s1) := read_bool s 128 in read_literal_from k (Z.shiftl v 1 + b2z b) s1
  end.
Definition read_literal (s : st) (n : Z) : Z * st := read_literal_from (Z.to_nat n) 0 s.

(* the frame header's optional signed field: flag; if set an n-bit magnitude then a sign flag; otherwise 0 *)
Definition read_optional_signed_value (s : st) (n : Z) : Z * st :=
  let '(flag, s1) := read_flag s in
  if flag
  then let '(mag, s2) := read_literal s1 n in
       let '(sign, s3) := read_flag s2 in
       ((if sign then - mag else mag), s3)
  else (0, s1).

(* int treed_read(d, tree t, const Prob p[]) { tree_index i = 0;
     while ((i = t[i + read_bool(d, p[i>>1])]) > 0) {}  return -i; }
   started at index i (the coefficient reader starts at 2 after a DCT_0 token).  Every real tree is finite and acyclic,
   the fuel (at least the number of tree entries) is never exhausted on them. *)
Fixpoint treed_read_from (fuel : nat) (t p : list Z) (i : Z) (s : st) : Z * st :=
  match fuel with
  | O => (- i, s)
  | S f =>
    let '(b, s1) := read_bool s (nth (Z.to_nat (Z.shiftr i 1)) p 0) in
    let i1 := nth (Z.to_nat (i + b2z b)) t 0 in
    if 0 <? i1 then treed_read_from f t p i1 s1 else (- i1, s1)
  end.
Definition treed_read (s : st) (t p : list Z) (start : Z) : Z * st := treed_read_from (length t) t p start s.

(* ---- request scripts ---- *)
Inductive op := OB (prob : Z) | OF | OL (n : Z) | OS (n : Z) | OT (k : nat).

(* a tree the script may refer to: RFC tree array, its probabilities, start index (0, or 2 to skip the first branch) *)
Definition tree_desc : Type := (list Z * list Z * Z)%type.

Definition step (trees : list tree_desc) (s : st) (o : op) : Z * st :=
  match o with
  | OB p => let '(b, s1) := read_bool s p in (b2z b, s1)
  | OF => let '(b, s1) := read_flag s in (b2z b, s1)
  | OL n => read_literal s n
  | OS n => read_optional_signed_value s n
  | OT k => let '(t, p, i) := nth k trees ([], [], 0) in treed_read s t p i
  end.

Fixpoint run_from (trees : list tree_desc) (s : st) (ops : list op) : list Z * st :=
  match ops with
  | [] => ([], s)
  | o :: tl => let '(v, s1) := step trees s o in let '(vs, s2) := run_from trees s1 tl in (v :: vs, s2)
  end.

Definition run_st (trees : list tree_desc) (data : list Z) (ops : list op) : list Z * st := run_from trees (init data) ops.
(* the values the reference decoder returns for the script *)
Definition run (trees : list tree_desc) (data : list Z) (ops : list op) : list Z := fst (run_st trees data ops).

(* number of input bytes needed by requests 0..k (all bit requests of ops 0..k) *)
Definition bytes_needed_upto (trees : list tree_desc) (data : list Z) (ops : list op) (k : nat) : Z :=
  need (snd (run_st trees data (firstn (S k) ops))).
(* the script is exhausted by some request iff more than one byte beyond the data is needed *)
Definition exhausted (trees : list tree_desc) (data : list Z) (ops : list op) : bool :=
  Z.of_nat (length data) + 1 <? need (snd (run_st trees data ops)).
