(* The WebP container (RIFF) format, written from libwebp's doc/webp-container-spec.txt, independently of the
   structure of the Rust decoder: a record type for the files the property quantifies over, their byte
   serialisation, the well-formedness predicate and the values the headers define for every accessor.

   Layouts: simple lossy (RIFF + 'VP8 '), simple lossless (RIFF + 'VP8L'), extended still and animated
   (RIFF + 'VP8X' + any sequence of chunks).  The chunk sequence of an extended file is an arbitrary list: the
   specification recommends an order (ICCP, ANIM, image data, EXIF, XMP, unknown) but C08 is stated "regardless
   of chunk order", so [wf] does not constrain it.  Requirements of the specification that no accessor depends on
   (reserved bits zero, frame rectangle inside the canvas, bit-stream dimensions equal to the frame dimensions,
   alpha flag consistent with the frames, ANIM before the frames) are deliberately NOT part of [wf]: the theorem
   then covers those files as well.  The ICC/Exif/XMP flags must agree with the presence of the chunks (a file
   with the chunk but without the flag is read differently by different decoders and is not well-formed).  No proofs in this file. *)
From Coq Require Import ZArith List Bool.
Import ListNotations.
Open Scope Z_scope.

Definition len {A} (l : list A) : Z := Z.of_nat (length l).

Definition is_byte (x : Z) : bool := (0 <=? x) && (x <=? 255).
Definition all_bytes (l : list Z) : bool := forallb is_byte l.
Definition in_range (lo hi x : Z) : bool := (lo <=? x) && (x <=? hi).
Definition b2z (b : bool) : Z := if b then 1 else 0.

(* little-endian integers *)
Definition le16 (v : Z) : list Z := [v mod 256; (v / 256) mod 256].
Definition le24 (v : Z) : list Z := [v mod 256; (v / 256) mod 256; (v / 65536) mod 256].
Definition le32 (v : Z) : list Z := [v mod 256; (v / 256) mod 256; (v / 65536) mod 256; (v / 16777216) mod 256].

(* FourCCs (ASCII) *)
Definition cc_RIFF : list Z := [82; 73; 70; 70].
Definition cc_WEBP : list Z := [87; 69; 66; 80].
Definition cc_VP8  : list Z := [86; 80; 56; 32].   (* 'VP8 ' : the fourth character is a space *)
Definition cc_VP8L : list Z := [86; 80; 56; 76].
Definition cc_VP8X : list Z := [86; 80; 56; 88].
Definition cc_ANIM : list Z := [65; 78; 73; 77].
Definition cc_ANMF : list Z := [65; 78; 77; 70].
Definition cc_ALPH : list Z := [65; 76; 80; 72].
Definition cc_ICCP : list Z := [73; 67; 67; 80].
Definition cc_EXIF : list Z := [69; 88; 73; 70].
Definition cc_XMP  : list Z := [88; 77; 80; 32].   (* 'XMP ' *)

Fixpoint bytes_eqb (a b : list Z) : bool :=
  match a, b with
  | [], [] => true
  | x :: a', y :: b' => (x =? y) && bytes_eqb a' b'
  | _, _ => false
  end.

(* the FourCCs with a meaning in a WebP file; every other FourCC is an "unknown chunk" *)
Definition reserved_ccs : list (list Z) :=
  [cc_RIFF; cc_WEBP; cc_VP8; cc_VP8L; cc_VP8X; cc_ANIM; cc_ANMF; cc_ALPH; cc_ICCP; cc_EXIF; cc_XMP].
Definition is_unknown_cc (cc : list Z) : bool :=
  (length cc =? 4)%nat && all_bytes cc && negb (existsb (bytes_eqb cc) reserved_ccs).

(* RIFF chunk: FourCC, 32-bit size of the payload, payload, one zero pad byte when the size is odd *)
Definition pad (p : list Z) : list Z := if Z.odd (len p) then [0] else [].
Definition ser_chunk (cc p : list Z) : list Z := cc ++ le32 (len p) ++ p ++ pad p.

(* ---------------------------------------------------------------------------------------------- *)
(* bit-stream headers, as far as the container layer looks into them                               *)
(* ---------------------------------------------------------------------------------------------- *)

(* VP8 key frame: 3-byte frame tag (bit 0 = 0: key frame), start code 9d 01 2a, 14-bit width + 2-bit scale,
   14-bit height + 2-bit scale, then the partitions (opaque here) *)
Record vp8_data := { v_tag : Z; v_width : Z; v_hscale : Z; v_height : Z; v_vscale : Z; v_rest : list Z }.
Definition vp8_bytes (v : vp8_data) : list Z :=
  le24 (v_tag v) ++ [157; 1; 42] ++ le16 (v_width v + 16384 * v_hscale v) ++ le16 (v_height v + 16384 * v_vscale v)
  ++ v_rest v.
Definition vp8_ok (v : vp8_data) : bool :=
  in_range 0 16777215 (v_tag v) && Z.even (v_tag v)
  && in_range 1 16383 (v_width v) && in_range 0 3 (v_hscale v)
  && in_range 1 16383 (v_height v) && in_range 0 3 (v_vscale v) && all_bytes (v_rest v).

(* VP8L: signature 2f, 14-bit width-1, 14-bit height-1, alpha_is_used, 3-bit version = 0 *)
Record vp8l_data := { l_w1 : Z; l_h1 : Z; l_alpha : bool; l_rest : list Z }.
Definition vp8l_bytes (l : vp8l_data) : list Z :=
  [47] ++ le32 (l_w1 l + 16384 * l_h1 l + 268435456 * b2z (l_alpha l)) ++ l_rest l.
Definition vp8l_ok (l : vp8l_data) : bool :=
  in_range 0 16383 (l_w1 l) && in_range 0 16383 (l_h1 l) && all_bytes (l_rest l).

(* ALPH: |Rsv(2)=0|P(2)|F(2)|C(2)| then the alpha bit-stream *)
Record alph_data := { a_pre : Z; a_filter : Z; a_comp : Z; a_rest : list Z }.
Definition alph_bytes (a : alph_data) : list Z := [16 * a_pre a + 4 * a_filter a + a_comp a] ++ a_rest a.
Definition alph_ok (a : alph_data) : bool :=
  in_range 0 3 (a_pre a) && in_range 0 3 (a_filter a) && in_range 0 3 (a_comp a) && all_bytes (a_rest a).

Record unknown_chunk := { u_cc : list Z; u_payload : list Z }.
Definition unknown_bytes (u : unknown_chunk) : list Z := ser_chunk (u_cc u) (u_payload u).
Definition unknown_ok (u : unknown_chunk) : bool := is_unknown_cc (u_cc u) && all_bytes (u_payload u).

(* ---------------------------------------------------------------------------------------------- *)
(* animation frames                                                                                *)
(* ---------------------------------------------------------------------------------------------- *)
Inductive frame_image :=
  | FLossy (a : option alph_data) (v : vp8_data)       (* optional ALPH sub-chunk, then 'VP8 ' *)
  | FLossless (l : vp8l_data).                          (* 'VP8L' *)

Record frame := {
  f_x : Z; f_y : Z;               (* Frame X, Frame Y : the offsets divided by two, 24 bits *)
  f_w1 : Z; f_h1 : Z;             (* width - 1, height - 1, 24 bits *)
  f_duration : Z;                 (* 24 bits, milliseconds *)
  f_rsv : Z; f_noblend : bool; f_dispose : bool;   (* |Reserved(6)|B|D| *)
  f_image : frame_image;
  f_unknown : list unknown_chunk  (* unknown chunks after the bit-stream *)
}.

Definition image_bytes (i : frame_image) : list Z :=
  match i with
  | FLossy None v => ser_chunk cc_VP8 (vp8_bytes v)
  | FLossy (Some a) v => ser_chunk cc_ALPH (alph_bytes a) ++ ser_chunk cc_VP8 (vp8_bytes v)
  | FLossless l => ser_chunk cc_VP8L (vp8l_bytes l)
  end.
Definition image_ok (i : frame_image) : bool :=
  match i with
  | FLossy None v => vp8_ok v
  | FLossy (Some a) v => alph_ok a && vp8_ok v
  | FLossless l => vp8l_ok l
  end.

Definition frame_payload (f : frame) : list Z :=
  le24 (f_x f) ++ le24 (f_y f) ++ le24 (f_w1 f) ++ le24 (f_h1 f) ++ le24 (f_duration f)
  ++ [4 * f_rsv f + 2 * b2z (f_noblend f) + b2z (f_dispose f)]
  ++ image_bytes (f_image f) ++ concat (map unknown_bytes (f_unknown f)).
Definition frame_ok (f : frame) : bool :=
  in_range 0 16777215 (f_x f) && in_range 0 16777215 (f_y f) && in_range 0 16777215 (f_w1 f)
  && in_range 0 16777215 (f_h1 f) && in_range 0 16777215 (f_duration f) && in_range 0 63 (f_rsv f)
  && image_ok (f_image f) && forallb unknown_ok (f_unknown f).
Definition frame_lossy (f : frame) : bool := match f_image f with FLossy _ _ => true | FLossless _ => false end.

(* ---------------------------------------------------------------------------------------------- *)
(* chunks of an extended file (after VP8X), in file order                                          *)
(* ---------------------------------------------------------------------------------------------- *)
Inductive chunk :=
  | CICCP (p : list Z) | CEXIF (p : list Z) | CXMP (p : list Z)
  | CANIM (bg : list Z) (loops : Z)        (* background colour (4 bytes), 16-bit loop count, 0 = forever *)
  | CANMF (f : frame)
  | CALPH (a : alph_data) | CVP8 (v : vp8_data) | CVP8L (l : vp8l_data)
  | CUnknown (u : unknown_chunk).

Definition chunk_cc (c : chunk) : list Z :=
  match c with
  | CICCP _ => cc_ICCP | CEXIF _ => cc_EXIF | CXMP _ => cc_XMP | CANIM _ _ => cc_ANIM | CANMF _ => cc_ANMF
  | CALPH _ => cc_ALPH | CVP8 _ => cc_VP8 | CVP8L _ => cc_VP8L | CUnknown u => u_cc u
  end.
Definition chunk_payload (c : chunk) : list Z :=
  match c with
  | CICCP p | CEXIF p | CXMP p => p
  | CANIM bg loops => bg ++ le16 loops
  | CANMF f => frame_payload f
  | CALPH a => alph_bytes a | CVP8 v => vp8_bytes v | CVP8L l => vp8l_bytes l
  | CUnknown u => u_payload u
  end.
Definition chunk_bytes (c : chunk) : list Z := ser_chunk (chunk_cc c) (chunk_payload c).
Definition chunk_ok (c : chunk) : bool :=
  match c with
  | CICCP p | CEXIF p | CXMP p => all_bytes p
  | CANIM bg loops => (length bg =? 4)%nat && all_bytes bg && in_range 0 65535 loops
  | CANMF f => frame_ok f
  | CALPH a => alph_ok a | CVP8 v => vp8_ok v | CVP8L l => vp8l_ok l
  | CUnknown u => unknown_ok u
  end.

(* VP8X payload: |Rsv(2)|I|L|E|X|A|R(1)|, 24 reserved bits, canvas width - 1, canvas height - 1 (24 bits each) *)
Record vp8x := {
  x_rsv1 : Z; x_icc : bool; x_alpha : bool; x_exif : bool; x_xmp : bool; x_anim : bool; x_rsv2 : Z;
  x_rsv3 : Z; x_w1 : Z; x_h1 : Z
}.
Definition vp8x_flags (x : vp8x) : Z :=
  64 * x_rsv1 x + 32 * b2z (x_icc x) + 16 * b2z (x_alpha x) + 8 * b2z (x_exif x) + 4 * b2z (x_xmp x)
  + 2 * b2z (x_anim x) + x_rsv2 x.
Definition vp8x_payload (x : vp8x) : list Z := [vp8x_flags x] ++ le24 (x_rsv3 x) ++ le24 (x_w1 x) ++ le24 (x_h1 x).
Definition vp8x_ok (x : vp8x) : bool :=
  in_range 0 3 (x_rsv1 x) && in_range 0 1 (x_rsv2 x) && in_range 0 16777215 (x_rsv3 x)
  && in_range 0 16777215 (x_w1 x) && in_range 0 16777215 (x_h1 x)
  && ((x_w1 x + 1) * (x_h1 x + 1) <=? 4294967295).     (* "MUST be at most 2^32 - 1" *)

Inductive container :=
  | SimpleLossy (v : vp8_data) (trail : list unknown_chunk)
  | SimpleLossless (l : vp8l_data) (trail : list unknown_chunk)
  | Extended (x : vp8x) (cs : list chunk).

Definition body (c : container) : list Z :=
  match c with
  | SimpleLossy v trail => ser_chunk cc_VP8 (vp8_bytes v) ++ concat (map unknown_bytes trail)
  | SimpleLossless l trail => ser_chunk cc_VP8L (vp8l_bytes l) ++ concat (map unknown_bytes trail)
  | Extended x cs => ser_chunk cc_VP8X (vp8x_payload x) ++ concat (map chunk_bytes cs)
  end.
(* File Size = the chunks that follow plus 4 bytes for 'WEBP' *)
Definition file_size (c : container) : Z := 4 + len (body c).
Definition serialize (c : container) : list Z := cc_RIFF ++ le32 (file_size c) ++ cc_WEBP ++ body c.

(* ---------------------------------------------------------------------------------------------- *)
(* well-formedness                                                                                  *)
(* ---------------------------------------------------------------------------------------------- *)
Definition is_iccp c := match c with CICCP _ => true | _ => false end.
Definition is_exif c := match c with CEXIF _ => true | _ => false end.
Definition is_xmp  c := match c with CXMP _ => true | _ => false end.
Definition is_anim c := match c with CANIM _ _ => true | _ => false end.
Definition is_anmf c := match c with CANMF _ => true | _ => false end.
Definition is_vp8  c := match c with CVP8 _ => true | _ => false end.
Definition is_vp8l c := match c with CVP8L _ => true | _ => false end.
Definition is_alph c := match c with CALPH _ => true | _ => false end.
Definition count (f : chunk -> bool) (cs : list chunk) : Z := len (filter f cs).

Definition wf (c : container) : bool :=
  (file_size c <=? 4294967286)             (* "The maximum value of this field is 2^32 minus 10 bytes" *)
  && match c with
     | SimpleLossy v trail => vp8_ok v && forallb unknown_ok trail
     | SimpleLossless l trail => vp8l_ok l && forallb unknown_ok trail
     | Extended x cs =>
         vp8x_ok x && forallb chunk_ok cs
         (* "Set if the file contains an 'ICCP' Chunk / Exif metadata / XMP metadata": flag = presence *)
         && Bool.eqb (x_icc x) (existsb is_iccp cs) && Bool.eqb (x_exif x) (existsb is_exif cs)
         && Bool.eqb (x_xmp x) (existsb is_xmp cs)
         && (if x_anim x
             then (* animation: global parameters and at least one frame; the image data lives inside the frames *)
               existsb is_anim cs && existsb is_anmf cs
               && negb (existsb is_vp8 cs) && negb (existsb is_vp8l cs) && negb (existsb is_alph cs)
             else (* still image: a single bit-stream chunk, no frames (an ANIM chunk "MUST be ignored") *)
               (count is_vp8 cs + count is_vp8l cs =? 1) && negb (existsb is_anmf cs))
     end.

(* ---------------------------------------------------------------------------------------------- *)
(* the values the headers define                                                                    *)
(* ---------------------------------------------------------------------------------------------- *)
Definition dims (c : container) : Z * Z :=
  match c with
  | SimpleLossy v _ => (v_width v, v_height v)
  | SimpleLossless l _ => (l_w1 l + 1, l_h1 l + 1)
  | Extended x _ => (x_w1 x + 1, x_h1 x + 1)
  end.
Definition alpha (c : container) : bool :=
  match c with SimpleLossy _ _ => false | SimpleLossless l _ => l_alpha l | Extended x _ => x_alpha x end.
Definition anim (c : container) : bool := match c with Extended x _ => x_anim x | _ => false end.
Definition frames (c : container) : list frame :=
  match c with
  | Extended _ cs => flat_map (fun k => match k with CANMF f => [f] | _ => [] end) cs
  | _ => []
  end.
(* lossy: the (or, for an animation, any) image is a VP8 bit-stream *)
Definition lossy (c : container) : bool :=
  match c with
  | SimpleLossy _ _ => true
  | SimpleLossless _ _ => false
  | Extended _ cs => existsb is_vp8 cs || existsb frame_lossy (frames c)
  end.
Definition nframes (c : container) : Z := len (frames c).
Definition durations (c : container) : list Z := map f_duration (frames c).
Definition total_duration (c : container) : Z := fold_right Z.add 0 (durations c).
(* loop count as stored: 0 = forever; 1 for everything that is not an animation *)
Definition loops (c : container) : Z :=
  match c with
  | Extended x cs =>
      if x_anim x then match find is_anim cs with Some (CANIM _ n) => n | _ => 1 end else 1
  | _ => 1
  end.
Definition first_payload (f : chunk -> bool) (c : container) : option (list Z) :=
  match c with
  | Extended _ cs => option_map chunk_payload (find f cs)
  | _ => None
  end.
Definition icc (c : container) := first_payload is_iccp c.
Definition exif (c : container) := first_payload is_exif c.
Definition xmp (c : container) := first_payload is_xmp c.
(* size of the decoded image or of one composited frame, when it fits the address space *)
Definition buffer_size (c : container) : Z := fst (dims c) * snd (dims c) * (if alpha c then 4 else 3).

(* flat view used by the oracle to check that the harness generator is a twin of this file: well-formedness,
   serialisation and every expected value of a container description *)
Definition container_expected (c : container) :=
  (wf c, serialize c, (dims c, alpha c, anim c, lossy c, nframes c, loops c, total_duration c, icc c, exif c, xmp c,
                       buffer_size c)).
