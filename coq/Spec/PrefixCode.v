(* Prefix codes as the WebP lossless specification (section 6.2.1, "Decoding and Building the Prefix Codes", which
   refers to the deflate construction of RFC 1951 section 3.2.2) defines them: a code is given by one length per
   symbol (0 = unused); the code words are assigned canonically from the lengths.
   Independent of the structure of encoder.rs.  No proofs here. *)
From Coq Require Import ZArith List Bool.
Import ListNotations.
Open Scope Z_scope.

(* Kraft sum scaled by 2^L: every used symbol of length l occupies 2^(L-l) of the 2^L leaves of the depth-L tree *)
Fixpoint kraft (lens : list Z) (L : Z) : Z :=
  match lens with
  | [] => 0
  | l :: tl => (if 0 <? l then 2 ^ (L - l) else 0) + kraft tl L
  end.

Definition complete (lens : list Z) (L : Z) : Prop := kraft lens L = 2 ^ L.

(* RFC 1951 3.2.2 step 1: bl_count[b] = number of codes of length b (bl_count[0] is taken as 0 in step 2) *)
Fixpoint count_eq (b : Z) (lens : list Z) : Z :=
  match lens with [] => 0 | l :: tl => (if l =? b then 1 else 0) + count_eq b tl end.
Definition bl_count (lens : list Z) (b : Z) : Z := if b =? 0 then 0 else count_eq b lens.

(* step 2: code = 0; for bits = 1..MAX { code = (code + bl_count[bits-1]) << 1; next_code[bits] = code } *)
Fixpoint next_code (lens : list Z) (bits : nat) : Z :=
  match bits with
  | O => 0
  | S b' => 2 * (next_code lens b' + bl_count lens (Z.of_nat b'))
  end.

(* step 3: for n = 0..max_code { len = tree[n].Len; if len != 0 { tree[n].Code = next_code[len]; next_code[len]++ } }
   `seen` holds the lengths of the symbols before the current one; unused symbols get the (irrelevant) word 0 *)
Fixpoint canonical_from (all seen rest : list Z) : list Z :=
  match rest with
  | [] => []
  | l :: tl =>
    (if l =? 0 then 0 else next_code all (Z.to_nat l) + count_eq l seen) :: canonical_from all (l :: seen) tl
  end.
Definition canonical (lens : list Z) : list Z := canonical_from lens [] lens.

(* A code word of length len is sent most significant bit first; the VP8L bit stream is filled from the least
   significant bit of each byte, so a writer that emits whole words with an LSB-first bit writer must emit the word
   with its len bits reversed. *)
Fixpoint rev_bits_nat (n : nat) (x acc : Z) : Z :=
  match n with O => acc | S n' => rev_bits_nat n' (x / 2) (2 * acc + x mod 2) end.
Definition rev_bits (len code : Z) : Z := rev_bits_nat (Z.to_nat len) code 0.

Fixpoint map2 {A B C} (f : A -> B -> C) (la : list A) (lb : list B) : list C :=
  match la, lb with a :: ta, b :: tb => f a b :: map2 f ta tb | _, _ => [] end.

(* the words the encoder must hand to an LSB-first bit writer *)
Definition stream_codes (lens : list Z) : list Z := map2 rev_bits lens (canonical lens).

(* code word as a list of bits, first transmitted bit first *)
Fixpoint word_bits (n : nat) (code : Z) : list bool :=
  match n with O => [] | S n' => Z.testbit code (Z.of_nat n') :: word_bits n' code end.
Fixpoint is_prefix (a b : list bool) : bool :=
  match a, b with
  | [], _ => true
  | x :: ta, y :: tb => Bool.eqb x y && is_prefix ta tb
  | _ :: _, [] => false
  end.
Definition prefix_free (lens codes : list Z) : Prop :=
  forall i j, (i < length lens)%nat -> (j < length lens)%nat -> i <> j ->
    0 < nth i lens 0 -> 0 < nth j lens 0 ->
    is_prefix (word_bits (Z.to_nat (nth i lens 0)) (nth i codes 0)) (word_bits (Z.to_nat (nth j lens 0)) (nth j codes 0)) = false.

(* ------------------------------------------------------------------------------------------------ *)
(* property C14 as a predicate on (histogram, limit, result) and its decision procedure                *)
(* ------------------------------------------------------------------------------------------------ *)
Definition used_count (freqs : list Z) : Z := Z.of_nat (length (filter (fun f => 0 <? f) freqs)).

(* what build_huffman_tree's output (flag, lengths, codes) must satisfy *)
Definition c14_prop (freqs : list Z) (L : Z) (flag : bool) (lens codes : list Z) : Prop :=
  length lens = length freqs /\ length codes = length freqs /\
  (used_count freqs < 2 -> flag = false /\ (forall i, nth i lens 0 = 0) /\ (forall i, nth i codes 0 = 0)) /\
  (2 <= used_count freqs ->
     flag = true
     /\ (forall i, (i < length freqs)%nat -> 0 < nth i freqs 0 -> 1 <= nth i lens 0 <= L)
     /\ (forall i, (i < length freqs)%nat -> nth i freqs 0 <= 0 -> nth i lens 0 = 0)
     /\ kraft lens L = 2 ^ L
     /\ codes = stream_codes lens).

Fixpoint forallb2 {A B} (f : A -> B -> bool) (la : list A) (lb : list B) : bool :=
  match la, lb with
  | [], [] => true
  | a :: ta, b :: tb => f a b && forallb2 f ta tb
  | _, _ => false
  end.
Fixpoint list_eqb (a b : list Z) : bool :=
  match a, b with
  | [], [] => true
  | x :: ta, y :: tb => (x =? y) && list_eqb ta tb
  | _, _ => false
  end.

Definition c14_ok (freqs : list Z) (L : Z) (flag : bool) (lens codes : list Z) : bool :=
  (length lens =? length freqs)%nat && (length codes =? length freqs)%nat &&
  if used_count freqs <? 2 then
    negb flag && forallb (fun l => l =? 0) lens && forallb (fun c => c =? 0) codes
  else
    flag
    && forallb2 (fun f l => if 0 <? f then (1 <=? l) && (l <=? L) else l =? 0) freqs lens
    && (kraft lens L =? 2 ^ L)
    && list_eqb codes (stream_codes lens).
