(* The file layout the WebP container specification prescribes for a still lossless image with optional metadata
   ("RIFF Header", "Simple File Format (Lossless)", "Extended File Format"): what a conforming writer must produce.
   Independent of encoder.rs.  No proofs here.
     file   = 'RIFF' size32 'WEBP' chunk*            size32 = file length - 8
     chunk  = fourcc size32 payload [0 if the payload length is odd]
     order  = VP8X, ICCP, (image data), EXIF, XMP
     VP8X   = flags(1) reserved(3) canvas_width-1 (3) canvas_height-1 (3); flag bits: ICC 0x20, alpha 0x10, EXIF 0x08, XMP 0x04 *)
From Coq Require Import ZArith List Bool.
Import ListNotations.
Open Scope Z_scope.

Definition flen (l : list Z) : Z := Z.of_nat (length l).
Definition le32 (x : Z) : list Z := [x mod 256; (x / 256) mod 256; (x / 65536) mod 256; (x / 16777216) mod 256].
Definition le24 (x : Z) : list Z := [x mod 256; (x / 256) mod 256; (x / 65536) mod 256].

Definition RIFF := [82; 73; 70; 70].
Definition WEBP := [87; 69; 66; 80].
Definition VP8L := [86; 80; 56; 76].
Definition VP8X := [86; 80; 56; 88].
Definition ICCP := [73; 67; 67; 80].
Definition EXIF := [69; 88; 73; 70].
Definition XMP_ := [88; 77; 80; 32].

Definition chunk (fourcc payload : list Z) : list Z :=
  fourcc ++ le32 (flen payload) ++ payload ++ (if Z.odd (flen payload) then [0] else []).
Definition opt_chunk (fourcc payload : list Z) : list Z :=
  match payload with [] => [] | _ => chunk fourcc payload end.

Definition webp_file (body : list Z) : list Z := RIFF ++ le32 (4 + flen body) ++ WEBP ++ body.

Definition present (l : list Z) : bool := match l with [] => false | _ => true end.
Definition vp8x_flags (alpha : bool) (icc exif xmp : list Z) : Z :=
  (if present xmp then 4 else 0) + (if present exif then 8 else 0) + (if alpha then 16 else 0) + (if present icc then 32 else 0).
Definition vp8x_payload (alpha : bool) (w h : Z) (icc exif xmp : list Z) : list Z :=
  [vp8x_flags alpha icc exif xmp; 0; 0; 0] ++ le24 (w - 1) ++ le24 (h - 1).

(* a still image whose bitstream is the VP8L payload `frame` *)
Definition lossless_file (alpha : bool) (w h : Z) (frame icc exif xmp : list Z) : list Z :=
  if present icc || present exif || present xmp then
    webp_file (chunk VP8X (vp8x_payload alpha w h icc exif xmp) ++ opt_chunk ICCP icc ++ chunk VP8L frame
               ++ opt_chunk EXIF exif ++ opt_chunk XMP_ xmp)
  else webp_file (chunk VP8L frame).
