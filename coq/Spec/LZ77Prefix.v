(* WebP lossless bitstream specification, section 5.2.2 "LZ77 Prefix Coding": how a decoder turns a prefix code
   and its extra bits into a length or distance value.  Independent of the encoder.  No proofs here.

     if (prefix_code < 4) { return prefix_code + 1; }
     int extra_bits = (prefix_code - 2) >> 1;
     int offset = (2 + (prefix_code & 1)) << extra_bits;
     return offset + ReadBits(extra_bits) + 1;                                                         *)
From Coq Require Import ZArith.
Open Scope Z_scope.

Definition prefix_extra_bits (prefix_code : Z) : Z :=
  if prefix_code <? 4 then 0 else Z.shiftr (prefix_code - 2) 1.

Definition prefix_value (prefix_code extra : Z) : Z :=
  if prefix_code <? 4 then prefix_code + 1
  else
    let extra_bits := Z.shiftr (prefix_code - 2) 1 in
    let offset := Z.shiftl (2 + Z.land prefix_code 1) extra_bits in
    offset + extra + 1.
