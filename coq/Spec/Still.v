(* Specification of a lossy still WebP file, composed from the component specifications:
     container (RIFF / VP8X / ALPH / VP8 chunks)  ->  Spec.VP8.decode (planes)  ->  Spec.YUV (no-fancy BT.601)
                                                   ->  Spec.Alpha (+ Spec.VP8L for compressed alpha)
   Output convention of the crate's API: RGB when the file has no alpha (simple lossy file, or VP8X without the alpha flag),
   RGBA otherwise; alpha 255 when the VP8X alpha flag is set but there is no ALPH chunk.  No proofs here. *)
From Coq Require Import ZArith List Bool.
From WebP Require Spec.VP8 Spec.VP8L.
From WebP Require Import Spec.YUV Spec.Alpha.
Import ListNotations.
Open Scope Z_scope.

Definition le32 (l : list Z) : Z :=
  match l with a :: b :: c :: d :: _ => a + 256 * b + 65536 * c + 16777216 * d | _ => 0 end.

Fixpoint take (n : nat) (l : list Z) : list Z := match n, l with S k, x :: tl => x :: take k tl | _, _ => [] end.
Fixpoint drop (n : nat) (l : list Z) : list Z := match n, l with S k, _ :: tl => drop k tl | _, _ => l end.

(* top-level chunk list: (fourcc as 4 bytes, payload); stops at the first truncated chunk *)
Fixpoint chunks (fuel : nat) (l : list Z) : list (list Z * list Z) :=
  match fuel with
  | O => []
  | S fuel' =>
    match l with
    | c0 :: c1 :: c2 :: c3 :: s0 :: s1 :: s2 :: s3 :: rest =>
      let sz := Z.to_nat (le32 [s0; s1; s2; s3]) in
      if Nat.leb sz (length rest)
      then ([c0; c1; c2; c3], take sz rest) :: chunks fuel' (drop (sz + Nat.modulo sz 2) rest)
      else []
    | _ => []
    end
  end.

Definition fourcc_eqb (a b : list Z) : bool :=
  match a, b with
  | [a0; a1; a2; a3], [b0; b1; b2; b3] => (a0 =? b0) && (a1 =? b1) && (a2 =? b2) && (a3 =? b3)
  | _, _ => false
  end.
Definition cc_VP8 := [86; 80; 56; 32].   (* "VP8 " *)
Definition cc_VP8X := [86; 80; 56; 88].
Definition cc_ALPH := [65; 76; 80; 72].
Definition cc_RIFF := [82; 73; 70; 70].
Definition cc_WEBP := [87; 69; 66; 80].

Fixpoint find_chunk (cc : list Z) (cs : list (list Z * list Z)) : option (list Z) :=
  match cs with
  | [] => None
  | (c, p) :: tl => if fourcc_eqb c cc then Some p else find_chunk cc tl
  end.

(* every 4th byte starting at offset 1 of an RGBA byte list: the green channel *)
Fixpoint greens (l : list Z) : list Z :=
  match l with _ :: g :: _ :: _ :: tl => g :: greens tl | _ => [] end.

(* the alpha plane of an ALPH chunk payload for a w x h image *)
Definition alpha_plane (w h : Z) (payload : list Z) : option (list Z) :=
  match payload with
  | [] => None
  | hb :: data =>
    if negb (header_ok hb) then None else
    let n := Z.to_nat (w * h) in
    let stream :=
      if header_compressed hb
      then match Spec.VP8L.decode_implicit_rgba w h data with Some px => Some (greens px) | None => None end
      else if Nat.leb n (length data) then Some (take n data) else None in
    match stream with
    | Some st => if Nat.eqb (length st) n then Some (unfilter (header_filter hb) (Z.to_nat w) st) else None
    | None => None
    end
  end.

Fixpoint weave (rgb alpha : list Z) : list Z :=
  match rgb, alpha with
  | r :: g :: b :: rgb', a :: alpha' => r :: g :: b :: a :: weave rgb' alpha'
  | _, _ => []
  end.

(* (width, height, has_alpha, pixel bytes) *)
Definition decode_still (file : list Z) : option (Z * Z * bool * list Z) :=
  match file with
  | r0 :: r1 :: r2 :: r3 :: _ :: _ :: _ :: _ :: w0 :: w1 :: w2 :: w3 :: body =>
    if negb (fourcc_eqb [r0; r1; r2; r3] cc_RIFF && fourcc_eqb [w0; w1; w2; w3] cc_WEBP) then None else
    let cs := chunks (length body) body in
    match find_chunk cc_VP8 cs with
    | None => None
    | Some vp8 =>
      match Spec.VP8.decode vp8 with
      | None => None
      | Some (w, h, yp, up, vp) =>
        let rgb := rgb_plane (Z.to_nat w) (Z.to_nat h) yp up vp in
        let has_alpha :=
          match cs with
          | (c, flags :: _) :: _ => fourcc_eqb c cc_VP8X && Z.testbit flags 4
          | _ => false
          end in
        if negb has_alpha then Some (w, h, false, rgb) else
        match find_chunk cc_ALPH cs with
        | None => Some (w, h, true, weave rgb (repeat 255 (Z.to_nat (w * h))))
        | Some a =>
          match alpha_plane w h a with
          | Some al => Some (w, h, true, weave rgb al)
          | None => None
          end
        end
      end
    end
  | _ => None
  end.

Definition still_spec_decode := decode_still.
Definition still_spec_alpha_plane := alpha_plane.
