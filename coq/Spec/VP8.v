(* Spec/VP8.v -- executable specification of VP8 key-frame decoding (RFC 6386), written from libwebp 1.3.1
   (dec/vp8_dec.c, dec/tree_dec.c, dec/quant_dec.c, dec/frame_dec.c, dsp/dec.c), the bit-exact reference available
   offline.  It is independent of src/vp8.rs: whole-frame formulation, no workspaces, no border bookkeeping.

     decode : list Z -> option (width * height * Y * U * V)

   takes the payload of a `VP8 ` chunk (starting with the 3-byte frame tag) and returns the planes libwebp's
   WebPDecodeYUV returns for that payload given as a raw bitstream, or None when libwebp rejects it.

   Stages.
     1 parse_header     frame tag, start code, sizes, first-partition header fields, token partitions
     2 parse_modes      per macroblock: segment id, skip flag, luma mode / 16 sub-block modes, chroma mode
     3 parse_tokens     per macroblock: DCT tokens -> dequantised coefficients (Y2 already inverse-WHT'ed into the
                        Y blocks), the "has non-zero coefficients" bit libwebp derives
     4 reconstruct      prediction + inverse DCT on macroblock-aligned planes, raster order, *unfiltered* neighbours
     5 loop_filter      whole frame, macroblock raster order, in place
     6 crop             width x height and ceil(width/2) x ceil(height/2)

   When the data runs out.  libwebp keeps decoding (zeros) and notices later: the first partition's eof_ is tested
   after the segment header, after the filter header and after the modes of each macroblock row; a token
   partition's eof_ after each macroblock of a row that uses it.  eof_ is sticky, every test leads to failure of the
   whole decode, so: decode = None iff the first partition is [starved] (BoolDec) when the last mode has been read,
   or a token partition that serves at least one macroblock row is starved after its last macroblock (an empty
   partition is starved from the start, even if every macroblock it serves is skipped).  Partitions that serve no
   row (more partitions than macroblock rows) are never looked at, except that the *last* partition must be
   non-empty (ParsePartitions returns SUSPENDED otherwise, which the one-shot API reports as failure).

   Arithmetic is exact (Z): the residual pipeline never wraps.  libwebp stores coefficients in int16_t and its SIMD
   transforms work in 16-bit lanes, so the reference is only well defined when every dequantised coefficient and
   every intermediate of the inverse WHT / DCT fits in 16 bits; [in_range] says so (always true for encoder-made
   streams).  decode itself does not depend on it.

   Deliberate mirroring of libwebp (see REPORT): key-frame defaults "absolute, all segment values 0" when
   segmentation is on without a data update; the per-block "nz" is the scan position after the last token read
   (16 when the block ends in explicit zero tokens) and drives both the contexts and the inner-edge filtering
   decision; colour-space, clamping, scale bits and the profile (0..3) do not influence decoding. *)
From Coq Require Import ZArith NArith List Bool.
From WebP Require Import Lib.Arr Spec.VP8Tables Spec.BoolDec.
Import ListNotations.
Open Scope Z_scope.

(* ------------------------------------------------------------------------------------------------------------ *)
(* 0. small helpers                                                                                             *)
(* ------------------------------------------------------------------------------------------------------------ *)
Definition nthZ {A} (l : list A) (i : Z) (d : A) : A := nth (Z.to_nat i) l d.
Definition clip (lo hi v : Z) : Z := if v <? lo then lo else if hi <? v then hi else v.
Definition clip255 (v : Z) : Z := clip 0 255 v.
Definition zabs (v : Z) : Z := Z.abs v.
Definition b2z (b : bool) : Z := if b then 1 else 0.
Definition isone (v : Z) : bool := v =? 1.
Definition fits16 (v : Z) : bool := (-32768 <=? v) && (v <=? 32767).

Fixpoint zlength_aux (l : list Z) (acc : Z) : Z := match l with [] => acc | _ :: tl => zlength_aux tl (acc + 1) end.
Definition zlength (l : list Z) : Z := zlength_aux l 0.

(* first n elements (reversed) and the rest; structural on the list *)
Fixpoint take_rev (l : list Z) (n : Z) (acc : list Z) : list Z * list Z :=
  match l with
  | [] => (acc, [])
  | x :: tl => if n <=? 0 then (acc, l) else take_rev tl (n - 1) (x :: acc)
  end.
Definition split_at (n : Z) (l : list Z) : list Z * list Z :=
  let '(a, b) := take_rev l n [] in (rev_append a [], b).

(* [f 0; f 1; ...; f (n-1)] *)
Fixpoint tabulate_aux {A} (f : Z -> A) (n : nat) (acc : list A) : list A :=
  match n with O => acc | S k => tabulate_aux f k (f (Z.of_nat k) :: acc) end.
Definition tabulate {A} (f : Z -> A) (n : nat) : list A := tabulate_aux f n [].

Fixpoint upd {A} (l : list A) (i : nat) (v : A) : list A :=
  match l, i with
  | [], _ => []
  | _ :: tl, O => v :: tl
  | x :: tl, S k => x :: upd tl k v
  end.
Definition updZ {A} (l : list A) (i : Z) (v : A) : list A := upd l (Z.to_nat i) v.

(* apply a reader n times *)
Fixpoint read_n (f : bstate -> Z * bstate) (n : nat) (s : bstate) (acc : list Z) : list Z * bstate :=
  match n with
  | O => (rev_append acc [], s)
  | S k => let '(v, s') := f s in read_n f k s' (v :: acc)
  end.

(* ------------------------------------------------------------------------------------------------------------ *)
(* 1. frame header (RFC 9.1 - 9.11, 19.2; vp8_dec.c VP8GetInfo / VP8GetHeaders)                                 *)
(* ------------------------------------------------------------------------------------------------------------ *)
Record header := mkH {
  h_width : Z; h_height : Z; h_xscale : Z; h_yscale : Z; h_profile : Z;
  h_color_space : Z; h_clamp_type : Z;
  h_use_segment : bool; h_update_map : bool; h_absolute : bool;
  h_seg_quant : list Z; h_seg_filter : list Z; h_seg_probs : list Z;
  h_simple : bool; h_level : Z; h_sharpness : Z;
  h_use_lf_delta : bool; h_ref_lf_delta : list Z; h_mode_lf_delta : list Z;
  h_num_parts : Z;
  h_base_q : Z; h_dqy1_dc : Z; h_dqy2_dc : Z; h_dqy2_ac : Z; h_dquv_dc : Z; h_dquv_ac : Z;
  h_probas : list (list (list (list Z)));
  h_use_skip : bool; h_skip_p : Z
}.

Definition mb_w (h : header) : Z := Z.shiftr (h_width h + 15) 4.
Definition mb_h (h : header) : Z := Z.shiftr (h_height h + 15) 4.

(* "flag ? value : default" *)
Definition read_opt_lit (n dflt : Z) (s : bstate) : Z * bstate :=
  let '(f, s1) := read_flag s in if isone f then read_literal n s1 else (dflt, s1).

(* optional update of one delta: "if flag then signed 6 bits else keep" *)
Fixpoint read_delta_updates (old : list Z) (s : bstate) (acc : list Z) : list Z * bstate :=
  match old with
  | [] => (rev_append acc [], s)
  | d :: tl =>
    let '(f, s1) := read_flag s in
    if isone f then let '(v, s2) := read_signed 6 s1 in read_delta_updates tl s2 (v :: acc)
    else read_delta_updates tl s1 (d :: acc)
  end.

(* coefficient probability updates (RFC 13.4; tree_dec.c VP8ParseProba): same nesting as the tables *)
Fixpoint parse_proba_row (upd0 dflt : list Z) (s : bstate) (acc : list Z) : list Z * bstate :=
  match upd0, dflt with
  | u :: utl, d :: dtl =>
    let '(f, s1) := read_bool u s in
    if isone f then let '(v, s2) := read_literal 8 s1 in parse_proba_row utl dtl s2 (v :: acc)
    else parse_proba_row utl dtl s1 (d :: acc)
  | _, _ => (rev_append acc [], s)
  end.
Fixpoint parse_proba_3 (u d : list (list Z)) (s : bstate) (acc : list (list Z)) : list (list Z) * bstate :=
  match u, d with
  | u0 :: utl, d0 :: dtl => let '(r, s1) := parse_proba_row u0 d0 s [] in parse_proba_3 utl dtl s1 (r :: acc)
  | _, _ => (rev_append acc [], s)
  end.
Fixpoint parse_proba_2 (u d : list (list (list Z))) (s : bstate) (acc : list (list (list Z)))
  : list (list (list Z)) * bstate :=
  match u, d with
  | u0 :: utl, d0 :: dtl => let '(r, s1) := parse_proba_3 u0 d0 s [] in parse_proba_2 utl dtl s1 (r :: acc)
  | _, _ => (rev_append acc [], s)
  end.
Fixpoint parse_proba_1 (u d : list (list (list (list Z)))) (s : bstate) (acc : list (list (list (list Z))))
  : list (list (list (list Z))) * bstate :=
  match u, d with
  | u0 :: utl, d0 :: dtl => let '(r, s1) := parse_proba_2 u0 d0 s [] in parse_proba_1 utl dtl s1 (r :: acc)
  | _, _ => (rev_append acc [], s)
  end.

(* token partitions (RFC 9.5; vp8_dec.c ParsePartitions).  [buf] = the bytes after the first partition.
   n-1 three-byte little-endian sizes, then the partitions; a size larger than what is left is cut down; the last
   partition takes the remainder and must not be empty. *)
Fixpoint cut_partitions (sizes : list Z) (body : list Z) (acc : list (list Z)) : list (list Z) * list Z :=
  match sizes with
  | [] => (acc, body)
  | sz :: tl => let '(p, r) := split_at sz body in cut_partitions tl r (p :: acc)
  end.
Fixpoint le24_list (l : list Z) (n : nat) : list Z :=
  match n, l with
  | S k, b0 :: b1 :: b2 :: tl => (b0 + 256 * b1 + 65536 * b2) :: le24_list tl k
  | _, _ => []
  end.
Definition parse_partitions (num_parts : Z) (buf : list Z) : option (list (list Z)) :=
  let last := num_parts - 1 in
  if zlength buf <? 3 * last then None else
  let '(szbytes, body) := split_at (3 * last) buf in
  let sizes := le24_list szbytes (Z.to_nat last) in
  let '(racc, lastp) := cut_partitions sizes body [] in
  match lastp with
  | [] => None
  | _ => Some (rev_append racc [lastp])
  end.

Definition parse_header (data : list Z) : option (header * bstate * list (list Z)) :=
  match data with
  | b0 :: b1 :: b2 :: b3 :: b4 :: b5 :: b6 :: b7 :: b8 :: b9 :: body =>
    let bits := b0 + 256 * b1 + 65536 * b2 in
    let key_frame := Z.even bits in
    let profile := Z.land (Z.shiftr bits 1) 7 in
    let show := Z.land (Z.shiftr bits 4) 1 in
    let part_len := Z.shiftr bits 5 in
    let width := Z.land (b6 + 256 * b7) 16383 in
    let height := Z.land (b8 + 256 * b9) 16383 in
    if negb key_frame then None else
    if 3 <? profile then None else
    if show =? 0 then None else
    if negb ((b3 =? 157) && (b4 =? 1) && (b5 =? 42)) then None else
    if (width =? 0) || (height =? 0) then None else
    if zlength body <? part_len then None else
    let '(p0, after) := split_at part_len body in
    let s := bd_init p0 in
    let '(color_space, s) := read_flag s in
    let '(clamp_type, s) := read_flag s in
    (* segmentation, RFC 9.3 *)
    let '(use_seg, s) := read_flag s in
    let '(seg, s) :=
      if isone use_seg then
        let '(update_map, s) := read_flag s in
        let '(update_data, s) := read_flag s in
        let '(dat, s) :=
          if isone update_data then
            let '(absolute, s) := read_flag s in
            let '(q, s) := read_n (read_opt_signed 7) 4 s [] in
            let '(f, s) := read_n (read_opt_signed 6) 4 s [] in
            ((isone absolute, q, f), s)
          else ((true, [0; 0; 0; 0], [0; 0; 0; 0]), s) in
        let '(probs, s) :=
          if isone update_map then read_n (read_opt_lit 8 255) 3 s [] else ([255; 255; 255], s) in
        ((isone update_map, dat, probs), s)
      else ((false, (true, [0; 0; 0; 0], [0; 0; 0; 0]), [255; 255; 255]), s) in
    let '(update_map, (absolute, seg_q, seg_f), seg_probs) := seg in
    (* loop filter, RFC 9.6 *)
    let '(simple, s) := read_flag s in
    let '(level, s) := read_literal 6 s in
    let '(sharpness, s) := read_literal 3 s in
    let '(use_lf_delta, s) := read_flag s in
    let '(deltas, s) :=
      if isone use_lf_delta then
        let '(upd_delta, s) := read_flag s in
        if isone upd_delta then
          let '(r, s) := read_delta_updates [0; 0; 0; 0] s [] in
          let '(m, s) := read_delta_updates [0; 0; 0; 0] s [] in
          ((r, m), s)
        else (([0; 0; 0; 0], [0; 0; 0; 0]), s)
      else (([0; 0; 0; 0], [0; 0; 0; 0]), s) in
    let '(ref_d, mode_d) := deltas in
    (* partitions, RFC 9.5 *)
    let '(lg, s) := read_literal 2 s in
    let num_parts := Z.shiftl 1 lg in
    match parse_partitions num_parts after with
    | None => None
    | Some parts =>
      (* quantiser indices, RFC 9.6 *)
      let '(base_q, s) := read_literal 7 s in
      let '(dqy1_dc, s) := read_opt_signed 4 s in
      let '(dqy2_dc, s) := read_opt_signed 4 s in
      let '(dqy2_ac, s) := read_opt_signed 4 s in
      let '(dquv_dc, s) := read_opt_signed 4 s in
      let '(dquv_ac, s) := read_opt_signed 4 s in
      (* refresh_entropy_probs: read and ignored on a still *)
      let '(_, s) := read_flag s in
      let '(probas, s) := parse_proba_1 coeffs_update_proba coeffs_proba0 s [] in
      let '(use_skip, s) := read_flag s in
      let '(skip_p, s) := if isone use_skip then read_literal 8 s else (0, s) in
      Some (mkH width height (Z.shiftr b7 6) (Z.shiftr b9 6) profile color_space clamp_type
                (isone use_seg) update_map absolute seg_q seg_f seg_probs
                (isone simple) level sharpness (isone use_lf_delta) ref_d mode_d
                num_parts base_q dqy1_dc dqy2_dc dqy2_ac dquv_dc dquv_ac probas (isone use_skip) skip_p,
            s, parts)
    end
  | _ => None
  end.

(* dequantisation factors of one segment (RFC 9.6, 14.1; quant_dec.c VP8ParseQuant) *)
Record quant := mkQ { q_y1dc : Z; q_y1ac : Z; q_y2dc : Z; q_y2ac : Z; q_uvdc : Z; q_uvac : Z }.
Definition segment_quant (h : header) (seg : Z) : quant :=
  let q := if h_use_segment h
           then nthZ (h_seg_quant h) seg 0 + (if h_absolute h then 0 else h_base_q h)
           else h_base_q h in
  let y2ac := nthZ kAcTable (clip 0 127 (q + h_dqy2_ac h)) 0 * 155 / 100 in
  mkQ (nthZ kDcTable (clip 0 127 (q + h_dqy1_dc h)) 0)
      (nthZ kAcTable (clip 0 127 q) 0)
      (nthZ kDcTable (clip 0 127 (q + h_dqy2_dc h)) 0 * 2)
      (if y2ac <? 8 then 8 else y2ac)
      (nthZ kDcTable (clip 0 117 (q + h_dquv_dc h)) 0)
      (nthZ kAcTable (clip 0 127 (q + h_dquv_ac h)) 0).

(* loop-filter parameters of a (segment, is_i4x4) class (RFC 9.6, 15.2; frame_dec.c PrecomputeFilterStrengths).
   filter_type: 0 = off (frame level 0), 1 = simple, 2 = normal.  limit = 0 means "do not filter". *)
Record finfo := mkF { f_limit : Z; f_ilevel : Z; f_hev : Z }.
Definition filter_type (h : header) : Z := if h_level h =? 0 then 0 else if h_simple h then 1 else 2.
Definition filter_strength (h : header) (seg : Z) (i4x4 : bool) : finfo :=
  let base := if h_use_segment h
              then nthZ (h_seg_filter h) seg 0 + (if h_absolute h then 0 else h_level h)
              else h_level h in
  let level := if h_use_lf_delta h
               then base + nthZ (h_ref_lf_delta h) 0 0 + (if i4x4 then nthZ (h_mode_lf_delta h) 0 0 else 0)
               else base in
  let level := clip 0 63 level in
  if 0 <? level then
    let sh := h_sharpness h in
    let il := if 0 <? sh
              then (let t := if 4 <? sh then Z.shiftr level 2 else Z.shiftr level 1 in
                    if 9 - sh <? t then 9 - sh else t)
              else level in
    let il := if il <? 1 then 1 else il in
    mkF (2 * level + il) il (if 40 <=? level then 2 else if 15 <=? level then 1 else 0)
  else mkF 0 0 0.

(* ------------------------------------------------------------------------------------------------------------ *)
(* 2. per-macroblock modes (RFC 9.3, 9.11, 11.2 - 11.5; tree_dec.c ParseIntraMode)                              *)
(* ------------------------------------------------------------------------------------------------------------ *)
(* m_ymode: DC/TM/V/H for a 16x16 macroblock, B_PRED when m_i4; m_imodes: the 16 sub-block modes in raster order
   (only when m_i4).  All in libwebp numbering (VP8Tables). *)
Record mbmode := mkM { m_seg : Z; m_skip : bool; m_i4 : bool; m_ymode : Z; m_imodes : list Z; m_uvmode : Z }.

(* sub-block mode: libwebp walks kYModesIntra4 (i = T[bit(prob[0])]; while i > 0: i = T[2i + bit(prob[i])]);
   that is treed_read on the re-encoded tree [bmode_tree] *)
Definition read_bmode (top left : Z) (s : bstate) : Z * bstate :=
  treed_read bmode_tree (nthZ (nthZ kBModesProba top []) left []) 0 s.

(* one row of four sub-blocks: contexts = the modes above (list of 4) and the mode to the left *)
Fixpoint read_bmode_row (top : list Z) (left : Z) (s : bstate) (acc : list Z) : list Z * Z * bstate :=
  match top with
  | [] => (rev_append acc [], left, s)
  | t :: tl => let '(m, s') := read_bmode t left s in read_bmode_row tl m s' (m :: acc)
  end.
(* four rows: returns the 16 modes, the new top context (last row) and the new left context (last column) *)
Fixpoint read_bmode_rows (top : list Z) (lefts : list Z) (s : bstate) (modes newleft : list Z)
  : list Z * list Z * list Z * bstate :=
  match lefts with
  | [] => (modes, top, rev_append newleft [], s)
  | l :: tl =>
    let '(row, last, s') := read_bmode_row top l s [] in
    read_bmode_rows row tl s' (modes ++ row) (last :: newleft)
  end.

(* modes of one macroblock; top4/left4 = sub-block mode contexts (a 16x16 mode m leaves context m: in libwebp's
   numbering DC/TM/V/H coincide with B_DC/B_TM/B_VE/B_HE) *)
Definition parse_mb_mode (h : header) (top4 left4 : list Z) (s : bstate) : mbmode * list Z * list Z * bstate :=
  let '(seg, s) := if h_update_map h then treed_read segment_tree (h_seg_probs h) 0 s else (0, s) in
  let '(skip, s) := if h_use_skip h then read_bool (h_skip_p h) s else (0, s) in
  let '(ym, s) := treed_read kf_ymode_tree kf_ymode_prob 0 s in
  let '(i4, imodes, top4', left4', s) :=
    if ym =? B_PRED then
      let '(modes, t, l, s) := read_bmode_rows top4 left4 s [] [] in (true, modes, t, l, s)
    else (false, [], [ym; ym; ym; ym], [ym; ym; ym; ym], s) in
  let '(uv, s) := treed_read uv_mode_tree uv_mode_prob 0 s in
  (mkM seg (isone skip) i4 ym imodes uv, top4', left4', s).

(* one macroblock row: [tops] = 4 contexts per macroblock from the row above *)
Fixpoint parse_mode_row (h : header) (n : nat) (tops : list Z) (left4 : list Z) (s : bstate)
                        (acc : list mbmode) (newtops : list Z) : list mbmode * list Z * bstate :=
  match n with
  | O => (rev_append acc [], rev_append newtops [], s)
  | S k =>
    let '(top4, rest_tops) := split_at 4 tops in
    let '(m, t', l', s') := parse_mb_mode h top4 left4 s in
    parse_mode_row h k rest_tops l' s' (m :: acc) (rev_append t' newtops)
  end.

(* all rows; contexts start as B_DC_PRED above the frame and at the left of every row *)
Fixpoint parse_mode_rows (h : header) (rows : nat) (tops : list Z) (s : bstate) (acc : list (list mbmode))
  : list (list mbmode) * bstate :=
  match rows with
  | O => (rev_append acc [], s)
  | S k =>
    let '(row, tops', s') := parse_mode_row h (Z.to_nat (mb_w h)) tops [0; 0; 0; 0] s [] [] in
    parse_mode_rows h k tops' s' (row :: acc)
  end.
Definition parse_modes (h : header) (s : bstate) : list (list mbmode) * bstate :=
  parse_mode_rows h (Z.to_nat (mb_h h)) (tabulate (fun _ => 0) (Z.to_nat (4 * mb_w h))) s [].

(* ------------------------------------------------------------------------------------------------------------ *)
(* 3. residual tokens (RFC 13; vp8_dec.c GetCoeffs / GetLargeValue / ParseResiduals)                            *)
(* ------------------------------------------------------------------------------------------------------------ *)
(* extra bits of a category: most significant first *)
Fixpoint read_extra (probs : list Z) (acc : Z) (s : bstate) : Z * bstate :=
  match probs with
  | [] => (acc, s)
  | p :: tl => let '(b, s') := read_bool p s in read_extra tl (2 * acc + b) s'
  end.
(* magnitude of a non-zero, non-EOB token *)
Definition token_magnitude (tok : Z) (s : bstate) : Z * bstate :=
  if tok <=? 4 then (tok, s)
  else let '(e, s') := read_extra (nthZ cat_probs (tok - 5) []) 0 s in (nthZ cat_base (tok - 5) 0 + e, s').

(* One block.  [bands] = probabilities of the block type: [band][ctx][11].  Position n runs from [first] (1 for the
   Y blocks of a 16x16 macroblock, whose DC travels in Y2) to 15; the probabilities of position n are those of band
   kBands[n] and of the context: for the first position the neighbour context, afterwards 0 / 1 / 2 when the
   previous token was zero / one / larger.  After a zero token the end-of-block branch is skipped (start index 2).
   Result: the coefficients in *scan* order, reversed (one entry per position visited, starting at position 0),
   libwebp's return value nz (the position at which EOB was read, 16 if the scan ran to the end), and whether
   every coefficient fits int16. *)
Fixpoint get_coeffs_loop (fuel : nat) (bands : list (list (list Z))) (dc ac : Z) (n ctx : Z) (after_zero : bool)
                         (acc : list Z) (ok : bool) (s : bstate) : list Z * Z * bool * bstate :=
  match fuel with
  | O => (acc, n, ok, s)
  | S k =>
    if 16 <=? n then (acc, 16, ok, s) else
    let p := nthZ (nthZ bands (nthZ kBands n 0) []) ctx [] in
    let '(tok, s1) := treed_read coeff_tree p (if after_zero then 2 else 0) s in
    if tok =? DCT_EOB then (acc, n, ok, s1)
    else if tok =? 0 then get_coeffs_loop k bands dc ac (n + 1) 0 true (0 :: acc) ok s1
    else
      let '(v, s2) := token_magnitude tok s1 in
      let '(sg, s3) := read_bool 128 s2 in
      let c := (if isone sg then - v else v) * (if 0 <? n then ac else dc) in
      get_coeffs_loop k bands dc ac (n + 1) (if v =? 1 then 1 else 2) false (c :: acc) (ok && fits16 c) s3
  end.

Definition zero16 : list Z := [0; 0; 0; 0; 0; 0; 0; 0; 0; 0; 0; 0; 0; 0; 0; 0].
(* scan order -> raster order: out[kZigzag[n]] = scan[n] *)
Fixpoint unzigzag (rev_scan : list Z) (n : Z) (out : list Z) : list Z :=
  match rev_scan with
  | [] => out
  | c :: tl => unzigzag tl (n - 1) (if c =? 0 then out else updZ out (nthZ kZigzag n 0) c)
  end.

(* block in raster order, nz, in-range flag *)
Definition get_coeffs (bands : list (list (list Z))) (ctx dc ac first : Z) (s : bstate) : list Z * Z * bool * bstate :=
  let '(racc, nz, ok, s') :=
    get_coeffs_loop 17 bands dc ac first ctx false (if first =? 1 then [0] else []) true s in
  (unzigzag racc (zlength racc - 1) zero16, nz, ok, s').

(* inverse Walsh-Hadamard transform of the Y2 block (RFC 14.3; dsp/dec.c TransformWHT_C): 16 DC values, one per
   Y block in raster order.  Second component: all intermediates and results fit int16. *)
Definition iwht (b : list Z) : list Z * bool :=
  match b with
  | [i0; i1; i2; i3; i4; i5; i6; i7; i8; i9; i10; i11; i12; i13; i14; i15] =>
    let col := fun x0 x4 x8 x12 =>
      let a0 := x0 + x12 in let a1 := x4 + x8 in let a2 := x4 - x8 in let a3 := x0 - x12 in
      (a0 + a1, a3 + a2, a0 - a1, a3 - a2) in              (* tmp[0+i], tmp[4+i], tmp[8+i], tmp[12+i] *)
    let '(t0, t4, t8, t12) := col i0 i4 i8 i12 in
    let '(t1, t5, t9, t13) := col i1 i5 i9 i13 in
    let '(t2, t6, t10, t14) := col i2 i6 i10 i14 in
    let '(t3, t7, t11, t15) := col i3 i7 i11 i15 in
    let row := fun x0 x1 x2 x3 =>
      let dc := x0 + 3 in
      let a0 := dc + x3 in let a1 := x1 + x2 in let a2 := x1 - x2 in let a3 := dc - x3 in
      [Z.shiftr (a0 + a1) 3; Z.shiftr (a3 + a2) 3; Z.shiftr (a0 - a1) 3; Z.shiftr (a3 - a2) 3] in
    let big := fun x0 x1 x2 x3 => fits16 (zabs x0 + zabs x1 + zabs x2 + zabs x3 + 3) in
    (row t0 t1 t2 t3 ++ row t4 t5 t6 t7 ++ row t8 t9 t10 t11 ++ row t12 t13 t14 t15,
     big i0 i4 i8 i12 && big i1 i5 i9 i13 && big i2 i6 i10 i14 && big i3 i7 i11 i15 &&
     big t0 t1 t2 t3 && big t4 t5 t6 t7 && big t8 t9 t10 t11 && big t12 t13 t14 t15)
  | _ => (zero16, false)
  end.

(* non-zero contexts: for the row above, one record per macroblock column; for the left, one record *)
Record nzctx := mkC { c_y : list Z; c_u : list Z; c_v : list Z; c_dc : Z }.
Definition ctx0 : nzctx := mkC [0; 0; 0; 0] [0; 0] [0; 0] 0.

(* a row of blocks: contexts above (list) and to the left (one); returns blocks, new contexts above, new left *)
Fixpoint blocks_row (bands : list (list (list Z))) (dc ac first : Z) (tops : list Z) (l : Z) (s : bstate)
                    (blocks : list (list Z * Z)) (newtops : list Z) (ok : bool)
  : list (list Z * Z) * list Z * Z * bool * bstate :=
  match tops with
  | [] => (blocks, rev_append newtops [], l, ok, s)
  | t :: tl =>
    let '(b, nz, ok1, s') := get_coeffs bands (l + t) dc ac first s in
    let l' := b2z (first <? nz) in
    blocks_row bands dc ac first tl l' s' (blocks ++ [(b, nz)]) (l' :: newtops) (ok && ok1)
  end.
(* rows of blocks (4x4 for luma, 2x2 for a chroma plane) *)
Fixpoint blocks_rows (bands : list (list (list Z))) (dc ac first : Z) (tops lefts : list Z) (s : bstate)
                     (blocks : list (list Z * Z)) (newlefts : list Z) (ok : bool)
  : list (list Z * Z) * list Z * list Z * bool * bstate :=
  match lefts with
  | [] => (blocks, tops, rev_append newlefts [], ok, s)
  | l :: tl =>
    let '(bl, tops', l', ok1, s') := blocks_row bands dc ac first tops l s blocks [] ok in
    blocks_rows bands dc ac first tops' tl s' bl (l' :: newlefts) ok1
  end.

(* residual of one macroblock: 16 Y, 4 U, 4 V blocks of 16 raster-order coefficients (Y DC filled in from Y2) *)
Record mbres := mkR { r_y : list (list Z); r_u : list (list Z); r_v : list (list Z); r_nonzero : bool; r_ok : bool }.
Definition zero_blocks (n : nat) : list (list Z) := tabulate (fun _ => zero16) n.
Definition mbres0 : mbres := mkR (zero_blocks 16) (zero_blocks 4) (zero_blocks 4) false true.

(* libwebp's per-block code: non-zero iff nz > 1 or the first coefficient (after the WHT for Y) is non-zero *)
Definition block_nonzero (b : list Z * Z) : bool := (1 <? snd b) || negb (nthZ (fst b) 0 0 =? 0).
Fixpoint set_dcs (blocks : list (list Z * Z)) (dcs : list Z) : list (list Z * Z) :=
  match blocks, dcs with
  | (b, nz) :: tl, d :: dtl => (match b with _ :: r => d :: r | [] => [] end, nz) :: set_dcs tl dtl
  | _, _ => blocks
  end.

Definition parse_residuals (h : header) (m : mbmode) (top left : nzctx) (s : bstate)
  : mbres * nzctx * nzctx * bstate :=
  if h_use_skip h && m_skip m then
    let dc_t := if m_i4 m then c_dc top else 0 in
    let dc_l := if m_i4 m then c_dc left else 0 in
    (mbres0, mkC [0; 0; 0; 0] [0; 0] [0; 0] dc_t, mkC [0; 0; 0; 0] [0; 0] [0; 0] dc_l, s)
  else
    let q := segment_quant h (m_seg m) in
    let P := h_probas h in
    (* Y2 *)
    let '(dcs, dc_ctx, ok0, s) :=
      if m_i4 m then (None, None, true, s)
      else
        let '(b, nz, ok1, s1) := get_coeffs (nthZ P 1 []) (c_dc top + c_dc left) (q_y2dc q) (q_y2ac q) 0 s in
        let '(w, ok2) := iwht b in
        (Some w, Some (b2z (0 <? nz)), ok1 && ok2, s1) in
    let first := if m_i4 m then 0 else 1 in
    let ybands := nthZ P (if m_i4 m then 3 else 0) [] in
    let '(yb, ty, ly, ok1, s) := blocks_rows ybands (q_y1dc q) (q_y1ac q) first (c_y top) (c_y left) s [] [] ok0 in
    let yb := match dcs with Some w => set_dcs yb w | None => yb end in
    let '(ub, tu, lu, ok2, s) := blocks_rows (nthZ P 2 []) (q_uvdc q) (q_uvac q) 0 (c_u top) (c_u left) s [] [] ok1 in
    let '(vb, tv, lv, ok3, s) := blocks_rows (nthZ P 2 []) (q_uvdc q) (q_uvac q) 0 (c_v top) (c_v left) s [] [] ok2 in
    let nonzero := existsb block_nonzero yb || existsb block_nonzero ub || existsb block_nonzero vb in
    let dct := match dc_ctx with Some d => d | None => c_dc top end in
    let dcl := match dc_ctx with Some d => d | None => c_dc left end in
    (mkR (map fst yb) (map fst ub) (map fst vb) nonzero (ok3 && forallb (fun b => fits16 (nthZ (fst b) 0 0)) yb),
     mkC ty tu tv dct, mkC ly lu lv dcl, s).

(* one macroblock row read from one partition *)
Fixpoint parse_token_row (h : header) (modes : list mbmode) (tops : list nzctx) (left : nzctx) (s : bstate)
                         (acc : list mbres) (newtops : list nzctx) : list mbres * list nzctx * bstate :=
  match modes, tops with
  | m :: mtl, t :: ttl =>
    let '(r, t', l', s') := parse_residuals h m t left s in
    parse_token_row h mtl ttl l' s' (r :: acc) (t' :: newtops)
  | _, _ => (rev_append acc [], rev_append newtops [], s)
  end.

(* all rows: row r reads partition r mod n *)
Fixpoint parse_token_rows (h : header) (rows : list (list mbmode)) (r : Z) (tops : list nzctx)
                          (parts : list bstate) (acc : list (list mbres)) : list (list mbres) * list bstate :=
  match rows with
  | [] => (rev_append acc [], parts)
  | row :: tl =>
    let p := Z.land r (h_num_parts h - 1) in
    match nth_error parts (Z.to_nat p) with
    | None => (rev_append acc [], parts)
    | Some s =>
      let '(res, tops', s') := parse_token_row h row tops ctx0 s [] [] in
      parse_token_rows h tl (r + 1) tops' (upd parts (Z.to_nat p) s') (res :: acc)
    end
  end.
Definition parse_tokens (h : header) (modes : list (list mbmode)) (parts : list bstate)
  : list (list mbres) * list bstate :=
  parse_token_rows h modes 0 (tabulate (fun _ => ctx0) (Z.to_nat (mb_w h))) parts [].

(* ------------------------------------------------------------------------------------------------------------ *)
(* 4. reconstruction (RFC 12, 14; frame_dec.c ReconstructRow, dsp/dec.c)                                        *)
(* ------------------------------------------------------------------------------------------------------------ *)
(* A plane: macroblock-aligned, row-major.  Samples outside the frame, as seen by the predictors (RFC 12.2/12.3;
   ReconstructRow's initialisation of its work buffer): the row above the frame reads 127 everywhere, including its
   left end and beyond its right end; the column left of the frame reads 129 on rows 0 and below. *)
Record plane := mkP { p_w : Z; p_a : arr }.
Definition pget (p : plane) (x y : Z) : Z :=
  if y <? 0 then 127 else if x <? 0 then 129 else araw (p_a p) (Z.to_N (y * p_w p + x)).
Definition pset (p : plane) (x y v : Z) : plane := mkP (p_w p) (aset' (p_a p) (Z.to_N (y * p_w p + x)) v).
Definition plane_make (w hgt : Z) : plane := mkP w (amake (Z.to_N (w * hgt))).

(* inverse DCT (RFC 14.4; dsp/dec.c TransformOne_C): vertical pass, then horizontal pass with rounding; returns
   the 16 residuals in raster order and whether every intermediate fits int16 *)
Definition mul1 (a : Z) : Z := Z.shiftr (a * 20091) 16 + a.
Definition mul2 (a : Z) : Z := Z.shiftr (a * 35468) 16.
Definition idct (b : list Z) : list Z * bool :=
  match b with
  | [i0; i1; i2; i3; i4; i5; i6; i7; i8; i9; i10; i11; i12; i13; i14; i15] =>
    if forallb (fun c => c =? 0) b then (zero16, true) else
    let vert := fun x0 x4 x8 x12 =>
      let a := x0 + x8 in let b := x0 - x8 in
      let c := mul2 x4 - mul1 x12 in let d := mul1 x4 + mul2 x12 in
      (a + d, b + c, b - c, a - d) in                        (* tmp[4i+0 .. 4i+3] for column i *)
    let '(t0, t1, t2, t3) := vert i0 i4 i8 i12 in
    let '(t4, t5, t6, t7) := vert i1 i5 i9 i13 in
    let '(t8, t9, t10, t11) := vert i2 i6 i10 i14 in
    let '(t12, t13, t14, t15) := vert i3 i7 i11 i15 in
    let horiz := fun x0 x4 x8 x12 =>
      let dc := x0 + 4 in
      let a := dc + x8 in let b := dc - x8 in
      let c := mul2 x4 - mul1 x12 in let d := mul1 x4 + mul2 x12 in
      [Z.shiftr (a + d) 3; Z.shiftr (b + c) 3; Z.shiftr (b - c) 3; Z.shiftr (a - d) 3] in
    (* sufficient for every named intermediate of both passes to fit int16: |mul1 x| <= 2|x|, |mul2 x| <= |x| *)
    let small := fun x0 x4 x8 x12 => fits16 (zabs x0 + 4 + zabs x8 + 2 * zabs x4 + 2 * zabs x12 + zabs x4 + zabs x12) in
    (horiz t0 t4 t8 t12 ++ horiz t1 t5 t9 t13 ++ horiz t2 t6 t10 t14 ++ horiz t3 t7 t11 t15,
     small i0 i4 i8 i12 && small i1 i5 i9 i13 && small i2 i6 i10 i14 && small i3 i7 i11 i15 &&
     small t0 t4 t8 t12 && small t1 t5 t9 t13 && small t2 t6 t10 t14 && small t3 t7 t11 t15)
  | _ => (zero16, false)
  end.

(* write a 4x4 block: predicted values + residuals, clipped (dsp/dec.c STORE) *)
Fixpoint store_row (p : plane) (x y : Z) (pred res : list Z) (n : nat) : plane * list Z * list Z :=
  match n, pred, res with
  | S k, pv :: ptl, rv :: rtl => store_row (pset p x y (clip255 (pv + rv))) (x + 1) y ptl rtl k
  | _, _, _ => (p, pred, res)
  end.
Fixpoint store_rows (p : plane) (x y : Z) (pred res : list Z) (rows : nat) : plane :=
  match rows with
  | O => p
  | S k => let '(p', pred', res') := store_row p x y pred res 4 in store_rows p' x (y + 1) pred' res' k
  end.
Definition store4x4 (p : plane) (x y : Z) (pred res : list Z) : plane := store_rows p x y pred res 4.

Definition avg2 (a b : Z) : Z := Z.shiftr (a + b + 1) 1.
Definition avg3 (a b c : Z) : Z := Z.shiftr (a + 2 * b + c + 2) 2.

(* 4x4 sub-block prediction (RFC 12.3; dsp/dec.c DC4 TM4 VE4 HE4 RD4 VR4 LD4 VL4 HD4 HU4).
   X = above-left, A..D above, E..H above-right, I..L left.  Result: 16 values in raster order. *)
Definition pred4 (mode X A B C D E F G H I J K L : Z) : list Z :=
  if mode =? B_DC_PRED then
    let dc := Z.shiftr (A + B + C + D + I + J + K + L + 4) 3 in
    [dc; dc; dc; dc; dc; dc; dc; dc; dc; dc; dc; dc; dc; dc; dc; dc]
  else if mode =? B_TM_PRED then
    let t := fun l a => clip255 (a + l - X) in
    [t I A; t I B; t I C; t I D; t J A; t J B; t J C; t J D; t K A; t K B; t K C; t K D; t L A; t L B; t L C; t L D]
  else if mode =? B_VE_PRED then
    let a := avg3 X A B in let b := avg3 A B C in let c := avg3 B C D in let d := avg3 C D E in
    [a; b; c; d; a; b; c; d; a; b; c; d; a; b; c; d]
  else if mode =? B_HE_PRED then
    let a := avg3 X I J in let b := avg3 I J K in let c := avg3 J K L in let d := avg3 K L L in
    [a; a; a; a; b; b; b; b; c; c; c; c; d; d; d; d]
  else if mode =? B_RD_PRED then
    let v03 := avg3 J K L in let v13 := avg3 I J K in let v23 := avg3 X I J in let v33 := avg3 A X I in
    let v32 := avg3 B A X in let v31 := avg3 C B A in let v30 := avg3 D C B in
    [v33; v32; v31; v30;
     v23; v33; v32; v31;
     v13; v23; v33; v32;
     v03; v13; v23; v33]
  else if mode =? B_VR_PRED then
    let a00 := avg2 X A in let a10 := avg2 A B in let a20 := avg2 B C in let a30 := avg2 C D in
    let b03 := avg3 K J I in let b02 := avg3 J I X in let b01 := avg3 I X A in
    let b11 := avg3 X A B in let b21 := avg3 A B C in let b31 := avg3 B C D in
    [a00; a10; a20; a30;
     b01; b11; b21; b31;
     b02; a00; a10; a20;
     b03; b01; b11; b21]
  else if mode =? B_LD_PRED then
    let v00 := avg3 A B C in let v10 := avg3 B C D in let v20 := avg3 C D E in let v30 := avg3 D E F in
    let v31 := avg3 E F G in let v32 := avg3 F G H in let v33 := avg3 G H H in
    [v00; v10; v20; v30;
     v10; v20; v30; v31;
     v20; v30; v31; v32;
     v30; v31; v32; v33]
  else if mode =? B_VL_PRED then
    let a00 := avg2 A B in let a10 := avg2 B C in let a20 := avg2 C D in let a30 := avg2 D E in
    let b01 := avg3 A B C in let b11 := avg3 B C D in let b21 := avg3 C D E in let b31 := avg3 D E F in
    let b32 := avg3 E F G in let b33 := avg3 F G H in
    [a00; a10; a20; a30;
     b01; b11; b21; b31;
     a10; a20; a30; b32;
     b11; b21; b31; b33]
  else if mode =? B_HD_PRED then
    let a00 := avg2 I X in let a01 := avg2 J I in let a02 := avg2 K J in let a03 := avg2 L K in
    let b30 := avg3 A B C in let b20 := avg3 X A B in let b10 := avg3 I X A in
    let b11 := avg3 J I X in let b12 := avg3 K J I in let b13 := avg3 L K J in
    [a00; b10; b20; b30;
     a01; b11; a00; b10;
     a02; b12; a01; b11;
     a03; b13; a02; b12]
  else (* B_HU_PRED *)
    let a00 := avg2 I J in let a20 := avg2 J K in let a21 := avg2 K L in
    let b10 := avg3 I J K in let b30 := avg3 J K L in let b31 := avg3 K L L in
    [a00; b10; a20; b30;
     a20; b30; a21; b31;
     a21; b31; L; L;
     L; L; L; L].

(* one sub-block (sx, sy) of the macroblock (mx, my).  The four samples above-right of a sub-block of the rightmost
   column (sx = 3) are, for all four rows, those above-right of the *macroblock* (row 16*my - 1), and in the last
   macroblock column the sample (16*mx + 15, 16*my - 1) four times. *)
Definition recon_sub (mbw : Z) (p : plane) (mx my sx sy mode : Z) (res : list Z) : plane :=
  let x := 16 * mx + 4 * sx in
  let y := 16 * my + 4 * sy in
  let tr := fun i =>
    if sx <? 3 then pget p (x + 4 + i) (y - 1)
    else if mx =? mbw - 1 then pget p (16 * mx + 15) (16 * my - 1)
    else pget p (16 * mx + 16 + i) (16 * my - 1) in
  let pred := pred4 mode (pget p (x - 1) (y - 1))
                    (pget p x (y - 1)) (pget p (x + 1) (y - 1)) (pget p (x + 2) (y - 1)) (pget p (x + 3) (y - 1))
                    (tr 0) (tr 1) (tr 2) (tr 3)
                    (pget p (x - 1) y) (pget p (x - 1) (y + 1)) (pget p (x - 1) (y + 2)) (pget p (x - 1) (y + 3)) in
  store4x4 p x y pred res.

(* 16x16 and 8x8 prediction (RFC 12.2; dsp/dec.c DC16*, TM16, VE16, HE16 and the 8x8 chroma versions).
   [size] = 16 or 8, [sh] = log2 size.  DC uses both edges, only the available one at the frame's top row / left
   column, 128 in the corner.  Result: a function from (i, j) inside the block to the predicted value. *)
Definition sumZ (l : list Z) : Z := fold_left Z.add l 0.
Definition pred_big (p : plane) (size sh : Z) (mx my mode : Z) : Z -> Z -> Z :=
  let x := size * mx in
  let y := size * my in
  let n := Z.to_nat size in
  let top := tabulate (fun i => pget p (x + i) (y - 1)) n in
  let left := tabulate (fun j => pget p (x - 1) (y + j)) n in
  if mode =? DC_PRED then
    let dc :=
      if (0 <? mx) && (0 <? my) then Z.shiftr (sumZ top + sumZ left + size) (sh + 1)
      else if 0 <? mx then Z.shiftr (sumZ left + Z.shiftr size 1) sh        (* my = 0: no top *)
      else if 0 <? my then Z.shiftr (sumZ top + Z.shiftr size 1) sh         (* mx = 0: no left *)
      else 128 in
    fun _ _ => dc
  else if mode =? TM_PRED then
    let tl := pget p (x - 1) (y - 1) in
    fun i j => clip255 (nthZ top i 0 + nthZ left j 0 - tl)
  else if mode =? V_PRED then fun i _ => nthZ top i 0
  else (* H_PRED *) fun _ j => nthZ left j 0.

(* add the residual of block (sx, sy) of a plane to the prediction function and store *)
Definition recon_block (p : plane) (x0 y0 sx sy : Z) (pf : Z -> Z -> Z) (res : list Z) : plane :=
  let pred := tabulate (fun k => pf (4 * sx + Z.land k 3) (4 * sy + Z.shiftr k 2)) 16 in
  store4x4 p (x0 + 4 * sx) (y0 + 4 * sy) pred res.

Fixpoint recon_blocks (p : plane) (x0 y0 nb : Z) (pf : Z -> Z -> Z) (blocks : list (list Z)) (k : Z)
                      (ok : bool) : plane * bool :=
  match blocks with
  | [] => (p, ok)
  | b :: tl =>
    let '(res, ok1) := idct b in
    recon_blocks (recon_block p x0 y0 (k mod nb) (k / nb) pf res) x0 y0 nb pf tl (k + 1) (ok && ok1)
  end.
Fixpoint recon_subs (mbw : Z) (p : plane) (mx my : Z) (modes : list Z) (blocks : list (list Z)) (k : Z)
                    (ok : bool) : plane * bool :=
  match modes, blocks with
  | m :: mtl, b :: btl =>
    let '(res, ok1) := idct b in
    recon_subs mbw (recon_sub mbw p mx my (Z.land k 3) (Z.shiftr k 2) m res) mx my mtl btl (k + 1) (ok && ok1)
  | _, _ => (p, ok)
  end.

Record planes := mkPl { pl_y : plane; pl_u : plane; pl_v : plane; pl_ok : bool }.

Definition recon_mb (mbw : Z) (pl : planes) (mx my : Z) (m : mbmode) (r : mbres) : planes :=
  let '(py, ok1) :=
    if m_i4 m then recon_subs mbw (pl_y pl) mx my (m_imodes m) (r_y r) 0 true
    else recon_blocks (pl_y pl) (16 * mx) (16 * my) 4 (pred_big (pl_y pl) 16 4 mx my (m_ymode m)) (r_y r) 0 true in
  let '(pu, ok2) :=
    recon_blocks (pl_u pl) (8 * mx) (8 * my) 2 (pred_big (pl_u pl) 8 3 mx my (m_uvmode m)) (r_u r) 0 true in
  let '(pv, ok3) :=
    recon_blocks (pl_v pl) (8 * mx) (8 * my) 2 (pred_big (pl_v pl) 8 3 mx my (m_uvmode m)) (r_v r) 0 true in
  mkPl py pu pv (pl_ok pl && r_ok r && ok1 && ok2 && ok3).

Fixpoint recon_row (mbw : Z) (pl : planes) (mx my : Z) (modes : list mbmode) (res : list mbres) : planes :=
  match modes, res with
  | m :: mtl, r :: rtl => recon_row mbw (recon_mb mbw pl mx my m r) (mx + 1) my mtl rtl
  | _, _ => pl
  end.
Fixpoint recon_rows (mbw : Z) (pl : planes) (my : Z) (modes : list (list mbmode)) (res : list (list mbres)) : planes :=
  match modes, res with
  | m :: mtl, r :: rtl => recon_rows mbw (recon_row mbw pl 0 my m r) (my + 1) mtl rtl
  | _, _ => pl
  end.
Definition reconstruct (h : header) (modes : list (list mbmode)) (res : list (list mbres)) : planes :=
  let w := mb_w h in let hh := mb_h h in
  recon_rows w (mkPl (plane_make (16 * w) (16 * hh)) (plane_make (8 * w) (8 * hh)) (plane_make (8 * w) (8 * hh)) true)
             0 modes res.

(* ------------------------------------------------------------------------------------------------------------ *)
(* 5. loop filter (RFC 15; frame_dec.c DoFilter, dsp/dec.c)                                                     *)
(* ------------------------------------------------------------------------------------------------------------ *)
(* Edge positions are flat indices into a plane; [step] is the distance between the samples across the edge
   (1 for a vertical edge, the stride for a horizontal edge): p3 p2 p1 p0 | q0 q1 q2 q3 at i-4*step .. i+3*step. *)
Definition px (a : arr) (i : Z) : Z := araw a (Z.to_N i).
Definition wr (a : arr) (i v : Z) : arr := aset' a (Z.to_N i) v.
Definition sclip1 (v : Z) : Z := clip (-128) 127 v.     (* VP8ksclip1 *)
Definition sclip2 (v : Z) : Z := clip (-16) 15 v.       (* VP8ksclip2 *)

(* 4 * |p0 - q0| + |p1 - q1| <= 2 * thresh + 1 *)
Definition needs_filter (a : arr) (i step thresh : Z) : bool :=
  4 * zabs (px a (i - step) - px a i) + zabs (px a (i - 2 * step) - px a (i + step)) <=? 2 * thresh + 1.
Definition needs_filter2 (a : arr) (i step thresh ithresh : Z) : bool :=
  let p3 := px a (i - 4 * step) in let p2 := px a (i - 3 * step) in let p1 := px a (i - 2 * step) in
  let p0 := px a (i - step) in let q0 := px a i in let q1 := px a (i + step) in
  let q2 := px a (i + 2 * step) in let q3 := px a (i + 3 * step) in
  (4 * zabs (p0 - q0) + zabs (p1 - q1) <=? 2 * thresh + 1) &&
  (zabs (p3 - p2) <=? ithresh) && (zabs (p2 - p1) <=? ithresh) && (zabs (p1 - p0) <=? ithresh) &&
  (zabs (q3 - q2) <=? ithresh) && (zabs (q2 - q1) <=? ithresh) && (zabs (q1 - q0) <=? ithresh).
Definition hev (a : arr) (i step thresh : Z) : bool :=
  (thresh <? zabs (px a (i - 2 * step) - px a (i - step))) || (thresh <? zabs (px a (i + step) - px a i)).

(* DoFilter2: 4 samples in, 2 out *)
Definition do_filter2 (a : arr) (i step : Z) : arr :=
  let p1 := px a (i - 2 * step) in let p0 := px a (i - step) in let q0 := px a i in let q1 := px a (i + step) in
  let f := 3 * (q0 - p0) + sclip1 (p1 - q1) in
  let a1 := sclip2 (Z.shiftr (f + 4) 3) in
  let a2 := sclip2 (Z.shiftr (f + 3) 3) in
  wr (wr a (i - step) (clip255 (p0 + a2))) i (clip255 (q0 - a1)).
(* DoFilter4: 4 in, 4 out *)
Definition do_filter4 (a : arr) (i step : Z) : arr :=
  let p1 := px a (i - 2 * step) in let p0 := px a (i - step) in let q0 := px a i in let q1 := px a (i + step) in
  let f := 3 * (q0 - p0) in
  let a1 := sclip2 (Z.shiftr (f + 4) 3) in
  let a2 := sclip2 (Z.shiftr (f + 3) 3) in
  let a3 := Z.shiftr (a1 + 1) 1 in
  wr (wr (wr (wr a (i - 2 * step) (clip255 (p1 + a3))) (i - step) (clip255 (p0 + a2))) i (clip255 (q0 - a1)))
     (i + step) (clip255 (q1 - a3)).
(* DoFilter6: 6 in, 6 out *)
Definition do_filter6 (a : arr) (i step : Z) : arr :=
  let p2 := px a (i - 3 * step) in let p1 := px a (i - 2 * step) in let p0 := px a (i - step) in
  let q0 := px a i in let q1 := px a (i + step) in let q2 := px a (i + 2 * step) in
  let f := sclip1 (3 * (q0 - p0) + sclip1 (p1 - q1)) in
  let a1 := Z.shiftr (27 * f + 63) 7 in
  let a2 := Z.shiftr (18 * f + 63) 7 in
  let a3 := Z.shiftr (9 * f + 63) 7 in
  wr (wr (wr (wr (wr (wr a (i - 3 * step) (clip255 (p2 + a3))) (i - 2 * step) (clip255 (p1 + a2)))
     (i - step) (clip255 (p0 + a1))) i (clip255 (q0 - a1))) (i + step) (clip255 (q1 - a2))) (i + 2 * step) (clip255 (q2 - a3)).

(* n positions along an edge, [along] apart *)
Fixpoint edge_loop (f : arr -> Z -> arr) (a : arr) (i along : Z) (n : nat) : arr :=
  match n with O => a | S k => edge_loop f (f a i) (i + along) along k end.

Definition simple_edge (step thresh : Z) (a : arr) (i : Z) : arr :=
  if needs_filter a i step thresh then do_filter2 a i step else a.
(* macroblock edges (FilterLoop26) and inner edges (FilterLoop24) of the normal filter *)
Definition mb_edge (step thresh ithresh hevt : Z) (a : arr) (i : Z) : arr :=
  if needs_filter2 a i step thresh ithresh then
    if hev a i step hevt then do_filter2 a i step else do_filter6 a i step
  else a.
Definition inner_edge (step thresh ithresh hevt : Z) (a : arr) (i : Z) : arr :=
  if needs_filter2 a i step thresh ithresh then
    if hev a i step hevt then do_filter2 a i step else do_filter4 a i step
  else a.

(* One macroblock of one plane.  [size] = 16 (luma) or 8 (chroma); inner edges every 4 samples.  Order: left
   macroblock edge, inner vertical edges, top macroblock edge, inner horizontal edges.  [fe] filters a macroblock
   edge position, [fi] an inner one, both given the step across the edge. *)
Fixpoint inner_edges (f : arr -> Z -> arr) (a : arr) (i0 off along : Z) (size : nat) (k : nat) : arr :=
  match k with
  | O => a
  | S k' => inner_edges f (edge_loop f a (i0 + off) along size) (i0 + off) off along size k'
  end.
Definition filter_mb_plane (fe fi : Z -> arr -> Z -> arr) (stride size : Z) (mx my : Z) (inner : bool) (a : arr) : arr :=
  let i0 := size * my * stride + size * mx in
  let n := Z.to_nat size in
  let ninner := Z.to_nat (size / 4 - 1) in
  let a := if 0 <? mx then edge_loop (fe 1) a i0 stride n else a in
  let a := if inner then inner_edges (fi 1) a i0 4 stride n ninner else a in
  let a := if 0 <? my then edge_loop (fe stride) a i0 1 n else a in
  let a := if inner then inner_edges (fi stride) a i0 (4 * stride) 1 n ninner else a in
  a.

(* filter one macroblock: parameters from its segment and kind; inner edges iff sub-block predicted or some
   coefficient block of it is non-zero in libwebp's sense (NOT the coded skip flag) *)
Definition filter_mb (h : header) (pl : planes) (mx my : Z) (m : mbmode) (r : mbres) : planes :=
  let fi := filter_strength h (m_seg m) (m_i4 m) in
  let limit := f_limit fi in
  if limit =? 0 then pl else
  let inner := m_i4 m || r_nonzero r in
  if filter_type h =? 1 then
    let fe := fun step => simple_edge step (limit + 4) in
    let fn := fun step => simple_edge step limit in
    mkPl (mkP (p_w (pl_y pl)) (filter_mb_plane fe fn (p_w (pl_y pl)) 16 mx my inner (p_a (pl_y pl))))
         (pl_u pl) (pl_v pl) (pl_ok pl)
  else
    let fe := fun step => mb_edge step (limit + 4) (f_ilevel fi) (f_hev fi) in
    let fn := fun step => inner_edge step limit (f_ilevel fi) (f_hev fi) in
    let go := fun p size => mkP (p_w p) (filter_mb_plane fe fn (p_w p) size mx my inner (p_a p)) in
    mkPl (go (pl_y pl) 16) (go (pl_u pl) 8) (go (pl_v pl) 8) (pl_ok pl).

Fixpoint filter_row (h : header) (pl : planes) (mx my : Z) (modes : list mbmode) (res : list mbres) : planes :=
  match modes, res with
  | m :: mtl, r :: rtl => filter_row h (filter_mb h pl mx my m r) (mx + 1) my mtl rtl
  | _, _ => pl
  end.
Fixpoint filter_rows (h : header) (pl : planes) (my : Z) (modes : list (list mbmode)) (res : list (list mbres)) : planes :=
  match modes, res with
  | m :: mtl, r :: rtl => filter_rows h (filter_row h pl 0 my m r) (my + 1) mtl rtl
  | _, _ => pl
  end.
Definition loop_filter (h : header) (modes : list (list mbmode)) (res : list (list mbres)) (pl : planes) : planes :=
  if filter_type h =? 0 then pl else filter_rows h pl 0 modes res.

(* ------------------------------------------------------------------------------------------------------------ *)
(* 6. crop and entry points                                                                                     *)
(* ------------------------------------------------------------------------------------------------------------ *)
Fixpoint crop_row (p : plane) (y : Z) (x : nat) (acc : list Z) : list Z :=
  match x with O => acc | S k => crop_row p y k (araw (p_a p) (Z.to_N (y * p_w p + Z.of_nat k)) :: acc) end.
Fixpoint crop_rows (p : plane) (w : nat) (y : nat) (acc : list Z) : list Z :=
  match y with O => acc | S k => crop_rows p w k (crop_row p (Z.of_nat k) w acc) end.
Definition crop (p : plane) (w hgt : Z) : list Z := crop_rows p (Z.to_nat w) (Z.to_nat hgt) [].

Record frame := mkFr { fr_w : Z; fr_h : Z; fr_y : list Z; fr_u : list Z; fr_v : list Z; fr_in_range : bool;
                       fr_header : header }.

Definition decode_frame (data : list Z) : option frame :=
  match parse_header data with
  | None => None
  | Some (h, s, parts) =>
    let '(modes, s') := parse_modes h s in
    if starved s' then None else
    let '(res, parts') := parse_tokens h modes (map bd_init parts) in
    let used := firstn (Z.to_nat (Z.min (h_num_parts h) (mb_h h))) parts' in
    if existsb starved used then None else
    let pl := loop_filter h modes res (reconstruct h modes res) in
    let w := h_width h in let hh := h_height h in
    let cw := Z.shiftr (w + 1) 1 in let ch := Z.shiftr (hh + 1) 1 in
    Some (mkFr w hh (crop (pl_y pl) w hh) (crop (pl_u pl) cw ch) (crop (pl_v pl) cw ch) (pl_ok pl) h)
  end.

Definition decode (data : list Z) : option (Z * Z * list Z * list Z * list Z) :=
  match decode_frame data with
  | Some f => Some (fr_w f, fr_h f, fr_y f, fr_u f, fr_v f)
  | None => None
  end.
(* the stream stays inside the 16-bit ranges libwebp's storage and SIMD kernels assume (sufficient condition) *)
Definition in_range (data : list Z) : bool :=
  match decode_frame data with Some f => fr_in_range f | None => false end.

(* Entry points for extraction.  The extracted OCaml lives in one flat namespace shared with the other areas, so the
   oracle plug-in only touches these distinctively named functions and plain tuples / lists (no record fields). *)
Definition vp8_spec_decode := decode.
Definition vp8_spec_in_range (data : list Z) : option bool :=
  match decode_frame data with Some f => Some (fr_in_range f) | None => None end.
(* width height use_segment update_map simple level sharpness use_lf_delta partitions base_q use_skip profile *)
Definition vp8_spec_header_summary (data : list Z) : option (list Z) :=
  match decode_frame data with
  | Some f => let h := fr_header f in
    Some [h_width h; h_height h; b2z (h_use_segment h); b2z (h_update_map h); b2z (h_simple h); h_level h; h_sharpness h;
          b2z (h_use_lf_delta h); h_num_parts h; h_base_q h; b2z (h_use_skip h); h_profile h]
  | None => None
  end.
(* trees by number, for `booldec` scripts: 0 segment, 1 key-frame ymode, 2 uv mode, 3 sub-block mode, 4 DCT tokens *)
Definition vp8_spec_tree (k : Z) : list Z :=
  nthZ [segment_tree; kf_ymode_tree; uv_mode_tree; bmode_tree; coeff_tree] k [].
