(* Canvas model of the WebP container specification ("Assembling the canvas from frames"), independent of the
   structure of the Rust code.

     canvas <- new image of the VP8X canvas size, filled with the background colour
     for each frame:   if the PREVIOUS frame's disposal method is "dispose to background", restore that frame's
                       rectangle (and only it) to the background colour;
                       then draw the frame at (2*X, 2*Y): overwrite, or alpha-blend ("over", non-premultiplied)
                       when its blending bit says so; the canvas after frame k is what is shown for its duration.

   The ANIM background colour is stored as [Blue, Green, Red, Alpha].  A frame whose bitstream has no alpha channel
   is opaque (alpha 255) everywhere.  The per-pixel "over" operator is an argument of every definition: the
   specification's operator is exact (Spec.Blend gives it as a pair of rationals N/D); the implementation's integer
   kernel is another instance.  [over_exact_at_extremes] and [over_within_bounds] say what an acceptable operator must
   satisfy (property C12 is the statement that the kernel does, apart from the known class at alpha 255).
   No proofs in this file. *)
From Coq Require Import ZArith List Bool.
From WebP Require Import Spec.Blend.
Import ListNotations.
Open Scope Z_scope.

(* (red, green, blue, alpha) *)
Definition pixel := (Z * Z * Z * Z)%type.
Definition p_red (p : pixel) : Z := let '(r, _, _, _) := p in r.
Definition p_green (p : pixel) : Z := let '(_, g, _, _) := p in g.
Definition p_blue (p : pixel) : Z := let '(_, _, b, _) := p in b.
Definition p_alpha (p : pixel) : Z := let '(_, _, _, a) := p in a.
(* channel 0,1,2,3 = red, green, blue, alpha *)
Definition p_chan (p : pixel) (c : Z) : Z :=
  if c =? 0 then p_red p else if c =? 1 then p_green p else if c =? 2 then p_blue p else p_alpha p.

(* a canvas gives the pixel at column x, row y *)
Definition canvas := Z -> Z -> pixel.

Record frame := {
  fr_x : Z; fr_y : Z;            (* offset of the top-left corner on the canvas (always even in a file) *)
  fr_w : Z; fr_h : Z;            (* frame size *)
  fr_duration : Z;               (* milliseconds *)
  fr_blend : bool;               (* true = alpha-blend onto the canvas, false = overwrite *)
  fr_dispose : bool;             (* true = restore this frame's rectangle to the background before the next frame *)
  fr_has_alpha : bool;           (* the bitstream carries an alpha channel *)
  fr_pixels : list pixel         (* fr_w * fr_h decoded pixels, row-major; alpha ignored when fr_has_alpha = false *)
}.

Record anim := {
  an_w : Z; an_h : Z;            (* canvas size (VP8X) *)
  an_alpha : bool;               (* VP8X alpha flag: output is RGBA, else RGB *)
  an_bg_stored : list Z;         (* the four background bytes in the order the ANIM chunk stores them *)
  an_frames : list frame
}.

(* the container stores Blue, Green, Red, Alpha *)
Definition background (stored : list Z) : pixel :=
  (nth 2 stored 0, nth 1 stored 0, nth 0 stored 0, nth 3 stored 0).

Definition in_rect (x0 y0 w h x y : Z) : bool :=
  (x0 <=? x) && (x <? x0 + w) && (y0 <=? y) && (y <? y0 + h).
Definition in_frame (f : frame) (x y : Z) : bool := in_rect (fr_x f) (fr_y f) (fr_w f) (fr_h f) x y.

(* pixel of the frame at frame-relative coordinates *)
Definition frame_pixel (f : frame) (x y : Z) : pixel :=
  let '(r, g, b, a) := nth (Z.to_nat (y * fr_w f + x)) (fr_pixels f) (0, 0, 0, 0) in
  (r, g, b, if fr_has_alpha f then a else 255).

(* restore the previous frame's rectangle -- and only that rectangle -- when that frame asked for disposal *)
Definition dispose (bg : pixel) (prev : option frame) (K : canvas) : canvas :=
  match prev with
  | Some p => if fr_dispose p then fun x y => if in_frame p x y then bg else K x y else K
  | None => K
  end.

(* a frame is alpha-blended when its flag says so; a frame without alpha channel is opaque everywhere, and "over"
   with an opaque source is the source, so it is drawn by overwriting (theorem draw_opaque_frame, Properties/C06.v
   shows the two readings agree for every operator that is exact on opaque sources) *)
Definition blends (f : frame) : bool := fr_blend f && fr_has_alpha f.

Definition draw (over : pixel -> pixel -> pixel) (f : frame) (K : canvas) : canvas :=
  fun x y =>
    if in_frame f x y then
      let s := frame_pixel f (x - fr_x f) (y - fr_y f) in
      if blends f then over s (K x y) else s
    else K x y.

(* the reading that blends whenever the flag is set (for the equivalence lemma) *)
Definition draw_by_flag (over : pixel -> pixel -> pixel) (f : frame) (K : canvas) : canvas :=
  fun x y =>
    if in_frame f x y then
      let s := frame_pixel f (x - fr_x f) (y - fr_y f) in
      if fr_blend f then over s (K x y) else s
    else K x y.

Definition step (over : pixel -> pixel -> pixel) (bg : pixel) (st : canvas * option frame) (f : frame)
  : canvas * option frame :=
  (draw over f (dispose bg (snd st) (fst st)), Some f).

Definition canvas0 (bg : pixel) : canvas := fun _ _ => bg.

Definition play_state (over : pixel -> pixel -> pixel) (A : anim) (n : nat) : canvas * option frame :=
  fold_left (step over (background (an_bg_stored A))) (firstn n (an_frames A)) (canvas0 (background (an_bg_stored A)), None).

(* the canvas shown for frame number k (k = 0 is the first frame) *)
Definition frames_upto (over : pixel -> pixel -> pixel) (A : anim) (k : nat) : canvas := fst (play_state over A (S k)).

Definition duration (A : anim) (k : nat) : Z :=
  match nth_error (an_frames A) k with Some f => fr_duration f | None => 0 end.

(* the delivered buffer: row-major, 4 bytes R,G,B,A per pixel when the file has the alpha flag, else 3 bytes R,G,B.
   Byte number i belongs to pixel number i / bpp, which is at column (i / bpp) mod W of row (i / bpp) / W. *)
Fixpoint zseq (n : nat) (a : Z) : list Z := match n with O => [] | S k => a :: zseq k (a + 1) end.

Definition render (has_alpha : bool) (W H : Z) (K : canvas) : list Z :=
  let bpp := if has_alpha then 4 else 3 in
  map (fun i => p_chan (K ((i / bpp) mod W) ((i / bpp) / W)) (i mod bpp)) (zseq (Z.to_nat (W * H * bpp)) 0).

(* -------------------------------------------------------------------------------------------------------- *)
(* validity of an animation: what the container format guarantees for a file that decodes                    *)
(* -------------------------------------------------------------------------------------------------------- *)
Definition valid_frame (W H : Z) (f : frame) : Prop :=
  0 <= fr_x f /\ 0 <= fr_y f /\ 1 <= fr_w f /\ 1 <= fr_h f /\
  fr_x f + fr_w f <= W /\ fr_y f + fr_h f <= H /\
  Z.of_nat (length (fr_pixels f)) = fr_w f * fr_h f.

Definition valid_anim (A : anim) : Prop :=
  1 <= an_w A /\ 1 <= an_h A /\ length (an_bg_stored A) = 4%nat /\
  an_frames A <> [] /\ Forall (valid_frame (an_w A) (an_h A)) (an_frames A).

(* -------------------------------------------------------------------------------------------------------- *)
(* requirements on the blend operator                                                                        *)
(* -------------------------------------------------------------------------------------------------------- *)
Definition pixel_ok (p : pixel) : Prop :=
  0 <= p_red p <= 255 /\ 0 <= p_green p <= 255 /\ 0 <= p_blue p <= 255 /\ 0 <= p_alpha p <= 255.

Definition over_transparent_exact (over : pixel -> pixel -> pixel) : Prop :=
  forall s d, pixel_ok s -> pixel_ok d -> p_alpha s = 0 -> over s d = d.
Definition over_opaque_exact (over : pixel -> pixel -> pixel) : Prop :=
  forall s d, pixel_ok s -> pixel_ok d -> p_alpha s = 255 -> over s d = s.
(* in between: the bounds of property C12 against the exact value N/D of Spec.Blend *)
Definition over_within_bounds (over : pixel -> pixel -> pixel) : Prop :=
  forall s d c, pixel_ok s -> pixel_ok d -> 0 < p_alpha s < 255 -> 0 <= c <= 2 ->
    let o := over s d in
    alpha_close (p_alpha s) (p_alpha d) (p_alpha o)
    /\ chan_close (p_chan s c) (p_alpha s) (p_chan d c) (p_alpha d) (p_chan o c) (p_alpha o)
    /\ chan_range (p_chan s c) (p_chan d c) (p_chan o c).

(* -------------------------------------------------------------------------------------------------------- *)
(* Playback positions under read_frame / reset_animation / read_image (property C07): the cursor machine.    *)
(* [shown] is the list of what a fresh decoder delivers, frame after frame.                                   *)
(* -------------------------------------------------------------------------------------------------------- *)
(* the three decoder calls, and the caller overwriting its own buffer with a byte value between calls *)
Inductive op := OpFrame | OpReset | OpImage | OpFill (v : Z).

(* number of frames consumed since the last reset, never beyond the number of frames n *)
Fixpoint cursor_after (n : nat) (ops : list op) (c : nat) : nat :=
  match ops with
  | [] => c
  | OpFrame :: tl => cursor_after n tl (if Nat.ltb c n then S c else c)
  | OpReset :: tl => cursor_after n tl O
  | OpImage :: tl => cursor_after n tl c
  | OpFill _ :: tl => cursor_after n tl c
  end.

(* what a fresh decoder shows: (duration, delivered buffer) for frame 0, 1, ... *)
Definition shown (over : pixel -> pixel -> pixel) (A : anim) : list (Z * list Z) :=
  map (fun k => (duration A k, render (an_alpha A) (an_w A) (an_h A) (frames_upto over A k)))
      (seq 0 (length (an_frames A))).

Inductive event :=
  | EvFrame (duration : Z)        (* read_frame succeeded *)
  | EvNoMoreFrames                (* read_frame: all frames consumed; the buffer is left as it was *)
  | EvImage                       (* read_image succeeded *)
  | EvReset
  | EvFill.                       (* not a decoder call: the caller filled its buffer *)

(* (event, buffer after the call) for each operation, starting with cursor c and buffer contents buf *)
Fixpoint cursor_run (sh : list (Z * list Z)) (ops : list op) (c : nat) (buf : list Z) : list (event * list Z) :=
  match ops with
  | [] => []
  | OpFrame :: tl =>
      match nth_error sh c with
      | Some (d, b) => (EvFrame d, b) :: cursor_run sh tl (S c) b
      | None => (EvNoMoreFrames, buf) :: cursor_run sh tl c buf
      end
  | OpReset :: tl => (EvReset, buf) :: cursor_run sh tl O buf
  | OpImage :: tl =>
      match nth_error sh O with
      | Some (_, b) => (EvImage, b) :: cursor_run sh tl c b
      | None => (EvNoMoreFrames, buf) :: cursor_run sh tl c buf
      end
  | OpFill v :: tl => (EvFill, map (fun _ => v) buf) :: cursor_run sh tl c (map (fun _ => v) buf)
  end.
