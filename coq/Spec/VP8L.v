(* Spec.VP8L -- executable specification of the WebP lossless (VP8L) bitstream.

   Written from the normative text "Specification for WebP Lossless Bitstream" (2023-03-09; the copy vendored
   with libwebp 1.3.1, doc/webp-lossless-bitstream-spec.txt).  Section numbers below refer to that text.  It is
   the independent reference the Rust decoder (src/lossless.rs) is judged against and deliberately shares no
   structure with it: bits are read one at a time, a prefix code is a binary tree that is walked bit by bit,
   images are decoded completely before the inverse transforms are applied, and every inverse transform is the
   per-pixel definition of the text.  It is total and executable (it is extracted into the oracle) and contains
   no proofs.

   Where the text is silent or ambiguous the behaviour of libwebp 1.3.1's decoder was taken (marked [libwebp]):
     - a prefix code is accepted iff its Kraft sum is exactly 1, or exactly one symbol has a non-zero length
       (ANY length 1..15, not only 1 as the text says); that symbol then costs zero bits; all lengths zero is
       invalid (VP8LBuildHuffmanTable).  The same rule applies to the code-length code;
     - a simple code marks code_lengths[symbol] = 1 inside an alphabet of the size of the symbol type: a symbol
       that is not below the alphabet size (possible only for the 40-symbol distance alphabet) is dropped;
       two equal symbols are one symbol; code words follow symbol order, not reading order;
     - max_symbol counts code-length *tokens* read (a repeat code counts once); a repeat running past the
       alphabet size is invalid; code 16 before any non-zero length repeats 8;
     - predictor mode = (green & 15); modes 14 and 15 predict 0xff000000;
     - a backward reference reaching before the first pixel or past the last pixel is invalid;
     - bits after the last pixel are ignored; needing a bit that is not there is invalid.  (libwebp agrees for
       whole payloads.  For headerless ALPH streams it is more lenient: data shorter than 8 bytes are padded
       with zero bits up to 64 bits, and its 8-bit alpha path tolerates an over-read in the last symbols.) *)
From Coq Require Import ZArith NArith List Bool.
From WebP Require Import Lib.Arr.
Import ListNotations.
Open Scope Z_scope.

Notation "'let*' p ':=' e 'in' f" := (match e with Some p => f | None => None end)
  (at level 200, p pattern, e at level 200, f at level 200, right associativity).

(* ------------------------------------------------------------------------------------------------------------ *)
(** * 1  ReadBits (section 1): bytes in stream order, bits of a byte least-significant first                      *)

(* the bits of the current byte not yet consumed, then the bytes not yet touched *)
Inductive stream := Stream (pending : list bool) (bytes : list Z).

Definition byte_bits (b : Z) : list bool := map (Z.testbit b) [0; 1; 2; 3; 4; 5; 6; 7].

Definition refill (s : stream) : stream :=
  match s with Stream [] (y :: bs) => Stream (byte_bits y) bs | _ => s end.

(* None = the data is exhausted: the stream is invalid *)
Definition read_bit (s : stream) : option (bool * stream) :=
  match refill s with Stream (b :: p) bs => Some (b, Stream p bs) | _ => None end.

(* ReadBits(n): the first bit read is the least significant bit of the result *)
Fixpoint read_bits (n : nat) (s : stream) : option (Z * stream) :=
  match n with
  | O => Some (0, s)
  | S k => let* (b, s) := read_bit s in
           let* (v, s) := read_bits k s in
           Some (Z.b2z b + 2 * v, s)
  end.

Fixpoint read_many (count : nat) (nbits : nat) (s : stream) : option (list Z * stream) :=
  match count with
  | O => Some ([], s)
  | S k => let* (v, s) := read_bits nbits s in
           let* (vs, s) := read_many k nbits s in
           Some (v :: vs, s)
  end.

(* ------------------------------------------------------------------------------------------------------------ *)
(** * 2  Small helpers: pixels, loops, lists                                                                      *)

(* ARGB pixel: alpha bits 31..24, red 23..16, green 15..8, blue 7..0 *)
Definition ALPHA (p : Z) := Z.land (Z.shiftr p 24) 255.
Definition RED (p : Z) := Z.land (Z.shiftr p 16) 255.
Definition GREEN (p : Z) := Z.land (Z.shiftr p 8) 255.
Definition BLUE (p : Z) := Z.land p 255.
Definition argb (a r g b : Z) : Z := ((a * 256 + r) * 256 + g) * 256 + b.
Definition per_channel (f : Z -> Z -> Z) (p q : Z) : Z :=
  argb (f (ALPHA p) (ALPHA q)) (f (RED p) (RED q)) (f (GREEN p) (GREEN q)) (f (BLUE p) (BLUE q)).
Definition add_pixels : Z -> Z -> Z := per_channel (fun a b => (a + b) mod 256).

Definition DIV_ROUND_UP (num den : Z) : Z := (num + den - 1) / den.

(* f 0, then f 1, ... f (n-1) applied to an accumulator *)
Definition for_range {A : Type} (n : Z) (f : Z -> A -> A) (a : A) : A :=
  snd (N.iter (Z.to_N n) (fun ia => (fst ia + 1, f (fst ia) (snd ia))) (0, a)).

(* step until `finished`, at most p times; None as soon as a step fails.  (Binary recursion on the bound, so a
   bound of 2^28 pixels costs nothing when the stream ends after a few steps.) *)
Section Run.
  Context {St : Type} (finished : St -> bool) (step : St -> option St).
  Fixpoint run (p : positive) (s : St) : option St :=
    if finished s then Some s else
    match p with
    | xH => step s
    | xO q => let* s := run q s in run q s
    | xI q => let* s := step s in let* s := run q s in run q s
    end.
End Run.

Fixpoint lookup {A : Type} (l : list A) (i : Z) : option A :=
  match l with [] => None | x :: t => if i =? 0 then Some x else lookup t (i - 1) end.

(* start, start+1, ... (len values) *)
Fixpoint zseq (start : Z) (len : nat) : list Z :=
  match len with O => [] | S k => start :: zseq (start + 1) k end.

Definition pix (a : arr) (i : Z) : Z := araw a (Z.to_N i).
Definition set_pix (a : arr) (i : Z) (v : Z) : arr := aset' a (Z.to_N i) v.
(* the cells 0 .. alen-1 in order (Arr.to_list converts every index from nat, which is quadratic) *)
Definition pixel_list (a : arr) : list Z :=
  let n := Z.of_N (alen a) in for_range n (fun i acc => pix a (n - 1 - i) :: acc) [].

(* ------------------------------------------------------------------------------------------------------------ *)
(** * 3  Prefix codes (section 6.2.1)                                                                             *)

(* A prefix code as the binary tree of its code words; a code with a single symbol is a bare leaf: reading it
   consumes no bits. *)
Inductive code := Unused | Symbol (sym : Z) | Branch (zero one : code).

Fixpoint read_symbol (c : code) (s : stream) : option (Z * stream) :=
  match c with
  | Unused => None
  | Symbol v => Some (v, s)
  | Branch c0 c1 => let* (b, s) := read_bit s in read_symbol (if b then c1 else c0) s
  end.

(* put `sym` at the end of the path spelled by the `len` low bits of `word`, most significant bit first *)
Fixpoint add_code_word (c : code) (len : nat) (word sym : Z) : code :=
  match len with
  | O => Symbol sym
  | S k =>
    let '(c0, c1) := match c with Branch c0 c1 => (c0, c1) | _ => (Unused, Unused) end in
    if Z.testbit word (Z.of_nat k) then Branch c0 (add_code_word c1 k word sym)
    else Branch (add_code_word c0 k word sym) c1
  end.

(* the used symbols as (symbol, length), sorted by length, then by symbol value *)
Definition used_symbols (lengths : list Z) : list (Z * Z) :=
  let numbered := combine (zseq 0 (length lengths)) lengths in
  flat_map (fun l => filter (fun sl => snd sl =? l) numbered) [1; 2; 3; 4; 5; 6; 7; 8; 9; 10; 11; 12; 13; 14; 15].

(* Canonical code: the first symbol gets the all-zero word; each following symbol gets the next binary number,
   extended with zeros on the right when its length is greater. *)
Fixpoint canonical_words (next len : Z) (syms : list (Z * Z)) : list (Z * Z * Z) :=
  match syms with
  | [] => []
  | (sym, l) :: rest => let w := next * 2 ^ (l - len) in (sym, l, w) :: canonical_words (w + 1) l rest
  end.

(* sum over the used symbols of 2^-length, in units of 2^-15 *)
Definition kraft_sum (lengths : list Z) : Z :=
  fold_left (fun acc l => if l =? 0 then acc else acc + 2 ^ (15 - l)) lengths 0.

(* "The described tree must be a complete binary tree.  A single leaf node is considered a complete binary tree." *)
Definition make_code (lengths : list Z) : option code :=
  match used_symbols lengths with
  | [] => None
  | [(sym, _)] => Some (Symbol sym)
  | used =>
    if kraft_sum lengths =? 2 ^ 15
    then Some (fold_left (fun c slw => match slw with (sym, l, w) => add_code_word c (Z.to_nat l) w sym end)
                         (canonical_words 0 0 used) Unused)
    else None
  end.

(* simple code length code: one or two symbols of length 1, all other lengths zero *)
Definition read_simple_lengths (alphabet_size : Z) (s : stream) : option (list Z * stream) :=
  let* (two, s) := read_bits 1 s in
  let* (is_first_8bits, s) := read_bits 1 s in
  let* (symbol0, s) := read_bits (if is_first_8bits =? 1 then 8 else 1) s in
  let* (symbols, s) := if two =? 1 then let* (symbol1, s) := read_bits 8 s in Some ([symbol0; symbol1], s)
                       else Some ([symbol0], s) in
  Some (map (fun i => if existsb (Z.eqb i) symbols then 1 else 0) (zseq 0 (Z.to_nat alphabet_size)), s).

Definition kCodeLengthCodeOrder : list Z := [17; 18; 0; 1; 2; 3; 4; 5; 16; 6; 7; 8; 9; 10; 11; 12; 13; 14; 15].

(* `todo` lengths are still missing, `tokens` code-length symbols may still be read, `prev` is the last
   non-zero length, `acc` the lengths so far in reverse.  Every token yields at least one length: fuel = todo. *)
Fixpoint read_lengths (fuel : nat) (clc : code) (todo tokens prev : Z) (acc : list Z) (s : stream)
  : option (list Z * stream) :=
  if (todo <=? 0) || (tokens <=? 0) then Some (rev_append acc (repeat 0 (Z.to_nat todo)), s) else
  match fuel with
  | O => None
  | S fuel =>
    let* (c, s) := read_symbol clc s in
    if c <? 16 then read_lengths fuel clc (todo - 1) (tokens - 1) (if c =? 0 then prev else c) (c :: acc) s
    else
      let '(extra_bits, base, value) :=
        if c =? 16 then (2%nat, 3, prev) else if c =? 17 then (3%nat, 3, 0) else (7%nat, 11, 0) in
      let* (x, s) := read_bits extra_bits s in
      let n := base + x in
      if n >? todo then None
      else read_lengths fuel clc (todo - n) (tokens - 1) prev (repeat value (Z.to_nat n) ++ acc) s
  end.

(* normal code length code *)
Definition read_normal_lengths (alphabet_size : Z) (s : stream) : option (list Z * stream) :=
  let* (n, s) := read_bits 4 s in
  let num_code_lengths := Z.to_nat (4 + n) in
  let* (vals, s) := read_many num_code_lengths 3 s in
  let given := combine (firstn num_code_lengths kCodeLengthCodeOrder) vals in
  let code_length_code_lengths :=
    map (fun k => match find (fun kv => fst kv =? k) given with Some kv => snd kv | None => 0 end)
        [0; 1; 2; 3; 4; 5; 6; 7; 8; 9; 10; 11; 12; 13; 14; 15; 16; 17; 18] in
  let* clc := make_code code_length_code_lengths in
  let* (use_max, s) := read_bits 1 s in
  let* (max_symbol, s) :=
    if use_max =? 0 then Some (alphabet_size, s)
    else let* (k, s) := read_bits 3 s in
         let* (m, s) := read_bits (Z.to_nat (2 + 2 * k)) s in
         Some (2 + m, s) in
  if max_symbol >? alphabet_size then None
  else read_lengths (Z.to_nat alphabet_size) clc alphabet_size max_symbol 8 [] s.

Definition read_prefix_code (alphabet_size : Z) (s : stream) : option (code * stream) :=
  let* (simple, s) := read_bits 1 s in
  let* (lengths, s) := if simple =? 1 then read_simple_lengths alphabet_size s
                       else read_normal_lengths alphabet_size s in
  let* c := make_code lengths in
  Some (c, s).

(* ------------------------------------------------------------------------------------------------------------ *)
(** * 4  Entropy-coded image data (sections 5 and 6.2)                                                            *)

(* prefix code group: #1 green / length / colour cache, #2 red, #3 blue, #4 alpha, #5 distance *)
Record group := { g_green : code; g_red : code; g_blue : code; g_alpha : code; g_dist : code }.

Definition read_group (cache_size : Z) (s : stream) : option (group * stream) :=
  let* (c1, s) := read_prefix_code (256 + 24 + cache_size) s in
  let* (c2, s) := read_prefix_code 256 s in
  let* (c3, s) := read_prefix_code 256 s in
  let* (c4, s) := read_prefix_code 256 s in
  let* (c5, s) := read_prefix_code 40 s in
  Some ({| g_green := c1; g_red := c2; g_blue := c3; g_alpha := c4; g_dist := c5 |}, s).

Fixpoint read_groups (n : nat) (cache_size : Z) (s : stream) : option (list group * stream) :=
  match n with
  | O => Some ([], s)
  | S k => let* (g, s) := read_group cache_size s in
           let* (gs, s) := read_groups k cache_size s in
           Some (g :: gs, s)
  end.

(* LZ77 prefix coding (5.2.2): value of a length or distance prefix code with its extra bits *)
Definition read_lz77_value (prefix_code : Z) (s : stream) : option (Z * stream) :=
  if prefix_code <? 4 then Some (prefix_code + 1, s) else
  let extra_bits := (prefix_code - 2) / 2 in
  let offset := (2 + prefix_code mod 2) * 2 ^ extra_bits in
  let* (x, s) := read_bits (Z.to_nat extra_bits) s in
  Some (offset + x + 1, s).

Definition distance_map : list (Z * Z) :=
  [(0, 1);  (1, 0);  (1, 1);  (-1, 1); (0, 2);  (2, 0);  (1, 2);
   (-1, 2); (2, 1);  (-2, 1); (2, 2);  (-2, 2); (0, 3);  (3, 0);
   (1, 3);  (-1, 3); (3, 1);  (-3, 1); (2, 3);  (-2, 3); (3, 2);
   (-3, 2); (0, 4);  (4, 0);  (1, 4);  (-1, 4); (4, 1);  (-4, 1);
   (3, 3);  (-3, 3); (2, 4);  (-2, 4); (4, 2);  (-4, 2); (0, 5);
   (3, 4);  (-3, 4); (4, 3);  (-4, 3); (5, 0);  (1, 5);  (-1, 5);
   (5, 1);  (-5, 1); (2, 5);  (-2, 5); (5, 2);  (-5, 2); (4, 4);
   (-4, 4); (3, 5);  (-3, 5); (5, 3);  (-5, 3); (0, 6);  (6, 0);
   (1, 6);  (-1, 6); (6, 1);  (-6, 1); (2, 6);  (-2, 6); (6, 2);
   (-6, 2); (4, 5);  (-4, 5); (5, 4);  (-5, 4); (3, 6);  (-3, 6);
   (6, 3);  (-6, 3); (0, 7);  (7, 0);  (1, 7);  (-1, 7); (5, 5);
   (-5, 5); (7, 1);  (-7, 1); (4, 6);  (-4, 6); (6, 4);  (-6, 4);
   (2, 7);  (-2, 7); (7, 2);  (-7, 2); (3, 7);  (-3, 7); (7, 3);
   (-7, 3); (5, 6);  (-5, 6); (6, 5);  (-6, 5); (8, 0);  (4, 7);
   (-4, 7); (7, 4);  (-7, 4); (8, 1);  (8, 2);  (6, 6);  (-6, 6);
   (8, 3);  (5, 7);  (-5, 7); (7, 5);  (-7, 5); (8, 4);  (6, 7);
   (-6, 7); (7, 6);  (-7, 6); (8, 5);  (7, 7);  (-7, 7); (8, 6);
   (8, 7)].

(* distance code -> distance in scan-line order; codes 1..120 address the neighbourhood of the pixel *)
Definition distance_of_code (xsize code : Z) : Z :=
  if code >? 120 then code - 120 else
  match lookup distance_map (code - 1) with
  | Some (xi, yi) => Z.max 1 (xi + yi * xsize)
  | None => 1
  end.

(* colour cache (5.2.3) *)
Definition cache_index (cache_bits color : Z) : Z :=
  Z.shiftr (Z.land (0x1e35a7bd * color) 0xffffffff) (32 - cache_bits).   (* the product is taken modulo 2^32 *)

(* what the pixel loop knows about the image it decodes; meta = (prefix_bits, entropy image) *)
Record image_info := { xsize : Z; ysize : Z; cache_bits : Z; groups : list group; meta : option (Z * arr) }.

Definition group_at (im : image_info) (x y : Z) : option group :=
  match meta im with
  | None => lookup (groups im) 0
  | Some (prefix_bits, entropy_image) =>
    let prefix_xsize := DIV_ROUND_UP (xsize im) (2 ^ prefix_bits) in
    let position := Z.shiftr y prefix_bits * prefix_xsize + Z.shiftr x prefix_bits in
    let meta_prefix_code := Z.land (Z.shiftr (pix entropy_image position) 8) 0xffff in
    lookup (groups im) meta_prefix_code
  end.

(* decoding state: `pos` pixels are decoded *)
Record state := { pos : Z; pixels : arr; cache : arr; input : stream }.

(* every decoded pixel is stored and inserted into the colour cache, whatever produced it *)
Definition emit (im : image_info) (color : Z) (st : state) : state :=
  {| pos := pos st + 1;
     pixels := set_pix (pixels st) (pos st) color;
     cache := if cache_bits im =? 0 then cache st else set_pix (cache st) (cache_index (cache_bits im) color) color;
     input := input st |}.

Fixpoint copy_pixels (im : image_info) (n : nat) (dist : Z) (st : state) : state :=
  match n with
  | O => st
  | S k => copy_pixels im k dist (emit im (pix (pixels st) (pos st - dist)) st)
  end.

Definition with_input (st : state) (s : stream) : state :=
  {| pos := pos st; pixels := pixels st; cache := cache st; input := s |}.

(* one symbol of prefix code #1 and what follows it (6.2.3) *)
Definition decode_step (im : image_info) (st : state) : option state :=
  let total := xsize im * ysize im in
  let* g := group_at im (pos st mod xsize im) (pos st / xsize im) in
  let* (sym, s) := read_symbol (g_green g) (input st) in
  if sym <? 256 then
    let* (red, s) := read_symbol (g_red g) s in
    let* (blue, s) := read_symbol (g_blue g) s in
    let* (alpha, s) := read_symbol (g_alpha g) s in
    Some (emit im (argb alpha red sym blue) (with_input st s))
  else if sym <? 256 + 24 then
    let* (length, s) := read_lz77_value (sym - 256) s in
    let* (dist_prefix, s) := read_symbol (g_dist g) s in
    let* (dist_code, s) := read_lz77_value dist_prefix s in
    let dist := distance_of_code (xsize im) dist_code in
    if (dist >? pos st) || (length >? total - pos st) then None
    else Some (copy_pixels im (Z.to_nat length) dist (with_input st s))
  else
    Some (emit im (pix (cache st) (sym - (256 + 24))) (with_input st s)).

Definition decode_pixels (im : image_info) (s : stream) : option (arr * stream) :=
  let total := xsize im * ysize im in
  let st0 := {| pos := 0; pixels := amake (Z.to_N total); cache := amake (Z.to_N (2 ^ cache_bits im)); input := s |} in
  let* st := run (fun st => total <=? pos st) (decode_step im) (Z.to_pos total) st0 in
  if total <=? pos st then Some (pixels st, input st) else None.

(* color-cache-info (7.3): 0 = no cache, else 1..11 bits *)
Definition read_cache_info (s : stream) : option (Z * stream) :=
  let* (present, s) := read_bits 1 s in
  if present =? 0 then Some (0, s) else
  let* (bits, s) := read_bits 4 s in
  if (1 <=? bits) && (bits <=? 11) then Some (bits, s) else None.

Definition cache_size_of (cache_bits : Z) : Z := if cache_bits =? 0 then 0 else 2 ^ cache_bits.

(* entropy-coded-image = color-cache-info data: the subresolution images and the colour table *)
Definition entropy_coded_image (w h : Z) (s : stream) : option (arr * stream) :=
  let* (cbits, s) := read_cache_info s in
  let* (g, s) := read_group (cache_size_of cbits) s in
  decode_pixels {| xsize := w; ysize := h; cache_bits := cbits; groups := [g]; meta := None |} s.

(* meta-prefix (6.2.2): the entropy image, if any, and the number of prefix code groups *)
Definition read_meta_prefix (w h : Z) (s : stream) : option (option (Z * arr) * Z * stream) :=
  let* (has_meta, s) := read_bits 1 s in
  if has_meta =? 0 then Some (None, 1, s) else
  let* (b, s) := read_bits 3 s in
  let prefix_bits := b + 2 in
  let* (entropy_image, s) :=
    entropy_coded_image (DIV_ROUND_UP w (2 ^ prefix_bits)) (DIV_ROUND_UP h (2 ^ prefix_bits)) s in
  let largest := fold_left (fun m p => Z.max m (Z.land (Z.shiftr p 8) 0xffff)) (pixel_list entropy_image) 0 in
  Some (Some (prefix_bits, entropy_image), largest + 1, s).

(* spatially-coded-image = color-cache-info meta-prefix data: the ARGB image itself *)
Definition spatially_coded_image (w h : Z) (s : stream) : option (arr * stream) :=
  let* (cbits, s) := read_cache_info s in
  let* (m, num_groups, s) := read_meta_prefix w h s in
  let* (gs, s) := read_groups (Z.to_nat num_groups) (cache_size_of cbits) s in
  decode_pixels {| xsize := w; ysize := h; cache_bits := cbits; groups := gs; meta := m |} s.

(* ------------------------------------------------------------------------------------------------------------ *)
(** * 5  Transforms (section 4)                                                                                   *)

(* Each transform remembers the width of the image it produces when inverted. *)
Inductive transform :=
| Predictor (width size_bits : Z) (modes : arr)
| ColorTransform (width size_bits : Z) (elements : arr)
| SubtractGreen
| ColorIndexing (width : Z) (color_table_size : Z) (color_table : arr).

(** ** 4.1 predictor *)
Definition Average2 : Z -> Z -> Z := per_channel (fun a b => (a + b) / 2).

Definition Select (L T TL : Z) : Z :=
  let estimate c := c L + c T - c TL in
  let distance_to P := Z.abs (estimate ALPHA - ALPHA P) + Z.abs (estimate RED - RED P) +
                       Z.abs (estimate GREEN - GREEN P) + Z.abs (estimate BLUE - BLUE P) in
  if distance_to L <? distance_to T then L else T.

Definition Clamp (a : Z) : Z := if a <? 0 then 0 else if a >? 255 then 255 else a.
Definition per_channel3 (f : Z -> Z -> Z -> Z) (p q r : Z) : Z :=
  argb (f (ALPHA p) (ALPHA q) (ALPHA r)) (f (RED p) (RED q) (RED r))
       (f (GREEN p) (GREEN q) (GREEN r)) (f (BLUE p) (BLUE q) (BLUE r)).
Definition ClampAddSubtractFull : Z -> Z -> Z -> Z := per_channel3 (fun a b c => Clamp (a + b - c)).
(* C integer division: (a - b) / 2 truncates towards zero *)
Definition ClampAddSubtractHalf : Z -> Z -> Z := per_channel (fun a b => Clamp (a + Z.quot (a - b) 2)).

Definition black : Z := 0xff000000.

Definition predict (mode L T TR TL : Z) : Z :=
  match mode with
  | 0 => black
  | 1 => L
  | 2 => T
  | 3 => TR
  | 4 => TL
  | 5 => Average2 (Average2 L TR) T
  | 6 => Average2 L TL
  | 7 => Average2 L T
  | 8 => Average2 TL T
  | 9 => Average2 T TR
  | 10 => Average2 (Average2 L TL) (Average2 T TR)
  | 11 => Select L T TL
  | 12 => ClampAddSubtractFull L T TL
  | 13 => ClampAddSubtractHalf (Average2 L T) TL
  | _ => black                                            (* [libwebp] modes 14 and 15 *)
  end.

(* predicted value of pixel (x, y) from the already reconstructed pixels of `img`, with the border rules *)
Definition prediction (width size_bits : Z) (modes img : arr) (x y : Z) : Z :=
  let at_ x y := pix img (y * width + x) in
  if (x =? 0) && (y =? 0) then black
  else if y =? 0 then at_ (x - 1) y
  else if x =? 0 then at_ x (y - 1)
  else
    let block_xsize := DIV_ROUND_UP width (2 ^ size_bits) in
    let block_index := Z.shiftr y size_bits * block_xsize + Z.shiftr x size_bits in
    let mode := Z.land (GREEN (pix modes block_index)) 15 in
    (* rightmost column: the leftmost pixel of the current row stands in for TR *)
    let TR := if x =? width - 1 then at_ 0 y else at_ (x + 1) (y - 1) in
    predict mode (at_ (x - 1) y) (at_ x (y - 1)) TR (at_ (x - 1) (y - 1)).

(* in scan-line order every residual is replaced by residual + prediction *)
Definition inverse_predictor (width height size_bits : Z) (modes img : arr) : arr :=
  for_range height (fun y => for_range width (fun x img =>
    let i := y * width + x in
    set_pix img i (add_pixels (pix img i) (prediction width size_bits modes img x y)))) img.

(** ** 4.2 colour transform *)
Definition int8 (v : Z) : Z := if v <? 128 then v else v - 256.
Definition ColorTransformDelta (t c : Z) : Z := Z.shiftr (int8 t * int8 c) 5.

Definition inverse_color_pixel (element p : Z) : Z :=
  (* ColorTransformElement as a pixel: red = red_to_blue, green = green_to_blue, blue = green_to_red *)
  let red_to_blue := RED element in
  let green_to_blue := GREEN element in
  let green_to_red := BLUE element in
  let new_red := (RED p + ColorTransformDelta green_to_red (GREEN p)) mod 256 in
  let new_blue := (BLUE p + ColorTransformDelta green_to_blue (GREEN p) + ColorTransformDelta red_to_blue new_red) mod 256 in
  argb (ALPHA p) new_red (GREEN p) new_blue.

Definition inverse_color_transform (width height size_bits : Z) (elements img : arr) : arr :=
  let block_xsize := DIV_ROUND_UP width (2 ^ size_bits) in
  for_range height (fun y => for_range width (fun x img =>
    let i := y * width + x in
    let element := pix elements (Z.shiftr y size_bits * block_xsize + Z.shiftr x size_bits) in
    set_pix img i (inverse_color_pixel element (pix img i)))) img.

(** ** 4.3 subtract green *)
Definition add_green (p : Z) : Z := argb (ALPHA p) ((RED p + GREEN p) mod 256) (GREEN p) ((BLUE p + GREEN p) mod 256).

Definition inverse_subtract_green (img : arr) : arr :=
  for_range (Z.of_N (alen img)) (fun i img => set_pix img i (add_green (pix img i))) img.

(** ** 4.4 colour indexing *)
Definition width_bits_of (color_table_size : Z) : Z :=
  if color_table_size <=? 2 then 3 else if color_table_size <=? 4 then 2 else if color_table_size <=? 16 then 1 else 0.

(* the colour table is subtraction-coded: each entry adds the previous one, channel by channel *)
Fixpoint undo_deltas (prev : Z) (l : list Z) : list Z :=
  match l with [] => [] | x :: t => let c := add_pixels prev x in c :: undo_deltas c t end.

(* `img` has the subsampled width; pixel x of a row sits in the green value at x >> width_bits, lowest bits first *)
Definition inverse_color_indexing (width height color_table_size : Z) (color_table img : arr) : arr :=
  let width_bits := width_bits_of color_table_size in
  let packed_width := DIV_ROUND_UP width (2 ^ width_bits) in
  let bits_per_pixel := Z.shiftr 8 width_bits in
  for_range height (fun y => for_range width (fun x out =>
    let packed := GREEN (pix img (y * packed_width + Z.shiftr x width_bits)) in
    let index := Z.land (Z.shiftr packed ((x mod 2 ^ width_bits) * bits_per_pixel)) (2 ^ bits_per_pixel - 1) in
    let color := if index <? color_table_size then pix color_table index else 0 in
    set_pix out (y * width + x) color)) (amake (Z.to_N (width * height))).

Definition inverse_transform (height : Z) (img : arr) (t : transform) : arr :=
  match t with
  | Predictor width size_bits modes => inverse_predictor width height size_bits modes img
  | ColorTransform width size_bits elements => inverse_color_transform width height size_bits elements img
  | SubtractGreen => inverse_subtract_green img
  | ColorIndexing width n table => inverse_color_indexing width height n table img
  end.

(* transform data; returns the transform and the width of the image that remains to be decoded *)
Definition read_transform (type w h : Z) (s : stream) : option (transform * Z * stream) :=
  match type with
  | 0 | 1 =>
    let* (b, s) := read_bits 3 s in
    let size_bits := b + 2 in
    let* (data, s) := entropy_coded_image (DIV_ROUND_UP w (2 ^ size_bits)) (DIV_ROUND_UP h (2 ^ size_bits)) s in
    Some (if type =? 0 then Predictor w size_bits data else ColorTransform w size_bits data, w, s)
  | 2 => Some (SubtractGreen, w, s)
  | _ =>
    let* (n, s) := read_bits 8 s in
    let color_table_size := n + 1 in
    let* (deltas, s) := entropy_coded_image color_table_size 1 s in
    let color_table := of_list (undo_deltas 0 (pixel_list deltas)) in
    Some (ColorIndexing w color_table_size color_table, DIV_ROUND_UP w (2 ^ width_bits_of color_table_size), s)
  end.

(* optional-transform (7.2).  Each type may occur once, so at most four transforms: n = 4. *)
Fixpoint read_transforms (n : nat) (seen : list Z) (w h : Z) (s : stream) : option (list transform * Z * stream) :=
  let* (present, s) := read_bits 1 s in
  if present =? 0 then Some ([], w, s) else
  match n with
  | O => None
  | S k =>
    let* (type, s) := read_bits 2 s in
    if existsb (Z.eqb type) seen then None else
    let* (t, w1, s) := read_transform type w h s in
    let* (ts, w2, s) := read_transforms k (type :: seen) w1 h s in
    Some (t :: ts, w2, s)
  end.

(* ------------------------------------------------------------------------------------------------------------ *)
(** * 6  The whole stream (sections 3 and 7)                                                                      *)

(* image-stream = optional-transform spatially-coded-image; inverse transforms in reverse reading order *)
Definition image_stream (w h : Z) (s : stream) : option (list Z) :=
  let* (ts, coded_width, s) := read_transforms 4 [] w h s in
  let* (img, _) := spatially_coded_image coded_width h s in
  let img := fold_left (inverse_transform h) (rev ts) img in
  Some (pixel_list img).

(* image-header = %x2F image-size alpha-is-used version *)
Definition read_header (s : stream) : option (Z * Z * stream) :=
  let* (signature, s) := read_bits 8 s in
  if negb (signature =? 0x2f) then None else
  let* (w, s) := read_bits 14 s in
  let* (h, s) := read_bits 14 s in
  let* (alpha_is_used, s) := read_bits 1 s in     (* a hint only: does not influence decoding *)
  let* (version_number, s) := read_bits 3 s in
  if negb (version_number =? 0) then None else Some (w + 1, h + 1, s).

(* the payload of a VP8L chunk -> width, height, ARGB pixels in scan-line order *)
Definition decode (data : list Z) : option (Z * Z * list Z) :=
  let* (w, h, s) := read_header (Stream [] data) in
  let* px := image_stream w h s in
  Some (w, h, px).

(* ALPH-style stream: the dimensions come from outside and the data start with the transforms *)
Definition decode_implicit (w h : Z) (data : list Z) : option (list Z) :=
  if (1 <=? w) && (w <=? 16384) && (1 <=? h) && (h <=? 16384) then image_stream w h (Stream [] data) else None.

(* the byte order written by the Rust decoder: R, G, B, A per pixel *)
Definition rgba_bytes (px : list Z) : list Z :=
  rev_append (fold_left (fun acc p => ALPHA p :: BLUE p :: GREEN p :: RED p :: acc) px []) [].

Definition decode_rgba (data : list Z) : option (Z * Z * list Z) :=
  let* (w, h, px) := decode data in Some (w, h, rgba_bytes px).

Definition decode_implicit_rgba (w h : Z) (data : list Z) : option (list Z) :=
  let* px := decode_implicit w h data in Some (rgba_bytes px).

(* entry points of the oracle under names that cannot clash with other extracted modules *)
Definition vp8l_spec_decode_rgba := decode_rgba.
Definition vp8l_spec_decode_implicit_rgba := decode_implicit_rgba.

(* Diagnostic for the test reports (not part of the specification): the transform types in reading order, the
   colour cache bits (0 = none) and the number of prefix code groups of the ARGB image. *)
Definition stream_features (data : list Z) : option (list Z * Z * Z) :=
  let* (w, h, s) := read_header (Stream [] data) in
  let* (ts, coded_width, s) := read_transforms 4 [] w h s in
  let* (cbits, s) := read_cache_info s in
  let* (_, num_groups, _) := read_meta_prefix coded_width h s in
  Some (map (fun t => match t with Predictor _ _ _ => 0 | ColorTransform _ _ _ => 1 | SubtractGreen => 2
                               | ColorIndexing _ _ _ => 3 end) ts, cbits, num_groups).
Definition vp8l_spec_stream_features := stream_features.
