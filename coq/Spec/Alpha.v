(* ALPH chunk reconstruction per the WebP container specification ("Alpha" section):
   header byte = reserved(2) | pre-processing(2) | filtering method(2) | compression method(2);
   the (decompressed) byte stream holds filtered alpha values in scan order; each value is un-filtered as
       alpha(x,y) = (predictor(x,y) + stream(x,y)) mod 256
   with predictor = 0 (none), A (horizontal), B (vertical), clip(A + B - C) (gradient), where A = left, B = top,
   C = top-left *decoded* alpha values, and the border rules:
     - the top-left value at (0,0) uses 0;
     - for horizontal or gradient filtering the left-most pixels (0,y) are predicted from (0,y-1);
     - for vertical or gradient filtering the top-most pixels (x,0) are predicted from (x-1,0). *)
From Coq Require Import ZArith List.
Import ListNotations.
Open Scope Z_scope.

Inductive filter := FNone | FHorizontal | FVertical | FGradient.

Definition clip255 (v : Z) : Z := Z.min (Z.max v 0) 255.

(* [a i] = decoded alpha at scan index i (only indices below the current one are consulted) *)
Definition predictor (f : filter) (w : nat) (a : nat -> Z) (x y : nat) : Z :=
  let at_ (xx yy : nat) := a (yy * w + xx)%nat in
  match f with
  | FNone => 0
  | FHorizontal =>
      match x, y with
      | O, O => 0
      | O, S y' => at_ O y'
      | S x', _ => at_ x' y
      end
  | FVertical =>
      match x, y with
      | O, O => 0
      | S x', O => at_ x' O
      | _, S y' => at_ x y'
      end
  | FGradient =>
      match x, y with
      | O, O => 0
      | O, S y' => at_ O y'
      | S x', O => at_ x' O
      | S x', S y' => clip255 (at_ x' y + at_ x y' - at_ x' y')
      end
  end.

(* un-filter a stream in scan order; [out] accumulates the decoded plane *)
Fixpoint unfilter_from (f : filter) (w : nat) (stream : list Z) (i : nat) (out : list Z) : list Z :=
  match stream with
  | [] => out
  | d :: ds =>
      let p := predictor f w (fun j => nth j out 0) (i mod w) (i / w) in
      unfilter_from f w ds (S i) (out ++ [(p + d) mod 256])
  end.

Definition unfilter (f : filter) (w : nat) (stream : list Z) : list Z := unfilter_from f w stream 0 [].

(* header byte *)
Definition header_ok (b : Z) : bool := ((b / 16) mod 4 <=? 1) && ((b mod 4) <=? 1).
Definition header_filter (b : Z) : filter :=
  match (b / 4) mod 4 with 0 => FNone | 1 => FHorizontal | 2 => FVertical | _ => FGradient end.
Definition header_compressed (b : Z) : bool := (b mod 4 =? 1).
