(* libwebp's BT.601 fixed-point YUV -> RGB conversion, transcribed from libwebp 1.3.1 src/dsp/yuv.h
   (YUV_FIX2 = 6, YUV_MASK2 = (256 << 6) - 1, MultHi, VP8Clip8, VP8YUVToR/G/B).  C `int` arithmetic on these
   operands never overflows, so unbounded Z arithmetic is the C semantics; `>>` on a negative int is the
   arithmetic shift libwebp relies on (Z.shiftr floors). *)
From Coq Require Import ZArith List.
Import ListNotations.
Open Scope Z_scope.

Definition YUV_FIX2 : Z := 6.
Definition YUV_MASK2 : Z := Z.shiftl 256 YUV_FIX2 - 1.

Definition MultHi (v coeff : Z) : Z := Z.shiftr (v * coeff) 8.
Definition VP8Clip8 (v : Z) : Z :=
  if Z.land v (Z.lnot YUV_MASK2) =? 0 then Z.shiftr v YUV_FIX2 else if v <? 0 then 0 else 255.

Definition VP8YUVToR (y v : Z) : Z := VP8Clip8 (MultHi y 19077 + MultHi v 26149 - 14234).
Definition VP8YUVToG (y u v : Z) : Z := VP8Clip8 (MultHi y 19077 - MultHi u 6419 - MultHi v 13320 + 8708).
Definition VP8YUVToB (y u : Z) : Z := VP8Clip8 (MultHi y 19077 + MultHi u 33050 - 17685).

Definition rgb (y u v : Z) : list Z := [VP8YUVToR y v; VP8YUVToG y u v; VP8YUVToB y u].

(* Row and plane level: pixel x of a row uses luma ys[x] and the chroma samples at x/2; row r of a plane uses chroma
   row r/2 ("no fancy upsampling"). *)
Definition nthZ (l : list Z) (i : nat) : Z := nth i l 0.

Definition rgb_row (ys us vs : list Z) : list Z :=
  flat_map (fun x => rgb (nthZ ys x) (nthZ us (x / 2)) (nthZ vs (x / 2))) (seq 0 (length ys)).

(* four-channel rows keep the alpha byte that was in the buffer *)
Definition rgba_row (ys us vs buf : list Z) : list Z :=
  flat_map (fun x => rgb (nthZ ys x) (nthZ us (x / 2)) (nthZ vs (x / 2)) ++ [nthZ buf (4 * x + 3)]) (seq 0 (length ys)).

Definition row_of (w : nat) (plane : list Z) (r : nat) : list Z := firstn w (skipn (r * w) plane).

Definition rgb_plane (w h : nat) (yp up vp : list Z) : list Z :=
  let cw := ((w + 1) / 2)%nat in
  flat_map (fun r => rgb_row (row_of w yp r) (row_of cw up (r / 2)) (row_of cw vp (r / 2))) (seq 0 h).

Definition rgba_plane (w h : nat) (yp up vp buf : list Z) : list Z :=
  let cw := ((w + 1) / 2)%nat in
  flat_map (fun r => rgba_row (row_of w yp r) (row_of cw up (r / 2)) (row_of cw vp (r / 2)) (row_of (4 * w) buf r)) (seq 0 h).
