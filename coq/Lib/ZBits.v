(* Shared arithmetic facts about bytes packed into machine words, used by the kernel proofs. *)
From Coq Require Import ZArith Lia List Bool.
From WebP Require Import Gen.Kernels.
Open Scope Z_scope.

Ltac Zify.zify_post_hook ::= Z.div_mod_to_equations.

Definition byte (x : Z) : Prop := 0 <= x <= 255.
Definition byteb (x : Z) : bool := (0 <=? x) && (x <=? 255).

Lemma byteb_spec x : byteb x = true <-> byte x.
Proof. unfold byteb, byte. rewrite andb_true_iff, !Z.leb_le. tauto. Qed.

(* little-endian packing of four bytes: u32::from_le_bytes *)
Definition pack4 (b0 b1 b2 b3 : Z) : Z := b0 + b1 * 2 ^ 8 + b2 * 2 ^ 16 + b3 * 2 ^ 24.
Definition byte_of (w k : Z) : Z := (w / 2 ^ (8 * k)) mod 256.

Lemma wrapU_small n x : 0 <= x < 2 ^ n -> wrapU n x = x.
Proof. intros H. unfold wrapU. apply Z.mod_small. exact H. Qed.

Lemma wrapU_range n x : 0 < n -> 0 <= wrapU n x < 2 ^ n.
Proof. intros Hn. unfold wrapU. apply Z.mod_pos_bound. apply Z.pow_pos_nonneg; lia. Qed.

Lemma inr_true lo hi x : inr lo hi x = true <-> lo <= x <= hi.
Proof. unfold inr. rewrite andb_true_iff, !Z.leb_le. tauto. Qed.

Lemma land255 x : 0 <= x -> Z.land x 255 = x mod 256.
Proof. intros _. change 255 with (Z.ones 8). rewrite Z.land_ones by lia. reflexivity. Qed.

Lemma pack4_range b0 b1 b2 b3 : byte b0 -> byte b1 -> byte b2 -> byte b3 -> 0 <= pack4 b0 b1 b2 b3 < 2 ^ 32.
Proof. unfold byte, pack4. change (2^8) with 256. change (2^16) with 65536. change (2^24) with 16777216.
  change (2^32) with 4294967296. lia. Qed.

Lemma chan_of_pack b0 b1 b2 b3 k : byte b0 -> byte b1 -> byte b2 -> byte b3 -> 0 <= k <= 3 ->
  wrapU 8 (Z.land (Z.shiftr (pack4 b0 b1 b2 b3) (8 * k)) 255) = nth (Z.to_nat k) (b0 :: b1 :: b2 :: b3 :: nil) 0.
Proof.
  unfold byte, pack4. intros H0 H1 H2 H3 Hk.
  assert (Hc : k = 0 \/ k = 1 \/ k = 2 \/ k = 3) by lia.
  rewrite Z.shiftr_div_pow2 by lia.
  change (2^8) with 256. change (2^16) with 65536. change (2^24) with 16777216.
  assert (Hp : 0 <= b0 + b1 * 256 + b2 * 65536 + b3 * 16777216) by lia.
  destruct Hc as [-> | [-> | [-> | ->]]].
  - change (2 ^ (8 * 0)) with 1. rewrite land255 by lia. unfold wrapU. change (2 ^ 8) with 256.
    change (nth _ _ _) with b0. lia.
  - change (2 ^ (8 * 1)) with 256.
    replace ((b0 + b1 * 256 + b2 * 65536 + b3 * 16777216) / 256) with (b1 + b2 * 256 + b3 * 65536) by lia.
    rewrite land255 by lia. unfold wrapU. change (2 ^ 8) with 256.
    change (nth _ _ _) with b1. lia.
  - change (2 ^ (8 * 2)) with 65536.
    replace ((b0 + b1 * 256 + b2 * 65536 + b3 * 16777216) / 65536) with (b2 + b3 * 256) by lia.
    rewrite land255 by lia. unfold wrapU. change (2 ^ 8) with 256.
    change (nth _ _ _) with b2. lia.
  - change (2 ^ (8 * 3)) with 16777216.
    replace ((b0 + b1 * 256 + b2 * 65536 + b3 * 16777216) / 16777216) with b3 by lia.
    rewrite land255 by lia. unfold wrapU. change (2 ^ 8) with 256.
    change (nth _ _ _) with b3. lia.
Qed.

(* disjoint or = addition *)
Lemma land_low_high a b k : 0 <= k -> 0 <= a < 2 ^ k -> Z.land a (b * 2 ^ k) = 0.
Proof.
  intros Hk Ha. apply Z.bits_inj'. intros n Hn. rewrite Z.land_spec, Z.bits_0.
  destruct (Z.lt_ge_cases n k) as [Hlt | Hge].
  - rewrite Z.mul_pow2_bits_low by lia. apply andb_false_r.
  - destruct (Z.eq_dec a 0) as [-> | Hne]; [rewrite Z.bits_0; reflexivity|].
    rewrite (Z.bits_above_log2 a n); [reflexivity | lia |].
    apply Z.log2_lt_pow2; [lia|]. apply Z.lt_le_trans with (2 ^ k); [lia | apply Z.pow_le_mono_r; lia].
Qed.

Lemma lor_low_high a b k : 0 <= k -> 0 <= a < 2 ^ k -> Z.lor a (b * 2 ^ k) = a + b * 2 ^ k.
Proof.
  intros Hk Ha. rewrite <- Z.lxor_lor by (apply land_low_high; assumption).
  symmetry. apply Z.add_nocarry_lxor. apply land_low_high; assumption.
Qed.

Lemma lor_pack4 b0 b1 b2 b3 : byte b0 -> byte b1 -> byte b2 -> byte b3 ->
  Z.lor (Z.lor (Z.lor b0 (b1 * 2 ^ 8)) (b2 * 2 ^ 16)) (b3 * 2 ^ 24) = pack4 b0 b1 b2 b3.
Proof.
  unfold byte, pack4. intros H0 H1 H2 H3.
  rewrite (lor_low_high b0 b1 8) by lia.
  rewrite (lor_low_high (b0 + b1 * 2 ^ 8) b2 16) by (change (2^8) with 256; change (2^16) with 65536; lia).
  rewrite (lor_low_high _ b3 24) by (change (2^8) with 256; change (2^16) with 65536; change (2^24) with 16777216; lia).
  reflexivity.
Qed.

(* discharge a conjunction of range checks produced by the translator's `_ok` terms *)
Ltac solve_ok :=
  repeat (apply andb_true_intro; split);
  first [ reflexivity | apply inr_true; lia | apply Z.leb_le; lia | apply Z.ltb_lt; lia
        | apply negb_true_iff; apply Z.eqb_neq; lia ].
