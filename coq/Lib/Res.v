(* Result monad of the Model layer: every Rust operation that can fail or panic is explicit. *)
From Coq Require Import ZArith List.
Open Scope Z_scope.

(* Rust panics, by the construct that raises them *)
Inductive panic := PIndex | PSlice | POverflow | PUnwrap | PAssert | PUnreachable | PCopyLen | PDivZero | PShift.

(* DecodingError / EncodingError variants (payload-free) *)
Inductive err :=
  | EIo | ERiffSignatureInvalid | EWebpSignatureInvalid | EChunkMissing | EChunkHeaderInvalid | EReservedBitSet
  | EInvalidAlphaPreprocessing | EInvalidCompressionMethod | EAlphaChunkSizeMismatch | EImageTooLarge
  | EFrameOutsideImage | ELosslessSignatureInvalid | EVersionNumberInvalid | EInvalidColorCacheBits
  | EHuffmanError | EBitStreamError | ETransformError | EVp8MagicInvalid | ENotEnoughInitData
  | EColorSpaceInvalid | ELumaPredictionModeInvalid | EIntraPredictionModeInvalid | EChromaPredictionModeInvalid
  | EInconsistentImageSizes | EUnsupportedFeature | EInvalidParameter | EMemoryLimitExceeded | EInvalidChunkSize
  | ENoMoreFrames | EInvalidDimensions.

Inductive res (A : Type) := Ok (a : A) | Err (e : err) | Panic (p : panic) | OutOfFuel.
Arguments Ok {A} a. Arguments Err {A} e. Arguments Panic {A} p. Arguments OutOfFuel {A}.

Definition bind {A B} (r : res A) (f : A -> res B) : res B :=
  match r with Ok a => f a | Err e => Err e | Panic p => Panic p | OutOfFuel => OutOfFuel end.
Definition rmap {A B} (f : A -> B) (r : res A) : res B := bind r (fun a => Ok (f a)).

Declare Scope res_scope.
Notation "'let*' x ':=' r 'in' f" := (bind r (fun x => f)) (at level 200, x pattern, r at level 100, f at level 200) : res_scope.
Notation "'let*' ' p ':=' r 'in' f" := (bind r (fun p => f)) (at level 200, p pattern, r at level 100, f at level 200) : res_scope.

Definition is_ok {A} (r : res A) : bool := match r with Ok _ => true | _ => false end.
Definition is_panic {A} (r : res A) : bool := match r with Panic _ => true | _ => false end.
Definition of_option {A} (o : option A) (p : panic) : res A := match o with Some a => Ok a | None => Panic p end.
