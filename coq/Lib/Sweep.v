(* Finite sweeps by vm_compute, lifted to universally quantified statements.
   IMPORTANT (kernel performance): state the computed fact with the `forallb ... (zrange n a)` term written out,
   never behind a definition; otherwise Qed re-evaluates the sweep with the lazy machine (minutes). *)
From Coq Require Import ZArith Lia List Bool.
Open Scope Z_scope.

Fixpoint zrange (n : nat) (a : Z) : list Z := match n with O => nil | S n => a :: zrange n (a + 1) end.

Lemma forallb_zrange f n a : forallb f (zrange n a) = true -> forall x, a <= x < a + Z.of_nat n -> f x = true.
Proof.
  revert a. induction n as [|n IH]; intros a H x Hx; [lia|].
  cbn [zrange forallb] in H. apply andb_prop in H. destruct H as [H1 H2].
  destruct (Z.eq_dec a x) as [->|Hne]; [exact H1|]. apply (IH (a + 1) H2). lia.
Qed.
