(* Flat arrays with O(log n) random access for the Model layer: a length and a PositiveMap keyed by index+1.
   Unset cells read as the default 0 (a freshly allocated `vec![0; n]`).  Out-of-range access returns None: the
   Model turns that into `Panic PIndex`, never into a default value. *)
From Coq Require Import ZArith NArith List FMapPositive Lia.
Import ListNotations.
Open Scope Z_scope.
Module PM := PositiveMap.

Record arr := { alen : N; adata : PM.t Z }.
Definition akey (i : N) : positive := N.succ_pos i.
Definition amake (n : N) : arr := {| alen := n; adata := PM.empty Z |}.
Definition araw (a : arr) (i : N) : Z := match PM.find (akey i) (adata a) with Some v => v | None => 0 end.
Definition aget (a : arr) (i : N) : option Z := if (i <? alen a)%N then Some (araw a i) else None.
Definition aset (a : arr) (i : N) (v : Z) : option arr :=
  if (i <? alen a)%N then Some {| alen := alen a; adata := PM.add (akey i) v (adata a) |} else None.
(* unchecked variants for indices already known to be in range *)
Definition aset' (a : arr) (i : N) (v : Z) : arr := {| alen := alen a; adata := PM.add (akey i) v (adata a) |}.

Fixpoint of_list_from (l : list Z) (i : N) (m : PM.t Z) : PM.t Z :=
  match l with [] => m | x :: tl => of_list_from tl (N.succ i) (PM.add (akey i) x m) end.
Definition of_list (l : list Z) : arr := {| alen := N.of_nat (length l); adata := of_list_from l 0%N (PM.empty Z) |}.

(* to_list, tail-recursive from the end; the index is carried as an N next to the structural nat (N.of_nat k at every
   step would make the walk quadratic) *)
Fixpoint to_list_aux (a : arr) (n : nat) (i : N) (acc : list Z) : list Z :=
  match n with O => acc | S k => let j := N.pred i in to_list_aux a k j (araw a j :: acc) end.
Definition to_list (a : arr) : list Z := to_list_aux a (N.to_nat (alen a)) (alen a) [].

(* slice [start, start+len) as a list; None when out of range *)
Fixpoint slice_aux (a : arr) (n : nat) (i : N) (acc : list Z) : list Z :=
  match n with O => acc | S k => let j := N.pred i in slice_aux a k j (araw a j :: acc) end.
Definition aslice (a : arr) (start len : N) : option (list Z) :=
  if (start + len <=? alen a)%N then Some (slice_aux a (N.to_nat len) (start + len)%N []) else None.

(* write a list at an offset; None when out of range *)
Fixpoint write_aux (m : PM.t Z) (i : N) (l : list Z) : PM.t Z :=
  match l with [] => m | x :: tl => write_aux (PM.add (akey i) x m) (N.succ i) tl end.
Definition awrite (a : arr) (start : N) (l : list Z) : option arr :=
  if (start + N.of_nat (length l) <=? alen a)%N then Some {| alen := alen a; adata := write_aux (adata a) start l |} else None.

(* slice::copy_within(src..src+len, dst) = memmove *)
Definition acopy_within (a : arr) (src len dst : N) : option arr :=
  match aslice a src len with
  | Some l => awrite a dst l
  | None => None
  end.

Lemma akey_inj i j : akey i = akey j -> i = j.
Proof. unfold akey. intros H. apply (f_equal Pos.pred_N) in H. rewrite !N.pos_pred_succ in H. exact H. Qed.

Lemma araw_aset'_eq a i v : araw (aset' a i v) i = v.
Proof. unfold araw, aset'. cbn [adata]. rewrite PM.gss. reflexivity. Qed.

Lemma araw_aset'_neq a i j v : i <> j -> araw (aset' a i v) j = araw a j.
Proof.
  intros H. unfold araw, aset'. cbn [adata]. rewrite PM.gso; [reflexivity|].
  intros E. apply H. symmetry. apply akey_inj. exact E.
Qed.

Lemma alen_aset' a i v : alen (aset' a i v) = alen a.
Proof. reflexivity. Qed.
