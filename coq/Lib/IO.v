(* Model of the std::io contracts the decoder and encoder rely on, with the delivery schedule explicit:
   a reader that exposes at most [S (sched k)] bytes on its k-th call (never zero while data remains -- the BufRead /
   Read contract), `read_exact` (std's default loop), a writer that accepts at most [S (wsched k)] bytes per `write`
   call and may fail at call [fail_at], and `write_all` (std's default loop).
   The lemmas say the results do not depend on the schedule -- the part of property C10 that is about std. *)
From Coq Require Import ZArith List Lia Arith.
Import ListNotations.

Record reader := { rdata : list Z; rpos : nat; rcalls : nat }.

Definition remaining (r : reader) : list Z := skipn (rpos r) (rdata r).

(* one `read` call with a destination of [want] bytes *)
Definition read_once (sched : nat -> nat) (r : reader) (want : nat) : list Z * reader :=
  let n := Nat.min (S (sched (rcalls r))) (Nat.min want (length (remaining r))) in
  (firstn n (remaining r), {| rdata := rdata r; rpos := rpos r + n; rcalls := S (rcalls r) |}).

(* std::io::Read::read_exact: loop until the buffer is full; a 0-byte read is UnexpectedEof *)
Fixpoint read_exact (fuel : nat) (sched : nat -> nat) (r : reader) (want : nat) (acc : list Z) : option (list Z) * reader :=
  match want with
  | O => (Some acc, r)
  | S _ =>
    match fuel with
    | O => (None, r)
    | S fuel' =>
      let '(got, r') := read_once sched r want in
      match got with
      | [] => (None, r')                                   (* UnexpectedEof *)
      | _ => read_exact fuel' sched r' (want - length got) (acc ++ got)
      end
    end
  end.

Lemma skipn_skipn_add {A} (x y : nat) (l : list A) : skipn x (skipn y l) = skipn (y + x) l.
Proof.
  revert l. induction y as [|y IH]; intros l; [reflexivity|].
  destruct l as [|a l]; [rewrite !skipn_nil; reflexivity|]. cbn [Nat.add skipn]. apply IH.
Qed.

Lemma firstn_app_skipn {A} (n m : nat) (l : list A) : firstn n l ++ firstn m (skipn n l) = firstn (n + m) l.
Proof.
  revert l. induction n as [|n IH]; intros l; [reflexivity|].
  destruct l as [|a l]; [rewrite !firstn_nil; reflexivity|]. cbn [Nat.add firstn skipn app]. f_equal. apply IH.
Qed.

(* the bytes delivered and the final position depend only on (data, position, want), not on the schedule *)
Lemma read_exact_spec sched : forall fuel r want acc, want <= fuel ->
  want <= length (remaining r) ->
  let '(res, r') := read_exact fuel sched r want acc in
  res = Some (acc ++ firstn want (remaining r)) /\ rpos r' = rpos r + want /\ rdata r' = rdata r.
Proof.
  induction fuel as [|fuel IH]; intros r want acc Hf Hw.
  - assert (want = 0) by lia. subst. cbn [read_exact firstn]. rewrite app_nil_r. repeat split; lia.
  - destruct want as [|w]; [cbn [read_exact firstn]; rewrite app_nil_r; repeat split; lia|].
    cbn [read_exact]. unfold read_once.
    set (n := Nat.min (S (sched (rcalls r))) (Nat.min (S w) (length (remaining r)))).
    assert (Hn : 1 <= n <= S w) by (subst n; lia).
    assert (Hnl : n <= length (remaining r)) by (subst n; lia).
    destruct (firstn n (remaining r)) as [|g gs] eqn:Eg.
    { apply (f_equal (@length Z)) in Eg. rewrite firstn_length in Eg. cbn [length] in Eg. lia. }
    rewrite <- Eg.
    assert (Hlg : length (firstn n (remaining r)) = n) by (rewrite firstn_length; lia).
    rewrite Hlg.
    set (r1 := {| rdata := rdata r; rpos := rpos r + n; rcalls := S (rcalls r) |}).
    assert (Hrem : remaining r1 = skipn n (remaining r)).
    { unfold remaining, r1. cbn [rdata rpos]. rewrite skipn_skipn_add. reflexivity. }
    specialize (IH r1 (S w - n) (acc ++ firstn n (remaining r)) ltac:(lia)).
    rewrite Hrem in IH. rewrite skipn_length in IH. specialize (IH ltac:(lia)).
    destruct (read_exact fuel sched r1 (S w - n) (acc ++ firstn n (remaining r))) as [res r'].
    destruct IH as (Hres & Hpos & Hdata). repeat split.
    + rewrite Hres. rewrite <- app_assoc. rewrite firstn_app_skipn. replace (n + (S w - n)) with (S w) by lia. reflexivity.
    + rewrite Hpos. unfold r1. cbn [rpos]. lia.
    + rewrite Hdata. reflexivity.
Qed.

Lemma read_exact_schedule_independent s1 s2 r want :
  want <= length (remaining r) ->
  fst (read_exact want s1 r want []) = fst (read_exact want s2 r want [])
  /\ rpos (snd (read_exact want s1 r want [])) = rpos (snd (read_exact want s2 r want [])).
Proof.
  intros Hw.
  pose proof (read_exact_spec s1 want r want [] (le_n _) Hw) as H1.
  pose proof (read_exact_spec s2 want r want [] (le_n _) Hw) as H2.
  destruct (read_exact want s1 r want []) as [a1 r1]. destruct (read_exact want s2 r want []) as [a2 r2].
  destruct H1 as (E1 & P1 & _). destruct H2 as (E2 & P2 & _). cbn [fst snd]. split; congruence.
Qed.

(* short data: UnexpectedEof whatever the schedule *)
Lemma read_exact_eof sched : forall fuel r want acc, want <= fuel -> length (remaining r) < want ->
  fst (read_exact fuel sched r want acc) = None.
Proof.
  induction fuel as [|fuel IH]; intros r want acc Hf Hw; [lia|].
  destruct want as [|w]; [lia|]. cbn [read_exact]. unfold read_once.
  set (n := Nat.min (S (sched (rcalls r))) (Nat.min (S w) (length (remaining r)))).
  destruct (firstn n (remaining r)) as [|g gs] eqn:Eg; [reflexivity|].
  rewrite <- Eg.
  assert (Hnl : n <= length (remaining r)) by (subst n; lia).
  assert (Hlg : length (firstn n (remaining r)) = n) by (rewrite firstn_length; lia).
  assert (Hn1 : 1 <= n). { rewrite <- Hlg, Eg. cbn [length]. lia. }
  rewrite Hlg.
  apply IH; [lia|]. unfold remaining. cbn [rdata rpos]. rewrite <- skipn_skipn_add.
  fold (remaining r). rewrite skipn_length. lia.
Qed.

(* ---------------- writers ---------------- *)
Record writer := { wout : list Z; wcalls : nat }.

(* one `write` call: accepts at most S (wsched k) bytes; fails at call number [fail_at] *)
Definition write_once (wsched : nat -> nat) (fail_at : option nat) (w : writer) (buf : list Z) : option (nat * writer) :=
  if match fail_at with Some k => Nat.eqb k (wcalls w) | None => false end then None
  else let n := Nat.min (S (wsched (wcalls w))) (length buf) in
       Some (n, {| wout := wout w ++ firstn n buf; wcalls := S (wcalls w) |}).

(* std::io::Write::write_all: loop until everything is written; an error aborts *)
Fixpoint write_all (fuel : nat) (wsched : nat -> nat) (fail_at : option nat) (w : writer) (buf : list Z) : bool * writer :=
  match buf with
  | [] => (true, w)
  | _ =>
    match fuel with
    | O => (false, w)
    | S fuel' =>
      match write_once wsched fail_at w buf with
      | None => (false, w)
      | Some (n, w') => write_all fuel' wsched fail_at w' (skipn n buf)
      end
    end
  end.

(* whatever the splitting and wherever the fault: what reached the sink is a prefix of (old contents ++ buf), and
   without a fault it is all of it *)
Lemma write_all_prefix wsched fail_at : forall fuel w buf, length buf <= fuel ->
  let '(ok, w') := write_all fuel wsched fail_at w buf in
  exists k, k <= length buf /\ wout w' = wout w ++ firstn k buf /\ (ok = true -> k = length buf).
Proof.
  induction fuel as [|fuel IH]; intros w buf Hf.
  - destruct buf; [|cbn [length] in Hf; lia]. cbn [write_all]. exists 0. cbn [firstn length]. rewrite app_nil_r. auto.
  - destruct buf as [|b bs]; [cbn [write_all]; exists 0; cbn [firstn length]; rewrite app_nil_r; auto|].
    cbn [write_all]. unfold write_once.
    destruct (match fail_at with Some k => Nat.eqb k (wcalls w) | None => false end).
    + exists 0. cbn [firstn]. rewrite app_nil_r. repeat split; [lia | discriminate].
    + set (n := Nat.min (S (wsched (wcalls w))) (length (b :: bs))).
      assert (Hn : 1 <= n <= length (b :: bs)) by (subst n; cbn [length]; lia).
      set (w1 := {| wout := wout w ++ firstn n (b :: bs); wcalls := S (wcalls w) |}).
      specialize (IH w1 (skipn n (b :: bs)) ltac:(rewrite skipn_length; cbn [length] in *; lia)).
      destruct (write_all fuel wsched fail_at w1 (skipn n (b :: bs))) as [ok w'].
      destruct IH as (k & Hk & Hout & Hok). rewrite skipn_length in Hk.
      exists (n + k). split; [lia|]. split.
      * rewrite Hout. unfold w1. cbn [wout]. rewrite <- app_assoc. f_equal. apply firstn_app_skipn.
      * intros E. specialize (Hok E). rewrite skipn_length in Hok. lia.
Qed.

Lemma write_all_no_fault wsched : forall fuel w buf, length buf <= fuel ->
  fst (write_all fuel wsched None w buf) = true /\ wout (snd (write_all fuel wsched None w buf)) = wout w ++ buf.
Proof.
  induction fuel as [|fuel IH]; intros w buf Hf.
  - destruct buf; [|cbn [length] in Hf; lia]. cbn [write_all fst snd]. rewrite app_nil_r. auto.
  - destruct buf as [|b bs]; [cbn [write_all fst snd]; rewrite app_nil_r; auto|].
    cbn [write_all]. unfold write_once.
    set (n := Nat.min (S (wsched (wcalls w))) (length (b :: bs))).
    assert (Hn : 1 <= n <= length (b :: bs)) by (subst n; cbn [length]; lia).
    set (w1 := {| wout := wout w ++ firstn n (b :: bs); wcalls := S (wcalls w) |}).
    destruct (IH w1 (skipn n (b :: bs)) ltac:(rewrite skipn_length; cbn [length] in *; lia)) as [H1 H2].
    split; [exact H1|]. rewrite H2. unfold w1. cbn [wout]. rewrite <- app_assoc. f_equal. apply firstn_skipn.
Qed.
