//! C02: VP8 key-frame reconstruction is bit-exact.
//!
//! Inputs: (a) key frames written by `gen_vp8` (seeded; every header feature, mode and token class), (b) images encoded
//! by libwebp with varied `WebPConfig`, (c) every `VP8 ` chunk of the lossy files under `tests/images` of the repository.
//! For each: the planes libwebp returns (`WebPDecodeYUV`, C kernels *and* SIMD kernels) against
//! `image_webp::vp8::Vp8Decoder::decode_frame` (public).
//!
//! case line   `vp8 <hex payload>`
//! result line `OK <w> <h> <hexY> <hexU> <hexV>` | `ERR` | `PANIC <message>`
//!
//! `violations` (stats.json): any sample / size difference, rejection of a frame libwebp accepts, or panic.  A
//! disagreement on a generated frame is shrunk (by editing the frame description) before it is reported.
//! Two input classes are generated only on request and are accounted separately, not as violations:
//!  * `lf_ambiguous`: segment filter level outside [0,63] with a delta on top -- libwebp clamps once, the RFC 6386
//!    reference decoder twice; the property's two references disagree with each other there;
//!  * `colorspace`: reserved colour-space bit set -- not a valid key frame by RFC 6386 section 9.2; libwebp ignores
//!    the bit, the crate rejects the frame.
//! extra arguments (after outdir): `ambiguous` / `colorspace` switch these classes on; `frames=<n>` overrides the
//! number of generated frames; `simd` keeps libwebp's SIMD kernels as the primary reference; `nocases` suppresses the
//! case / result files (deep searches).
use crate::gen_vp8::{self, Domain, Features, FrameSpec, GenOpts, Generated};
use crate::ref_webp as rw;
use crate::util::*;
use std::io::Cursor;

pub type ImplResult = Result<(usize, usize, Vec<u8>, Vec<u8>, Vec<u8>), String>;

/// the implementation: `Ok(planes)`, `Err("ERR")` for a decoding error, `Err("PANIC ..")` for a panic
pub fn decode_impl(payload: &[u8]) -> ImplResult {
    let p = payload.to_vec();
    match catch(move || image_webp::vp8::Vp8Decoder::decode_frame(Cursor::new(p))) {
        Ok(Ok(f)) => Ok((f.width as usize, f.height as usize, f.ybuf, f.ubuf, f.vbuf)),
        Ok(Err(_)) => Err("ERR".to_string()),
        Err(m) => Err(format!("PANIC {}", m.replace('\n', " "))),
    }
}

pub fn result_line(r: &ImplResult) -> String {
    match r {
        Ok((w, h, y, u, v)) => format!("OK {} {} {} {} {}", w, h, hex(y), hex(u), hex(v)),
        Err(e) => e.clone(),
    }
}

/// None = agree; Some(description) = first difference
pub fn compare(r: &ImplResult, refp: &rw::Planes) -> Option<String> {
    match r {
        Err(e) => Some(format!("libwebp decodes {}x{}, implementation: {}", refp.w, refp.h, &e[..e.len().min(120)])),
        Ok((w, h, y, u, v)) => {
            if *w != refp.w || *h != refp.h {
                return Some(format!("size {}x{} vs libwebp {}x{}", w, h, refp.w, refp.h));
            }
            let (cw, ch) = ((w + 1) / 2, (h + 1) / 2);
            for (name, a, b, pw, ph) in [("Y", y, &refp.y, *w, *h), ("U", u, &refp.u, cw, ch), ("V", v, &refp.v, cw, ch)] {
                if a.len() != pw * ph || b.len() != pw * ph {
                    return Some(format!("plane {} has {} samples, libwebp {} (expected {}x{})", name, a.len(), b.len(), pw, ph));
                }
                let nd = a.iter().zip(b.iter()).filter(|(p, q)| p != q).count();
                if nd > 0 {
                    let i = a.iter().zip(b.iter()).position(|(p, q)| p != q).unwrap();
                    return Some(format!(
                        "plane {}: {} of {} samples differ, first at x={} y={}: {} vs libwebp {}",
                        name, nd, a.len(), i % pw, i / pw, a[i], b[i]
                    ));
                }
            }
            None
        }
    }
}

fn planes_eq(a: &rw::Planes, b: &rw::Planes) -> bool {
    a.w == b.w && a.h == b.h && a.y == b.y && a.u == b.u && a.v == b.v
}

/// reference planes with the C kernels and with the SIMD kernels
pub fn reference(payload: &[u8]) -> (Option<rw::Planes>, Option<rw::Planes>) {
    let file = rw::simple_vp8(payload);
    rw::force_c(true);
    let c = rw::decode_yuv(&file);
    rw::force_c(false);
    let s = rw::decode_yuv(&file);
    (c, s)
}

fn spec_in_domain(spec: &FrameSpec, dom: Domain) -> bool {
    spec.mbs.iter().all(|mb| spec.mb_skipped(mb) || gen_vp8::mb_in_range(mb, &spec.dequant(spec.mb_segment(mb)), dom))
}

/// does the frame description still show a disagreement (and is it still a valid frame of its domain)?
fn still_bad(spec: &FrameSpec, dom: Domain) -> bool {
    if spec.width == 0 || spec.height == 0 || spec.mbs.len() != spec.mbw() * spec.mbh() || !spec_in_domain(spec, dom) {
        return false;
    }
    let w = gen_vp8::write_frame(spec);
    let (c, _) = reference(&w.payload);
    match c {
        None => false,
        Some(p) => compare(&decode_impl(&w.payload), &p).is_some(),
    }
}

/// greedy shrinking by generator parameters: dimensions down, features off, modes to DC, tokens removed
pub fn shrink(mut spec: FrameSpec, dom: Domain, ambiguous_ok: bool) -> FrameSpec {
    let ok = |s: &FrameSpec| (ambiguous_ok || !s.lf_clamp_ambiguous()) && still_bad(s, dom);
    let mut budget = 3000usize;
    loop {
        let before = spec.clone();
        // --- geometry: drop macroblock columns / rows (right, bottom, left, top), then trim to the last pixel
        loop {
            let (mbw, mbh) = (spec.mbw(), spec.mbh());
            let mut cands: Vec<FrameSpec> = vec![];
            let sub = |s: &FrameSpec, x0: usize, y0: usize, nw: usize, nh: usize, pw: u16, ph: u16| -> FrameSpec {
                let mut t = s.clone();
                t.mbs.clear();
                for y in y0..y0 + nh {
                    for x in x0..x0 + nw {
                        t.mbs.push(s.mbs[y * s.mbw() + x].clone());
                    }
                }
                t.width = pw;
                t.height = ph;
                t
            };
            if mbw > 1 {
                cands.push(sub(&spec, 0, 0, mbw - 1, mbh, ((mbw - 1) * 16) as u16, spec.height));
                cands.push(sub(&spec, 1, 0, mbw - 1, mbh, spec.width - 16, spec.height));
            }
            if mbh > 1 {
                cands.push(sub(&spec, 0, 0, mbw, mbh - 1, spec.width, ((mbh - 1) * 16) as u16));
                cands.push(sub(&spec, 0, 1, mbw, mbh - 1, spec.width, spec.height - 16));
            }
            if spec.width % 16 != 0 {
                let mut t = spec.clone();
                t.width = (mbw * 16) as u16;
                cands.push(t);
            }
            if spec.height % 16 != 0 {
                let mut t = spec.clone();
                t.height = (mbh * 16) as u16;
                cands.push(t);
            }
            let mut progressed = false;
            for c in cands {
                if budget == 0 {
                    break;
                }
                budget -= 1;
                if ok(&c) {
                    spec = c;
                    progressed = true;
                    break;
                }
            }
            if !progressed {
                break;
            }
        }
        // --- header features off
        let edits: Vec<Box<dyn Fn(&mut FrameSpec)>> = vec![
            Box::new(|s| s.prob_updates.clear()),
            Box::new(|s| s.padding.clear()),
            Box::new(|s| s.log2_parts = 0),
            Box::new(|s| {
                s.xscale = 0;
                s.yscale = 0;
                s.version = 0;
                s.clamp_type = false;
                s.refresh_entropy = false;
            }),
            Box::new(|s| {
                s.seg_enabled = false;
                s.seg_update_map = false;
                s.seg_update_data = false;
            }),
            Box::new(|s| s.seg_update_map = false),
            Box::new(|s| s.seg_probs = [None; 3]),
            Box::new(|s| s.seg_quant = [None; 4]),
            Box::new(|s| s.seg_lf = [None; 4]),
            Box::new(|s| {
                s.lf_delta_enabled = false;
            }),
            Box::new(|s| s.mode_delta = [None; 4]),
            Box::new(|s| s.ref_delta = [None; 4]),
            Box::new(|s| s.q_delta = [None; 5]),
            Box::new(|s| s.use_skip = false),
            Box::new(|s| s.sharpness = 0),
            Box::new(|s| s.filter_level = 0),
            Box::new(|s| s.filter_simple = true),
            Box::new(|s| s.filter_simple = false),
            Box::new(|s| s.yac_qi = 0),
            Box::new(|s| s.yac_qi /= 2),
            Box::new(|s| s.filter_level = s.filter_level / 2 + (s.filter_level > 1) as u8),
        ];
        for e in &edits {
            if budget == 0 {
                break;
            }
            let mut t = spec.clone();
            e(&mut t);
            if t != spec {
                budget -= 1;
                if ok(&t) {
                    spec = t;
                }
            }
        }
        // --- macroblocks: no residual, DC modes, then single blocks / single levels
        for i in 0..spec.mbs.len() {
            let edits: Vec<Box<dyn Fn(&mut gen_vp8::MbSpec)>> = vec![
                Box::new(|m| m.blocks = [gen_vp8::Block::EMPTY; 25]),
                Box::new(|m| {
                    m.ymode = gen_vp8::DC_PRED;
                    m.blocks[24] = gen_vp8::Block::EMPTY;
                    for b in m.blocks.iter_mut().take(16) {
                        b.levels[0] = 0;
                    }
                }),
                Box::new(|m| m.bmodes = [0; 16]),
                Box::new(|m| m.uvmode = 0),
                Box::new(|m| m.segment = 0),
                Box::new(|m| m.skip = false),
                Box::new(|m| {
                    for b in m.blocks.iter_mut() {
                        b.run_to_end = false;
                    }
                }),
            ];
            for e in &edits {
                if budget == 0 {
                    break;
                }
                let mut t = spec.clone();
                e(&mut t.mbs[i]);
                if t != spec {
                    budget -= 1;
                    if ok(&t) {
                        spec = t;
                    }
                }
            }
            for b in 0..25 {
                if budget == 0 {
                    break;
                }
                if spec.mbs[i].blocks[b] != gen_vp8::Block::EMPTY {
                    let mut t = spec.clone();
                    t.mbs[i].blocks[b] = gen_vp8::Block::EMPTY;
                    budget -= 1;
                    if ok(&t) {
                        spec = t;
                        continue;
                    }
                    for n in 0..16 {
                        let l = spec.mbs[i].blocks[b].levels[n];
                        if l != 0 && budget > 0 {
                            for repl in [0i16, l.signum()] {
                                if repl == l {
                                    continue;
                                }
                                let mut t = spec.clone();
                                t.mbs[i].blocks[b].levels[n] = repl;
                                budget -= 1;
                                if ok(&t) {
                                    spec = t;
                                    break;
                                }
                            }
                        }
                    }
                }
            }
            if spec.mbs[i].ymode == gen_vp8::B_PRED {
                for k in 0..16 {
                    if spec.mbs[i].bmodes[k] != 0 && budget > 0 {
                        let mut t = spec.clone();
                        t.mbs[i].bmodes[k] = 0;
                        budget -= 1;
                        if ok(&t) {
                            spec = t;
                        }
                    }
                }
            }
        }
        if spec == before || budget == 0 {
            return spec;
        }
    }
}

/// one-line summary of a (shrunk) frame description
pub fn describe(spec: &FrameSpec) -> String {
    let mut s = format!(
        "{}x{} filter={}/{}/sharp{} seg={}{}{} lfdelta={} parts={} q={} skipflag={} updates={}",
        spec.width,
        spec.height,
        if spec.filter_simple { "simple" } else { "normal" },
        spec.filter_level,
        spec.sharpness,
        spec.seg_enabled as u8,
        if spec.seg_update_map { "+map" } else { "" },
        if spec.seg_update_data { if spec.seg_abs { "+abs" } else { "+delta" } } else { "" },
        if spec.lf_delta_enabled && spec.lf_delta_update {
            format!("ref0={} mode0={}", gen_vp8::sv(spec.ref_delta[0]), gen_vp8::sv(spec.mode_delta[0]))
        } else {
            "off".to_string()
        },
        spec.num_parts(),
        spec.yac_qi,
        spec.use_skip as u8,
        spec.prob_updates.len()
    );
    for (i, mb) in spec.mbs.iter().enumerate().take(6) {
        let coded: usize = mb.blocks.iter().map(|b| b.levels.iter().filter(|&&l| l != 0).count()).sum();
        s += &format!(
            " | mb{} y={} uv={} seg={} skip={} nonzero_levels={}",
            i,
            gen_vp8::YMODE_NAMES[mb.ymode as usize],
            gen_vp8::UVMODE_NAMES[mb.uvmode as usize],
            spec.mb_segment(mb),
            spec.mb_skipped(mb) as u8,
            coded
        );
    }
    s
}

struct Ctx {
    out: Out,
    feat: Features,
    violations: Vec<String>,
    violation_cases: Vec<String>,
    n_violations: u64,
    nocases: bool,
    /// one minimised example per separately-accounted class
    examples: Vec<String>,
}

impl Ctx {
    fn violation(&mut self, case: String, res: &str, why: String) {
        self.n_violations += 1;
        if self.violations.len() < 12 {
            let r = if res.len() > 80 { format!("{}...", &res[..80]) } else { res.to_string() };
            // a replayable case line; very large inputs are abbreviated (the full line is in violation_cases.txt)
            let c = if case.len() > 20000 {
                format!("{}...(truncated; full case: violation_cases.txt line {})", &case[..64], self.violation_cases.len() + 1)
            } else {
                case.clone()
            };
            self.violations.push(format!("{} -> {} : {}", c, r, why));
        }
        if self.violation_cases.len() < 200 {
            self.violation_cases.push(case);
        }
    }

    /// judge one payload coming from `source`; returns true when implementation and reference agree
    fn judge(&mut self, source: &str, payload: &[u8], emit_case: bool, gen: Option<&Generated>, simd_primary: bool) -> bool {
        let (refc, refs) = reference(payload);
        let r = decode_impl(payload);
        if emit_case && !self.nocases {
            self.out.case(&format!("vp8 {}", hex(payload)), &result_line(&r));
        }
        self.feat.inc(&format!("{source}.inputs"));
        let special = gen.map(|g| (g.spec.color_space, g.spec.lf_clamp_ambiguous())).unwrap_or((false, false));
        let (primary, secondary) = if simd_primary { (&refs, &refc) } else { (&refc, &refs) };
        let Some(refp) = primary else {
            // a frame libwebp rejects: for generated frames that is a generator bug, not a finding
            self.feat.inc(&format!("{source}.rejected_by_libwebp"));
            if r.is_ok() {
                self.feat.inc(&format!("{source}.rejected_by_libwebp_but_accepted_by_impl"));
            }
            return true;
        };
        self.feat.inc(&format!("{source}.accepted_by_libwebp"));
        match secondary {
            Some(s) if planes_eq(s, refp) => {}
            _ => {
                // libwebp's own kernels disagree: the frame is outside the domain in which "what libwebp returns" is
                // well defined; it is still judged against the primary (C) kernels
                self.feat.inc(&format!("{source}.libwebp_c_vs_simd_differ"));
                if let Some(g) = gen {
                    self.feat.inc(&format!("{source}.libwebp_c_vs_simd_differ.{:?}", g.domain));
                }
            }
        }
        if let Some(g) = gen {
            // how often does the loop filter do anything on the generated content
            let file = rw::simple_vp8(payload);
            if g.spec.filter_level != 0 {
                rw::force_c(!simd_primary);
                if let Some(nf) = rw::decode_yuv_nofilter(&file) {
                    if !planes_eq(&nf, refp) {
                        self.feat.inc(&format!("{source}.loop_filter_changed_samples"));
                    }
                }
                rw::force_c(false);
            }
        }
        let diff = compare(&r, refp);
        if special.0 {
            self.feat.inc("class.colorspace.inputs");
            if self.feat.get("class.colorspace.inputs") == 1 {
                if let Some(g) = gen {
                    let mut t = g.spec.clone();
                    t.color_space = false;
                    let agree_without = {
                        let w = gen_vp8::write_frame(&t);
                        reference(&w.payload).0.map(|p| compare(&decode_impl(&w.payload), &p).is_none()).unwrap_or(false)
                    };
                    self.examples.push(format!(
                        "colorspace: vp8 {} -> {} ; libwebp decodes it ({}x{}); with the colour-space bit cleared the implementation {}",
                        hex(payload), result_line(&r), refp.w, refp.h, if agree_without { "agrees with libwebp" } else { "still differs" }
                    ));
                }
            }
            match (&r, &diff) {
                (Err(e), _) if e == "ERR" => self.feat.inc("class.colorspace.rejected_by_impl"),
                (_, None) => self.feat.inc("class.colorspace.agree"),
                _ => self.feat.inc("class.colorspace.other_disagreement"),
            }
            return true;
        }
        if special.1 {
            self.feat.inc("class.lf_ambiguous.inputs");
            self.feat.inc(if diff.is_none() { "class.lf_ambiguous.agree_with_libwebp" } else { "class.lf_ambiguous.differ_from_libwebp" });
            if diff.is_some() && self.feat.get("class.lf_ambiguous.differ_from_libwebp") == 1 {
                if let Some(g) = gen {
                    let small = shrink(g.spec.clone(), g.domain, true);
                    let w = gen_vp8::write_frame(&small);
                    let r2 = decode_impl(&w.payload);
                    let why = reference(&w.payload).0.and_then(|p| compare(&r2, &p)).unwrap_or_default();
                    let mb = &small.mbs[0];
                    let (lw, rfc) = small.filter_levels(small.mb_segment(mb), mb.is_i4());
                    self.examples.push(format!(
                        "lf_ambiguous: vp8 {} : {} [{}; level of mb0: libwebp formula {}, RFC-decoder formula {}; seg_lf={:?} abs={}]",
                        hex(&w.payload), why, describe(&small), lw, rfc, small.seg_lf, small.seg_abs_eff()
                    ));
                }
            }
            return true;
        }
        match diff {
            None => {
                self.feat.inc(&format!("{source}.agree"));
                true
            }
            Some(why) => {
                self.feat.inc(&format!("{source}.disagree"));
                if let Err(e) = &r {
                    self.feat.inc(if e.starts_with("PANIC") { "impl.panics" } else { "impl.rejects_frame_libwebp_accepts" });
                }
                if let Some(g) = gen {
                    let small = shrink(g.spec.clone(), g.domain, false);
                    let w = gen_vp8::write_frame(&small);
                    let r2 = decode_impl(&w.payload);
                    let (c2, _) = reference(&w.payload);
                    let why2 = c2.as_ref().and_then(|p| compare(&r2, p)).unwrap_or(why.clone());
                    self.violation(
                        format!("vp8 {}", hex(&w.payload)),
                        &result_line(&r2),
                        format!("{} [shrunk from a {}x{} {} frame to: {}]", why2, g.spec.width, g.spec.height, g.style, describe(&small)),
                    );
                } else {
                    self.violation(format!("vp8 {}", hex(payload)), &result_line(&r), format!("{} [{}]", why, source));
                }
                false
            }
        }
    }
}

fn synth_image(rng: &mut Rng, w: usize, h: usize, bpp: usize) -> Vec<u8> {
    let kind = rng.below(6);
    let (a, b, c) = (rng.byte(), rng.byte(), rng.byte());
    let noise = [0u64, 2, 8, 32, 255][rng.below(5) as usize];
    let mut v = Vec::with_capacity(w * h * bpp);
    for y in 0..h {
        for x in 0..w {
            let base: [i32; 3] = match kind {
                0 => [(x * 255 / w.max(1)) as i32, (y * 255 / h.max(1)) as i32, c as i32],
                1 => [a as i32, b as i32, c as i32],
                2 => {
                    let s = if (x / 4 + y / 4) % 2 == 0 { 230 } else { 20 };
                    [s, s, s]
                }
                3 => [((x * 7) ^ (y * 13)) as i32 & 255, (x * y) as i32 & 255, (x + y) as i32 & 255],
                4 => {
                    let d = ((x as i32 - w as i32 / 2).pow(2) + (y as i32 - h as i32 / 2).pow(2)) / 4;
                    [255 - d.min(255), d.min(255), a as i32]
                }
                _ => [if x % 8 < 4 { a as i32 } else { b as i32 }, if y % 6 < 3 { b as i32 } else { c as i32 }, c as i32],
            };
            for ch in 0..3 {
                let n = if noise == 0 { 0 } else { rng.below(noise + 1) as i32 - (noise / 2) as i32 };
                v.push((base[ch] + n).clamp(0, 255) as u8);
            }
            if bpp == 4 {
                v.push(match kind {
                    0 => (x * 255 / w.max(1)) as u8,
                    1 => a,
                    2 => if (x / 3 + y / 5) % 2 == 0 { 255 } else { 0 },
                    _ => rng.byte(),
                });
            }
        }
    }
    v
}

/// a lossy libwebp encoding with a random configuration; returns (file, description)
pub fn random_libwebp_encoding(rng: &mut Rng, w: usize, h: usize, alpha: bool) -> Option<(Vec<u8>, String)> {
    let bpp = if alpha { 4 } else { 3 };
    let pix = synth_image(rng, w, h, bpp);
    let q = rng.below(101) as f32;
    let p: Vec<i32> = vec![
        rng.below(101) as i32,     // filter_strength
        rng.below(8) as i32,       // sharpness
        rng.below(2) as i32,       // filter_type
        1 + rng.below(4) as i32,   // segments
        rng.below(4) as i32,       // partitions (log2)
        rng.below(101) as i32,     // sns
        rng.below(7) as i32,       // method
        rng.below(2) as i32,       // autofilter
        1 + rng.below(3) as i32,   // pass
        rng.below(8) as i32,       // preprocessing
        rng.below(101) as i32,     // partition_limit
        rng.below(2) as i32,       // alpha_compression
        rng.below(3) as i32,       // alpha_filtering
        rng.below(101) as i32,     // alpha_quality
    ];
    let pp = p.clone();
    let f = rw::encode(w, h, &pix, bpp, q, move |c| {
        c.filter_strength = pp[0];
        c.filter_sharpness = pp[1];
        c.filter_type = pp[2];
        c.segments = pp[3];
        c.partitions = pp[4];
        c.sns_strength = pp[5];
        c.method = pp[6];
        c.autofilter = pp[7];
        c.pass = pp[8];
        c.preprocessing = pp[9];
        c.partition_limit = pp[10];
        c.alpha_compression = pp[11];
        c.alpha_filtering = pp[12];
        c.alpha_quality = pp[13];
    })?;
    Some((f, format!("{}x{} q={} cfg={:?}", w, h, q, p)))
}

pub fn repo_dir() -> String {
    std::env::var("VERIF_REPO").unwrap_or_else(|_| "/repo".to_string())
}

pub fn lossy_test_files() -> Vec<(String, Vec<u8>)> {
    let mut v = vec![];
    let base = format!("{}/tests/images", repo_dir());
    let mut dirs: Vec<_> = std::fs::read_dir(&base).map(|d| d.flatten().map(|e| e.path()).collect()).unwrap_or_else(|_| vec![]);
    dirs.sort();
    for d in dirs {
        let mut files: Vec<_> = std::fs::read_dir(&d).map(|d| d.flatten().map(|e| e.path()).collect()).unwrap_or_else(|_| vec![]);
        files.sort();
        for f in files {
            if f.extension().map(|e| e == "webp").unwrap_or(false) {
                if let Ok(b) = std::fs::read(&f) {
                    if !rw::vp8_payloads(&b).is_empty() {
                        v.push((f.strip_prefix(&base).unwrap().to_string_lossy().to_string(), b));
                    }
                }
            }
        }
    }
    v
}

pub fn run(tier: &str, seed: u64, outdir: &str, extra: &[String]) {
    let mut cx = Ctx { out: Out::new(outdir), feat: Features::default(), violations: vec![], violation_cases: vec![], n_violations: 0, nocases: false, examples: vec![] };
    let mut rng = Rng::new(seed ^ 0xC02);
    let has = |k: &str| extra.iter().any(|e| e == k);
    cx.nocases = has("nocases");
    let simd_primary = has("simd");
    let mut evaluations = 0u64;

    if tier == "replay" {
        let text = std::fs::read_to_string(&extra[0]).unwrap_or_default();
        for l in text.lines() {
            let w: Vec<&str> = l.split_whitespace().collect();
            if w.len() == 2 && w[0] == "vp8" {
                evaluations += 1;
                cx.judge("replay", &unhex(w[1]), true, None, simd_primary);
            }
        }
    } else {
        let mut n_gen: u64 = if tier == "thorough" { 5000 } else { 300 };
        for e in extra {
            if let Some(v) = e.strip_prefix("frames=") {
                n_gen = v.parse().unwrap_or(n_gen);
            }
        }
        let n_enc: u64 = if tier == "thorough" { 1500 } else { 120 };
        let opts = GenOpts {
            max_dim: 80,
            wide_pct: 20,
            lf_ambiguous_pct: if has("ambiguous") { 10 } else { 0 },
            colorspace_pct: if has("colorspace") { 5 } else { 0 },
        };
        // the writer against closed-form expectations (libwebp decodes)
        let failures = gen_vp8::intent_selftest(&|p: &[u8]| rw::decode_yuv(&rw::simple_vp8(p)).map(|q| (q.y, q.u, q.v)));
        cx.feat.add("generator.intent_selftest_failures", failures.len() as u64);
        for f in failures {
            cx.examples.push(format!("generator intent self-test failed: {f}"));
        }
        // (a) generated key frames
        for i in 0..n_gen {
            let mut r = rng.fork();
            let g = if tier == "thorough" && i % 1000 == 999 {
                // extreme dimensions: 16383 in one direction
                let (w, h) = if (i / 1000) % 2 == 0 { (16383u16, r.range(1, 17) as u16) } else { (r.range(1, 17) as u16, 16383u16) };
                let (spec, domain, style) = gen_vp8::random_spec_sized(&mut r, &opts, w, h);
                let wr = gen_vp8::write_frame(&spec);
                Generated { spec, domain, style, payload: wr.payload, part_sizes: wr.part_sizes, selfcheck_ok: wr.selfcheck_ok }
            } else {
                gen_vp8::generate(&mut r, &opts)
            };
            cx.feat.frame(&g);
            if !g.selfcheck_ok {
                cx.feat.inc("generator.bool_coder_selfcheck_failed");
            }
            evaluations += 1;
            cx.judge("generated", &g.payload, true, Some(&g), simd_primary);
            // token partitions that no macroblock row reads (more partitions than rows) may be arbitrarily short -- an encoder that
            // minimises size writes 0 or 1 byte there; libwebp decodes such frames.  Native comparison with libwebp only: the
            // reference model of the proofs (Spec.VP8) is stricter and rejects an empty partition, so no oracle case is written.
            let n_parts = g.part_sizes.len().saturating_sub(1);
            let rows = g.spec.mbh();
            if n_parts > rows && g.part_sizes.len() >= 2 {
                let first = g.part_sizes[0];
                let table = 3 * (n_parts - 1);
                let hdr = 10; // frame tag (3) + start code (3) + dimensions (4)
                if g.payload.len() >= hdr + first + table + g.part_sizes[1..].iter().sum::<usize>() {
                    let mut out = g.payload[..hdr + first].to_vec();
                    let mut bodies: Vec<Vec<u8>> = vec![];
                    let mut off = hdr + first + table;
                    for (pi, &sz) in g.part_sizes[1..].iter().enumerate() {
                        let body = &g.payload[off..off + sz];
                        off += sz;
                        bodies.push(if pi >= rows { body[..body.len().min(r.below(2) as usize)].to_vec() } else { body.to_vec() });
                    }
                    for b in &bodies[..n_parts - 1] {
                        out.extend_from_slice(&[(b.len() & 0xff) as u8, ((b.len() >> 8) & 0xff) as u8, ((b.len() >> 16) & 0xff) as u8]);
                    }
                    for b in &bodies { out.extend_from_slice(b); }
                    // keep at least one byte after the last partition boundary when the last partition became empty, as a RIFF pad would
                    evaluations += 1;
                    cx.feat.inc("generated.short_unread_partitions");
                    cx.judge("generated_short_unread_partitions", &out, false, None, simd_primary);
                }
            }
        }
        // (b) libwebp encodings
        for _ in 0..n_enc {
            let mut r = rng.fork();
            let (w, h) = (r.range(1, 80) as usize, r.range(1, 80) as usize);
            if let Some((f, _desc)) = random_libwebp_encoding(&mut r, w, h, false) {
                for p in rw::vp8_payloads(&f) {
                    evaluations += 1;
                    cx.judge("libwebp_encoded", &p, true, None, simd_primary);
                }
            } else {
                cx.feat.inc("libwebp_encoded.encoder_failed");
            }
        }
        // (c) the repository's lossy test images
        for (name, f) in lossy_test_files() {
            for p in rw::vp8_payloads(&f) {
                evaluations += 1;
                let small = p.len() >= 10 && {
                    let w = (u16::from_le_bytes([p[6], p[7]]) & 0x3fff) as usize;
                    let h = (u16::from_le_bytes([p[8], p[9]]) & 0x3fff) as usize;
                    w * h <= 16384
                };
                if !cx.judge("test_images", &p, small || tier == "thorough", None, simd_primary) {
                    cx.feat.inc(&format!("test_images.disagree.{}", name));
                }
            }
        }
        // (d) frames with at least 65536 macroblocks ("all frame dimensions": per-frame counters and buffer sizes must not be
        //     computed in 16 bits); libwebp encodes a smooth picture, the planes are compared natively only (no oracle case)
        let huge: &[(usize, usize)] = if tier == "thorough" { &[(16383, 1025), (1025, 16383), (4096, 4096), (8192, 2048)] } else { &[(16383, 1025)] };
        for &(w, h) in huge {
            let mut pix = vec![0u8; w * h * 3];
            for y in 0..h {
                let row = &mut pix[y * w * 3..(y + 1) * w * 3];
                for x in 0..w {
                    let v = (((x / 64) * 7 + (y / 64) * 13 + ((x ^ y) & 1)) & 0xff) as u8;
                    row[x * 3] = v;
                    row[x * 3 + 1] = v.wrapping_add(40);
                    row[x * 3 + 2] = v.wrapping_mul(3);
                }
            }
            if let Some(f) = rw::encode(w, h, &pix, 3, 20.0, |c| { c.method = 0; c.segments = 2; c.filter_strength = 20; }) {
                drop(pix);
                for p in rw::vp8_payloads(&f) {
                    evaluations += 1;
                    if !cx.judge("huge_frames", &p, false, None, simd_primary) {
                        cx.feat.inc(&format!("huge_frames.disagree.{}x{}", w, h));
                    }
                }
            } else {
                cx.feat.inc("huge_frames.encoder_failed");
            }
        }
    }

    std::fs::write(format!("{outdir}/violation_cases.txt"), cx.violation_cases.join("\n") + if cx.violation_cases.is_empty() { "" } else { "\n" }).unwrap();
    let stats = format!(
        "{{\"check\": \"c02\", \"tier\": {}, \"seed\": {}, \"evaluations\": {}, \"cases_written\": {}, \"n_violations\": {}, \"primary_reference\": {}, \"features\": {}, \"examples\": [{}], \"violations\": [{}]}}",
        jstr(tier),
        seed,
        evaluations,
        cx.out.n,
        cx.n_violations,
        jstr(if simd_primary { "libwebp 1.3.1 SIMD kernels" } else { "libwebp 1.3.1 C kernels (VP8GetCPUInfo = NULL)" }),
        cx.feat.json(),
        cx.examples.iter().map(|v| jstr(v)).collect::<Vec<_>>().join(", "),
        cx.violations.iter().map(|v| jstr(v)).collect::<Vec<_>>().join(", ")
    );
    cx.out.finish(&stats);
}
