//! C06 / C07: animation compositing and playback.
//!
//! Builds real animated WebP files with a small muxer (VP8X / ANIM / ANMF with VP8L, VP8 and ALPH+VP8 payloads produced by
//! libwebp's encoder and by the crate's own lossless encoder), runs call sequences over {read_frame, reset_animation,
//! read_image} through the public API with a sentinel-filled buffer, and
//!  (1) decides the properties natively against an independent re-implementation of the container specification's canvas
//!      model (per-pixel code below: exact "over" for source alpha 0 / 255, the bounds of property C12 in between),
//!  (2) writes case lines + results for the Coq model (Model.Anim.run_ops / composite_frame_list) -- correspondence,
//!  (3) compares the specification model with libwebp's WebPAnimDecoder where the two are comparable (adequacy).
//! Case formats: see ocaml/o_anim.ml.  `anim` lines carry a trailing `file=<hex>` token (ignored by the oracle) so that a
//! stored case can be replayed through the implementation.
use crate::util::*;
use image_webp::{DecodingError, WebPDecoder};
use std::io::Cursor;

const SENTINEL: u8 = 0xee;

// ------------------------------------------------------------------------------------------------------------------
// muxer
// ------------------------------------------------------------------------------------------------------------------
fn chunk(name: &[u8; 4], data: &[u8]) -> Vec<u8> {
    let mut v = name.to_vec();
    v.extend_from_slice(&(data.len() as u32).to_le_bytes());
    v.extend_from_slice(data);
    if data.len() & 1 == 1 {
        v.push(0);
    }
    v
}
fn u24(v: u32) -> [u8; 3] {
    [v as u8, (v >> 8) as u8, (v >> 16) as u8]
}
fn riff(chunks: &[Vec<u8>]) -> Vec<u8> {
    let body: Vec<u8> = chunks.concat();
    let mut f = b"RIFF".to_vec();
    f.extend_from_slice(&((body.len() + 4) as u32).to_le_bytes());
    f.extend_from_slice(b"WEBP");
    f.extend_from_slice(&body);
    f
}
fn vp8x(flags: u8, w: u32, h: u32) -> Vec<u8> {
    let mut d = vec![flags, 0, 0, 0];
    d.extend_from_slice(&u24(w - 1));
    d.extend_from_slice(&u24(h - 1));
    chunk(b"VP8X", &d)
}

/// the sub-chunks of one frame, already framed (ALPH? + VP8 | VP8L)
#[derive(Clone)]
struct Payload {
    kind: &'static str, // "vp8l-crate" | "vp8l-libwebp" | "vp8" | "alph+vp8"
    chunks: Vec<u8>,
}

#[derive(Clone)]
struct GenFrame {
    x: u32,
    y: u32,
    w: u32,
    h: u32,
    duration: u32,
    blend: bool,
    dispose: bool,
    payload: Payload,
    /// reserved bits 2..7 of the ANMF flags byte (writers leave them 0, readers must ignore them)
    reserved: u8,
}

fn anmf(f: &GenFrame) -> Vec<u8> {
    let mut d = vec![];
    d.extend_from_slice(&u24(f.x / 2));
    d.extend_from_slice(&u24(f.y / 2));
    d.extend_from_slice(&u24(f.w - 1));
    d.extend_from_slice(&u24(f.h - 1));
    d.extend_from_slice(&u24(f.duration));
    d.push((if f.blend { 0 } else { 2 }) | (if f.dispose { 1 } else { 0 }) | (f.reserved & 0xfc));
    d.extend_from_slice(&f.payload.chunks);
    chunk(b"ANMF", &d)
}

fn build_file(w: u32, h: u32, alpha_flag: bool, bg: [u8; 4], frames: &[GenFrame]) -> Vec<u8> {
    let mut cs = vec![vp8x(0x02 | if alpha_flag { 0x10 } else { 0 }, w, h)];
    cs.push(chunk(b"ANIM", &[bg[0], bg[1], bg[2], bg[3], 0, 0]));
    for f in frames {
        cs.push(anmf(f));
    }
    riff(&cs)
}

// ------------------------------------------------------------------------------------------------------------------
// encoders (libwebp through libwebp-sys, and the crate's own lossless encoder)
// ------------------------------------------------------------------------------------------------------------------
fn find_chunk(f: &[u8], name: &[u8; 4]) -> Option<Vec<u8>> {
    let mut p = 12;
    while p + 8 <= f.len() {
        let sz = u32::from_le_bytes(f[p + 4..p + 8].try_into().unwrap()) as usize;
        if &f[p..p + 4] == name {
            return Some(f[p + 8..p + 8 + sz].to_vec());
        }
        p += 8 + sz + (sz & 1);
    }
    None
}

fn libwebp_encode(rgba: &[u8], w: u32, h: u32, with_alpha: bool, q: f32, cfgmod: impl Fn(&mut libwebp_sys::WebPConfig)) -> Vec<u8> {
    unsafe {
        let mut cfg: libwebp_sys::WebPConfig = std::mem::zeroed();
        libwebp_sys::WebPConfigInitInternal(&mut cfg, libwebp_sys::WebPPreset::WEBP_PRESET_DEFAULT, q, libwebp_sys::WEBP_ENCODER_ABI_VERSION as i32);
        cfgmod(&mut cfg);
        assert!(libwebp_sys::WebPValidateConfig(&cfg) != 0);
        let mut pic: libwebp_sys::WebPPicture = std::mem::zeroed();
        libwebp_sys::WebPPictureInitInternal(&mut pic, libwebp_sys::WEBP_ENCODER_ABI_VERSION as i32);
        pic.width = w as i32;
        pic.height = h as i32;
        pic.use_argb = cfg.lossless;
        if with_alpha {
            libwebp_sys::WebPPictureImportRGBA(&mut pic, rgba.as_ptr(), w as i32 * 4);
        } else {
            let rgb: Vec<u8> = rgba.chunks_exact(4).flat_map(|p| [p[0], p[1], p[2]]).collect();
            libwebp_sys::WebPPictureImportRGB(&mut pic, rgb.as_ptr(), w as i32 * 3);
        }
        let mut wr: libwebp_sys::WebPMemoryWriter = std::mem::zeroed();
        libwebp_sys::WebPMemoryWriterInit(&mut wr);
        pic.writer = Some(libwebp_sys::WebPMemoryWrite);
        pic.custom_ptr = &mut wr as *mut _ as *mut std::ffi::c_void;
        let ok = libwebp_sys::WebPEncode(&cfg, &mut pic);
        assert!(ok != 0, "libwebp encode failed");
        let f = std::slice::from_raw_parts(wr.mem, wr.size).to_vec();
        libwebp_sys::WebPPictureFree(&mut pic);
        libwebp_sys::WebPMemoryWriterClear(&mut wr);
        f
    }
}

/// encode `rgba` (w x h) as the requested kind; falls back to plain VP8 when libwebp drops a trivial alpha plane
fn encode_payload(kind: u64, rgba: &[u8], w: u32, h: u32, rng: &mut Rng) -> Payload {
    match kind {
        0 => {
            let mut out = Vec::new();
            image_webp::WebPEncoder::new(&mut out).encode(rgba, w, h, image_webp::ColorType::Rgba8).unwrap();
            Payload { kind: "vp8l-crate", chunks: chunk(b"VP8L", &find_chunk(&out, b"VP8L").unwrap()) }
        }
        1 => {
            let method = rng.below(7) as i32;
            let q = rng.below(101) as f32;
            let f = libwebp_encode(rgba, w, h, true, q, |c| {
                c.lossless = 1;
                c.exact = 1;
                c.method = method;
            });
            Payload { kind: "vp8l-libwebp", chunks: chunk(b"VP8L", &find_chunk(&f, b"VP8L").unwrap()) }
        }
        2 => {
            let q = rng.below(101) as f32;
            let f = libwebp_encode(rgba, w, h, false, q, |_| {});
            Payload { kind: "vp8", chunks: chunk(b"VP8 ", &find_chunk(&f, b"VP8 ").unwrap()) }
        }
        _ => {
            let q = rng.below(101) as f32;
            let (af, ac, aq) = (rng.below(3) as i32, rng.below(2) as i32, rng.below(101) as i32);
            let f = libwebp_encode(rgba, w, h, true, q, |c| {
                c.alpha_filtering = af;
                c.alpha_compression = ac;
                c.alpha_quality = aq;
                c.exact = 1;
            });
            let vp8 = find_chunk(&f, b"VP8 ").unwrap();
            match find_chunk(&f, b"ALPH") {
                Some(a) => {
                    let mut c = chunk(b"ALPH", &a);
                    c.extend_from_slice(&chunk(b"VP8 ", &vp8));
                    Payload { kind: "alph+vp8", chunks: c }
                }
                None => Payload { kind: "vp8", chunks: chunk(b"VP8 ", &vp8) },
            }
        }
    }
}

// ------------------------------------------------------------------------------------------------------------------
// reading the file back: ANMF fields and independently decoded frame pixels
// ------------------------------------------------------------------------------------------------------------------
#[derive(Clone)]
struct Frame {
    x: u32,
    y: u32,
    w: u32,
    h: u32,
    duration: u32,
    blend: bool,
    dispose: bool,
    has_alpha: bool,
    pixels: Vec<u8>, // RGBA if has_alpha else RGB, decoded through the still-image path of the crate
    kind: String,
    differs_from_libwebp: bool,
}

struct Anim {
    w: u32,
    h: u32,
    alpha_flag: bool,
    bg_stored: [u8; 4],
    frames: Vec<Frame>,
}

fn libwebp_decode_nofancy(f: &[u8], alpha: bool) -> Option<Vec<u8>> {
    unsafe {
        let mut cfg: libwebp_sys::WebPDecoderConfig = std::mem::zeroed();
        if libwebp_sys::WebPInitDecoderConfigInternal(&mut cfg, libwebp_sys::WEBP_DECODER_ABI_VERSION as i32) == 0 {
            return None;
        }
        cfg.options.no_fancy_upsampling = 1;
        cfg.output.colorspace = if alpha { libwebp_sys::WEBP_CSP_MODE::MODE_RGBA } else { libwebp_sys::WEBP_CSP_MODE::MODE_RGB };
        let st = libwebp_sys::WebPDecode(f.as_ptr(), f.len(), &mut cfg);
        if st != libwebp_sys::VP8StatusCode::VP8_STATUS_OK {
            return None;
        }
        let b = cfg.output.u.RGBA;
        let bpp = if alpha { 4 } else { 3 };
        let mut out = vec![];
        for r in 0..cfg.output.height {
            out.extend_from_slice(std::slice::from_raw_parts(b.rgba.offset((r * b.stride) as isize), (cfg.output.width * bpp) as usize));
        }
        libwebp_sys::WebPFreeDecBuffer(&mut cfg.output);
        Some(out)
    }
}

/// decode one frame's payload re-wrapped as a still image, through the crate's read_image (the frame payload decoders are
/// the subject of C01/C02/C05, not of this check); libwebp decodes the same still for comparison
fn decode_payload(sub: &[u8], w: u32, h: u32) -> Result<(bool, Vec<u8>, String, bool), String> {
    let first = &sub[0..4];
    let (still, has_alpha, kind) = if first == b"VP8 " {
        (riff(&[sub.to_vec()]), false, "vp8")
    } else if first == b"VP8L" {
        (riff(&[vp8x(0x10, w, h), sub.to_vec()]), true, "vp8l")
    } else if first == b"ALPH" {
        (riff(&[vp8x(0x10, w, h), sub.to_vec()]), true, "alph+vp8")
    } else {
        return Err("unknown payload".into());
    };
    let mut d = WebPDecoder::new(Cursor::new(still.clone())).map_err(|e| format!("still: {e}"))?;
    if d.dimensions() != (w, h) || d.has_alpha() != has_alpha {
        return Err("still: dimensions / alpha do not match the ANMF header".into());
    }
    let mut buf = vec![0u8; d.output_buffer_size().unwrap()];
    d.read_image(&mut buf).map_err(|e| format!("still: {e}"))?;
    let lw = libwebp_decode_nofancy(&still, has_alpha);
    let differs = lw.as_deref() != Some(&buf[..]);
    Ok((has_alpha, buf, kind.to_string(), differs))
}

fn parse_file(f: &[u8]) -> Result<Anim, String> {
    if f.len() < 30 || &f[12..16] != b"VP8X" {
        return Err("not VP8X".into());
    }
    let flags = f[20];
    let w = u32::from_le_bytes([f[24], f[25], f[26], 0]) + 1;
    let h = u32::from_le_bytes([f[27], f[28], f[29], 0]) + 1;
    let mut a = Anim { w, h, alpha_flag: flags & 0x10 != 0, bg_stored: [0; 4], frames: vec![] };
    let mut p = 30;
    while p + 8 <= f.len() {
        let sz = u32::from_le_bytes(f[p + 4..p + 8].try_into().unwrap()) as usize;
        let body = &f[p + 8..p + 8 + sz];
        if &f[p..p + 4] == b"ANIM" {
            a.bg_stored.copy_from_slice(&body[0..4]);
        } else if &f[p..p + 4] == b"ANMF" {
            let g = |i: usize| u32::from_le_bytes([body[i], body[i + 1], body[i + 2], 0]);
            let (x, y, fw, fh, dur, fl) = (g(0) * 2, g(3) * 2, g(6) + 1, g(9) + 1, g(12), body[15]);
            let (has_alpha, pixels, kind, differs) = decode_payload(&body[16..], fw, fh)?;
            a.frames.push(Frame { x, y, w: fw, h: fh, duration: dur, blend: fl & 2 == 0, dispose: fl & 1 != 0, has_alpha, pixels, kind, differs_from_libwebp: differs });
        }
        p += 8 + sz + (sz & 1);
    }
    Ok(a)
}

// ------------------------------------------------------------------------------------------------------------------
// the container specification's canvas model, per pixel (independent of the crate and of the Coq development)
// ------------------------------------------------------------------------------------------------------------------
#[derive(Default)]
struct Tally {
    pixels: u64,
    overwritten: u64,
    untouched: u64,
    disposed: u64,
    blend_transparent: u64,
    blend_opaque: u64,
    blend_mid: u64,
    known_opaque_dec: u64,
}

enum Verdict {
    Ok,
    Known,
    Bad(String),
}

/// is `o` an acceptable result of blending source `s` over destination `d`?
fn judge_blend(s: [u8; 4], d: [u8; 4], o: [u8; 4], t: &mut Tally) -> Verdict {
    let (sa, da) = (s[3] as i64, d[3] as i64);
    if sa == 0 {
        t.blend_transparent += 1;
        return if o == d { Verdict::Ok } else { Verdict::Bad(format!("transparent source changed the canvas pixel {:?} -> {:?}", d, o)) };
    }
    if sa == 255 {
        t.blend_opaque += 1;
        if o == s {
            return Verdict::Ok;
        }
        let dec = |c: u8| if c == 0 { 0 } else { c - 1 };
        if o == [dec(s[0]), dec(s[1]), dec(s[2]), 255] {
            t.known_opaque_dec += 1;
            return Verdict::Known;
        }
        return Verdict::Bad(format!("opaque source {:?} gave {:?}", s, o));
    }
    t.blend_mid += 1;
    let ra = o[3] as i64;
    let dd = 255 * sa + da * (255 - sa);
    if (255 * ra - dd).abs() > 255 {
        return Verdict::Bad(format!("alpha {} not within 1 of exact {}/255", ra, dd));
    }
    for c in 0..3 {
        let (sc, dc, rc) = (s[c] as i64, d[c] as i64, o[c] as i64);
        let n = 255 * sc * sa + dc * da * (255 - sa);
        if (rc * dd - n).abs() * ra > 2 * 255 * dd {
            return Verdict::Bad(format!("channel {c}: {rc} more than 2 weighted code values from exact {n}/{dd}"));
        }
        if rc < sc.min(dc) - 1 || rc > sc.max(dc) + 1 {
            return Verdict::Bad(format!("channel {c}: {rc} outside [min-1,max+1] of {sc},{dc}"));
        }
    }
    Verdict::Ok
}

struct PrevRect {
    x: u32,
    y: u32,
    w: u32,
    h: u32,
}

/// One step of the canvas model: `before` = canvas shown for the previous frame (RGBA), `after` = canvas the implementation
/// shows for this frame.  `clear` = Some(rect) when the previous frame asked for disposal.
#[allow(clippy::too_many_arguments)]
fn judge_step(cw: u32, ch: u32, bg: [u8; 4], before: &[u8], after: &[u8], clear: Option<&PrevRect>, fx: u32, fy: u32, fw: u32, fh: u32,
              has_alpha: bool, blend: bool, pixels: &[u8], t: &mut Tally) -> (u64, Option<String>) {
    let mut known = 0u64;
    for y in 0..ch {
        for x in 0..cw {
            let i = ((y * cw + x) * 4) as usize;
            t.pixels += 1;
            let mut base: [u8; 4] = before[i..i + 4].try_into().unwrap();
            if let Some(r) = clear {
                if x >= r.x && x < r.x + r.w && y >= r.y && y < r.y + r.h {
                    base = bg;
                    t.disposed += 1;
                }
            }
            let got: [u8; 4] = after[i..i + 4].try_into().unwrap();
            if x >= fx && x < fx + fw && y >= fy && y < fy + fh {
                let k = ((y - fy) * fw + (x - fx)) as usize;
                let s: [u8; 4] = if has_alpha { pixels[k * 4..k * 4 + 4].try_into().unwrap() } else { [pixels[k * 3], pixels[k * 3 + 1], pixels[k * 3 + 2], 255] };
                if blend {
                    match judge_blend(s, base, got, t) {
                        Verdict::Ok => {}
                        Verdict::Known => known += 1,
                        Verdict::Bad(why) => return (known, Some(format!("pixel ({x},{y}): {why}"))),
                    }
                } else {
                    t.overwritten += 1;
                    if got != s {
                        return (known, Some(format!("pixel ({x},{y}): overwriting frame pixel {:?} gave {:?}", s, got)));
                    }
                }
            } else {
                t.untouched += 1;
                if got != base {
                    return (known, Some(format!("pixel ({x},{y}) outside the frame: expected {:?}, got {:?}", base, got)));
                }
            }
        }
    }
    (known, None)
}

/// whole-run canvas model with the exact operator; defined when every blended source pixel has alpha 0 or 255
fn spec_play_exact(a: &Anim, bg: [u8; 4]) -> Option<Vec<Vec<u8>>> {
    let n = (a.w * a.h) as usize;
    let mut canvas: Vec<u8> = (0..n).flat_map(|_| bg).collect();
    let mut out = vec![];
    let mut prev: Option<&Frame> = None;
    for f in &a.frames {
        if let Some(p) = prev {
            if p.dispose {
                for y in p.y..p.y + p.h {
                    for x in p.x..p.x + p.w {
                        let i = ((y * a.w + x) * 4) as usize;
                        canvas[i..i + 4].copy_from_slice(&bg);
                    }
                }
            }
        }
        for y in 0..f.h {
            for x in 0..f.w {
                let k = (y * f.w + x) as usize;
                let s: [u8; 4] = if f.has_alpha { f.pixels[k * 4..k * 4 + 4].try_into().unwrap() } else { [f.pixels[k * 3], f.pixels[k * 3 + 1], f.pixels[k * 3 + 2], 255] };
                let i = (((y + f.y) * a.w + x + f.x) * 4) as usize;
                if f.blend {
                    match s[3] {
                        0 => {}
                        255 => canvas[i..i + 4].copy_from_slice(&s),
                        _ => return None,
                    }
                } else {
                    canvas[i..i + 4].copy_from_slice(&s);
                }
            }
        }
        out.push(canvas.clone());
        prev = Some(f);
    }
    Some(out)
}

/// libwebp's WebPAnimDecoder (RGBA, non-premultiplied): canvases and timestamps; None when libwebp rejects the file
fn libwebp_anim(file: &[u8]) -> Option<Vec<(i32, Vec<u8>)>> {
    unsafe {
        let mut opt: libwebp_sys::WebPAnimDecoderOptions = std::mem::zeroed();
        if libwebp_sys::WebPAnimDecoderOptionsInitInternal(&mut opt, libwebp_sys::WEBP_DEMUX_ABI_VERSION as i32) == 0 {
            return None;
        }
        opt.color_mode = libwebp_sys::WEBP_CSP_MODE::MODE_RGBA;
        let data = libwebp_sys::WebPData { bytes: file.as_ptr(), size: file.len() };
        let dec = libwebp_sys::WebPAnimDecoderNewInternal(&data, &opt, libwebp_sys::WEBP_DEMUX_ABI_VERSION as i32);
        if dec.is_null() {
            return None;
        }
        let mut info: libwebp_sys::WebPAnimInfo = std::mem::zeroed();
        libwebp_sys::WebPAnimDecoderGetInfo(dec, &mut info);
        let n = (info.canvas_width * info.canvas_height * 4) as usize;
        let mut out = vec![];
        while libwebp_sys::WebPAnimDecoderHasMoreFrames(dec) != 0 {
            let mut p: *mut u8 = std::ptr::null_mut();
            let mut ts = 0i32;
            if libwebp_sys::WebPAnimDecoderGetNext(dec, &mut p, &mut ts) == 0 {
                libwebp_sys::WebPAnimDecoderDelete(dec);
                return None;
            }
            out.push((ts, std::slice::from_raw_parts(p, n).to_vec()));
        }
        libwebp_sys::WebPAnimDecoderDelete(dec);
        Some(out)
    }
}

// ------------------------------------------------------------------------------------------------------------------
// running the implementation
// ------------------------------------------------------------------------------------------------------------------
/// the op string through the public API; same text as the oracle prints
fn run_ops_impl(file: &[u8], ops: &str) -> String {
    run_ops_impl_limited(file, ops, None)
}

/// the same with `set_memory_limit(limit)` applied right after `new` (decoder configuration, not a call of the C07 alphabet)
fn run_ops_impl_limited(file: &[u8], ops: &str, limit: Option<usize>) -> String {
    let file = file.to_vec();
    let ops = ops.to_string();
    let r = catch(move || {
        let mut d = match WebPDecoder::new(Cursor::new(file)) {
            Ok(d) => d,
            Err(e) => return format!("NEWFAIL {e}"),
        };
        if let Some(l) = limit {
            d.set_memory_limit(l);
        }
        let mut buf = vec![SENTINEL; d.output_buffer_size().unwrap()];
        let mut parts: Vec<String> = vec![];
        for c in ops.chars() {
            match c {
                'F' => {
                    let r = std::panic::catch_unwind(std::panic::AssertUnwindSafe(|| d.read_frame(&mut buf)));
                    match r {
                        Ok(Ok(dur)) => parts.push(format!("OK {} {}", dur, hex(&buf))),
                        Ok(Err(DecodingError::NoMoreFrames)) => parts.push(format!("ERR NoMoreFrames {}", hex(&buf))),
                        Ok(Err(_)) => parts.push("ERR other".into()),
                        Err(_) => {
                            parts.push("PANIC".into());
                            break;
                        }
                    }
                }
                'I' => {
                    let r = std::panic::catch_unwind(std::panic::AssertUnwindSafe(|| d.read_image(&mut buf)));
                    match r {
                        Ok(Ok(())) => parts.push(format!("OK img {}", hex(&buf))),
                        Ok(Err(_)) => parts.push("ERR other".into()),
                        Err(_) => {
                            parts.push("PANIC".into());
                            break;
                        }
                    }
                }
                'R' => {
                    d.reset_animation();
                    parts.push("RESET".into());
                }
                'S' => {
                    buf.iter_mut().for_each(|b| *b = SENTINEL);
                    parts.push("FILL".into());
                }
                _ => parts.push("BADOP".into()),
            }
        }
        parts.join("|")
    });
    match r {
        Ok(s) => s,
        Err(e) => format!("PANIC {}", e.replace('\n', " ")),
    }
}

fn case_line(a: &Anim, alpha_flag: bool, ops: &str, file: &[u8]) -> String {
    let mut s = format!("anim {} {} {} {} {}", a.w, a.h, alpha_flag as u8, hex(&a.bg_stored), ops);
    for f in &a.frames {
        s.push_str(&format!(" {},{},{},{},{},{},{},{},{}", f.x, f.y, f.w, f.h, f.duration, f.blend as u8, f.dispose as u8, f.has_alpha as u8, hex(&f.pixels)));
    }
    s.push_str(&format!(" file={}", hex(file)));
    s
}

fn set_alpha_flag(file: &[u8], on: bool) -> Vec<u8> {
    let mut f = file.to_vec();
    if on {
        f[20] |= 0x10;
    } else {
        f[20] &= !0x10;
    }
    f
}

/// fresh decoder, all frames: (duration, buffer) per frame, or the error text
fn fresh_play(file: &[u8]) -> Result<Vec<(u32, Vec<u8>)>, String> {
    let file = file.to_vec();
    catch(move || {
        let mut d = WebPDecoder::new(Cursor::new(file)).map_err(|e| format!("new: {e}"))?;
        let mut out = vec![];
        for _ in 0..d.num_frames() {
            let mut buf = vec![SENTINEL; d.output_buffer_size().unwrap()];
            let dur = d.read_frame(&mut buf).map_err(|e| format!("read_frame: {e}"))?;
            out.push((dur, buf));
        }
        Ok(out)
    })
    .unwrap_or_else(|e| Err(format!("panic: {e}")))
}

struct Stats {
    animations: u64,
    files_run: u64,
    frames: u64,
    ops_run: u64,
    op_f: u64,
    op_r: u64,
    op_i: u64,
    op_s: u64,
    exhausted_reads: u64,
    kinds: std::collections::BTreeMap<String, u64>,
    blend_dispose: [u64; 4],
    first_frame_partial: u64,
    canvas_sizes: Vec<u32>,
    payload_differs_from_libwebp: std::collections::BTreeMap<String, u64>,
    adequacy_cases: u64,
    adequacy_mismatch: Vec<String>,
    generator_rejected: u64,
    composite_cases: u64,
    composite_invalid: u64,
    known: u64,
    violations: Vec<String>,     // C06
    violations_c07: Vec<String>, // C07
    tally: Tally,
}

/// `which`: 6 = compositing (C06), 7 = call history (C07)
fn violate_p(st: &mut Stats, which: u8, v: String) {
    let l = if which == 7 { &mut st.violations_c07 } else { &mut st.violations };
    if l.len() < 20 {
        l.push(v);
    }
}
fn violate(st: &mut Stats, v: String) {
    violate_p(st, 6, v)
}

/// everything that is checked about one animation file pair (alpha flag set / clear)
fn check_animation(file_rgba: &[u8], ops: &str, ops_on_alpha: bool, st: &mut Stats, out: &mut Out) {
    let a = match parse_file(file_rgba) {
        Ok(a) => a,
        Err(e) => {
            // a payload the still-image path cannot decode is a matter for C01/C02/C05 or a generator bug, not for this check
            st.generator_rejected += 1;
            if st.adequacy_mismatch.len() < 5 {
                st.adequacy_mismatch.push(format!("payload not decodable as a still image ({e}): file={}", hex(file_rgba)));
            }
            return;
        }
    };
    let file_rgb = set_alpha_flag(file_rgba, false);
    let file_rgba = set_alpha_flag(file_rgba, true);
    let bg = [a.bg_stored[2], a.bg_stored[1], a.bg_stored[0], a.bg_stored[3]]; // stored B,G,R,A
    st.animations += 1;
    st.frames += a.frames.len() as u64;
    st.canvas_sizes.push(a.w * a.h);
    for f in &a.frames {
        *st.kinds.entry(f.kind.clone()).or_insert(0) += 1;
        st.blend_dispose[(f.blend as usize) * 2 + f.dispose as usize] += 1;
        if f.differs_from_libwebp {
            *st.payload_differs_from_libwebp.entry(f.kind.clone()).or_insert(0) += 1;
        }
    }
    if let Some(f0) = a.frames.first() {
        if f0.w != a.w || f0.h != a.h {
            st.first_frame_partial += 1;
        }
    }
    // generator adequacy: libwebp must accept the file
    let lw = libwebp_anim(&file_rgba);
    if lw.is_none() {
        st.generator_rejected += 1;
        return;
    }

    // ---- C06: fresh playback, step by step against the canvas model (the RGBA variant shows the whole canvas) ----
    let id = |what: &str| format!("{} -> {}", case_line(&a, true, &"F".repeat(a.frames.len()), &file_rgba), what);
    let fresh = match fresh_play(&file_rgba) {
        Ok(f) => f,
        Err(e) => {
            violate(st, id(&format!("valid animation not played: {e}")));
            return;
        }
    };
    let n = (a.w * a.h) as usize;
    let mut before: Vec<u8> = (0..n).flat_map(|_| bg).collect();
    let mut prev: Option<&Frame> = None;
    for (k, f) in a.frames.iter().enumerate() {
        let (dur, after) = &fresh[k];
        if *dur != f.duration {
            violate(st, id(&format!("frame {k}: duration {dur}, file says {}", f.duration)));
        }
        let clear = prev.filter(|p| p.dispose).map(|p| PrevRect { x: p.x, y: p.y, w: p.w, h: p.h });
        let (known, bad) = judge_step(a.w, a.h, bg, &before, after, clear.as_ref(), f.x, f.y, f.w, f.h, f.has_alpha, f.blend, &f.pixels, &mut st.tally);
        st.known += known;
        if let Some(why) = bad {
            violate(st, id(&format!("frame {k}: {why}")));
            break;
        }
        before = after.clone();
        prev = Some(f);
    }
    // the RGB variant delivers the same canvases without the alpha bytes
    match fresh_play(&file_rgb) {
        Ok(fr) => {
            for k in 0..a.frames.len() {
                let proj: Vec<u8> = fresh[k].1.chunks_exact(4).flat_map(|p| [p[0], p[1], p[2]]).collect();
                if fr[k].0 != fresh[k].0 || fr[k].1 != proj {
                    violate(st, format!("{} -> frame {k}: RGB output is not the RGBA output without alpha", case_line(&a, false, &"F".repeat(a.frames.len()), &file_rgb)));
                    break;
                }
            }
        }
        Err(e) => violate(st, format!("{} -> valid animation not played: {e}", case_line(&a, false, &"F".repeat(a.frames.len()), &file_rgb))),
    }

    // ---- adequacy: the canvas model against libwebp's WebPAnimDecoder (lossless frames, alpha 0/255 only; libwebp ignores
    //      the background colour and starts from transparent black, so the model is run with that background) ----
    if a.frames.iter().all(|f| f.kind == "vp8l" && !f.differs_from_libwebp) {
        if let (Some(spec), Some(lw)) = (spec_play_exact(&a, [0, 0, 0, 0]), lw.as_ref()) {
            st.adequacy_cases += 1;
            let mut ts = 0i32;
            for k in 0..a.frames.len() {
                ts += a.frames[k].duration as i32;
                let same = spec[k].chunks_exact(4).zip(lw[k].1.chunks_exact(4)).all(|(p, q)| p == q || (p[3] == 0 && q[3] == 0));
                if !same || lw[k].0 != ts {
                    if st.adequacy_mismatch.len() < 5 {
                        st.adequacy_mismatch.push(format!("frame {k} of file={}", hex(&file_rgba)));
                    }
                    break;
                }
            }
        }
    }

    // ---- C07: the call sequence against the fresh playback ----
    let (file_ops, fresh_ops): (&[u8], Vec<(u32, Vec<u8>)>) = if ops_on_alpha {
        (&file_rgba, fresh.clone())
    } else {
        (&file_rgb, fresh.iter().map(|(d, b)| (*d, b.chunks_exact(4).flat_map(|p| [p[0], p[1], p[2]]).collect())).collect())
    };
    let line = case_line(&a, ops_on_alpha, ops, file_ops);
    let res = run_ops_impl(file_ops, ops);
    // a finite memory limit that holds two canvases must not change what any call sequence returns (no per-call budget may leak)
    {
        let canvas = (a.w as usize) * (a.h as usize) * 4;
        let lim = run_ops_impl_limited(file_ops, ops, Some(2 * canvas + 16));
        if lim != res {
            violate_p(st, 7, format!("{} -> with set_memory_limit(2 canvases + 16 bytes) the same call sequence returns something else: {} ... vs {} ...",
                                case_line(&a, ops_on_alpha, ops, file_ops), &lim[..lim.len().min(80)], &res[..res.len().min(80)]));
        }
    }
    st.files_run += 1;
    {
        let parts: Vec<&str> = res.split('|').collect();
        let mut cursor = 0usize;
        let mut cur_buf: Vec<u8> = vec![SENTINEL; fresh_ops[0].1.len()];
        if parts.len() != ops.len() {
            violate_p(st, 7, format!("{line} -> trace cut short: {}", &res[..res.len().min(200)]));
        } else {
            for (i, c) in ops.chars().enumerate() {
                st.ops_run += 1;
                let expect = match c {
                    'F' => {
                        st.op_f += 1;
                        if cursor < fresh_ops.len() {
                            cur_buf = fresh_ops[cursor].1.clone();
                            cursor += 1;
                            format!("OK {} {}", fresh_ops[cursor - 1].0, hex(&cur_buf))
                        } else {
                            st.exhausted_reads += 1;
                            format!("ERR NoMoreFrames {}", hex(&cur_buf))
                        }
                    }
                    'R' => {
                        st.op_r += 1;
                        cursor = 0;
                        "RESET".to_string()
                    }
                    'I' => {
                        st.op_i += 1;
                        cur_buf = fresh_ops[0].1.clone();
                        format!("OK img {}", hex(&cur_buf))
                    }
                    _ => {
                        st.op_s += 1;
                        cur_buf.iter_mut().for_each(|b| *b = SENTINEL);
                        "FILL".to_string()
                    }
                };
                if parts[i] != expect {
                    violate_p(st, 7, format!("{line} -> call {i} ({c}) with {cursor} frame(s) consumed since the last reset: got {} expected {}", &parts[i][..parts[i].len().min(120)], &expect[..expect.len().min(120)]));
                    break;
                }
            }
        }
    }
    out.case(&line, &res);
    // the other variant, plain playback plus one read past the end, for the model correspondence
    let other = if ops_on_alpha { &file_rgb } else { &file_rgba };
    let ops2 = format!("{}SF", "F".repeat(a.frames.len()));
    out.case(&case_line(&a, !ops_on_alpha, &ops2, other), &run_ops_impl(other, &ops2));
    st.files_run += 1;
}

// ------------------------------------------------------------------------------------------------------------------
// generators
// ------------------------------------------------------------------------------------------------------------------
fn gen_pixels(w: u32, h: u32, rng: &mut Rng, alpha_style: u64) -> Vec<u8> {
    let mut v = Vec::with_capacity((w * h * 4) as usize);
    let base = [rng.byte(), rng.byte(), rng.byte()];
    let style = rng.below(3);
    for y in 0..h {
        for x in 0..w {
            let mut p = match style {
                0 => [base[0].wrapping_add((x * 9) as u8), base[1].wrapping_add((y * 13) as u8), base[2].wrapping_add(((x + y) * 5) as u8)],
                1 => [rng.byte(), rng.byte(), rng.byte()],
                _ => base,
            };
            if rng.chance(1, 8) {
                p[rng.below(3) as usize] = *rng.pick(&[0u8, 1, 255]);
            }
            let a = match alpha_style {
                0 => 255,
                1 => *rng.pick(&[0u8, 255]),
                2 => *rng.pick(&[0u8, 255, 255, 1, 254, 128, 77]),
                _ => match rng.below(4) {
                    0 => 0,
                    1 => 255,
                    _ => rng.byte(),
                },
            };
            v.extend_from_slice(&[p[0], p[1], p[2], a]);
        }
    }
    v
}

fn gen_animation(rng: &mut Rng, small: bool, binary_lossless: bool) -> (Vec<u8>, String) {
    let maxdim = if small { 12 } else { 40 };
    let (w, h) = (rng.range(1, maxdim) as u32, rng.range(1, maxdim) as u32);
    let nframes = rng.range(1, 6) as usize;
    let mut frames = vec![];
    for k in 0..nframes {
        let full = rng.chance(1, if k == 0 { 6 } else { 4 });
        let (fw, fh) = if full { (w, h) } else { (rng.range(1, w as u64) as u32, rng.range(1, h as u64) as u32) };
        let x = 2 * rng.below(((w - fw) / 2 + 1) as u64) as u32;
        let y = 2 * rng.below(((h - fh) / 2 + 1) as u64) as u32;
        let kind = if binary_lossless { rng.below(2) } else { rng.below(4) };
        let alpha_style = if binary_lossless { rng.below(2) } else { rng.below(4) };
        let px = gen_pixels(fw, fh, rng, alpha_style);
        let payload = encode_payload(kind, &px, fw, fh, rng);
        frames.push(GenFrame { x, y, w: fw, h: fh, duration: rng.below(1 << 24) as u32 >> rng.below(20), blend: rng.chance(1, 2), dispose: rng.chance(1, 2), payload, reserved: if rng.chance(1, 4) { rng.byte() & 0xfc } else { 0 } });
    }
    let mut bg = [rng.byte(), rng.byte(), rng.byte(), *rng.pick(&[0u8, 255, 128, 200, 1])];
    if bg[0] == bg[2] {
        bg[2] = bg[0].wrapping_add(37);
    }
    let file = build_file(w, h, true, bg, &frames);
    // call sequence: length <= 30 (shorter on large canvases to bound the case size)
    let maxlen = if w * h > 256 { 10 } else { 30 };
    let len = rng.range(1, maxlen);
    let mut ops = String::new();
    for _ in 0..len {
        ops.push(match rng.below(10) {
            0..=5 => 'F',
            6 => 'R',
            7 | 8 => 'I',
            _ => 'S',
        });
    }
    (file, ops)
}

/// "blend chain" family: constant translucent frames blended over each other with shifted rectangles, so that neighbouring
/// pixels of one frame meet canvas values that are each other's blend results (d, s over d, s over (s over d), ...) -- what a
/// memoised / run-based blend loop gets wrong
fn gen_blend_chain(rng: &mut Rng) -> (Vec<u8>, String) {
    let (w, h) = (rng.range(6, 16) as u32, rng.range(1, 4) as u32);
    let s = [rng.byte(), rng.byte(), rng.byte(), *rng.pick(&[64u8, 100, 128, 190, 254, 1, 3])];
    let d = [rng.byte(), rng.byte(), rng.byte(), *rng.pick(&[255u8, 255, 200, 128, 40, 0])];
    let konst = |c: [u8; 4], fw: u32, fh: u32| -> Vec<u8> { (0..fw * fh).flat_map(|_| c).collect() };
    let mut frames = vec![];
    // frame 1: the whole canvas := d (no blending)
    let mut r2 = rng.fork();
    frames.push(GenFrame { x: 0, y: 0, w, h, duration: 10, blend: false, dispose: false, payload: encode_payload(r2.below(2), &konst(d, w, h), w, h, &mut r2), reserved: 0 });
    // frames 2..: constant s, blended, each starting two columns further left than the one before (right-aligned rectangles)
    let steps = rng.range(2, 4) as u32;
    for k in (0..steps).rev() {
        let x = (2 * k).min(w - 1) & !1;
        let fw = w - x;
        frames.push(GenFrame { x, y: 0, w: fw, h, duration: 10, blend: true, dispose: false, payload: encode_payload(r2.below(2), &konst(s, fw, h), fw, h, &mut r2), reserved: 0 });
    }
    let bg = [rng.byte(), rng.byte(), rng.byte(), 0];
    let file = build_file(w, h, true, bg, &frames);
    let ops: String = std::iter::repeat('F').take(frames.len() + 1).collect();
    (file, ops)
}

// ------------------------------------------------------------------------------------------------------------------
// composite_frame through the hook
// ------------------------------------------------------------------------------------------------------------------
fn panic_kind(msg: &str) -> &'static str {
    if msg.contains("out of range for slice") || msg.contains("out of bounds") {
        "slice"
    } else if msg.contains("does not match destination") {
        "copylen"
    } else if msg.contains("overflow") {
        "overflow"
    } else {
        "other"
    }
}

#[allow(clippy::too_many_arguments)]
fn composite_case(w: u32, h: u32, canvas: &[u8], clear: Option<[u8; 4]>, frame: &[u8], fx: u32, fy: u32, fw: u32, fh: u32, ha: bool, bl: bool,
                  pw: u32, ph: u32, pox: u32, poy: u32) -> (String, Result<Vec<u8>, String>) {
    let line = format!(
        "composite {} {} {} {} {} {} {} {} {} {} {} {} {} {} {}",
        w, h, hex(canvas), clear.map(|c| hex(&c)).unwrap_or("-".into()), hex(frame), fx, fy, fw, fh, ha as u8, bl as u8, pw, ph, pox, poy
    );
    let (mut cv, fr) = (canvas.to_vec(), frame.to_vec());
    let r = catch(move || {
        image_webp::verif::composite_frame(&mut cv, w, h, clear, &fr, fx, fy, fw, fh, ha, bl, pw, ph, pox, poy);
        cv
    });
    (line, r)
}

fn run_composite(rng: &mut Rng, count: usize, st: &mut Stats, out: &mut Out) {
    for _ in 0..count {
        let (w, h) = (rng.range(1, 12) as u32, rng.range(1, 12) as u32);
        let canvas: Vec<u8> = (0..w * h).flat_map(|_| [rng.byte(), rng.byte(), rng.byte(), *rng.pick(&[0u8, 255, 128, 3])]).collect();
        let full = rng.chance(1, 4);
        let (fw, fh) = if full { (w, h) } else { (rng.range(1, w as u64) as u32, rng.range(1, h as u64) as u32) };
        let (fx, fy) = (rng.below((w - fw + 1) as u64) as u32, rng.below((h - fh + 1) as u64) as u32);
        let (pw, ph) = (rng.range(0, w as u64) as u32, rng.range(0, h as u64) as u32);
        let (pox, poy) = (rng.below((w - pw + 1) as u64) as u32, rng.below((h - ph + 1) as u64) as u32);
        let ha = rng.chance(1, 2);
        let bl = rng.chance(1, 2);
        let clear = if rng.chance(2, 3) { Some([rng.byte(), rng.byte(), rng.byte(), rng.byte()]) } else { None };
        let astyle = rng.below(4);
        let px = gen_pixels(fw, fh, rng, astyle);
        let frame: Vec<u8> = if ha { px.clone() } else { px.chunks_exact(4).flat_map(|p| [p[0], p[1], p[2]]).collect() };
        st.composite_cases += 1;
        // one in ten: break the geometry (rectangles leaving the canvas, short frame buffers) -- only the correspondence of
        // the panic class with the model is checked for those
        let invalid = rng.chance(1, 10);
        if invalid {
            st.composite_invalid += 1;
            let (mut fx2, mut fy2, mut pox2, mut poy2, mut frame2, mut pw2) = (fx, fy, pox, poy, frame.clone(), pw);
            match rng.below(5) {
                0 => fx2 += rng.range(1, 3) as u32,
                1 => fy2 += rng.range(1, 3) as u32,
                2 => {
                    pox2 += rng.range(1, 3) as u32;
                    pw2 = pw2.max(1)
                }
                3 => {
                    poy2 = h + rng.range(0, 2) as u32;
                    pw2 = pw2.max(1)
                }
                _ => {
                    let cut = rng.range(1, 4) as usize;
                    frame2.truncate(frame2.len().saturating_sub(cut))
                }
            }
            let ph2 = ph.max(1);
            let (line, r) = composite_case(w, h, &canvas, clear, &frame2, fx2, fy2, fw, fh, ha, bl, pw2, ph2, pox2, poy2);
            out.case(&line, &match r {
                Ok(c) => hex(&c),
                Err(e) => format!("PANIC {}", panic_kind(&e)),
            });
            continue;
        }
        let (line, r) = composite_case(w, h, &canvas, clear, &frame, fx, fy, fw, fh, ha, bl, pw, ph, pox, poy);
        match &r {
            Ok(after) => {
                let rect = PrevRect { x: pox, y: poy, w: pw, h: ph };
                let (known, bad) = judge_step(w, h, clear.unwrap_or([0; 4]), &canvas, after, clear.map(|_| &rect), fx, fy, fw, fh, ha, bl, &frame, &mut st.tally);
                st.known += known;
                if let Some(why) = bad {
                    violate(st, format!("{line} -> {why}"));
                }
            }
            Err(e) => violate(st, format!("{line} -> PANIC {e}")),
        }
        out.case(&line, &match r {
            Ok(c) => hex(&c),
            Err(e) => format!("PANIC {}", panic_kind(&e)),
        });
    }
}

/// hand-built animations that pin the three repaired defects and the known finding
fn corpus(rng: &mut Rng) -> Vec<(Vec<u8>, String)> {
    let solid = |w: u32, h: u32, p: [u8; 4]| -> Vec<u8> { (0..w * h).flat_map(|_| p).collect() };
    let mut v = vec![];
    // F13 + F12: disposed 4x4 frame, then a small frame elsewhere; background B=10 G=20 R=30
    let f1 = GenFrame { x: 0, y: 0, w: 4, h: 4, duration: 100, blend: true, dispose: true, payload: encode_payload(0, &solid(4, 4, [255, 0, 0, 255]), 4, 4, rng), reserved: 0 };
    let f2 = GenFrame { x: 4, y: 4, w: 2, h: 2, duration: 100, blend: false, dispose: false, payload: encode_payload(0, &solid(2, 2, [0, 255, 0, 255]), 2, 2, rng), reserved: 0 };
    v.push((build_file(8, 8, true, [10, 20, 30, 255], &[f1.clone(), f2]), "FFFRFIF".to_string()));
    // F12 variant: lossy (no alpha) second frame after a disposed first frame
    let lossy: Vec<u8> = (0..64u32).flat_map(|i| [(i * 3) as u8, (i * 5) as u8, 200, 255]).collect();
    let f2b = GenFrame { x: 8, y: 8, w: 8, h: 8, duration: 7, blend: false, dispose: true, payload: encode_payload(2, &lossy, 8, 8, rng), reserved: 0 };
    v.push((build_file(16, 16, true, [10, 20, 30, 40], &[f1.clone(), f2b.clone()]), "FFFSF".to_string()));
    // F12 variant: full-size blended frame after a disposed frame (whole canvas used to be cleared)
    let f3 = GenFrame { x: 0, y: 0, w: 8, h: 8, duration: 9, blend: true, dispose: false, payload: encode_payload(1, &gen_pixels(8, 8, rng, 1), 8, 8, rng), reserved: 0 };
    let f0 = GenFrame { x: 2, y: 2, w: 6, h: 6, duration: 5, blend: false, dispose: false, payload: encode_payload(0, &gen_pixels(6, 6, rng, 0), 6, 6, rng), reserved: 0 };
    v.push((build_file(8, 8, true, [1, 2, 3, 4], &[f0.clone(), f1.clone(), f3.clone()]), "FFFRFFF".to_string()));
    // F15: three frames, the middle one leaves pixels behind; second pass after reset must start from the background
    let m = GenFrame { x: 4, y: 0, w: 3, h: 3, duration: 11, blend: false, dispose: false, payload: encode_payload(0, &solid(3, 3, [9, 99, 199, 255]), 3, 3, rng), reserved: 0 };
    let l = GenFrame { x: 0, y: 4, w: 2, h: 2, duration: 12, blend: true, dispose: true, payload: encode_payload(1, &solid(2, 2, [50, 60, 70, 128]), 2, 2, rng), reserved: 0 };
    v.push((build_file(8, 8, true, [200, 100, 50, 255], &[f1.clone(), m, l]), "FFFRFFFSFRIFRF".to_string()));
    // F14 (known): opaque blended pixels
    let o = GenFrame { x: 0, y: 0, w: 2, h: 2, duration: 1, blend: true, dispose: false, payload: encode_payload(0, &[200, 1, 0, 255, 0, 0, 0, 255, 255, 255, 255, 255, 7, 7, 7, 0], 2, 2, rng), reserved: 0 };
    v.push((build_file(3, 3, true, [0, 0, 0, 0], &[o]), "FIF".to_string()));
    // lossy with alpha, blended
    let la = GenFrame { x: 2, y: 2, w: 9, h: 7, duration: 3, blend: true, dispose: true, payload: encode_payload(3, &gen_pixels(9, 7, rng, 3), 9, 7, rng), reserved: 0 };
    v.push((build_file(13, 11, true, [5, 6, 7, 8], &[f0, la, f2b_small(rng)]), "FFFFRIF".to_string()));
    v
}
fn f2b_small(rng: &mut Rng) -> GenFrame {
    GenFrame { x: 0, y: 0, w: 5, h: 5, duration: 2, blend: true, dispose: false, payload: encode_payload(2, &gen_pixels(5, 5, rng, 0), 5, 5, rng), reserved: 0 }
}

pub fn run(tier: &str, seed: u64, outdir: &str, extra: &[String]) {
    let mut out = Out::new(outdir);
    let mut rng = Rng::new(seed ^ 0xC06);
    let mut st = Stats {
        animations: 0, files_run: 0, frames: 0, ops_run: 0, op_f: 0, op_r: 0, op_i: 0, op_s: 0, exhausted_reads: 0,
        kinds: Default::default(), blend_dispose: [0; 4], first_frame_partial: 0, canvas_sizes: vec![],
        payload_differs_from_libwebp: Default::default(), adequacy_cases: 0, adequacy_mismatch: vec![], generator_rejected: 0,
        composite_cases: 0, composite_invalid: 0, known: 0, violations: vec![], violations_c07: vec![], tally: Tally::default(),
    };

    if tier == "replay" {
        let lines: Vec<String> = std::fs::read_to_string(&extra[0]).unwrap().lines().map(|l| l.to_string()).collect();
        for l in lines {
            let ws: Vec<&str> = l.split_whitespace().collect();
            if ws.first() == Some(&"anim") {
                if let Some(fh) = ws.iter().find_map(|t| t.strip_prefix("file=")) {
                    let file = unhex(fh);
                    check_animation(&file, ws[5], ws[3] != "0", &mut st, &mut out);
                }
            } else if ws.first() == Some(&"composite") && ws.len() == 16 {
                let n = |i: usize| ws[i].parse::<u32>().unwrap();
                let clear = if ws[4] == "-" { None } else { Some(<[u8; 4]>::try_from(&unhex(ws[4])[..]).unwrap()) };
                let (line, r) = composite_case(n(1), n(2), &unhex(ws[3]), clear, &unhex(ws[5]), n(6), n(7), n(8), n(9), ws[10] != "0", ws[11] != "0", n(12), n(13), n(14), n(15));
                st.composite_cases += 1;
                let (w, h, fx, fy, fw, fh, pw, ph, pox, poy) = (n(1), n(2), n(6), n(7), n(8), n(9), n(12), n(13), n(14), n(15));
                let frame = unhex(ws[5]);
                let valid = fx + fw <= w && fy + fh <= h && pox + pw <= w && poy + ph <= h && fw >= 1 && fh >= 1
                    && frame.len() == (fw * fh * if ws[10] != "0" { 4 } else { 3 }) as usize && unhex(ws[3]).len() == (w * h * 4) as usize;
                if valid {
                    match &r {
                        Ok(after) => {
                            let rect = PrevRect { x: pox, y: poy, w: pw, h: ph };
                            let (known, bad) = judge_step(w, h, clear.unwrap_or([0; 4]), &unhex(ws[3]), after, clear.map(|_| &rect), fx, fy, fw, fh, ws[10] != "0", ws[11] != "0", &frame, &mut st.tally);
                            st.known += known;
                            if let Some(why) = bad {
                                violate(&mut st, format!("{line} -> {why}"));
                            }
                        }
                        Err(e) => violate(&mut st, format!("{line} -> PANIC {e}")),
                    }
                }
                out.case(&line, &match r {
                    Ok(c) => hex(&c),
                    Err(e) => format!("PANIC {}", panic_kind(&e)),
                });
            }
        }
    } else {
        let thorough = tier == "thorough";
        for (file, ops) in corpus(&mut rng) {
            check_animation(&file, &ops, true, &mut st, &mut out);
        }
        run_composite(&mut rng, if thorough { 10000 } else { 400 }, &mut st, &mut out);
        let n_anim = if thorough { 4000 } else { 150 };
        for i in 0..n_anim {
            let mut r = rng.fork();
            // two thirds on small canvases with long call sequences (C07), one sixth lossless with alpha 0/255 only (comparable
            // with libwebp's animation decoder)
            let small = i % 3 != 0;
            let binary = i % 6 == 1;
            let (file, ops) = gen_animation(&mut r, small, binary);
            let on_alpha = r.chance(1, 2);
            check_animation(&file, &ops, on_alpha, &mut st, &mut out);
        }
        for _ in 0..(if thorough { 200 } else { 20 }) {
            let mut r = rng.fork();
            let (file, ops) = gen_blend_chain(&mut r);
            let on_alpha = r.chance(1, 2);
            check_animation(&file, &ops, on_alpha, &mut st, &mut out);
        }
    }

    let t = &st.tally;
    let map = |m: &std::collections::BTreeMap<String, u64>| m.iter().map(|(k, v)| format!("{}: {}", jstr(k), v)).collect::<Vec<_>>().join(", ");
    let mut cs = st.canvas_sizes.clone();
    cs.sort();
    let stats = format!(
        "{{\"evaluations\": {}, \"animations\": {}, \"files_run\": {}, \"frames\": {}, \"calls\": {}, \"calls_read_frame\": {}, \"calls_reset\": {}, \"calls_read_image\": {}, \"buffer_fills\": {}, \"reads_past_end\": {}, \
\"frame_kinds\": {{{}}}, \"noblend_nodispose\": {}, \"noblend_dispose\": {}, \"blend_nodispose\": {}, \"blend_dispose\": {}, \"first_frame_partial\": {}, \
\"canvas_pixels_min\": {}, \"canvas_pixels_median\": {}, \"canvas_pixels_max\": {}, \
\"pixels_judged\": {}, \"overwritten\": {}, \"untouched\": {}, \"disposed\": {}, \"blend_transparent\": {}, \"blend_opaque\": {}, \"blend_mid\": {}, \"known_opaque_dec\": {}, \
\"payload_decode_differs_from_libwebp\": {{{}}}, \"libwebp_anim_adequacy_cases\": {}, \"libwebp_anim_adequacy_mismatch\": [{}], \"generator_rejected\": {}, \
\"composite_cases\": {}, \"composite_invalid_geometry\": {}, \"known\": {}, \"known_class\": \"opaque-source-decrement\", \"sampled_for_oracle\": {}, \"violations_c06\": [{}], \"violations_c07\": [{}], \"violations\": [{}]}}",
        t.pixels + st.ops_run, st.animations, st.files_run, st.frames, st.ops_run, st.op_f, st.op_r, st.op_i, st.op_s, st.exhausted_reads,
        map(&st.kinds), st.blend_dispose[0], st.blend_dispose[1], st.blend_dispose[2], st.blend_dispose[3], st.first_frame_partial,
        cs.first().copied().unwrap_or(0), cs.get(cs.len() / 2).copied().unwrap_or(0), cs.last().copied().unwrap_or(0),
        t.pixels, t.overwritten, t.untouched, t.disposed, t.blend_transparent, t.blend_opaque, t.blend_mid, t.known_opaque_dec,
        map(&st.payload_differs_from_libwebp), st.adequacy_cases, st.adequacy_mismatch.iter().map(|s| jstr(s)).collect::<Vec<_>>().join(", "), st.generator_rejected,
        st.composite_cases, st.composite_invalid, st.known, out.n,
        st.violations.iter().map(|s| jstr(s)).collect::<Vec<_>>().join(", "),
        st.violations_c07.iter().map(|s| jstr(s)).collect::<Vec<_>>().join(", "),
        st.violations.iter().chain(st.violations_c07.iter()).map(|s| jstr(s)).collect::<Vec<_>>().join(", ")
    );
    out.finish(&stats);
}
