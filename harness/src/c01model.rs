//! c01model: component-level correspondence between the lossless decoder (lossless.rs, huffman.rs,
//! lossless_transform.rs) and its hand Model (coq/Model/{BitReader,Huffman,LosslessTransform,Lossless}.v).
//! This is a model/code tie, not a property decision: `violations` stays empty; cases where the implementation
//! panics are listed as `model_mismatch_suspects` (the Model must then show the same `PANIC <kind>`).
//!
//! Case kinds (see ocaml/o_losslessmodel.ml): m_vp8l, m_bitreader, m_huff, m_huff2, m_transform.
use crate::util::*;
use image_webp::verif::*;
use std::collections::BTreeMap;
use std::io::{BufRead, Read};

// ------------------------------------------------------------------------------------------------
// a BufRead that exposes its bytes according to a schedule: the k-th fill_buf call shows
// min(max(1, sched[k]), remaining) bytes; after the schedule is used up, everything that remains
// ------------------------------------------------------------------------------------------------
pub struct ScheduledReader {
    pub data: Vec<u8>,
    pub pos: usize,
    pub sched: Sched,
    pub calls: usize,
}
#[derive(Clone, Debug)]
pub enum Sched {
    Whole,
    Const(usize),
    /// a finite prefix, then a constant
    PrefixThenConst(Vec<usize>, usize),
}
impl Sched {
    fn at(&self, k: usize) -> usize {
        match self {
            Sched::Whole => usize::MAX,
            Sched::Const(c) => (*c).max(1),
            Sched::PrefixThenConst(p, c) => if k < p.len() { p[k].max(1) } else { (*c).max(1) },
        }
    }
    /// the schedule as text, for exactly `calls` fill_buf calls (items `k` or `kxN`)
    fn text(&self, calls: usize) -> String {
        match self {
            Sched::Whole => "-".to_string(),
            Sched::Const(c) => if calls == 0 { "-".to_string() } else { format!("{}x{}", c, calls) },
            Sched::PrefixThenConst(p, c) => {
                if calls == 0 {
                    return "-".to_string();
                }
                let mut items: Vec<String> = p.iter().take(calls).map(|k| k.to_string()).collect();
                if calls > p.len() {
                    items.push(format!("{}x{}", c, calls - p.len()));
                }
                items.join(",")
            }
        }
    }
    fn label(&self) -> String {
        match self {
            Sched::Whole => "whole".into(),
            Sched::Const(c) => format!("const{}", c),
            Sched::PrefixThenConst(..) => "random".into(),
        }
    }
}
impl ScheduledReader {
    pub fn new(data: &[u8], sched: Sched) -> Self {
        ScheduledReader { data: data.to_vec(), pos: 0, sched, calls: 0 }
    }
}
impl Read for ScheduledReader {
    fn read(&mut self, out: &mut [u8]) -> std::io::Result<usize> {
        let n = {
            let b = self.fill_buf()?;
            let n = b.len().min(out.len());
            out[..n].copy_from_slice(&b[..n]);
            n
        };
        self.consume(n);
        Ok(n)
    }
}
impl BufRead for ScheduledReader {
    fn fill_buf(&mut self) -> std::io::Result<&[u8]> {
        let k = self.sched.at(self.calls);
        self.calls += 1;
        let end = self.pos.saturating_add(k).min(self.data.len());
        Ok(&self.data[self.pos..end])
    }
    fn consume(&mut self, n: usize) {
        self.pos += n;
    }
}

fn pick_sched(rng: &mut Rng) -> Sched {
    match rng.below(9) {
        0 | 1 => Sched::Whole,
        2 => Sched::Const(1),
        3 => Sched::Const(2),
        4 => Sched::Const(3),
        5 => Sched::Const(7),
        6 => Sched::Const(8),
        7 => Sched::Const(9),
        _ => {
            let n = rng.range(1, 48) as usize;
            let p: Vec<usize> = (0..n).map(|_| if rng.chance(1, 3) { rng.range(8, 20) } else { rng.range(1, 9) } as usize).collect();
            let c = *rng.pick(&[1usize, 2, 5, 8, 13, 1000]);
            Sched::PrefixThenConst(p, c)
        }
    }
}

/// panic message -> the Model's panic kind
pub fn panic_kind(msg: &str) -> &'static str {
    let m = msg;
    if m.contains("index out of bounds") {
        "index"
    } else if m.contains("range end index") || m.contains("range start index") || m.contains("slice index starts at")
        || m.contains("mid > len") || m.contains("out of range for slice") || m.contains("is out of bounds")
    {
        "slice"
    } else if m.contains("source slice length") {
        "copy_len"
    } else if m.contains("attempt to shift") {
        "shift"
    } else if m.contains("with overflow") {
        "overflow"
    } else if m.contains("unwrap()") {
        "unwrap"
    } else if m.contains("divide by zero") || m.contains("divisor of zero") {
        "divzero"
    } else if m.contains("unreachable") {
        "unreachable"
    } else if m.contains("assertion") || m.contains("chunk size must be non-zero") || m.contains("chunk_size must be non-zero") {
        "assert"
    } else {
        "other"
    }
}

struct Ctx {
    out: Out,
    counts: BTreeMap<String, u64>,
    suspects: Vec<String>,
    model_secs_hint: Vec<String>,
}
impl Ctx {
    fn bump(&mut self, k: &str) {
        *self.counts.entry(k.to_string()).or_insert(0) += 1;
    }
    fn suspect(&mut self, case: &str, res: &str) {
        self.bump("impl_panics");
        if self.suspects.len() < 40 {
            let c: String = case.chars().take(300).collect();
            self.suspects.push(format!("{} -> {}", c, res));
        }
    }
}

// ------------------------------------------------------------------------------------------------
// m_vp8l
// ------------------------------------------------------------------------------------------------
fn run_vp8l(cx: &mut Ctx, tag: &str, payload: &[u8], w: u32, h: u32, implicit: bool, sched: Sched, prefill: u8) {
    let n = (w as usize) * (h as usize) * 4;
    let mut rd = ScheduledReader::new(payload, sched.clone());
    let mut buf = vec![prefill; n];
    let r = {
        let rdr = &mut rd;
        let b = &mut buf;
        catch(std::panic::AssertUnwindSafe(move || vp8l_decode_reader(rdr, w, h, implicit, b)))
    };
    let res = match &r {
        Ok(Ok(())) => format!("OK {}", hex(&buf)),
        Ok(Err(_)) => "ERR".to_string(),
        Err(m) => format!("PANIC {}", panic_kind(m)),
    };
    let case = format!("m_vp8l {} {} {} {} {} {}", w, h, if implicit { 1 } else { 0 }, sched.text(rd.calls), prefill, hex(payload));
    cx.bump(&format!("vp8l.{}", tag));
    cx.bump(&format!("vp8l.sched.{}", sched.label()));
    cx.bump(&format!("vp8l.result.{}", &res[..res.find(' ').unwrap_or(res.len())]));
    cx.bump(if implicit { "vp8l.implicit" } else { "vp8l.header" });
    let px = (w as u64) * (h as u64);
    cx.bump(&format!("vp8l.pixels.{}", if px <= 16 { "le16" } else if px <= 256 { "le256" } else if px <= 4096 { "le4096" } else if px <= 65536 { "le65536" } else { "gt65536" }));
    if let Err(m) = &r {
        cx.suspect(&case, &format!("PANIC {} ({})", panic_kind(m), m));
    }
    if px > 20000 {
        cx.model_secs_hint.push(format!("{} {}x{} payload {} bytes", tag, w, h, payload.len()));
    }
    cx.out.case(&case, &res);
}

/// VP8L payloads (with dimensions) and ALPH lossless payloads (implicit dimensions) of a WebP file
fn payloads_of_file(b: &[u8]) -> Vec<(Vec<u8>, u32, u32, bool)> {
    let mut res = vec![];
    if b.len() < 12 || &b[..4] != b"RIFF" {
        return res;
    }
    fn scan(b: &[u8], mut pos: usize, end: usize, canvas: Option<(u32, u32)>, res: &mut Vec<(Vec<u8>, u32, u32, bool)>) {
        let mut canvas = canvas;
        while pos + 8 <= end {
            let cc = &b[pos..pos + 4];
            let n = u32::from_le_bytes([b[pos + 4], b[pos + 5], b[pos + 6], b[pos + 7]]) as usize;
            let s = pos + 8;
            let e = (s + n).min(end);
            let p = &b[s..e];
            match cc {
                b"VP8X" if p.len() >= 10 => {
                    let w = 1 + (p[4] as u32 | (p[5] as u32) << 8 | (p[6] as u32) << 16);
                    let h = 1 + (p[7] as u32 | (p[8] as u32) << 8 | (p[9] as u32) << 16);
                    canvas = Some((w, h));
                }
                b"VP8L" if p.len() >= 5 => {
                    let bits = u32::from_le_bytes([p[1], p[2], p[3], p[4]]);
                    res.push((p.to_vec(), (bits & 0x3fff) + 1, ((bits >> 14) & 0x3fff) + 1, false));
                }
                b"ALPH" if !p.is_empty() && p[0] & 3 == 1 => {
                    if let Some((w, h)) = canvas {
                        res.push((p[1..].to_vec(), w, h, true));
                    }
                }
                b"ANMF" if p.len() >= 16 => {
                    let w = 1 + (p[6] as u32 | (p[7] as u32) << 8 | (p[8] as u32) << 16);
                    let h = 1 + (p[9] as u32 | (p[10] as u32) << 8 | (p[11] as u32) << 16);
                    scan(b, s + 16, e, Some((w, h)), res);
                }
                _ => {}
            }
            pos = s + n + (n & 1);
        }
    }
    scan(b, 12, b.len(), None, &mut res);
    res
}

fn encode_webp(w: i32, h: i32, rgba: &[u8], lossless: bool, q: f32, method: i32, alpha_q: i32) -> Vec<u8> {
    unsafe {
        let mut cfg: libwebp_sys::WebPConfig = std::mem::zeroed();
        libwebp_sys::WebPConfigInitInternal(&mut cfg, libwebp_sys::WebPPreset::WEBP_PRESET_DEFAULT, q, libwebp_sys::WEBP_ENCODER_ABI_VERSION as i32);
        cfg.lossless = if lossless { 1 } else { 0 };
        cfg.method = method;
        cfg.exact = 1;
        cfg.alpha_compression = 1;
        cfg.alpha_quality = alpha_q;
        assert!(libwebp_sys::WebPValidateConfig(&cfg) != 0);
        let mut pic: libwebp_sys::WebPPicture = std::mem::zeroed();
        libwebp_sys::WebPPictureInitInternal(&mut pic, libwebp_sys::WEBP_ENCODER_ABI_VERSION as i32);
        pic.width = w;
        pic.height = h;
        pic.use_argb = 1;
        libwebp_sys::WebPPictureImportRGBA(&mut pic, rgba.as_ptr(), w * 4);
        let mut wr: libwebp_sys::WebPMemoryWriter = std::mem::zeroed();
        libwebp_sys::WebPMemoryWriterInit(&mut wr);
        pic.writer = Some(libwebp_sys::WebPMemoryWrite);
        pic.custom_ptr = &mut wr as *mut _ as *mut std::ffi::c_void;
        let ok = libwebp_sys::WebPEncode(&cfg, &mut pic) != 0;
        let f = if ok { std::slice::from_raw_parts(wr.mem, wr.size).to_vec() } else { vec![] };
        libwebp_sys::WebPPictureFree(&mut pic);
        libwebp_sys::WebPMemoryWriterClear(&mut wr);
        f
    }
}

fn random_image(rng: &mut Rng, w: usize, h: usize) -> (Vec<u8>, u64) {
    let n = w * h;
    let style = rng.below(8);
    let ncol = *rng.pick(&[1usize, 2, 3, 4, 5, 16, 17, 200]);
    let pal: Vec<[u8; 4]> = (0..ncol).map(|_| [rng.byte(), rng.byte(), rng.byte(), if rng.chance(1, 2) { 255 } else { rng.byte() }]).collect();
    let mut rgba = vec![0u8; n * 4];
    for i in 0..n {
        let (x, y) = (i % w, i / w);
        let p: [u8; 4] = match style {
            0 => [rng.byte(), rng.byte(), rng.byte(), rng.byte()],
            1 => pal[rng.below(ncol as u64) as usize],
            2 => pal[(x / 3 + y / 2) % ncol],
            3 => [(x * 3) as u8, (y * 5) as u8, (x + y) as u8, 255],
            4 => [(x * 3 + rng.below(3) as usize) as u8, (y * 5) as u8, (x ^ y) as u8, (255 - x) as u8],
            5 => {
                if rng.chance(1, 20) { pal[rng.below(ncol as u64) as usize] } else if i > 0 { [rgba[i * 4 - 4], rgba[i * 4 - 3], rgba[i * 4 - 2], rgba[i * 4 - 1]] } else { pal[0] }
            }
            6 => {
                if y > 0 && !rng.chance(1, 4) { let j = (i - w) * 4; [rgba[j], rgba[j + 1], rgba[j + 2], rgba[j + 3]] } else { pal[rng.below(ncol as u64) as usize] }
            }
            _ => [200, (x % 7 * 30) as u8, 10, 255],
        };
        rgba[i * 4..][..4].copy_from_slice(&p);
    }
    (rgba, style)
}

// hand bit writer for streams libwebp's encoder never emits
struct BW {
    out: Vec<u8>,
    acc: u64,
    n: u32,
}
impl BW {
    fn new() -> Self { BW { out: vec![], acc: 0, n: 0 } }
    fn put(&mut self, v: u64, nb: u32) {
        for i in 0..nb {
            let b = (v >> i) & 1;
            self.acc |= b << self.n;
            self.n += 1;
            if self.n == 8 { self.out.push(self.acc as u8); self.acc = 0; self.n = 0; }
        }
    }
    fn finish(mut self) -> Vec<u8> { if self.n > 0 { self.out.push(self.acc as u8); } self.out }
}
fn canon(lens: &[u32]) -> Vec<u32> {
    let maxl = *lens.iter().max().unwrap();
    let mut codes = vec![0u32; lens.len()];
    let mut code = 0u32;
    for l in 1..=maxl {
        for (i, &li) in lens.iter().enumerate() { if li == l { codes[i] = code; code += 1; } }
        code <<= 1;
    }
    codes
}
fn put_code(w: &mut BW, code: u32, len: u32) { for i in (0..len).rev() { w.put(((code >> i) & 1) as u64, 1); } }
const ORDER: [usize; 19] = [17, 18, 0, 1, 2, 3, 4, 5, 16, 6, 7, 8, 9, 10, 11, 12, 13, 14, 15];
fn put_normal(w: &mut BW, lens: &[u32]) {
    let mut used = [false; 16];
    for &l in lens { used[l as usize] = true; }
    let k = used.iter().filter(|&&u| u).count();
    let mut cl = [0u32; 19];
    let syms: Vec<usize> = (0..16).filter(|&i| used[i]).collect();
    let mut ls = vec![0u32; k];
    if k == 1 { ls[0] = 1; } else {
        let mut d = 0; while (1usize << d) < k { d += 1; }
        let short = (1usize << d) - k;
        for i in 0..k { ls[i] = if i < short { d as u32 - 1 } else { d as u32 }; }
    }
    for (i, &s) in syms.iter().enumerate() { cl[s] = ls[i]; }
    let clcodes = canon(&cl);
    w.put(0, 1);
    w.put(15, 4);
    for &o in ORDER.iter() { w.put(cl[o] as u64, 3); }
    w.put(0, 1);
    for &l in lens { if k > 1 { put_code(w, clcodes[l as usize], cl[l as usize]); } }
}
fn put_simple1(w: &mut BW, s: u32) { w.put(1, 1); w.put(0, 1); if s < 2 { w.put(0, 1); w.put(s as u64, 1); } else { w.put(1, 1); w.put(s as u64, 8); } }
fn put_simple2(w: &mut BW, s0: u32, s1: u32) { w.put(1, 1); w.put(1, 1); w.put(1, 1); w.put(s0 as u64, 8); w.put(s1 as u64, 8); }
fn header(w: &mut BW, width: u32, height: u32) { w.put(0x2f, 8); w.put((width - 1) as u64, 14); w.put((height - 1) as u64, 14); w.put(1, 1); w.put(0, 3); }
fn cache_hash(argb: u32, bits: u32) -> u32 { 0x1e35a7bdu32.wrapping_mul(argb) >> (32 - bits) }

/// hand-built legal streams that exercise the repaired spots F2, F3 (and F4 when `big`)
fn crafted_streams(big: bool) -> Vec<(String, Vec<u8>, u32, u32)> {
    let mut v = vec![];
    for (name, s0, s1) in [("f3_descending", 200u32, 100u32), ("f3_equal", 77, 77), ("f3_ascending", 5, 250)] {
        let mut w = BW::new();
        header(&mut w, 2, 1);
        w.put(0, 1); w.put(0, 1); w.put(0, 1);
        put_simple2(&mut w, s0, s1); put_simple1(&mut w, 0); put_simple1(&mut w, 0); put_simple1(&mut w, 255); put_simple1(&mut w, 0);
        w.put(0, 1); w.put(1, 1);
        v.push((name.to_string(), w.finish(), 2, 1));
    }
    {
        let mut g = 1u32;
        while cache_hash(0xff000000 | (g << 8), 1) != 0 { g += 1; }
        let mut w = BW::new();
        header(&mut w, 4, 1);
        w.put(0, 1); w.put(1, 1); w.put(1, 4); w.put(0, 1);
        let mut lens = vec![0u32; 282]; lens[g as usize] = 1; lens[280] = 2; lens[281] = 2;
        let codes = canon(&lens);
        put_normal(&mut w, &lens); put_simple1(&mut w, 0); put_simple1(&mut w, 0); put_simple1(&mut w, 255); put_simple1(&mut w, 0);
        for s in [g as usize, 281, 280, 280] { put_code(&mut w, codes[s], lens[s]); }
        v.push(("f2_cache".to_string(), w.finish(), 4, 1));
    }
    if big {
        for pad in [2u32, 5] {
            let (width, height) = (16384u32, 40u32);
            let total = (width * height) as usize;
            let mut w = BW::new();
            header(&mut w, width, height);
            w.put(0, 1); w.put(0, 1); w.put(0, 1);
            let mut gl = vec![0u32; 280]; gl[5] = 1; gl[279] = 2; for (i, l) in (3..=14).enumerate() { gl[10 + i] = l; } gl[278] = 15; gl[30] = 15;
            let gc = canon(&gl);
            let mut dl = vec![0u32; 40]; dl[1] = 1; dl[2] = 2; for (i, l) in (3..=14).enumerate() { dl[3 + i] = l; } dl[38] = 15; dl[20] = 15;
            let dc = canon(&dl);
            put_normal(&mut w, &gl); put_simple1(&mut w, 0); put_simple1(&mut w, 0); put_simple1(&mut w, 255); put_normal(&mut w, &dl);
            let mut index = 0usize;
            for _ in 0..1 + pad { put_code(&mut w, gc[5], gl[5]); index += 1; }
            let run = |w: &mut BW, index: &mut usize| { put_code(w, gc[279], gl[279]); w.put(1023, 10); put_code(w, dc[1], dl[1]); *index += 4096; };
            while index < 524169 + 10 { run(&mut w, &mut index); }
            put_code(&mut w, gc[278], gl[278]); w.put(0, 10); put_code(&mut w, dc[38], dl[38]); w.put(0, 18); index += 2049;
            while index + 4096 <= total { run(&mut w, &mut index); }
            while index < total { put_code(&mut w, gc[5], gl[5]); index += 1; }
            v.push((format!("f4_58bit_pad{}", pad), w.finish(), width, height));
        }
    }
    v
}

fn mutate(rng: &mut Rng, p: &[u8]) -> (Vec<u8>, &'static str) {
    let mut q = p.to_vec();
    match rng.below(4) {
        0 if q.len() > 1 => { let k = rng.range(1, q.len() as u64 - 1) as usize; q.truncate(k); (q, "truncated") }
        1 | 0 => { if !q.is_empty() { let i = rng.below(q.len() as u64) as usize; q[i] ^= 1 << rng.below(8); } (q, "bitflip") }
        2 => { if !q.is_empty() { let i = rng.below(q.len() as u64) as usize; q[i] = rng.byte(); } (q, "bytechange") }
        _ => { let k = rng.range(1, 6) as usize; for _ in 0..k { if !q.is_empty() { let lim = q.len().min(40) as u64; let i = rng.below(lim) as usize; q[i] = rng.byte(); } } (q, "headchange") }
    }
}

fn gen_vp8l(cx: &mut Ctx, rng: &mut Rng, tier: &str, repo: &str) {
    let thorough = tier == "thorough";
    // (a) payloads of the repository's test images
    let max_px: u64 = if thorough { 400_000 } else { 70_000 };
    let mut files: Vec<std::path::PathBuf> = vec![];
    for d in ["regression", "gallery1", "gallery2", "animated"] {
        if let Ok(rd) = std::fs::read_dir(format!("{repo}/tests/images/{d}")) {
            for e in rd.flatten() {
                if e.path().extension().map(|x| x == "webp").unwrap_or(false) { files.push(e.path()); }
            }
        }
    }
    files.sort();
    for f in &files {
        let b = match std::fs::read(f) { Ok(b) => b, Err(_) => continue };
        let name = f.file_name().unwrap().to_string_lossy().to_string();
        let mut frames = 0;
        for (p, w, h, implicit) in payloads_of_file(&b) {
            let px = w as u64 * h as u64;
            if px > max_px { cx.bump("vp8l.testimage_skipped_too_large"); continue; }
            frames += 1;
            if frames > (if thorough { 6 } else { 2 }) { break; }
            let s = if frames % 2 == 1 { Sched::Whole } else { pick_sched(rng) };
            run_vp8l(cx, &format!("testimage:{}", name), &p, w, h, implicit, s, 0xa5);
        }
    }
    // crafted streams for the repaired spots
    for (name, p, w, h) in crafted_streams(thorough) {
        for s in [Sched::Whole, Sched::Const(1), Sched::Const(8)] {
            if w * h > 100_000 && !matches!(s, Sched::Const(1)) { continue; }
            run_vp8l(cx, &format!("crafted:{}", name), &p, w, h, false, s, 0);
        }
    }
    // (b) libwebp-encoded small images, their truncations / corruptions
    let n_enc = if thorough { 1500 } else { 260 };
    for it in 0..n_enc {
        let (w, h) = match rng.below(6) { 0 => (1 + rng.below(24) as usize, 1), 1 => (1, 1 + rng.below(24) as usize), _ => (1 + rng.below(24) as usize, 1 + rng.below(24) as usize) };
        let (rgba, _style) = random_image(rng, w, h);
        let alpha_via_lossy = it % 5 == 4;
        let f = encode_webp(w as i32, h as i32, &rgba, !alpha_via_lossy, rng.below(101) as f32, rng.below(7) as i32, rng.below(101) as i32);
        let ps = payloads_of_file(&f);
        if ps.is_empty() { cx.bump("vp8l.libwebp_no_lossless_payload"); continue; }
        for (p, pw, ph, implicit) in ps {
            let prefill = *rng.pick(&[0u8, 0xff, 0xa5]);
            run_vp8l(cx, if implicit { "libwebp_alph" } else { "libwebp_vp8l" }, &p, pw, ph, implicit, pick_sched(rng), prefill);
            // wrong dimensions / implicit flag
            if rng.chance(1, 12) {
                let (w2, h2) = if rng.chance(1, 2) { (pw + 1, ph) } else { (pw, ph.max(2) - 1) };
                run_vp8l(cx, "wrong_dims", &p, w2, h2, implicit, Sched::Whole, prefill);
            }
            let nm = if thorough { 4 } else { 2 };
            for _ in 0..nm {
                let (q, what) = mutate(rng, &p);
                run_vp8l(cx, &format!("mutated:{}", what), &q, pw, ph, implicit, pick_sched(rng), prefill);
            }
        }
    }
    // implicit dimensions with a zero side (ALPH of a degenerate frame)
    for (w, h) in [(0u32, 3u32), (3, 0), (65536, 1)] {
        let p = rng.bytes(12);
        run_vp8l(cx, "implicit_zero_side", &p, w, h, true, Sched::Whole, 7);
    }
    // pure noise
    for _ in 0..(if thorough { 400 } else { 80 }) {
        let n = rng.range(0, 60) as usize;
        let mut p = rng.bytes(n);
        let (w, h) = (rng.range(1, 8) as u32, rng.range(1, 8) as u32);
        let implicit = rng.chance(1, 2);
        if !implicit && p.len() >= 5 {
            let hd = 0x2fu64 | ((w as u64 - 1) << 8) | ((h as u64 - 1) << 22);
            for i in 0..5 { p[i] = (hd >> (8 * i)) as u8; }
            p[4] &= 0x0f;
        }
        run_vp8l(cx, "noise", &p, w, h, implicit, pick_sched(rng), 0x11);
    }
}

// ------------------------------------------------------------------------------------------------
// m_bitreader
// ------------------------------------------------------------------------------------------------
fn gen_bitreader(cx: &mut Ctx, rng: &mut Rng, tier: &str) {
    let n = if tier == "thorough" { 6000 } else { 1200 };
    for _ in 0..n {
        let len = if rng.chance(1, 10) { rng.range(0, 3) } else { rng.range(0, 40) } as usize;
        let data = rng.bytes(len);
        let sched = pick_sched(rng);
        let nops = rng.range(0, 24) as usize;
        let mut ops: Vec<BitOp> = vec![];
        let mut toks: Vec<String> = vec![];
        let wild = rng.chance(1, 6);
        for _ in 0..nops {
            match rng.below(if wild { 10 } else { 6 }) {
                0..=5 => { let k = rng.range(0, 32) as u8; ops.push(BitOp::Fill); ops.push(BitOp::ReadBits(k)); toks.push(format!("{}", k)); }
                6 => { ops.push(BitOp::Fill); toks.push("f".into()); }
                7 => { let hi = if rng.chance(1, 8) { 40 } else { 32 }; let k = rng.range(0, hi) as u8; ops.push(BitOp::ReadBits(k)); toks.push(format!("r{}", k)); }
                8 => { let hi = if rng.chance(1, 8) { 70 } else { 20 }; let k = rng.range(0, hi) as u8; ops.push(BitOp::Consume(k)); toks.push(format!("c{}", k)); }
                _ => { let k = rng.range(0, 56) as u8; ops.push(BitOp::Take(k)); toks.push(format!("t{}", k)); }
            }
        }
        let rd = ScheduledReader::new(&data, sched.clone());
        let opsr = ops.clone();
        let r = catch(std::panic::AssertUnwindSafe(move || bitreader_script(rd, &opsr)));
        let (res, calls) = match r {
            Ok((vals, Ok((buffer, nbits)), Some(rd))) => {
                let vs: Vec<String> = vals.iter().map(|v| v.to_string()).collect();
                (format!("[{}] OK buffer={:016x} nbits={} left={}", vs.join(","), buffer, nbits, rd.data.len() - rd.pos), Some(rd.calls))
            }
            Ok((vals, Err(_), _)) => {
                let vs: Vec<String> = vals.iter().map(|v| v.to_string()).collect();
                (format!("[{}] ERR", vs.join(",")), None)
            }
            Ok((_, Ok(_), None)) => ("HARNESS-ERROR".to_string(), None),
            Err(m) => (format!("PANIC {}", panic_kind(&m)), None),
        };
        // the schedule text must cover every fill_buf call the script can make: 9 per fill is the maximum
        let calls = calls.unwrap_or(0).max(ops.len() * 10 + 10);
        let case = format!("m_bitreader {} {} {}", sched.text(calls), hex(&data), if toks.is_empty() { "-".to_string() } else { toks.join(",") });
        cx.bump("bitreader.cases");
        cx.bump(&format!("bitreader.sched.{}", sched.label()));
        cx.bump(&format!("bitreader.result.{}", if res.contains("PANIC") { "PANIC" } else if res.contains("ERR") { "ERR" } else { "OK" }));
        // read_bits with a count above 32 violates the function's contract (debug_assert!): expected, not a suspect
        let out_of_contract = ops.iter().any(|o| matches!(o, BitOp::ReadBits(k) if *k > 32));
        if res.starts_with("PANIC") {
            if out_of_contract { cx.bump("bitreader.out_of_contract_panics"); } else { cx.suspect(&case, &res); }
        }
        cx.out.case(&case, &res);
    }
}

// ------------------------------------------------------------------------------------------------
// m_huff / m_huff2
// ------------------------------------------------------------------------------------------------
/// a complete prefix code on `n` used symbols by repeatedly splitting a random leaf, depth <= 15
fn complete_lengths(rng: &mut Rng, used: usize, deep: bool) -> Vec<u16> {
    let mut leaves: Vec<u16> = vec![1, 1];
    while leaves.len() < used {
        let i = if deep { leaves.iter().enumerate().max_by_key(|(_, &l)| l).map(|(i, _)| i).unwrap() } else { rng.below(leaves.len() as u64) as usize };
        let i = if leaves[i] >= 15 {
            match leaves.iter().position(|&l| l < 15) { Some(j) => j, None => break }
        } else { i };
        let l = leaves[i] + 1;
        leaves[i] = l;
        leaves.push(l);
    }
    leaves
}
fn gen_huff(cx: &mut Ctx, rng: &mut Rng, tier: &str) {
    let n = if tier == "thorough" { 5000 } else { 900 };
    for it in 0..n {
        let alphabet = match rng.below(10) { 0 => 256usize, 1 => 280, 2 => 40, 3 => 19, 4 => 280 + (1usize << rng.range(1, 11)), _ => rng.range(2, 40) as usize };
        let mut lens = vec![0u16; alphabet];
        let kind = rng.below(10);
        let what;
        if kind < 6 {
            // valid: complete code on a random subset of symbols
            let cap = if rng.chance(1, 4) { 2328 } else { 60 };
            let used = if rng.chance(1, 8) { 1 } else { rng.range(2, alphabet.min(cap) as u64) as usize };
            let ls = if used == 1 { vec![rng.range(1, 15) as u16] } else { { let deep = rng.chance(1, 4); complete_lengths(rng, used, deep) } };
            let mut idx: Vec<usize> = (0..alphabet).collect();
            for i in 0..ls.len().min(alphabet) { let j = i + rng.below((alphabet - i) as u64) as usize; idx.swap(i, j); }
            for (k, &l) in ls.iter().enumerate() { if k < alphabet { lens[idx[k]] = l; } }
            what = if used == 1 { "single" } else { "complete" };
        } else if kind < 8 {
            for l in lens.iter_mut() { if rng.chance(1, 3) { let hi = if rng.chance(1, 2) { 4 } else { 15 }; *l = rng.range(1, hi) as u16; } }
            what = "random";
        } else if kind == 8 {
            // a complete code with one length changed: over- or under-subscribed
            let used = rng.range(2, alphabet.min(40) as u64) as usize;
            let ls = complete_lengths(rng, used, false);
            for (k, &l) in ls.iter().enumerate() { lens[k] = l; }
            let i = rng.below(ls.len() as u64) as usize;
            lens[i] = if rng.chance(1, 2) { (lens[i] + 1).min(15) } else { (lens[i] - 1).max(1) };
            what = "perturbed";
        } else {
            // F16 pattern (many short codes) and out-of-range lengths
            if rng.chance(1, 2) {
                let pat: Vec<u16> = [1u16; 7].iter().copied().chain(2..=13).chain([14, 14]).collect();
                for (k, &l) in pat.iter().enumerate() { if k < alphabet { lens[k] = l; } }
                what = "f16_pattern";
            } else {
                for l in lens.iter_mut() { if rng.chance(1, 4) { *l = rng.range(1, 15) as u16; } }
                let i = rng.below(alphabet as u64) as usize;
                lens[i] = rng.range(16, 40) as u16;
                what = "length_gt_15";
            }
        }
        let nbits = rng.range(0, 24) as usize;
        let bits = rng.bytes(nbits);
        let count = rng.range(0, 20) as usize;
        let lens2 = lens.clone();
        let bits2 = bits.clone();
        let r = catch(move || huff_build_implicit(lens2).map(|h| huff_decode(&h, &bits2, count)));
        let res = match r {
            Ok(Ok((vals, st))) => {
                let vs: Vec<String> = vals.iter().map(|v| v.to_string()).collect();
                format!("BUILT [{}] {}", vs.join(","), if st.is_ok() { "OK" } else { "ERR" })
            }
            Ok(Err(_)) => "ERR".to_string(),
            Err(m) => format!("PANIC {}", panic_kind(&m)),
        };
        let ls: Vec<String> = lens.iter().map(|l| l.to_string()).collect();
        let case = format!("m_huff {} {} {}", ls.join(","), hex(&bits), count);
        cx.bump("huff.cases");
        cx.bump(&format!("huff.kind.{}", what));
        cx.bump(&format!("huff.alphabet.{}", if alphabet <= 40 { "le40" } else if alphabet <= 280 { "le280" } else { "gt280" }));
        cx.bump(&format!("huff.result.{}", if res.starts_with("BUILT") { "BUILT" } else if res.starts_with("PANIC") { "PANIC" } else { "ERR" }));
        // a code length above 15 violates build_implicit's contract (callers only pass 0..=15): expected panic
        if res.starts_with("PANIC") {
            if what == "length_gt_15" { cx.bump("huff.out_of_contract_panics"); } else { cx.suspect(&case, &res); }
        }
        cx.out.case(&case, &res);
        if it % 10 == 0 {
            let (z, o) = if rng.chance(1, 4) { let s = rng.range(0, 279) as u16; (s, s) } else { (rng.range(0, 279) as u16, rng.range(0, 279) as u16) };
            let bits2 = bits.clone();
            let r = catch(move || huff_decode(&huff_build_two_node(z, o), &bits2, count));
            let res = match r {
                Ok((vals, st)) => {
                    let vs: Vec<String> = vals.iter().map(|v| v.to_string()).collect();
                    format!("BUILT [{}] {}", vs.join(","), if st.is_ok() { "OK" } else { "ERR" })
                }
                Err(m) => format!("PANIC {}", panic_kind(&m)),
            };
            let case = format!("m_huff2 {} {} {} {}", z, o, hex(&bits), count);
            cx.bump("huff2.cases");
            cx.bump(if z == o { "huff2.equal" } else if z < o { "huff2.ascending" } else { "huff2.descending" });
            if res.starts_with("PANIC") { cx.suspect(&case, &res); }
            cx.out.case(&case, &res);
        }
    }
}

// ------------------------------------------------------------------------------------------------
// m_transform
// ------------------------------------------------------------------------------------------------
fn tr_result(r: Result<(), String>, img: &[u8]) -> String {
    match r {
        Ok(()) => format!("OK {}", hex(img)),
        Err(m) => format!("PANIC {}", panic_kind(&m)),
    }
}
fn subsample(size: usize, bits: u32) -> usize { (size + (1 << bits) - 1) >> bits }
fn rand_bytes_style(rng: &mut Rng, n: usize) -> Vec<u8> {
    match rng.below(4) {
        0 => (0..n).map(|_| *rng.pick(&[0u8, 1, 127, 128, 254, 255])).collect(),
        _ => rng.bytes(n),
    }
}
fn gen_transforms(cx: &mut Ctx, rng: &mut Rng, tier: &str) {
    let n = if tier == "thorough" { 2500 } else { 450 };
    // whole predictor transform
    for _ in 0..n {
        let (w, h) = (rng.range(1, 20) as usize, rng.range(1, 12) as usize);
        let sb = rng.range(2, 5) as u32;
        let (bx, by) = (subsample(w, sb), subsample(h, sb));
        let mut pd = rng.bytes(bx * by * 4);
        for b in 0..bx * by { pd[b * 4 + 1] = if rng.chance(1, 12) { rng.range(14, 255) as u8 } else { rng.range(0, 13) as u8 }; }
        let mut img = rand_bytes_style(rng, w * h * 4);
        let case = format!("m_transform pred {} {} {} {} {}", w, h, sb, hex(&pd), hex(&img));
        let r = { let im = &mut img; let pd = &pd; catch(std::panic::AssertUnwindSafe(move || { tr_predictor(im, w as u16, h as u16, sb as u8, pd).unwrap(); })) };
        let res = tr_result(r, &img);
        cx.bump("transform.pred");
        if res.starts_with("PANIC") { cx.suspect(&case, &res); }
        cx.out.case(&case, &res);
    }
    // each predictor on a byte range
    for it in 0..(n * 3) {
        let k = (it % 14) as u8;
        let w = rng.range(1, 20) as usize;
        let h = rng.range(2, 6) as usize;
        let mut img = rand_bytes_style(rng, w * h * 4);
        let wild = rng.chance(1, 10);
        let (start, end) = if !wild {
            let y = rng.range(1, h as u64 - 1) as usize;
            let x0 = rng.range(1, w as u64) as usize;
            let x1 = rng.range(x0 as u64, w as u64) as usize;
            ((y * w + x0) * 4, (y * w + x1) * 4)
        } else {
            let lim = (w * h + 2) as u64;
            (rng.below(lim) as usize * 4, rng.below(lim) as usize * 4)
        };
        let wpar = if wild && rng.chance(1, 3) { rng.range(0, 24) as usize } else { w };
        let case = format!("m_transform predk {} {} {} {} {}", k, start, end, wpar, hex(&img));
        let r = { let im = &mut img; catch(std::panic::AssertUnwindSafe(move || tr_predictor_k(k, im, start..end, wpar))) };
        let res = tr_result(r, &img);
        cx.bump(&format!("transform.predk.{:02}", k));
        if wild { cx.bump("transform.predk.wild_arguments"); }
        if res.starts_with("PANIC") { cx.bump("transform.predk.panics_on_wild_arguments"); }
        cx.out.case(&case, &res);
    }
    // colour transform
    for _ in 0..n {
        let (w, h) = (rng.range(1, 20) as usize, rng.range(1, 10) as usize);
        let sb = rng.range(2, 5) as u32;
        let (bx, by) = (subsample(w, sb), subsample(h, sb));
        let td = rand_bytes_style(rng, bx * by * 4);
        let mut img = rand_bytes_style(rng, w * h * 4);
        let case = format!("m_transform color {} {} {} {}", w, sb, hex(&td), hex(&img));
        let r = { let im = &mut img; let td = &td; catch(std::panic::AssertUnwindSafe(move || tr_color(im, w as u16, sb as u8, td))) };
        let res = tr_result(r, &img);
        cx.bump("transform.color");
        if res.starts_with("PANIC") { cx.suspect(&case, &res); }
        cx.out.case(&case, &res);
    }
    // subtract green
    for _ in 0..(n / 3) {
        let len = if rng.chance(1, 6) { rng.range(0, 50) as usize } else { rng.range(0, 60) as usize * 4 };
        let mut img = rand_bytes_style(rng, len);
        let case = format!("m_transform green {}", hex(&img));
        let r = { let im = &mut img; catch(std::panic::AssertUnwindSafe(move || tr_subtract_green(im))) };
        let res = tr_result(r, &img);
        cx.bump("transform.green");
        cx.out.case(&case, &res);
    }
    // colour indexing
    for _ in 0..n {
        let ts = match rng.below(6) { 0 => rng.range(1, 2), 1 => rng.range(3, 4), 2 => rng.range(5, 16), 3 => rng.range(17, 256), _ => rng.range(1, 256) } as usize;
        let (w, h) = (rng.range(1, 20) as usize, rng.range(1, 8) as usize);
        let table = rand_bytes_style(rng, ts * 4);
        let mut img = rng.bytes(w * h * 4);
        if rng.chance(1, 2) { for p in 0..w * h { img[p * 4 + 1] = rng.below(ts as u64 + 1) as u8; } }
        let case = format!("m_transform index {} {} {} {} {}", w, h, ts, hex(&table), hex(&img));
        let r = { let im = &mut img; let tb = &table; catch(std::panic::AssertUnwindSafe(move || tr_color_indexing(im, w as u16, h as u16, ts as u16, tb))) };
        let res = tr_result(r, &img);
        cx.bump(&format!("transform.index.{}", if ts <= 2 { "bits3" } else if ts <= 4 { "bits2" } else if ts <= 16 { "bits1" } else { "bits0" }));
        if res.starts_with("PANIC") { cx.suspect(&case, &res); }
        cx.out.case(&case, &res);
    }
}

// ------------------------------------------------------------------------------------------------
// replay of stored case lines
// ------------------------------------------------------------------------------------------------
fn parse_sched(s: &str) -> Sched {
    if s == "-" { return Sched::Whole; }
    let mut v = vec![];
    for it in s.split(',') {
        if let Some((k, n)) = it.split_once('x') {
            let (k, n): (usize, usize) = (k.parse().unwrap(), n.parse().unwrap());
            for _ in 0..n { v.push(k); }
        } else {
            v.push(it.parse().unwrap());
        }
    }
    Sched::PrefixThenConst(v, usize::MAX)
}
fn replay_line(cx: &mut Ctx, l: &str) {
    let w: Vec<&str> = l.split_whitespace().collect();
    if w.len() == 7 && w[0] == "m_vp8l" {
        run_vp8l(cx, "replay", &unhex(w[6]), w[1].parse().unwrap(), w[2].parse().unwrap(), w[3] == "1", parse_sched(w[4]), w[5].parse().unwrap());
    }
}

pub fn run(tier: &str, seed: u64, outdir: &str, extra: &[String]) {
    let mut cx = Ctx { out: Out::new(outdir), counts: BTreeMap::new(), suspects: vec![], model_secs_hint: vec![] };
    let mut rng = Rng::new(seed);
    let repo = std::env::var("VERIF_REPO").unwrap_or_else(|_| "/repo".to_string());
    if tier == "replay" {
        for l in std::fs::read_to_string(&extra[0]).unwrap().lines() { replay_line(&mut cx, l); }
    } else {
        let only: Option<&str> = extra.first().map(|s| s.as_str());
        if only.is_none() || only == Some("bitreader") { gen_bitreader(&mut cx, &mut rng.fork(), tier); }
        if only.is_none() || only == Some("huff") { gen_huff(&mut cx, &mut rng.fork(), tier); }
        if only.is_none() || only == Some("transform") { gen_transforms(&mut cx, &mut rng.fork(), tier); }
        if only.is_none() || only == Some("vp8l") { gen_vp8l(&mut cx, &mut rng.fork(), tier, &repo); }
    }
    let counts: Vec<String> = cx.counts.iter().map(|(k, v)| format!("{}: {}", jstr(k), v)).collect();
    let suspects: Vec<String> = cx.suspects.iter().map(|s| jstr(s)).collect();
    let large: Vec<String> = cx.model_secs_hint.iter().map(|s| jstr(s)).collect();
    let stats = format!(
        "{{\n \"check\": \"c01model\", \"tier\": {}, \"seed\": {}, \"evaluations\": {},\n \"distribution\": {{{}}},\n \"large_cases\": [{}],\n \"violations\": [],\n \"model_mismatch_suspects\": [{}]\n}}\n",
        jstr(tier), seed, cx.out.n, counts.join(", "), large.join(", "), suspects.join(", ")
    );
    cx.out.finish(&stats);
}
