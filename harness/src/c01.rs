//! C01: VP8L decoding equals the lossless specification (= libwebp) on every legal stream.
//!
//! For each stream of the legal-stream generator (`gen_vp8l`) and a few hand-built streams:
//!   reference  = libwebp `WebPDecodeRGBA` on the payload in a simple RIFF/WEBP `VP8L` file;
//!   under test = the hook `verif::vp8l_decode`, and the public `WebPDecoder` on the payload wrapped as
//!                simple file, VP8X still (alpha flag set / clear) and one full-canvas ANMF frame with the
//!                do-not-blend flag (alpha flag set / clear)  ("wrappings agree", part of C11).
//! Case line  : `vp8l <hex payload>`
//! Result line: `OK <w> <h> <hex RGBA>` (hook result), `OKH <w> <h> <fnv1a64 of RGBA>` above 16384 pixels, `ERR`, `PANIC`.
//! A violation is: the crate rejects, panics on, or decodes differently a stream that libwebp accepts.
use crate::gen_vp8l::{self as gen, BitWriter, GenStream, Params, Stats};
use crate::util::*;
use std::io::Cursor;

// ------------------------------------------------------------------------------------------------
// containers

fn chunk(out: &mut Vec<u8>, fourcc: &[u8; 4], data: &[u8]) {
    out.extend_from_slice(fourcc);
    out.extend_from_slice(&(data.len() as u32).to_le_bytes());
    out.extend_from_slice(data);
    if data.len() & 1 == 1 {
        out.push(0);
    }
}
fn riff(body: Vec<u8>) -> Vec<u8> {
    let mut f = Vec::with_capacity(body.len() + 12);
    f.extend_from_slice(b"RIFF");
    f.extend_from_slice(&((body.len() + 4) as u32).to_le_bytes());
    f.extend_from_slice(b"WEBP");
    f.extend_from_slice(&body);
    f
}
fn u24(v: u32) -> [u8; 3] {
    [v as u8, (v >> 8) as u8, (v >> 16) as u8]
}
pub fn wrap_simple(payload: &[u8]) -> Vec<u8> {
    let mut b = vec![];
    chunk(&mut b, b"VP8L", payload);
    riff(b)
}
fn vp8x(flags: u8, w: u32, h: u32) -> Vec<u8> {
    let mut d = vec![flags, 0, 0, 0];
    d.extend_from_slice(&u24(w - 1));
    d.extend_from_slice(&u24(h - 1));
    d
}
pub fn wrap_vp8x(payload: &[u8], w: u32, h: u32, alpha: bool) -> Vec<u8> {
    let mut b = vec![];
    chunk(&mut b, b"VP8X", &vp8x(if alpha { 0x10 } else { 0 }, w, h));
    chunk(&mut b, b"VP8L", payload);
    riff(b)
}
pub fn wrap_anim(payload: &[u8], w: u32, h: u32, alpha: bool, background: [u8; 4]) -> Vec<u8> {
    let mut b = vec![];
    chunk(&mut b, b"VP8X", &vp8x(0x02 | if alpha { 0x10 } else { 0 }, w, h));
    let mut anim = background.to_vec();
    anim.extend_from_slice(&1u16.to_le_bytes());
    chunk(&mut b, b"ANIM", &anim);
    let mut f = vec![];
    f.extend_from_slice(&u24(0));
    f.extend_from_slice(&u24(0));
    f.extend_from_slice(&u24(w - 1));
    f.extend_from_slice(&u24(h - 1));
    f.extend_from_slice(&u24(40));
    f.push(0b10); // do not blend, do not dispose
    chunk(&mut f, b"VP8L", payload);
    chunk(&mut b, b"ANMF", &f);
    riff(b)
}

// ------------------------------------------------------------------------------------------------
// decoders

pub fn libwebp_rgba(file: &[u8]) -> Option<(u32, u32, Vec<u8>)> {
    let (mut w, mut h) = (0i32, 0i32);
    let p = unsafe { libwebp_sys::WebPDecodeRGBA(file.as_ptr(), file.len(), &mut w, &mut h) };
    if p.is_null() {
        return None;
    }
    let v = unsafe { std::slice::from_raw_parts(p, (w as usize) * (h as usize) * 4) }.to_vec();
    unsafe { libwebp_sys::WebPFree(p as *mut _) };
    Some((w as u32, h as u32, v))
}

/// outcome of one decode by the crate
#[derive(Clone, PartialEq)]
pub enum Dec {
    Ok(u32, u32, bool, Vec<u8>), // width, height, has_alpha, pixels (RGBA or RGB)
    Err(String),
    Panic(String),
}

fn api_decode(file: Vec<u8>) -> Dec {
    let r = catch(move || -> Result<(u32, u32, bool, Vec<u8>), String> {
        let mut d = image_webp::WebPDecoder::new(Cursor::new(file)).map_err(|e| format!("new: {e}"))?;
        let (w, h) = d.dimensions();
        let a = d.has_alpha();
        let n = d.output_buffer_size().ok_or("size".to_string())?;
        let mut buf = vec![0x5au8; n];
        d.read_image(&mut buf).map_err(|e| format!("read_image: {e}"))?;
        Ok((w, h, a, buf))
    });
    match r {
        Ok(Ok((w, h, a, b))) => Dec::Ok(w, h, a, b),
        Ok(Err(e)) => Dec::Err(e),
        Err(p) => Dec::Panic(p),
    }
}

fn hook_decode(payload: &[u8], w: u32, h: u32) -> Dec {
    let p = payload.to_vec();
    match catch(move || image_webp::verif::vp8l_decode(&p, w as u16, h as u16, false)) {
        Ok(Ok(b)) => Dec::Ok(w, h, true, b),
        Ok(Err(e)) => Dec::Err(format!("{e}")),
        Err(p) => Dec::Panic(p),
    }
}

/// the hook through a reader that exposes `k` bytes per fill_buf call (BufReader of capacity k over the payload)
fn hook_decode_chunked(payload: &[u8], w: u32, h: u32, k: usize) -> Dec {
    let p = payload.to_vec();
    match catch(move || {
        let r = std::io::BufReader::with_capacity(k, std::io::Cursor::new(p));
        image_webp::verif::vp8l_decode_with(r, w as u16, h as u16, false)
    }) {
        Ok(Ok(b)) => Dec::Ok(w, h, true, b),
        Ok(Err(e)) => Dec::Err(format!("{e}")),
        Err(p) => Dec::Panic(p),
    }
}

/// compare a crate result with the reference RGBA; None = agrees
fn disagree(d: &Dec, w: u32, h: u32, reference: &[u8]) -> Option<String> {
    match d {
        Dec::Panic(p) => Some(format!("PANIC {}", p.replace('\n', " "))),
        Dec::Err(e) => Some(format!("ERR {e}")),
        Dec::Ok(dw, dh, a, px) => {
            if (*dw, *dh) != (w, h) {
                return Some(format!("dimensions {dw}x{dh} instead of {w}x{h}"));
            }
            let bpp = if *a { 4 } else { 3 };
            if px.len() != (w as usize) * (h as usize) * bpp {
                return Some(format!("buffer length {}", px.len()));
            }
            for (i, (o, r)) in px.chunks_exact(bpp).zip(reference.chunks_exact(4)).enumerate() {
                if o != &r[..bpp] {
                    return Some(format!("pixel {} (x={}, y={}) is {:?}, reference {:?}", i, i as u32 % w, i as u32 / w, o, &r[..bpp]));
                }
            }
            None
        }
    }
}

fn fnv(b: &[u8]) -> u64 {
    let mut h = 0xcbf29ce484222325u64;
    for &x in b {
        h = (h ^ x as u64).wrapping_mul(0x100000001b3);
    }
    h
}

pub fn result_line(d: &Dec) -> String {
    match d {
        Dec::Ok(w, h, _, px) => {
            if (*w as u64) * (*h as u64) <= 16384 {
                format!("OK {w} {h} {}", hex(px))
            } else {
                format!("OKH {w} {h} {:016x}", fnv(px))
            }
        }
        Dec::Err(_) => "ERR".into(),
        Dec::Panic(_) => "PANIC".into(),
    }
}

/// dimensions in the 5-byte VP8L header
pub fn header_dims(payload: &[u8]) -> Option<(u32, u32)> {
    if payload.len() < 5 || payload[0] != 0x2f {
        return None;
    }
    let v = u32::from_le_bytes([payload[1], payload[2], payload[3], payload[4]]);
    Some(((v & 0x3fff) + 1, ((v >> 14) & 0x3fff) + 1))
}

// ------------------------------------------------------------------------------------------------
// one case

pub struct Verdict {
    pub accepted_by_libwebp: bool,
    pub result: String,
    /// (where, what) for every wrapping / entry point that disagrees with libwebp
    pub problems: Vec<(String, String)>,
    pub muxer_problem: Option<String>,
    pub reference: Option<Vec<u8>>,
}

pub fn judge(payload: &[u8], full: bool) -> Verdict {
    let dims = header_dims(payload);
    let reference = libwebp_rgba(&wrap_simple(payload));
    let (w, h) = match (&reference, dims) {
        (Some((w, h, _)), _) => (*w, *h),
        (None, Some(d)) => d,
        (None, None) => (1, 1),
    };
    let hook = hook_decode(payload, w, h);
    let result = result_line(&hook);
    let mut problems = vec![];
    let mut muxer_problem = None;
    if let Some((_, _, rpx)) = &reference {
        // the ALPH form: the same stream without its 5 header bytes, dimensions supplied by the caller (implicit_dimensions = true);
        // an alpha plane is the GREEN channel of the decoded image, so that is what is compared
        if payload.len() > 5 {
            let p = payload[5..].to_vec();
            match catch(move || image_webp::verif::vp8l_decode(&p, w as u16, h as u16, true)) {
                Ok(Ok(b)) => {
                    if let Some(i) = (0..(w * h) as usize).find(|&i| b.get(i * 4 + 1) != rpx.get(i * 4 + 1)) {
                        problems.push(("alph_implicit".into(), format!("alpha (green) of pixel {} is {:?}, reference {:?}", i, b.get(i * 4 + 1), rpx.get(i * 4 + 1))));
                    }
                }
                Ok(Err(e)) => problems.push(("alph_implicit".into(), format!("valid stream rejected in its ALPH form: {e}"))),
                Err(pn) => problems.push(("alph_implicit".into(), format!("PANIC {}", pn.replace('\n', " ")))),
            }
        }
        let mut check = |name: &str, d: &Dec| {
            if let Some(what) = disagree(d, w, h, rpx) {
                problems.push((name.to_string(), what));
            }
        };
        check("hook", &hook);
        // a valid stream must decode whatever the reader's chunking (1, 3 and a payload-dependent number of bytes per call)
        for k in [1usize, 3, 5 + payload.len() % 11] {
            check(&format!("hook_chunked{k}"), &hook_decode_chunked(payload, w, h, k));
        }
        check("simple", &api_decode(wrap_simple(payload)));
        if full {
            for alpha in [true, false] {
                let f = wrap_vp8x(payload, w, h, alpha);
                if alpha {
                    match libwebp_rgba(&f) {
                        Some((_, _, p)) if &p == rpx => {}
                        _ => muxer_problem = Some("libwebp decodes the VP8X wrapping differently".to_string()),
                    }
                }
                check(if alpha { "vp8x_alpha" } else { "vp8x_noalpha" }, &api_decode(f));
                let f = wrap_anim(payload, w, h, alpha, [7, 99, 201, 133]);
                check(if alpha { "anmf_alpha" } else { "anmf_noalpha" }, &api_decode(f));
            }
        }
    } else {
        // libwebp rejects: the crate must not panic
        if let Dec::Panic(p) = &hook {
            problems.push(("hook".into(), format!("PANIC {} (stream rejected by libwebp)", p.replace('\n', " "))));
        }
        if let Dec::Panic(p) = api_decode(wrap_simple(payload)) {
            problems.push(("simple".into(), format!("PANIC {} (stream rejected by libwebp)", p.replace('\n', " "))));
        }
    }
    Verdict { accepted_by_libwebp: reference.is_some(), result, problems, muxer_problem, reference: reference.map(|r| r.2) }
}

// ------------------------------------------------------------------------------------------------
// hand-built cases (seeds of the generator: DESIGN.md section 8 F1-F4, F16)

fn simple1(w: &mut BitWriter, s: u32) {
    w.put(1, 1);
    w.put(0, 1);
    if s < 2 {
        w.put(0, 1);
        w.put(s as u64, 1);
    } else {
        w.put(1, 1);
        w.put(s as u64, 8);
    }
}
fn simple2(w: &mut BitWriter, a: u32, b: u32) {
    w.put(1, 1);
    w.put(1, 1);
    w.put(1, 1);
    w.put(a as u64, 8);
    w.put(b as u64, 8);
}
fn head(w: &mut BitWriter, width: u32, height: u32) {
    w.put(0x2f, 8);
    w.put((width - 1) as u64, 14);
    w.put((height - 1) as u64, 14);
    w.put(1, 1);
    w.put(0, 3);
}
/// normal code description with literal code lengths only (no repeat codes), balanced code-length code
fn normal_plain(w: &mut BitWriter, lens: &[u8]) {
    let mut used = [false; 19];
    for &l in lens {
        used[l as usize] = true;
    }
    let syms: Vec<usize> = (0..19).filter(|&i| used[i]).collect();
    let k = syms.len();
    let mut cl = vec![0u8; 19];
    if k == 1 {
        cl[syms[0]] = 1;
    } else {
        let mut d = 0;
        while (1usize << d) < k {
            d += 1;
        }
        let short = (1usize << d) - k;
        for (i, &s) in syms.iter().enumerate() {
            cl[s] = if i < short { d as u8 - 1 } else { d as u8 };
        }
    }
    let code = gen::Code::from_lens(cl.clone());
    w.put(0, 1);
    w.put(15, 4);
    for &o in gen::CODE_LENGTH_ORDER.iter() {
        w.put(cl[o] as u64, 3);
    }
    w.put(0, 1);
    for &l in lens {
        code.emit(w, l as u16);
    }
}

pub fn hand_cases() -> Vec<(String, Vec<u8>)> {
    let mut v = vec![];
    // F3: simple two-symbol codes, ascending / descending / equal
    for (name, a, b) in [("F3 simple2 ascending 100,200", 100, 200), ("F3 simple2 descending 200,100", 200, 100), ("F3 simple2 equal 77,77", 77, 77)] {
        let mut w = BitWriter::new();
        // the equal pair is a zero-bit code: 8x8 pixels so that a decoder reading one bit per pixel runs dry
        let side = if a == b { 8 } else { 2 };
        head(&mut w, side, side / 2);
        w.put(0, 3);
        simple2(&mut w, a, b);
        simple1(&mut w, 0);
        simple1(&mut w, 0);
        simple1(&mut w, 255);
        simple1(&mut w, 0);
        if a != b {
            w.put(0, 1);
            w.put(1, 1);
        } else {
            w.put(1, 1);
        }
        v.push((name.to_string(), w.finish(0)));
    }
    // F2: cache bits 1; hit on the never-written slot 1, then slot 0 twice
    {
        let mut g = 1u32;
        while gen::cache_hash(0xff000000 | (g << 8), 1) != 0 {
            g += 1;
        }
        let mut w = BitWriter::new();
        head(&mut w, 4, 1);
        w.put(0, 1);
        w.put(1, 1);
        w.put(1, 4);
        w.put(0, 1);
        let mut lens = vec![0u8; 282];
        lens[g as usize] = 1;
        lens[280] = 2;
        lens[281] = 2;
        let code = gen::Code::from_lens(lens.clone());
        normal_plain(&mut w, &lens);
        simple1(&mut w, 0);
        simple1(&mut w, 0);
        simple1(&mut w, 255);
        simple1(&mut w, 0);
        for s in [g as u16, 281, 280, 280] {
            code.emit(&mut w, s);
        }
        v.push(("F2 cache hit pixels enter the cache".to_string(), w.finish(0)));
    }
    // F4: one 58-bit back-reference at each of the 8 bit alignments (8192x80)
    for pad in 0..8u32 {
        let (width, height) = (8192u32, 80u32);
        let total = (width * height) as usize;
        let mut w = BitWriter::new();
        head(&mut w, width, height);
        w.put(0, 3);
        let mut gl = vec![0u8; 280];
        gl[5] = 1;
        gl[279] = 2;
        for (i, l) in (3..=14u8).enumerate() {
            gl[10 + i] = l;
        }
        gl[278] = 15;
        gl[30] = 15;
        let gc = gen::Code::from_lens(gl.clone());
        let mut dl = vec![0u8; 40];
        dl[1] = 1;
        dl[2] = 2;
        for (i, l) in (3..=14u8).enumerate() {
            dl[3 + i] = l;
        }
        dl[38] = 15;
        dl[20] = 15;
        let dc = gen::Code::from_lens(dl.clone());
        normal_plain(&mut w, &gl);
        simple1(&mut w, 0);
        simple1(&mut w, 0);
        simple1(&mut w, 255);
        normal_plain(&mut w, &dl);
        let mut index = 0usize;
        for _ in 0..1 + pad {
            gc.emit(&mut w, 5);
            index += 1;
        }
        let run = |w: &mut BitWriter, index: &mut usize| {
            gc.emit(w, 279);
            w.put(1023, 10);
            dc.emit(w, 1);
            *index += 4096;
        };
        while index < 524169 + 10 {
            run(&mut w, &mut index);
        }
        gc.emit(&mut w, 278);
        w.put(0, 10);
        dc.emit(&mut w, 38);
        w.put(0, 18);
        index += 2049;
        while index + 4096 <= total {
            run(&mut w, &mut index);
        }
        while index < total {
            gc.emit(&mut w, 5);
            index += 1;
        }
        v.push((format!("F4 58-bit back-reference, alignment {pad}"), w.finish(0)));
    }
    // F1: 16384 on a side
    for (width, height) in [(16384u32, 1u32), (1, 16384), (16384, 2)] {
        let mut w = BitWriter::new();
        head(&mut w, width, height);
        w.put(0, 3);
        simple1(&mut w, 9);
        simple1(&mut w, 200);
        simple1(&mut w, 1);
        simple1(&mut w, 255);
        simple1(&mut w, 0);
        v.push((format!("F1 {width}x{height}"), w.finish(0)));
    }
    // F16: over-subscribed code whose Kraft accumulator exceeds u16 (invalid stream: must be an error, not a panic)
    {
        let mut w = BitWriter::new();
        head(&mut w, 1, 1);
        w.put(0, 3);
        simple1(&mut w, 0);
        let mut lens = vec![0u8; 256];
        for l in lens.iter_mut().take(7) {
            *l = 1;
        }
        for (i, l) in (2..=13u8).enumerate() {
            lens[7 + i] = l;
        }
        lens[19] = 14;
        lens[20] = 14;
        normal_plain(&mut w, &lens);
        simple1(&mut w, 0);
        simple1(&mut w, 0);
        simple1(&mut w, 0);
        w.put(0, 16);
        v.push(("F16 over-subscribed code lengths (invalid stream)".to_string(), w.finish(0)));
    }
    v
}

/// Streams outside the property's domain (not spec-valid), kept to document how the crate and libwebp treat them.
/// Run with tier `probe`; results go to stats.json `notes`, they are never counted as violations.
pub fn probe_cases() -> Vec<(String, Vec<u8>)> {
    let mut v = vec![];
    for mode in [13u32, 14, 15, 16 + 1, 255] {
        let mut w = BitWriter::new();
        head(&mut w, 4, 2);
        w.put(1, 1);
        w.put(0, 2);
        w.put(0, 3);
        w.put(0, 1); // sub-image: no cache
        simple1(&mut w, mode);
        for _ in 0..4 {
            simple1(&mut w, 0);
        }
        w.put(0, 1); // no more transforms
        w.put(0, 2); // no cache, no meta
        for s in [10, 20, 30, 40, 0] {
            simple1(&mut w, s);
        }
        v.push((format!("predictor mode {mode} (the format defines 0..13)"), w.finish(0)));
    }
    // over-subscribed lengths whose Kraft sum is exactly 2: 1x3, 2..14 once, 15x2
    {
        let mut w = BitWriter::new();
        head(&mut w, 1, 1);
        w.put(0, 3);
        simple1(&mut w, 0);
        let mut lens = vec![0u8; 256];
        for l in lens.iter_mut().take(3) {
            *l = 1;
        }
        for (i, l) in (2..=14u8).enumerate() {
            lens[3 + i] = l;
        }
        lens[16] = 15;
        lens[17] = 15;
        normal_plain(&mut w, &lens);
        simple1(&mut w, 0);
        simple1(&mut w, 0);
        simple1(&mut w, 0);
        w.put(0, 16);
        v.push(("over-subscribed code lengths with Kraft sum 2 (1x3, 2..14, 15x2)".to_string(), w.finish(0)));
    }
    v
}

// ------------------------------------------------------------------------------------------------
// minimiser: switch generator features off / sizes down while some stream of the reduced class still fails

pub fn minimise(seed: u64, params: &Params, budget_per_step: u64) -> Option<(u64, Params, GenStream, Vec<(String, String)>)> {
    let fails = |g: &GenStream| -> Option<Vec<(String, String)>> {
        let v = judge(&g.payload, false);
        if v.accepted_by_libwebp && !v.problems.is_empty() {
            Some(v.problems)
        } else {
            None
        }
    };
    let g0 = gen::generate(seed, params, false);
    let mut best = (seed, params.clone(), fails(&g0)?, g0.payload.len());
    loop {
        let mut improved = false;
        for cand in best.1.reductions() {
            let mut found = None;
            for k in 0..budget_per_step {
                let s = if k == 0 { best.0 } else { best.0.wrapping_mul(0x9E3779B97F4A7C15).wrapping_add(k) };
                let g = gen::generate(s, &cand, false);
                if g.payload.len() > best.3 {
                    continue;
                }
                if let Some(pr) = fails(&g) {
                    found = Some((s, pr, g.payload.len()));
                    break;
                }
            }
            if let Some((s, pr, len)) = found {
                best = (s, cand, pr, len);
                improved = true;
                break;
            }
        }
        if !improved {
            break;
        }
    }
    let g = gen::generate(best.0, &best.1, true);
    Some((best.0, best.1, g, best.2))
}

// ------------------------------------------------------------------------------------------------
// self checks of the generator's tables against libwebp's literals

#[rustfmt::skip]
const K_CODE_TO_PLANE: [u8; 120] = [
  0x18, 0x07, 0x17, 0x19, 0x28, 0x06, 0x27, 0x29, 0x16, 0x1a, 0x26, 0x2a, 0x38, 0x05, 0x37, 0x39, 0x15, 0x1b, 0x36, 0x3a,
  0x25, 0x2b, 0x48, 0x04, 0x47, 0x49, 0x14, 0x1c, 0x35, 0x3b, 0x46, 0x4a, 0x24, 0x2c, 0x58, 0x45, 0x4b, 0x34, 0x3c, 0x03,
  0x57, 0x59, 0x13, 0x1d, 0x56, 0x5a, 0x23, 0x2d, 0x44, 0x4c, 0x55, 0x5b, 0x33, 0x3d, 0x68, 0x02, 0x67, 0x69, 0x12, 0x1e,
  0x66, 0x6a, 0x22, 0x2e, 0x54, 0x5c, 0x43, 0x4d, 0x65, 0x6b, 0x32, 0x3e, 0x78, 0x01, 0x77, 0x79, 0x53, 0x5d, 0x11, 0x1f,
  0x64, 0x6c, 0x42, 0x4e, 0x76, 0x7a, 0x21, 0x2f, 0x75, 0x7b, 0x31, 0x3f, 0x63, 0x6d, 0x52, 0x5e, 0x00, 0x74, 0x7c, 0x41,
  0x4f, 0x10, 0x20, 0x62, 0x6e, 0x30, 0x73, 0x7d, 0x51, 0x5f, 0x40, 0x72, 0x7e, 0x61, 0x6f, 0x50, 0x71, 0x7f, 0x60, 0x70,
];
fn self_check() -> bool {
    (0..120).all(|i| {
        let c = K_CODE_TO_PLANE[i] as i32;
        gen::DISTANCE_MAP[i] == (8 - (c & 0xf), c >> 4)
    })
}

// ------------------------------------------------------------------------------------------------
// driver

pub fn run(tier: &str, seed: u64, outdir: &str, extra: &[String]) {
    if std::env::var("C01_VERBOSE").is_ok() {
        std::panic::set_hook(Box::new(|i| eprintln!("{i}\n{}", std::backtrace::Backtrace::force_capture())));
    }
    let mut out = Out::new(outdir);
    let mut agg = Stats::default();
    let mut violations: Vec<String> = vec![];
    let mut vclass: std::collections::BTreeMap<String, u64> = Default::default();
    let mut rejected: Vec<String> = vec![];
    let mut notes: Vec<String> = vec![];
    let (mut n_cases, mut n_accepted, mut n_violating, mut n_gen_mismatch, mut n_muxer, mut n_rejected) = (0u64, 0u64, 0u64, 0u64, 0u64, 0u64);
    if !self_check() {
        notes.push("generator distance map differs from libwebp kCodeToPlane".into());
    }
    let mut record = |out: &mut Out, name: &str, payload: &[u8], generated: bool, expected: Option<&Vec<u32>>| -> bool {
        let v = judge(payload, true);
        let case = format!("vp8l {}", hex(payload));
        out.case(&case, &v.result);
        n_cases += 1;
        if v.accepted_by_libwebp {
            n_accepted += 1;
        } else if generated {
            n_rejected += 1;
            if rejected.len() < 20 {
                rejected.push(format!("{case} -> {name}"));
            }
        }
        if v.muxer_problem.is_some() {
            n_muxer += 1;
        }
        if let (Some(exp), true) = (expected, v.accepted_by_libwebp) {
            // generator's own pre-transform pixels against libwebp (streams without transforms)
            if let Some(r) = &v.reference {
                let same = exp.len() * 4 == r.len()
                    && exp.iter().zip(r.chunks_exact(4)).all(|(&p, q)| [(p >> 16) as u8, (p >> 8) as u8, p as u8, (p >> 24) as u8] == q);
                if !same {
                    n_gen_mismatch += 1;
                }
            }
        }
        if !v.problems.is_empty() {
            n_violating += 1;
            for (wh, what) in &v.problems {
                let kind = what.split(' ').next().unwrap_or("");
                let kind = if kind == "ERR" || kind == "PANIC" { kind } else { "DIFF" };
                *vclass.entry(format!("{wh}:{kind}")).or_insert(0) += 1;
            }
            if violations.len() < 40 {
                let (wh, what) = &v.problems[0];
                let hexs = hex(payload);
                let shown = if hexs.len() > 6000 { format!("{}...({} bytes, see cases.txt line {})", &hexs[..200], payload.len(), n_cases) } else { hexs };
                violations.push(format!("vp8l {shown} -> [{name}] {wh}: {what} ({} entry points disagree)", v.problems.len()));
            }
            true
        } else {
            false
        }
    };

    let params = Params::full();
    let mut first_failing_seed: Option<u64> = None;
    if tier == "probe" {
        for (name, payload) in probe_cases() {
            let (w, h) = header_dims(&payload).unwrap();
            let lw = libwebp_rgba(&wrap_simple(&payload));
            let ours = hook_decode(&payload, w, h);
            let show = |p: &[u8]| if p.len() <= 32 { format!("{:?}", p) } else { format!("{} bytes", p.len()) };
            let o = match &ours {
                Dec::Ok(_, _, _, p) => show(p),
                Dec::Err(e) => format!("ERR {e}"),
                Dec::Panic(e) => format!("PANIC {e}"),
            };
            let l = match &lw {
                Some((_, _, p)) => show(p),
                None => "rejected".to_string(),
            };
            notes.push(format!("{name}: crate {o}; libwebp {l}; vp8l {}", hex(&payload)));
            out.case(&format!("vp8l {}", hex(&payload)), &result_line(&ours));
        }
        let lens_f16: Vec<u16> = [1u16; 7].iter().cloned().chain(2..=13).chain([14, 14]).collect();
        let lens_k2: Vec<u16> = [1u16; 3].iter().cloned().chain(2..=14).chain([15, 15]).collect();
        for (n, l) in [("F16 lengths 1x7,2..13,14x2", lens_f16), ("lengths 1x3,2..14,15x2 (Kraft sum 2)", lens_k2)] {
            let r = catch(move || image_webp::verif::huffman_build_and_decode(l, &[0u8; 16], 4));
            notes.push(format!("huffman_build_and_decode {n}: {:?}", r));
        }
    } else if tier == "replay" {
        let text = std::fs::read_to_string(&extra[0]).unwrap_or_default();
        for line in text.lines() {
            let mut it = line.split_whitespace();
            if it.next() == Some("vp8l") {
                if let Some(h) = it.next() {
                    record(&mut out, "replay", &unhex(h), false, None);
                }
            }
        }
    } else {
        let hands = hand_cases();
        agg.add("hand_cases", hands.len() as u64);
        for (name, payload) in &hands {
            if record(&mut out, name, payload, false, None) {
                agg.bump("hand_cases_violating");
            }
        }
        let n = match tier {
            "thorough" => 10000,
            "hand" => 0,
            _ => 400,
        };
        let n = extra.first().and_then(|s| s.parse::<u64>().ok()).unwrap_or(n);
        let mut rng = Rng::new(seed ^ 0xC01);
        for _ in 0..n {
            let sub = rng.next();
            let pp = params.clone();
            let g = match catch(move || gen::generate(sub, &pp, false)) {
                Ok(g) => g,
                Err(e) => {
                    eprintln!("generator panicked on seed {sub}: {e}");
                    agg.bump("generator_panics");
                    continue;
                }
            };
            agg.merge_stream(&g.stats);
            agg.bump("streams");
            agg.max("max.payload_bytes", g.payload.len() as u64);
            if record(&mut out, &format!("seed {sub}"), &g.payload, true, g.expected_argb.as_ref()) && first_failing_seed.is_none() {
                first_failing_seed = Some(sub);
            }
        }
    }
    drop(record);
    // minimise the first generated failure
    let mut minimised = String::from("null");
    if let Some(s) = first_failing_seed {
        if let Some((ms, mp, g, pr)) = minimise(s, &params, if tier == "thorough" { 300 } else { 60 }) {
            minimised = format!(
                "{{\"seed\": {ms}, \"case\": {}, \"problem\": {}, \"params\": {}, \"program\": [{}]}}",
                jstr(&format!("vp8l {}", hex(&g.payload))),
                jstr(&format!("{}: {}", pr[0].0, pr[0].1)),
                jstr(&mp.describe()),
                g.desc.iter().map(|l| jstr(l)).collect::<Vec<_>>().join(", ")
            );
        }
    }
    let distinct_planes = agg.0.keys().filter(|k| k.starts_with("plane_code.")).count();
    let list = |v: &Vec<String>| v.iter().map(|s| jstr(s)).collect::<Vec<_>>().join(",\n  ");
    let stats = format!(
        "{{\n \"check\": \"c01\", \"tier\": {}, \"seed\": {seed},\n \"evaluations\": {n_cases},\n \"accepted_by_libwebp\": {n_accepted},\n \"generated_rejected_by_libwebp\": {},\n \"generator_pixels_differ_from_libwebp\": {n_gen_mismatch},\n \"muxer_problems\": {n_muxer},\n \"cases_violating\": {n_violating},\n \"violation_classes\": {{{}}},\n \"distinct_plane_codes\": {distinct_planes},\n \"notes\": [{}],\n \"rejected_cases\": [{}],\n \"minimised\": {minimised},\n \"features\": {},\n \"violations\": [\n  {}\n ]\n}}\n",
        jstr(tier),
        n_rejected,
        vclass.iter().map(|(k, v)| format!("{}: {v}", jstr(k))).collect::<Vec<_>>().join(", "),
        list(&notes),
        list(&rejected),
        agg.json(),
        list(&violations)
    );
    out.finish(&stats);
}
