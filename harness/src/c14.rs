//! C14: encoder prefix codes complete, length-limited, canonical.
//! Runs `verif::build_huffman_tree(frequencies, limit)` and for every histogram
//!  (1) decides the property natively (lengths in range, Kraft equality in exact integers, canonical code words
//!      recomputed with the deflate rule and bit-reversed, flag semantics) -> `violations`;
//!  (2) writes a `huff` case (Model correspondence; the order produced by the real `sort_unstable_by_key` on the same
//!      (index, frequency) vector is passed along so that the Model replays std's tie-break exactly) and
//!  (3) a `huffchk` case carrying the implementation's output for the certified checker `c14_ok` (expected answer `ok`).
use crate::encsup::{jarr, jmap, panic_kind};
use crate::util::*;
use image_webp::verif::build_huffman_tree;
use std::collections::BTreeMap;

fn csv<T: std::fmt::Display>(v: &[T]) -> String {
    if v.is_empty() {
        return "-".into();
    }
    v.iter().map(|x| x.to_string()).collect::<Vec<_>>().join(",")
}

/// the order std's unstable sort gives to the (index, frequency) pairs: exactly the call encoder.rs makes
fn std_order(freqs: &[u32]) -> Vec<usize> {
    let mut indexes = freqs.iter().copied().enumerate().collect::<Vec<_>>();
    indexes.sort_unstable_by_key(|&(_, frequency)| frequency);
    indexes.iter().map(|p| p.0).collect()
}
fn stable_order(freqs: &[u32]) -> Vec<usize> {
    let mut indexes = freqs.iter().copied().enumerate().collect::<Vec<_>>();
    indexes.sort_by_key(|&(_, frequency)| frequency);
    indexes.iter().map(|p| p.0).collect()
}

/// native decision of C14 on one output; Ok(()) or the clause that fails
pub fn judge(freqs: &[u32], limit: u8, flag: bool, lens: &[u8], codes: &[u16]) -> Result<(), String> {
    let n = freqs.len();
    if lens.len() != n || codes.len() != n {
        return Err("output arrays of the wrong length".into());
    }
    let used = freqs.iter().filter(|&&f| f > 0).count();
    if used < 2 {
        if flag {
            return Err("fewer than two used symbols but the flag says a normal code was built".into());
        }
        if lens.iter().any(|&l| l != 0) || codes.iter().any(|&c| c != 0) {
            return Err("fewer than two used symbols but lengths/codes are not all zero".into());
        }
        return Ok(());
    }
    if !flag {
        return Err("two or more used symbols but the single-symbol flag is raised".into());
    }
    let l = limit as u32;
    let mut kraft: u128 = 0;
    for i in 0..n {
        if freqs[i] > 0 {
            if lens[i] < 1 || lens[i] as u32 > l {
                return Err(format!("used symbol {i} has length {} outside 1..={l}", lens[i]));
            }
            kraft += 1u128 << (l - lens[i] as u32);
        } else if lens[i] != 0 {
            return Err(format!("unused symbol {i} has length {}", lens[i]));
        }
    }
    if kraft != 1u128 << l {
        return Err(format!("Kraft sum {kraft} / 2^{l} is not 1"));
    }
    // canonical code (RFC 1951 3.2.2), then the len-bit reversal the LSB-first writer needs
    let mut bl = vec![0u32; l as usize + 2];
    for &x in lens {
        if x > 0 {
            bl[x as usize] += 1;
        }
    }
    let mut next = vec![0u32; l as usize + 2];
    let mut code = 0u32;
    for b in 1..=l as usize {
        code = (code + bl[b - 1]) << 1;
        next[b] = code;
    }
    for i in 0..n {
        let want = if lens[i] == 0 {
            0
        } else {
            let c = next[lens[i] as usize];
            next[lens[i] as usize] += 1;
            let mut r = 0u32;
            for k in 0..lens[i] as u32 {
                if c >> k & 1 != 0 {
                    r |= 1 << (lens[i] as u32 - 1 - k);
                }
            }
            r
        };
        if codes[i] as u32 != want {
            return Err(format!("symbol {i}: code word {:#x}, canonical (bit-reversed) {:#x}", codes[i], want));
        }
    }
    Ok(())
}

struct St {
    out: Out,
    evals: u64,
    violations: Vec<String>,
    fam: BTreeMap<String, u64>,
    sizes: BTreeMap<String, u64>,
    limits: BTreeMap<String, u64>,
    outcome: BTreeMap<String, u64>,
    limited: u64,        // natively: some used symbol sits at the limit and a plain Huffman code would be deeper
    tie_sensitive: u64,  // std's unstable order differs from the stable order on this histogram
    maxlen_hist: BTreeMap<String, u64>,
}

impl St {
    fn run_case(&mut self, fam: &str, freqs: &[u32], limit: u8) {
        self.evals += 1;
        *self.fam.entry(fam.to_string()).or_default() += 1;
        *self.sizes.entry(freqs.len().to_string()).or_default() += 1;
        *self.limits.entry(limit.to_string()).or_default() += 1;
        let fv = freqs.to_vec();
        let r = catch(move || build_huffman_tree(&fv, limit));
        let order = std_order(freqs);
        if order != stable_order(freqs) {
            self.tie_sensitive += 1;
        }
        let case = format!("huff {} {} {}", limit, csv(freqs), csv(&order));
        match r {
            Ok((flag, lens, codes)) => {
                let res = format!("{} {} {}", flag as u8, csv(&lens), csv(&codes));
                *self.outcome.entry(if flag { "code" } else { "single" }.to_string()).or_default() += 1;
                let ml = lens.iter().copied().max().unwrap_or(0);
                *self.maxlen_hist.entry(ml.to_string()).or_default() += 1;
                if ml == limit {
                    self.limited += 1;
                }
                if let Err(e) = judge(freqs, limit, flag, &lens, &codes) {
                    if self.violations.len() < 50 {
                        self.violations.push(format!("{case} -> {res} : {e}"));
                    }
                }
                self.out.case(&case, &res);
                // the certified checker on the implementation's own output
                self.out.case(&format!("huffchk {} {} {} {} {}", limit, csv(freqs), flag as u8, csv(&lens), csv(&codes)), "ok");
            }
            Err(p) => {
                let k = panic_kind(&p);
                *self.outcome.entry(format!("panic-{k}")).or_default() += 1;
                let sum: u64 = freqs.iter().map(|&f| f as u64).sum();
                let in_domain = sum < (1u64 << 32) && (freqs.len() as u64) <= (1u64 << limit);
                if in_domain && self.violations.len() < 50 {
                    self.violations.push(format!("{case} -> PANIC {k} : {}", p.replace('\n', " ")));
                }
                self.out.case(&case, &format!("PANIC {k}"));
            }
        }
    }
}

impl St {
    fn sort_case(&mut self, keys: &[u32]) {
        self.evals += 1;
        *self.fam.entry("std-sort-model".to_string()).or_default() += 1;
        let order = std_order(keys);
        if order != stable_order(keys) {
            self.tie_sensitive += 1;
        }
        self.out.case(&format!("sortchk {}", csv(keys)), &csv(&order));
    }
}

fn place(rng: &mut Rng, n: usize, vals: &[u32]) -> Vec<u32> {
    // put the values at distinct random positions of an n-symbol histogram
    let mut f = vec![0u32; n];
    let mut idx: Vec<usize> = (0..n).collect();
    for i in 0..vals.len().min(n) {
        let j = i + rng.below((n - i) as u64) as usize;
        idx.swap(i, j);
        f[idx[i]] = vals[i];
    }
    f
}

fn fibs(k: usize) -> Vec<u32> {
    let mut v = vec![1u32, 1];
    while v.len() < k {
        let n = v.len();
        v.push(v[n - 1] + v[n - 2]);
    }
    v.truncate(k);
    v
}

pub fn run(tier: &str, seed: u64, outdir: &str, extra: &[String]) {
    let mut st = St {
        out: Out::new(outdir),
        evals: 0,
        violations: vec![],
        fam: BTreeMap::new(),
        sizes: BTreeMap::new(),
        limits: BTreeMap::new(),
        outcome: BTreeMap::new(),
        limited: 0,
        tie_sensitive: 0,
        maxlen_hist: BTreeMap::new(),
    };
    let mut rng = Rng::new(seed ^ 0xC14);

    if tier == "replay" {
        let txt = std::fs::read_to_string(&extra[0]).unwrap_or_default();
        for line in txt.lines() {
            let ws: Vec<&str> = line.split_whitespace().collect();
            if ws.len() >= 3 && ws[0] == "huff" {
                let limit: u8 = ws[1].parse().unwrap_or(15);
                let freqs: Vec<u32> = if ws[2] == "-" { vec![] } else { ws[2].split(',').map(|x| x.parse().unwrap_or(0)).collect() };
                st.run_case("replay", &freqs, limit);
            }
        }
    } else {
        let thorough = tier == "thorough";
        // ---- exhaustive: alphabets of 2..6 symbols, entries 0..6, limits 2..4 where the alphabet fits (n <= 2^limit)
        let nmax = if thorough { 6 } else { 5 };
        for n in 2..=nmax {
            let total = 7usize.pow(n as u32);
            for code in 0..total {
                let mut f = vec![0u32; n];
                let mut c = code;
                for x in f.iter_mut() {
                    *x = (c % 7) as u32;
                    c /= 7;
                }
                for limit in 2..=4u8 {
                    if n <= 1 << limit {
                        st.run_case("exhaustive", &f, limit);
                    }
                }
            }
        }
        if !thorough {
            // a seeded sample of the 6-symbol vectors
            for _ in 0..4000 {
                let f: Vec<u32> = (0..6).map(|_| rng.below(7) as u32).collect();
                st.run_case("exhaustive-sample6", &f, *rng.pick(&[3u8, 4]));
            }
        }
        // ---- adversarial families on the alphabets the encoder uses
        let reps = if thorough { 40 } else { 6 };
        for &(n, limit) in &[(16usize, 7u8), (16, 15), (256, 15), (280, 15)] {
            for _ in 0..reps {
                // Fibonacci: k values, depth k-1 for a plain Huffman code
                for k in [2usize, 3, 7, 8, 9, 15, 16, 17, 18, 24, 32, 40, 45] {
                    if k <= n {
                        st.run_case("fibonacci", &place(&mut rng, n, &fibs(k)), limit);
                        let mut v = fibs(k);
                        v.reverse();
                        let mut f = vec![0u32; n];
                        f[..k].copy_from_slice(&v);
                        st.run_case("fibonacci-descending-prefix", &f, limit);
                    }
                }
                // Fibonacci head plus many equal small symbols (ties straddling the length boundaries)
                for k in [12usize, 17, 20, 30] {
                    if k < n {
                        let mut v = fibs(k);
                        let fill = rng.range(1, 3) as u32;
                        while v.len() < n.min(k + rng.range(1, (n - k) as u64) as usize) {
                            v.push(fill);
                        }
                        st.run_case("fibonacci-plus-ties", &place(&mut rng, n, &v), limit);
                    }
                }
                // powers of two
                for k in [2usize, 8, 9, 16, 17, 25, 31] {
                    if k <= n {
                        let v: Vec<u32> = (0..k).map(|i| 1u32 << i).collect();
                        st.run_case("powers-of-two", &place(&mut rng, n, &v), limit);
                    }
                }
                // one dominant
                {
                    let k = rng.range(2, n as u64) as usize;
                    let mut v: Vec<u32> = (0..k).map(|_| rng.range(1, 3) as u32).collect();
                    v[0] = rng.range(1000, 1 << 28) as u32;
                    st.run_case("one-dominant", &place(&mut rng, n, &v), limit);
                }
                // all equal (k used symbols; k a power of two gives exactly one code length)
                for k in [2usize, 3, 4, 5, 16, 100, 128, 255, 256, 257, 280] {
                    if k <= n {
                        let c = rng.range(1, 1000) as u32;
                        st.run_case("all-equal", &place(&mut rng, n, &vec![c; k]), limit);
                    }
                }
                {
                    let c = rng.range(1, 5) as u32;
                    st.run_case("all-equal-full", &vec![c; n], limit);
                }
                // two-level ties
                {
                    let k = rng.range(2, n as u64) as usize;
                    let (a, b) = (rng.range(1, 20) as u32, rng.range(21, 5000) as u32);
                    let v: Vec<u32> = (0..k).map(|_| if rng.chance(1, 2) { a } else { b }).collect();
                    st.run_case("two-level-ties", &place(&mut rng, n, &v), limit);
                }
                // needs the limit exactly / one more: Fibonacci of limit+1, limit+2 values
                for k in [limit as usize, limit as usize + 1, limit as usize + 2, limit as usize + 3] {
                    if k <= n && k <= 45 {
                        st.run_case("needs-limit-exactly", &place(&mut rng, n, &fibs(k)), limit);
                    }
                }
                // random Zipf
                {
                    let k = rng.range(2, n as u64) as usize;
                    let s = rng.range(1, 1 << 20);
                    let v: Vec<u32> = (1..=k as u64).map(|r| (s / r + rng.below(3)) as u32).collect();
                    st.run_case("zipf", &place(&mut rng, n, &v), limit);
                }
                // random sparse
                {
                    let k = rng.range(0, 6) as usize;
                    let v: Vec<u32> = (0..k).map(|_| { let e = rng.range(1, 31); rng.range(1, 1 << e) as u32 }).collect();
                    st.run_case("sparse", &place(&mut rng, n, &v), limit);
                }
                // random geometric (ratios around the golden ratio make the deepest codes)
                {
                    let k = rng.range(2, n.min(44) as u64) as usize;
                    let mut v = vec![];
                    let mut x = 1.0f64;
                    let ratio = 1.3 + (rng.below(700) as f64) / 1000.0;
                    for _ in 0..k {
                        v.push(x as u32 + 1);
                        x *= ratio;
                        if x > 4.0e7 {
                            x = 4.0e7;
                        }
                    }
                    st.run_case("geometric", &place(&mut rng, n, &v), limit);
                }
                // uniform random counts
                {
                    let v: Vec<u32> = (0..n).map(|_| if rng.chance(1, 4) { 0 } else { let e = rng.range(1, 16); rng.below(1 << e) as u32 }).collect();
                    st.run_case("random", &v, limit);
                }
            }
        }
        // ---- fewer than two used symbols on the real alphabets
        for &(n, limit) in &[(16usize, 7u8), (256, 15), (280, 15)] {
            st.run_case("no-symbol", &vec![0u32; n], limit);
            for _ in 0..4 {
                let v = [rng.range(1, u32::MAX as u64) as u32];
                st.run_case("one-symbol", &place(&mut rng, n, &v), limit);
            }
        }
        // ---- the model of std's unstable sort (Model/EncoderSort.v) against the real one: keys with many ties
        let sreps = if thorough { 3000 } else { 400 };
        for it in 0..sreps {
            let n = match it % 5 { 0 => 256, 1 => 280, 2 => rng.range(21, 300) as usize, 3 => rng.range(2, 40) as usize, _ => rng.range(33, 120) as usize };
            let style = rng.below(8);
            let dmax = *rng.pick(&[2u64, 3, 5, 17, 100, 1000]);
            let distinct = 1 + rng.below(dmax);
            let mut keys: Vec<u32> = (0..n).map(|i| match style {
                0 => rng.below(distinct) as u32,
                1 => i as u32 / (1 + distinct as u32 % 7),                       // ascending with plateaus
                2 => (n - i) as u32 / (1 + distinct as u32 % 5),                 // descending with plateaus
                3 => (i as u32 * 7919) % (distinct as u32 + 1),                  // sawtooth
                4 => if rng.chance(9, 10) { 0 } else { rng.below(distinct) as u32 }, // mostly zero (sparse histogram)
                5 => (n - i) as u32,                                             // strictly descending
                6 => if i < n / 2 { i as u32 } else { rng.below(distinct) as u32 },
                _ => rng.below(1 << 20) as u32,
            }).collect();
            if style == 6 && rng.chance(1, 2) { keys.reverse(); }
            st.sort_case(&keys);
        }
        // ---- outside the encoder's domain (total count >= 2^32): recorded, compared with the Model, not a violation
        st.run_case("sum-overflow(outside-domain)", &place(&mut rng, 16, &[1 << 31, 1 << 31]), 7);
        st.run_case("sum-overflow(outside-domain)", &place(&mut rng, 256, &[u32::MAX, 1, 1]), 15);
    }

    let stats = format!(
        "{{\"evaluations\":{},\"violations\":{},\"families\":{},\"alphabet_sizes\":{},\"limits\":{},\"outcomes\":{},\"max_length_reaches_limit\":{},\"std_sort_order_differs_from_stable\":{},\"max_length_histogram\":{}}}",
        st.evals, jarr(&st.violations), jmap(&st.fam), jmap(&st.sizes), jmap(&st.limits), jmap(&st.outcome), st.limited, st.tie_sensitive, jmap(&st.maxlen_hist)
    );
    st.out.finish(&stats);
}
