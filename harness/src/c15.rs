//! C15: boolean entropy decoder = RFC 6386 section 7 reference decoder, on request scripts.
//! Hook `verif::arith_script(data, ops)` (init exactly as vp8.rs does, the crate's read_* methods, final `check`).
//!  (1) native decision of the property against a transcription of the RFC decoder (below): values equal for every
//!      request that precedes exhaustion, exhaustion flagged iff some request needs more than len + 1 bytes;
//!  (2) cases `arith <hex> <ops>` for the Coq Model/Spec oracle, implementation result `M <values> eof=<0|1>`.
//! Inputs: every byte string of length 0..2 x 40 scripts, length 3 (all / a dense stride) x 4 scripts, random
//! lengths 4..64 (every length mod 4, scripts sized so that some stop inside the last chunk, some inside the final
//! bytes, some on the tolerated extra byte, some beyond).
use crate::util::*;
use image_webp::verif::{arith_script, ArithOp};

// ---- RFC 6386 section 7.3 bool_decoder, zeros past the end; ghost: shifts, bytes needed ----
struct Ref<'a> {
    data: &'a [u8],
    pos: usize,
    value: u32,
    range: u32,
    bit_count: u32,
    shifts: u64,
    need: u64,
    /// first byte 0xFF: value / 2^8 >= range from the start and for ever, so an unbounded-integer reference returns 1 for
    /// every request (the value register is then not simulated: it would need unbounded width)
    ones: bool,
}
impl<'a> Ref<'a> {
    fn next_byte(&mut self) -> u32 {
        let b = if self.pos < self.data.len() { self.data[self.pos] } else { 0 };
        self.pos += 1;
        b as u32
    }
    fn new(data: &'a [u8]) -> Self {
        let mut d = Ref { data, pos: 0, value: 0, range: 255, bit_count: 0, shifts: 0, need: 0, ones: data.first() == Some(&0xff) };
        for _ in 0..2 {
            d.value = (d.value << 8) | d.next_byte();
        }
        d
    }
    fn read_bool(&mut self, prob: u32) -> u32 {
        self.need = self.need.max((self.shifts + 7) / 8 + 1);
        let split = 1 + (((self.range - 1) * prob) >> 8);
        let bigsplit = split << 8;
        let retval;
        if self.ones {
            retval = 1;
            self.range -= split;
        } else if self.value >= bigsplit {
            retval = 1;
            self.range -= split;
            self.value -= bigsplit;
        } else {
            retval = 0;
            self.range = split;
        }
        while self.range < 128 {
            if !self.ones {
                self.value <<= 1;
            }
            self.range <<= 1;
            self.shifts += 1;
            self.bit_count += 1;
            if self.bit_count == 8 {
                self.bit_count = 0;
                self.value |= self.next_byte();
            }
        }
        retval
    }
    fn read_literal(&mut self, n: u32) -> u32 {
        let mut v = 0;
        for _ in 0..n {
            v = (v << 1) + self.read_bool(128);
        }
        v
    }
    fn read_signed(&mut self, n: u32) -> i32 {
        if self.read_bool(128) == 0 {
            return 0;
        }
        let m = self.read_literal(n) as i32;
        if self.read_bool(128) == 1 { -m } else { m }
    }
    fn treed_read(&mut self, t: &[i8], p: &[u8], start: usize) -> i32 {
        let mut i = start as i32;
        loop {
            let b = self.read_bool(p[(i >> 1) as usize] as u32) as i32;
            i = t[(i + b) as usize] as i32;
            if i <= 0 {
                return -i;
            }
        }
    }
}

// RFC 6386 tree arrays (sections 9.3, 11.2, 11.4, 13.2) and the probability rows, written out independently of the crate
const SEGMENT_ID_TREE: [i8; 6] = [2, 4, 0, -1, -2, -3];
const YMODE_TREE: [i8; 8] = [-4, 2, 4, 6, 0, -1, -2, -3];
const YMODE_PROBS: [u8; 4] = [145, 156, 163, 128];
const UV_MODE_TREE: [i8; 6] = [0, 2, -1, 4, -2, -3];
const UV_MODE_PROBS: [u8; 3] = [142, 114, 183];
const BMODE_TREE: [i8; 18] = [0, 2, -1, 4, -2, 6, 8, 12, -3, 10, -5, -6, -4, 14, -7, 16, -8, -9];
const TOKEN_TREE: [i8; 22] = [-11, 2, 0, 4, -1, 6, 8, 12, -2, 10, -3, -4, 14, 16, -5, -6, 18, 20, -7, -8, -9, -10];
const COEFF_ROWS: [[u8; 11]; 4] = [
    [253, 136, 254, 255, 228, 219, 128, 128, 128, 128, 128],
    [1, 98, 248, 255, 236, 226, 255, 255, 128, 128, 128],
    [198, 35, 237, 223, 193, 187, 162, 160, 145, 155, 62],
    [23, 91, 163, 242, 170, 187, 247, 210, 255, 255, 128],
];
// six of the 100 B-mode contexts (RFC 6386 section 11.5 kf_bmode_probs) are available to the native reference; the
// generator draws tree numbers from TREES_USED only
fn bmode_row(k: usize) -> Option<[u8; 9]> {
    // contexts used by the generator: (0,0) (0,1) (3,4) (9,9) (5,2) (7,8)
    match k {
        3 => Some([231, 120, 48, 89, 115, 113, 120, 152, 112]),
        4 => Some([152, 179, 64, 126, 170, 118, 46, 70, 95]),
        37 => Some([100, 80, 8, 43, 154, 1, 51, 26, 71]),
        102 => Some([112, 19, 12, 61, 195, 128, 48, 4, 24]),
        55 => Some([63, 59, 90, 180, 59, 166, 93, 73, 154]),
        81 => Some([56, 8, 17, 132, 137, 255, 55, 116, 128]),
        _ => None,
    }
}
pub const TREES_USED: [usize; 21] = [0, 1, 2, 3, 4, 37, 55, 81, 102, 103, 104, 105, 106, 107, 108, 109, 110, 111, 112, 113, 114];

fn ref_tree(r: &mut Ref, k: usize) -> i32 {
    match k {
        0 => r.treed_read(&SEGMENT_ID_TREE, &[255, 255, 255], 0),
        1 => r.treed_read(&YMODE_TREE, &YMODE_PROBS, 0),
        2 => r.treed_read(&UV_MODE_TREE, &UV_MODE_PROBS, 0),
        3..=102 => r.treed_read(&BMODE_TREE, &bmode_row(k).expect("bmode context not in the native table"), 0),
        103..=106 => r.treed_read(&TOKEN_TREE, &COEFF_ROWS[k - 103], 0),
        107..=110 => r.treed_read(&TOKEN_TREE, &COEFF_ROWS[k - 107], 2),
        111 => r.treed_read(&TOKEN_TREE, &[255; 11], 0),
        112 => r.treed_read(&TOKEN_TREE, &[255; 11], 2),
        113 => r.treed_read(&TOKEN_TREE, &[1; 11], 0),
        114 => r.treed_read(&TOKEN_TREE, &[1; 11], 2),
        _ => panic!("tree number"),
    }
}

/// reference run: values, bytes needed up to and including each op
fn ref_run(data: &[u8], ops: &[ArithOp]) -> (Vec<i32>, Vec<u64>) {
    let mut r = Ref::new(data);
    let mut vals = vec![];
    let mut needs = vec![];
    for op in ops {
        let v = match *op {
            ArithOp::Bool(p) => r.read_bool(p as u32) as i32,
            ArithOp::Flag => r.read_bool(128) as i32,
            ArithOp::Literal(n) => r.read_literal(n as u32) as i32,
            ArithOp::Signed(n) => r.read_signed(n as u32),
            ArithOp::Tree(k) => ref_tree(&mut r, k),
        };
        vals.push(v);
        needs.push(r.need);
    }
    (vals, needs)
}

fn ops_text(ops: &[ArithOp]) -> String {
    if ops.is_empty() {
        return "-".into();
    }
    ops.iter()
        .map(|o| match *o {
            ArithOp::Bool(p) => format!("b{p}"),
            ArithOp::Flag => "f".into(),
            ArithOp::Literal(n) => format!("l{n}"),
            ArithOp::Signed(n) => format!("s{n}"),
            ArithOp::Tree(k) => format!("t{k}"),
        })
        .collect::<Vec<_>>()
        .join(",")
}
fn parse_ops(s: &str) -> Vec<ArithOp> {
    if s == "-" {
        return vec![];
    }
    s.split(',')
        .map(|w| {
            let a = || w[1..].parse::<usize>().unwrap();
            match w.as_bytes()[0] {
                b'b' => ArithOp::Bool(a() as u8),
                b'f' => ArithOp::Flag,
                b'l' => ArithOp::Literal(a() as u8),
                b's' => ArithOp::Signed(a() as u8),
                _ => ArithOp::Tree(a()),
            }
        })
        .collect()
}
fn vals_text(v: &[i32]) -> String {
    if v.is_empty() { "-".into() } else { v.iter().map(|x| x.to_string()).collect::<Vec<_>>().join(" ") }
}

fn gen_op(rng: &mut Rng) -> ArithOp {
    match rng.below(10) {
        0..=2 => ArithOp::Bool(match rng.below(8) {
            0 => 1,
            1 => 255,
            2 => 128,
            3 => 0,
            4 => *rng.pick(&[2u8, 3, 10, 127, 129, 200, 250, 254]),
            _ => rng.byte(),
        }),
        3 => ArithOp::Flag,
        4..=5 => ArithOp::Literal(rng.below(9) as u8),
        6..=7 => ArithOp::Signed(rng.below(9) as u8),
        _ => ArithOp::Tree(*rng.pick(&TREES_USED)),
    }
}
fn gen_script(rng: &mut Rng, max_ops: u64) -> Vec<ArithOp> {
    let n = rng.below(max_ops + 1);
    (0..n).map(|_| gen_op(rng)).collect()
}

#[derive(Default)]
struct Stats {
    evals: u64,
    len_mod4: [u64; 4],
    by_len_small: [u64; 4],
    op_kinds: [u64; 5],
    exhausted: u64,
    cold: u64,
    ended_in_last_chunk: u64,
    ended_in_final_bytes: u64,
    ended_on_extra_byte: u64,
    values_compared: u64,
    panics: u64,
    max_len: usize,
    /// inputs whose first byte is 0xFF: run (no-panic, model = implementation) but excluded from the RFC-equality decision
    excluded_first_byte_ff: u64,
    /// of those, how many differ from the unbounded-integer reference (values before exhaustion or the exhaustion flag)
    ff_differs: u64,
    ff_example: String,
}

pub fn run(tier: &str, seed: u64, outdir: &str, extra: &[String]) {
    let mut out = Out::new(outdir);
    let mut rng = Rng::new(seed);
    let mut violations: Vec<String> = vec![];
    let mut st = Stats::default();

    let one = |data: &[u8], ops: &[ArithOp], sample: bool, out: &mut Out, st: &mut Stats, violations: &mut Vec<String>| {
        let case = || format!("arith {} {}", hex(data), ops_text(ops));
        let (d2, o2) = (data.to_vec(), ops.to_vec());
        let r = catch(move || arith_script(&d2, &o2));
        let (rv, needs) = ref_run(data, ops);
        let len = data.len() as u64;
        let total_need = needs.last().copied().unwrap_or(0);
        st.evals += 1;
        st.len_mod4[data.len() % 4] += 1;
        if data.len() < 4 { st.by_len_small[data.len()] += 1; }
        st.max_len = st.max_len.max(data.len());
        for o in ops {
            st.op_kinds[match o { ArithOp::Bool(_) => 0, ArithOp::Flag => 1, ArithOp::Literal(_) => 2, ArithOp::Signed(_) => 3, ArithOp::Tree(_) => 4 }] += 1;
        }
        let full = 4 * (len / 4);
        if total_need > full { st.cold += 1; }
        if total_need > len + 1 { st.exhausted += 1; }
        else if total_need == len + 1 { st.ended_on_extra_byte += 1; }
        else if total_need > full { st.ended_in_final_bytes += 1; }
        else if total_need + 4 > full && full > 0 { st.ended_in_last_chunk += 1; }
        let ff = data.first() == Some(&0xff);
        if ff { st.excluded_first_byte_ff += 1; }
        let res = match &r {
            Ok((vals, eof)) => {
                let mut why = None;
                if *eof != (total_need > len + 1) {
                    why = Some(format!("exhaustion flag {} but requests need {} bytes of {} (+1 tolerated)", eof, total_need, len));
                } else if vals.len() != ops.len() {
                    why = Some("number of values".to_string());
                } else {
                    for k in 0..ops.len() {
                        if needs[k] <= len + 1 {
                            st.values_compared += 1;
                            if vals[k] != rv[k] {
                                why = Some(format!("request {k}: got {} reference {}", vals[k], rv[k]));
                                break;
                            }
                        }
                    }
                }
                if let Some(w) = why {
                    if ff {
                        st.ff_differs += 1;
                        if st.ff_example.is_empty() { st.ff_example = format!("{} : {}", case(), w); }
                    } else if violations.len() < 20 {
                        violations.push(format!("{} : {}", case(), w));
                    }
                }
                format!("M {} eof={}", vals_text(vals), *eof as u8)
            }
            Err(e) => {
                st.panics += 1;
                if violations.len() < 20 { violations.push(format!("{} : PANIC {}", case(), e)); }
                "M PANIC".to_string()
            }
        };
        if sample { out.case(&case(), &res); }
    };

    if tier == "replay" {
        for l in std::fs::read_to_string(&extra[0]).unwrap().lines() {
            let ws: Vec<&str> = l.split_whitespace().collect();
            if ws.len() == 3 && ws[0] == "arith" {
                one(&unhex(ws[1]), &parse_ops(ws[2]), true, &mut out, &mut st, &mut violations);
            }
        }
    } else {
        let thorough = tier == "thorough";
        // (a) 40 fixed (seeded) scripts: one per op kind alone, then mixtures of growing length
        let mut scripts: Vec<Vec<ArithOp>> = vec![
            vec![],
            vec![ArithOp::Flag],
            vec![ArithOp::Bool(1)],
            vec![ArithOp::Bool(255)],
            vec![ArithOp::Literal(8), ArithOp::Literal(8)],
            vec![ArithOp::Signed(8), ArithOp::Signed(8), ArithOp::Signed(8)],
            vec![ArithOp::Tree(0), ArithOp::Tree(1), ArithOp::Tree(2), ArithOp::Tree(3), ArithOp::Tree(103), ArithOp::Tree(107)],
            vec![ArithOp::Literal(0), ArithOp::Signed(0), ArithOp::Literal(1)],
        ];
        while scripts.len() < 40 {
            let m = 2 + (scripts.len() as u64 - 8);
            scripts.push(gen_script(&mut rng, m));
        }
        // all strings of length 0, 1, 2
        let mut idx = 0u64;
        let sample_every: u64 = if thorough { 64 } else { 401 };
        for len in 0..=2usize {
            let count = 1u32 << (8 * len);
            for x in 0..count {
                let data: Vec<u8> = (0..len).map(|i| (x >> (8 * (len - 1 - i))) as u8).collect();
                for s in &scripts {
                    idx += 1;
                    let sample = len < 2 || idx % sample_every == 0;
                    one(&data, s, sample, &mut out, &mut st, &mut violations);
                }
            }
        }
        // length 3: all strings (thorough) or a dense stride (quick), 4 scripts
        let stride: u32 = if thorough { 1 } else { 13 };
        let four: Vec<Vec<ArithOp>> = vec![scripts[12].clone(), scripts[20].clone(), scripts[31].clone(), scripts[39].clone()];
        let mut x = (seed as u32) % stride;
        while x < (1 << 24) {
            let data = [(x >> 16) as u8, (x >> 8) as u8, x as u8];
            for s in &four {
                idx += 1;
                one(&data, s, idx % (sample_every * 8) == 0, &mut out, &mut st, &mut violations);
            }
            x += stride;
        }
        // (b) random lengths 4..64, script length aimed at the end of the data (8 shifts ~ 1 byte; an op makes ~1..9 shifts)
        let n = if thorough { 400_000 } else { 60_000 };
        for i in 0..n {
            let len = 4 + (i % 61) as usize;
            let data: Vec<u8> = match rng.below(6) {
                0 => vec![0; len],
                1 => vec![255; len],
                _ => rng.bytes(len),
            };
            let target = match rng.below(4) { 0 => len as u64 / 2, 1 => len as u64, 2 => len as u64 + 2, _ => 2 * len as u64 };
            let mut ops = vec![];
            // grow the script until the reference run needs about `target` bytes
            loop {
                ops.push(gen_op(&mut rng));
                if ops.len() % 4 == 0 || ops.len() > 600 {
                    let (_, needs) = ref_run(&data, &ops);
                    if *needs.last().unwrap() >= target || ops.len() > 600 { break; }
                }
            }
            // trim a random few ops so the end falls at every position relative to the chunk boundary
            let cut = rng.below(4) as usize;
            let keep = ops.len().saturating_sub(cut);
            ops.truncate(keep);
            one(&data, &ops, i % (if thorough { 4 } else { 8 }) == 0, &mut out, &mut st, &mut violations);
        }
        // (c) expensive single requests near the end of short partitions: tree reads that consume more than 32 bits in one
        //     request (improbable branches at probability 1 / 255 nodes) crossing the last chunk boundary, so that one
        //     abandoned speculative request needed two refills
        let n = if thorough { 300_000 } else { 60_000 };
        for i in 0..n {
            let len = 4 + (i % 14) as usize;
            let hi = rng.chance(1, 2);
            let mut data: Vec<u8> = (0..len).map(|_| match rng.below(8) { 0 => rng.byte(), 1 => if hi { 0xfe } else { 1 }, _ => if hi { 0xff } else { 0 } }).collect();
            if data[0] == 0xff { data[0] = 0xf0 | (rng.byte() & 0x0e); }
            let mut ops = vec![];
            for _ in 0..rng.below(5) { ops.push(gen_op(&mut rng)); }
            let heavy = [111usize, 112, 113, 114, 111, 112, 113, 114, 104, 107, 0];
            for _ in 0..(1 + rng.below(12)) {
                ops.push(ArithOp::Tree(*rng.pick(&heavy)));
                if rng.chance(1, 5) { ops.push(ArithOp::Bool(if hi { 255 } else { 1 })); }
            }
            one(&data, &ops, i % (if thorough { 8 } else { 12 }) == 0, &mut out, &mut st, &mut violations);
        }
    }
    let stats = format!(
        "{{\"evaluations\": {}, \"len_mod4\": [{}, {}, {}, {}], \"len_0_1_2_3\": [{}, {}, {}, {}], \"max_len\": {}, \"op_kinds\": {{\"bool\": {}, \"flag\": {}, \"literal\": {}, \"signed\": {}, \"tree\": {}}}, \"exhausted_runs\": {}, \"cold_path_runs\": {}, \"fast_path_only_runs\": {}, \"ended_in_last_chunk\": {}, \"ended_in_final_bytes\": {}, \"ended_on_tolerated_extra_byte\": {}, \"values_compared\": {}, \"panics\": {}, \"excluded_first_byte_ff\": {}, \"first_byte_ff_differs_from_unbounded_reference\": {}, \"first_byte_ff_example\": {}, \"sampled_for_oracle\": {}, \"violations\": [{}]}}",
        st.evals, st.len_mod4[0], st.len_mod4[1], st.len_mod4[2], st.len_mod4[3],
        st.by_len_small[0], st.by_len_small[1], st.by_len_small[2], st.by_len_small[3], st.max_len,
        st.op_kinds[0], st.op_kinds[1], st.op_kinds[2], st.op_kinds[3], st.op_kinds[4],
        st.exhausted, st.cold, st.evals - st.cold, st.ended_in_last_chunk, st.ended_in_final_bytes, st.ended_on_extra_byte, st.values_compared, st.panics, st.excluded_first_byte_ff, st.ff_differs, jstr(&st.ff_example), out.n,
        violations.iter().map(|v| jstr(v)).collect::<Vec<_>>().join(", "));
    out.finish(&stats);
}
