//! Differential / search harness for the image-webp verification framework (see /verif/DESIGN.md).
//! usage: harness <check> <tier: quick|thorough> <seed> <outdir> [extra...]
mod util;
#[allow(dead_code)]
mod mux;
#[allow(dead_code)]
mod lw;
#[allow(dead_code)]
mod corpus;
mod c12;
mod c01model;
mod c10io;
mod vp8parse;
mod vp8predict;
mod vp8frame;
mod readimage;
mod vp8recon;
mod vp8decode;
mod c10bits;
mod c10lossless;
mod c10glue;
mod c13;
mod c10;
mod c11;
mod c03;
mod alpha;
mod c02spec;
mod c06;
#[allow(dead_code)]
mod ref_webp;
#[allow(dead_code)]
mod gen_vp8;
mod c02;
mod c05;
#[allow(dead_code)]
mod gen_vp8l;
mod c01;
mod c01spec;
mod c15;
mod c08;
#[allow(dead_code)]
mod encsup;
mod c14;
mod c09;
mod c04;

fn main() {
    let args: Vec<String> = std::env::args().collect();
    if args.len() < 5 {
        eprintln!("usage: harness <check> <tier> <seed> <outdir> [extra...]");
        std::process::exit(2);
    }
    // panics inside the implementation are caught per case; keep the default hook quiet
    util::install_hook();
    let tier = args[2].as_str();
    let seed: u64 = args[3].parse().unwrap_or(1);
    let out = args[4].as_str();
    let extra = &args[5..];
    match args[1].as_str() {
        "c12" => c12::run(tier, seed, out, extra),
        "c01model" => c01model::run(tier, seed, out, extra),
        "c10io" => c10io::run(tier, seed, out, extra),
        "vp8parse" => vp8parse::run(tier, seed, out, extra),
        "vp8predict" => vp8predict::run(tier, seed, out, extra),
        "vp8frame" => vp8frame::run(tier, seed, out, extra),
        "readimage" => readimage::run(tier, seed, out, extra),
        "vp8recon" => vp8recon::run(tier, seed, out, extra),
        "vp8decode" => vp8decode::run(tier, seed, out, extra),
        "c10bits" => c10bits::run(tier, seed, out, extra),
        "c10lossless" => c10lossless::run(tier, seed, out, extra),
        "c10glue" => c10glue::run(tier, seed, out, extra),
        "c13" => c13::run(tier, seed, out, extra),
        "c10" => c10::run(tier, seed, out, extra),
        "c11" => c11::run(tier, seed, out, extra),
        "c03" => c03::run(tier, seed, out, extra),
        "alpha" => alpha::run(tier, seed, out, extra),
        "c02spec" => c02spec::run(tier, seed, out, extra),
        "c06" => c06::run(tier, seed, out, extra),
        "c02" => c02::run(tier, seed, out, extra),
        "c05" => c05::run(tier, seed, out, extra),
        "c01" => c01::run(tier, seed, out, extra),
        "c01spec" => c01spec::run(tier, seed, out, extra),
        "c15" => c15::run(tier, seed, out, extra),
        "c08" => c08::run(tier, seed, out, extra),
        "c14" => c14::run(tier, seed, out, extra),
        "c09" => c09::run(tier, seed, out, extra),
        "c04" => c04::run(tier, seed, out, extra),
        other => {
            eprintln!("unknown check {other}");
            std::process::exit(2);
        }
    }
}
