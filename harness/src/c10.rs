//! C10: results independent of reader chunking; I/O faults surface as errors (decoder and encoder).
//! Direct decision of the property on the implementation through the public API with wrapped readers / writers.
use crate::corpus;
use crate::util::*;
use image_webp::{ColorType, EncoderParams, WebPDecoder, WebPEncoder};
use std::cell::Cell;
use std::io::{self, BufRead, Read, Seek, SeekFrom, Write};
use std::rc::Rc;

/// Reader over a byte vector that exposes at most `sched(call)` bytes per fill_buf / read call and can fail the
/// k-th I/O call (read, fill_buf, seek all count).
pub struct TestReader {
    data: Rc<Vec<u8>>,
    pos: u64,
    mode: u64,        // 0 = everything, k>0 = k bytes per call, u64::MAX = pseudo-random 1..16
    rnd: u64,
    calls: Rc<Cell<u64>>,
    fail_at: Option<u64>,
    fired: Rc<Cell<bool>>,
    exposed: usize,   // length of the window the last fill_buf returned and not yet consumed (BufRead contract: consume <= that)
}
impl TestReader {
    pub fn new(data: Rc<Vec<u8>>, mode: u64, fail_at: Option<u64>) -> (Self, Rc<Cell<u64>>, Rc<Cell<bool>>) {
        let calls = Rc::new(Cell::new(0));
        let fired = Rc::new(Cell::new(false));
        (TestReader { data, pos: 0, mode, rnd: 0x1234_5678_9abc_def1, calls: calls.clone(), fail_at, fired: fired.clone(), exposed: 0 }, calls, fired)
    }
    fn tick(&mut self) -> io::Result<()> {
        let c = self.calls.get();
        self.calls.set(c + 1);
        if self.fail_at == Some(c) {
            self.fired.set(true);
            return Err(io::Error::new(io::ErrorKind::Other, "injected fault"));
        }
        Ok(())
    }
    fn window(&mut self) -> usize {
        let rem = (self.data.len() as u64).saturating_sub(self.pos) as usize;
        let k = match self.mode {
            0 => rem,
            u64::MAX => {
                self.rnd = self.rnd.wrapping_mul(6364136223846793005).wrapping_add(1442695040888963407);
                1 + ((self.rnd >> 33) % 16) as usize
            }
            k => k as usize,
        };
        k.min(rem)
    }
}
impl Read for TestReader {
    fn read(&mut self, buf: &mut [u8]) -> io::Result<usize> {
        self.tick()?;
        let n = self.window().min(buf.len());
        let p = (self.pos.min(self.data.len() as u64)) as usize;
        buf[..n].copy_from_slice(&self.data[p..p + n]);
        self.pos += n as u64;
        self.exposed = 0;
        Ok(n)
    }
}
impl BufRead for TestReader {
    fn fill_buf(&mut self) -> io::Result<&[u8]> {
        self.tick()?;
        let n = self.window();
        let p = (self.pos as usize).min(self.data.len());
        self.exposed = n;
        Ok(&self.data[p..p + n])
    }
    fn consume(&mut self, amt: usize) {
        // as std::io::BufReader: at most what fill_buf exposed can be consumed (a Cursor would advance by any amount;
        // code that relies on that works on a Cursor only)
        // mode 0 is the baseline "what a Cursor does": it advances by any amount
        let a = if self.mode == 0 { amt } else { amt.min(self.exposed) };
        self.pos += a as u64;
        self.exposed = self.exposed.saturating_sub(a);
    }
}
impl Seek for TestReader {
    fn seek(&mut self, s: SeekFrom) -> io::Result<u64> {
        self.tick()?;
        let np: i128 = match s {
            SeekFrom::Start(p) => p as i128,
            SeekFrom::Current(o) => self.pos as i128 + o as i128,
            SeekFrom::End(o) => self.data.len() as i128 + o as i128,
        };
        if np < 0 || np > u64::MAX as i128 {
            return Err(io::Error::new(io::ErrorKind::InvalidInput, "invalid seek"));
        }
        self.pos = np as u64;
        self.exposed = 0;
        Ok(self.pos)
    }
}

fn h(b: &[u8]) -> String {
    // FNV-1a 64 of the buffer: enough to compare runs
    let mut x: u64 = 0xcbf29ce484222325;
    for &c in b { x ^= c as u64; x = x.wrapping_mul(0x100000001b3); }
    format!("{:016x}/{}", x, b.len())
}

/// the fixed API call sequence; returns per-call results and the index of the call during which the fault fired
pub fn api_sequence(r: TestReader, fired: &Rc<Cell<bool>>) -> (Vec<String>, Option<usize>) {
    let mut out = vec![];
    let mut fired_in: Option<usize> = None;
    let mut note = |out: &mut Vec<String>, s: String, fired_in: &mut Option<usize>| {
        if fired.get() && fired_in.is_none() { *fired_in = Some(out.len()); }
        out.push(s);
    };
    let mut d = match WebPDecoder::new(r) {
        Ok(d) => { note(&mut out, "new:OK".into(), &mut fired_in); d }
        Err(_) => { note(&mut out, "new:ERR".into(), &mut fired_in); return (out, fired_in); }
    };
    let (w, hh) = d.dimensions();
    note(&mut out, format!("meta:{}x{} a={} anim={} lossy={} n={} loop={:?} dur={}", w, hh, d.has_alpha(), d.is_animated(), d.is_lossy(), d.num_frames(), d.loop_count(), d.loop_duration()), &mut fired_in);
    for nm in ["icc", "exif", "xmp"] {
        let r = match nm { "icc" => d.icc_profile(), "exif" => d.exif_metadata(), _ => d.xmp_metadata() };
        let s = match r { Ok(Some(b)) => format!("{nm}:{}", h(&b)), Ok(None) => format!("{nm}:none"), Err(_) => format!("{nm}:ERR") };
        note(&mut out, s, &mut fired_in);
    }
    let Some(sz) = d.output_buffer_size() else { note(&mut out, "size:none".into(), &mut fired_in); return (out, fired_in); };
    if sz > 64 << 20 { note(&mut out, "size:huge".into(), &mut fired_in); return (out, fired_in); }
    let mut buf = vec![0x5au8; sz];
    let s = match d.read_image(&mut buf) { Ok(()) => format!("image:{}", h(&buf)), Err(_) => "image:ERR".into() };
    note(&mut out, s, &mut fired_in);
    if d.is_animated() {
        // frames; after the second one a read_image in the middle of playback (must return the first frame and not move the
        // position); one read past the end; then a reset and the first frame again
        let n = d.num_frames().min(12);
        for i in 0..n + 1 {
            if i == 2 {
                let mut buf = vec![0x5au8; sz];
                let s = match d.read_image(&mut buf) { Ok(()) => format!("image2:{}", h(&buf)), Err(_) => "image2:ERR".into() };
                note(&mut out, s, &mut fired_in);
            }
            let mut buf = vec![0xa5u8; sz];
            let s = match d.read_frame(&mut buf) { Ok(dur) => format!("frame:{}:{}", dur, h(&buf)), Err(_) => "frame:ERR".into() };
            note(&mut out, s, &mut fired_in);
        }
        d.reset_animation();
        let mut buf = vec![0xa5u8; sz];
        let s = match d.read_frame(&mut buf) { Ok(dur) => format!("reset_frame:{}:{}", dur, h(&buf)), Err(_) => "reset_frame:ERR".into() };
        note(&mut out, s, &mut fired_in);
    }
    (out, fired_in)
}

/// The successful calls of a run (possibly with one failed call in it) must agree with the baseline: the k-th successful
/// read_frame delivers the k-th frame, read_image always delivers the first frame, the first frame after a reset is frame 1.
pub fn consistent_with_baseline(res: &[String], base: &[String]) -> Option<String> {
    let frames = |v: &[String]| -> Vec<String> { v.iter().filter(|s| s.starts_with("frame:") && !s.ends_with(":ERR")).map(|s| s["frame:".len()..].to_string()).collect() };
    let (fr, fb) = (frames(res), frames(base));
    for (k, f) in fr.iter().enumerate() {
        if fb.get(k) != Some(f) { return Some(format!("successful read_frame number {} delivered {:?}, a fresh uninterrupted decoder delivers {:?}", k + 1, f, fb.get(k))); }
    }
    let first_image = base.iter().find(|s| s.starts_with("image:") && !s.ends_with(":ERR")).map(|s| s["image:".len()..].to_string());
    if let Some(fi) = &first_image {
        for s in res.iter() {
            for pre in ["image:", "image2:"] {
                if s.starts_with(pre) && !s.ends_with(":ERR") && &s[pre.len()..] != fi { return Some(format!("{} differs from the first read_image result {}", s, fi)); }
            }
        }
    }
    if let (Some(rf), Some(f0)) = (res.iter().find(|s| s.starts_with("reset_frame:") && !s.ends_with(":ERR")), fb.first()) {
        if &rf["reset_frame:".len()..] != f0 { return Some(format!("first frame after reset_animation {:?} differs from the first frame {:?}", rf, f0)); }
    }
    None
}

struct TestWriter { out: Vec<u8>, max_per_write: usize, calls: u64, fail_at: Option<u64>, vectored: bool }
impl Write for TestWriter {
    fn write(&mut self, b: &[u8]) -> io::Result<usize> {
        let c = self.calls; self.calls += 1;
        if self.fail_at == Some(c) { return Err(io::Error::new(io::ErrorKind::Other, "injected write fault")); }
        let n = b.len().min(self.max_per_write.max(1));
        self.out.extend_from_slice(&b[..n]);
        Ok(n)
    }
    /// a sink with a native vectored write (pipe / socket / BufWriter style): accepts up to max_per_write bytes across the slices
    fn write_vectored(&mut self, bufs: &[io::IoSlice<'_>]) -> io::Result<usize> {
        if !self.vectored {
            let b = bufs.iter().find(|b| !b.is_empty()).map_or(&[][..], |b| &**b);
            return self.write(b);
        }
        let c = self.calls; self.calls += 1;
        if self.fail_at == Some(c) { return Err(io::Error::new(io::ErrorKind::Other, "injected write fault")); }
        let mut left = self.max_per_write.max(1);
        let mut n = 0;
        for b in bufs {
            let k = b.len().min(left);
            self.out.extend_from_slice(&b[..k]);
            n += k; left -= k;
            if left == 0 { break; }
        }
        Ok(n)
    }
    fn flush(&mut self) -> io::Result<()> { Ok(()) }
}

fn encode_with(w: TestWriter, img: &[u8], width: u32, height: u32, ct: ColorType, pred: bool, meta: u8) -> (Result<(), String>, TestWriter) {
    // returns the writer back through a raw pointer-free trick: encode borrows &mut
    let mut w = w;
    let r = {
        let mut e = WebPEncoder::new(&mut w);
        let mut p = EncoderParams::default();
        p.use_predictor_transform = pred;
        e.set_params(p);
        if meta & 1 != 0 { e.set_icc_profile(vec![1, 2, 3]); }
        if meta & 2 != 0 { e.set_exif_metadata(vec![4, 5, 6, 7]); }
        if meta & 4 != 0 { e.set_xmp_metadata(vec![8]); }
        e.encode(img, width, height, ct).map_err(|e| format!("{e:?}"))
    };
    (r, w)
}

pub fn run(tier: &str, seed: u64, outdir: &str, _extra: &[String]) {
    let out = Out::new(outdir);
    let mut rng = Rng::new(seed);
    let thorough = tier == "thorough";
    let files = corpus::standard(&mut rng, tier);
    let mut violations: Vec<String> = vec![];
    let (mut sched_runs, mut fault_runs, mut fault_points_total, mut enc_fault_runs, mut enc_split_runs) = (0u64, 0u64, 0u64, 0u64, 0u64);
    let mut kinds = std::collections::BTreeMap::new();
    let mut samples: Vec<String> = vec![];
    let modes: Vec<u64> = vec![1, 2, 3, 7, 8, 9, 64, u64::MAX];

    for it in &files {
        *kinds.entry(it.kind).or_insert(0u64) += 1;
        let data = Rc::new(it.bytes.clone());
        // baseline: everything exposed at once (what a Cursor does)
        let (r0, calls0, fired0) = TestReader::new(data.clone(), 0, None);
        let base = match catch(std::panic::AssertUnwindSafe(|| api_sequence(r0, &fired0))) {
            Ok((b, _)) => b,
            Err(e) => { violations.push(format!("{}: PANIC on baseline read: {}", it.name, e)); continue; }
        };
        let ncalls = calls0.get();
        if let Some(why) = consistent_with_baseline(&base, &base) {
            if violations.len() < 20 { violations.push(format!("{}: uninterrupted run: {}", it.name, why)); }
        }
        if samples.len() < 6 { samples.push(format!("{} ({} bytes, {} io calls): {:?}", it.name, it.bytes.len(), ncalls, &base[..base.len().min(4)])); }
        // schedules
        for &m in &modes {
            if it.bytes.len() > 40_000 && (m == 1 || m == 2) && !thorough { continue; }
            let (r, _, fired) = TestReader::new(data.clone(), m, None);
            sched_runs += 1;
            match catch(std::panic::AssertUnwindSafe(|| api_sequence(r, &fired))) {
                Ok((res, _)) => if res != base {
                    let i = res.iter().zip(base.iter()).position(|(a, b)| a != b).unwrap_or(0);
                    if violations.len() < 20 { violations.push(format!("{}: schedule {} differs at call {}: {:?} vs baseline {:?}", it.name, if m == u64::MAX { "random".to_string() } else { m.to_string() }, i, res.get(i), base.get(i))); }
                },
                Err(e) => if violations.len() < 20 { violations.push(format!("{}: PANIC under schedule {}: {}", it.name, m, e)); },
            }
        }
        // faults: one injected failure at I/O call k
        let maxk = if thorough { 600 } else { 120 };
        let ks: Vec<u64> = if ncalls <= maxk { (0..ncalls).collect() } else { (0..maxk).map(|i| i * ncalls / maxk).collect() };
        fault_points_total += ncalls;
        for k in ks {
            let mode = *rng.pick(&[0u64, 0, 3, 8]);
            let (r, _, fired) = TestReader::new(data.clone(), mode, Some(k));
            fault_runs += 1;
            match catch(std::panic::AssertUnwindSafe(|| api_sequence(r, &fired))) {
                Ok((res, fired_in)) => {
                    if let Some(i) = fired_in {
                        if !res[i].ends_with(":ERR") {
                            if violations.len() < 20 { violations.push(format!("{}: fault at io call {} (mode {}) during API call {} but it reported {:?}", it.name, k, mode, i, res[i])); }
                        }
                    }
                    if let Some(why) = consistent_with_baseline(&res, &base) {
                        if violations.len() < 20 { violations.push(format!("{}: after a transient fault at io call {} (mode {}): {}", it.name, k, mode, why)); }
                    }
                }
                Err(e) => if violations.len() < 20 { violations.push(format!("{}: PANIC with fault at io call {} (mode {}): {}", it.name, k, mode, e)); },
            }
        }
    }

    // encoder: failing sink at every call; sinks that split writes
    let nimg = if thorough { 40 } else { 10 };
    for i in 0..nimg {
        let w = rng.range(1, 20) as u32;
        let hh = rng.range(1, 20) as u32;
        let (st, am) = (rng.below(5), rng.below(4));
        let rgba = corpus::synth_rgba(&mut rng, w, hh, st, am);
        let (ct, img): (ColorType, Vec<u8>) = match i % 4 {
            0 => (ColorType::Rgba8, rgba.clone()),
            1 => (ColorType::Rgb8, corpus::rgb_of(&rgba)),
            2 => (ColorType::L8, rgba.chunks_exact(4).map(|p| p[0]).collect()),
            _ => (ColorType::La8, rgba.chunks_exact(4).flat_map(|p| [p[0], p[3]]).collect()),
        };
        let pred = i % 2 == 0;
        let meta = (i % 8) as u8;
        let (r, base) = encode_with(TestWriter { out: vec![], max_per_write: usize::MAX, calls: 0, fail_at: None, vectored: false }, &img, w, hh, ct, pred, meta);
        if r.is_err() { violations.push(format!("encode {w}x{hh} failed on a healthy sink: {:?}", r)); continue; }
        for m in [1usize, 2, 3, 7, 64] {
            enc_split_runs += 1;
            let img2 = img.clone();
            match catch(std::panic::AssertUnwindSafe(|| encode_with(TestWriter { out: vec![], max_per_write: m, calls: 0, fail_at: None, vectored: false }, &img2, w, hh, ct, pred, meta))) {
                Ok((r, wr)) => if r.is_err() || wr.out != base.out { if violations.len() < 20 { violations.push(format!("encode {w}x{hh} meta {meta}: sink accepting {m} bytes per write gives different output")); } },
                Err(e) => if violations.len() < 20 { violations.push(format!("encode {w}x{hh}: PANIC with splitting sink: {e}")); },
            }
        }
        // sinks with a native write_vectored accepting exactly m bytes per call: every m up to the output length (so that every
        // boundary between header / payload / padding of every chunk is hit exactly) on small outputs, a sample otherwise
        let ms: Vec<usize> = if base.out.len() <= 400 || thorough { (1..=base.out.len().min(1500)).collect() } else { (1..=64).chain((0..40).map(|_| 1 + rng.below(base.out.len() as u64) as usize)).collect() };
        for m in ms {
            enc_split_runs += 1;
            let img2 = img.clone();
            match catch(std::panic::AssertUnwindSafe(|| encode_with(TestWriter { out: vec![], max_per_write: m, calls: 0, fail_at: None, vectored: true }, &img2, w, hh, ct, pred, meta))) {
                Ok((r, wr)) => if r.is_err() || wr.out != base.out { if violations.len() < 20 { violations.push(format!("encode {w}x{hh} meta {meta}: vectored sink accepting {m} bytes per call gives different output ({} vs {} bytes)", wr.out.len(), base.out.len())); } },
                Err(e) => if violations.len() < 20 { violations.push(format!("encode {w}x{hh}: PANIC with vectored splitting sink: {e}")); },
            }
        }
        for k in 0..base.calls {
            enc_fault_runs += 1;
            let img2 = img.clone();
            match catch(std::panic::AssertUnwindSafe(|| encode_with(TestWriter { out: vec![], max_per_write: usize::MAX, calls: 0, fail_at: Some(k), vectored: false }, &img2, w, hh, ct, pred, meta))) {
                Ok((r, wr)) => {
                    if r.is_ok() { if violations.len() < 20 { violations.push(format!("encode {w}x{hh} meta {meta}: sink failed at write {k} but encode returned Ok")); } }
                    else if !base.out.starts_with(&wr.out) { if violations.len() < 20 { violations.push(format!("encode {w}x{hh}: bytes before the failing write {k} are not a prefix of the full output")); } }
                }
                Err(e) => if violations.len() < 20 { violations.push(format!("encode {w}x{hh} ct {i} meta {meta}: PANIC when the sink fails at write call {k} of {}: {e}", base.calls)); },
            }
        }
    }

    let stats = format!(
        "{{\"evaluations\": {}, \"files\": {}, \"kinds\": {{{}}}, \"schedule_runs\": {}, \"fault_runs\": {}, \"io_calls_total\": {}, \"encoder_fault_runs\": {}, \"encoder_split_runs\": {}, \"samples\": [{}], \"violations\": [{}]}}",
        sched_runs + fault_runs + enc_fault_runs + enc_split_runs, files.len(),
        kinds.iter().map(|(k, v)| format!("\"{k}\": {v}")).collect::<Vec<_>>().join(", "),
        sched_runs, fault_runs, fault_points_total, enc_fault_runs, enc_split_runs,
        samples.iter().map(|s| jstr(s)).collect::<Vec<_>>().join(", "),
        violations.iter().map(|v| jstr(v)).collect::<Vec<_>>().join(", "));
    out.finish(&stats);
}
