//! Support code shared by the encoder checks (c14, c09, c04, c10enc): image generators, calls into the encoder with
//! panic capture, an independent strict RIFF/WebP parser, libwebp (decode, features, demux) and own-decoder wrappers,
//! failing / splitting writers.
#![allow(dead_code)]
use crate::util::*;
use image_webp::{ColorType, EncoderParams, EncodingError, WebPDecoder, WebPEncoder};
use std::io::{Cursor, Write};

pub const CTS: [ColorType; 4] = [ColorType::L8, ColorType::La8, ColorType::Rgb8, ColorType::Rgba8];
pub fn ct_name(ct: ColorType) -> &'static str {
    match ct {
        ColorType::L8 => "L8",
        ColorType::La8 => "La8",
        ColorType::Rgb8 => "Rgb8",
        ColorType::Rgba8 => "Rgba8",
    }
}
pub fn ct_parse(s: &str) -> ColorType {
    match s {
        "L8" => ColorType::L8,
        "La8" => ColorType::La8,
        "Rgb8" => ColorType::Rgb8,
        _ => ColorType::Rgba8,
    }
}
pub fn bpp(ct: ColorType) -> usize {
    match ct {
        ColorType::L8 => 1,
        ColorType::La8 => 2,
        ColorType::Rgb8 => 3,
        ColorType::Rgba8 => 4,
    }
}
pub fn has_alpha(ct: ColorType) -> bool {
    matches!(ct, ColorType::La8 | ColorType::Rgba8)
}
/// the RGBA image the input denotes: grey expanded to RGB, missing alpha = 255
pub fn expand(ct: ColorType, d: &[u8]) -> Vec<u8> {
    match ct {
        ColorType::L8 => d.iter().flat_map(|&p| [p, p, p, 255]).collect(),
        ColorType::La8 => d.chunks(2).flat_map(|p| [p[0], p[0], p[0], p[1]]).collect(),
        ColorType::Rgb8 => d.chunks(3).flat_map(|p| [p[0], p[1], p[2], 255]).collect(),
        ColorType::Rgba8 => d.to_vec(),
    }
}

/// classify a panic message by the Rust construct that raised it (the Model's `panic` constructors)
pub fn panic_kind(msg: &str) -> &'static str {
    if msg.contains("assertion") {
        "assert"
    } else if msg.contains("with overflow") {
        if msg.contains("shift") { "shift" } else { "overflow" }
    } else if msg.contains("index out of bounds") {
        "index"
    } else if msg.contains("out of range for slice") || msg.contains("slice index") {
        "slice"
    } else if msg.contains("unwrap()") {
        "unwrap"
    } else if msg.contains("unreachable") {
        "unreachable"
    } else {
        "other"
    }
}

#[derive(Clone)]
pub struct EncCase {
    pub ct: ColorType,
    pub w: u32,
    pub h: u32,
    pub pred: bool,
    pub icc: Vec<u8>,
    pub exif: Vec<u8>,
    pub xmp: Vec<u8>,
    pub data: Vec<u8>,
    pub tag: String,
}
impl EncCase {
    pub fn line(&self) -> String {
        format!(
            "encode {} {} {} {} {} {} {} {}",
            ct_name(self.ct), self.w, self.h, self.pred as u8, hex(&self.icc), hex(&self.exif), hex(&self.xmp), hex(&self.data)
        )
    }
    pub fn fail_line(&self, k: usize) -> String {
        format!(
            "encfail {} {} {} {} {} {} {} {} {}",
            k, ct_name(self.ct), self.w, self.h, self.pred as u8, hex(&self.icc), hex(&self.exif), hex(&self.xmp), hex(&self.data)
        )
    }
    pub fn short(&self) -> String {
        format!(
            "{} {}x{} pred={} icc={} exif={} xmp={} [{}]",
            ct_name(self.ct), self.w, self.h, self.pred as u8, self.icc.len(), self.exif.len(), self.xmp.len(), self.tag
        )
    }
    pub fn parse(ws: &[&str]) -> Option<EncCase> {
        if ws.len() != 8 {
            return None;
        }
        Some(EncCase {
            ct: ct_parse(ws[0]),
            w: ws[1].parse().ok()?,
            h: ws[2].parse().ok()?,
            pred: ws[3] == "1",
            icc: unhex(ws[4]),
            exif: unhex(ws[5]),
            xmp: unhex(ws[6]),
            data: unhex(ws[7]),
            tag: "replay".into(),
        })
    }
}

pub enum EncOut {
    Ok,
    InvalidDimensions,
    Io,
    OtherErr(String),
    Panic(String),
}

/// WebPEncoder::encode into an arbitrary writer, panics caught
pub fn encode_into<W: Write>(c: &EncCase, w: W) -> EncOut {
    let r = catch(std::panic::AssertUnwindSafe(|| {
        let mut e = WebPEncoder::new(w);
        let mut params = EncoderParams::default();
        params.use_predictor_transform = c.pred;
        e.set_params(params);
        e.set_icc_profile(c.icc.clone());
        e.set_exif_metadata(c.exif.clone());
        e.set_xmp_metadata(c.xmp.clone());
        e.encode(&c.data, c.w, c.h, c.ct)
    }));
    match r {
        Ok(Ok(())) => EncOut::Ok,
        Ok(Err(EncodingError::InvalidDimensions)) => EncOut::InvalidDimensions,
        Ok(Err(EncodingError::IoError(_))) => EncOut::Io,
        Ok(Err(e)) => EncOut::OtherErr(format!("{e:?}")),
        Err(p) => EncOut::Panic(p),
    }
}

/// result line in the oracle's format
pub fn result_line(o: &EncOut, bytes: &[u8]) -> String {
    match o {
        EncOut::Ok => format!("OK {}", hex(bytes)),
        EncOut::InvalidDimensions => "ERR InvalidDimensions".into(),
        EncOut::Io => format!("ERR Io {}", hex(bytes)),
        EncOut::OtherErr(_) => "ERR other".into(),
        EncOut::Panic(p) => format!("PANIC {}", panic_kind(p)),
    }
}

pub fn encode_vec(c: &EncCase) -> (EncOut, Vec<u8>) {
    let mut out = Vec::new();
    let o = encode_into(c, &mut out);
    (o, out)
}

// ------------------------------------------------------------------------------------------------
// writers
// ------------------------------------------------------------------------------------------------
/// accepts everything until `write` call number `k` (0-based), which fails with a non-retryable error
pub struct FailWriter {
    pub k: usize,
    pub calls: usize,
    pub buf: Vec<u8>,
}
impl Write for FailWriter {
    fn write(&mut self, b: &[u8]) -> std::io::Result<usize> {
        let c = self.calls;
        self.calls += 1;
        if c == self.k {
            return Err(std::io::Error::new(std::io::ErrorKind::Other, "injected failure"));
        }
        self.buf.extend_from_slice(b);
        Ok(b.len())
    }
    fn flush(&mut self) -> std::io::Result<()> {
        Ok(())
    }
}
/// accepts between 1 and `max` bytes per `write` call, sizes drawn from the seeded generator;
/// every `intr`-th call is answered with ErrorKind::Interrupted first (write_all must retry)
pub struct SplitWriter {
    pub rng: Rng,
    pub max: usize,
    pub intr: usize,
    pub calls: usize,
    pub buf: Vec<u8>,
}
impl Write for SplitWriter {
    fn write(&mut self, b: &[u8]) -> std::io::Result<usize> {
        self.calls += 1;
        if self.intr > 0 && self.calls % self.intr == 0 {
            return Err(std::io::Error::new(std::io::ErrorKind::Interrupted, "interrupted"));
        }
        if b.is_empty() {
            return Ok(0);
        }
        let n = (1 + self.rng.below(self.max as u64) as usize).min(b.len());
        self.buf.extend_from_slice(&b[..n]);
        Ok(n)
    }
    fn flush(&mut self) -> std::io::Result<()> {
        Ok(())
    }
}

// ------------------------------------------------------------------------------------------------
// libwebp
// ------------------------------------------------------------------------------------------------
pub fn libwebp_rgba(f: &[u8]) -> Option<(Vec<u8>, u32, u32)> {
    let (mut w, mut h) = (0i32, 0i32);
    let p = unsafe { libwebp_sys::WebPDecodeRGBA(f.as_ptr(), f.len(), &mut w, &mut h) };
    if p.is_null() {
        return None;
    }
    let v = unsafe { std::slice::from_raw_parts(p, (w as usize) * (h as usize) * 4) }.to_vec();
    unsafe { libwebp_sys::WebPFree(p as *mut _) };
    Some((v, w as u32, h as u32))
}

pub struct Features {
    pub w: u32,
    pub h: u32,
    pub has_alpha: bool,
    pub has_animation: bool,
    pub format: i32, // 0 undefined/mixed, 1 lossy, 2 lossless
}
pub fn libwebp_features(f: &[u8]) -> Option<Features> {
    let mut ft = std::mem::MaybeUninit::<libwebp_sys::WebPBitstreamFeatures>::zeroed();
    let st = unsafe { libwebp_sys::WebPGetFeatures(f.as_ptr(), f.len(), ft.as_mut_ptr()) };
    if st != libwebp_sys::VP8StatusCode::VP8_STATUS_OK {
        return None;
    }
    let ft = unsafe { ft.assume_init() };
    Some(Features { w: ft.width as u32, h: ft.height as u32, has_alpha: ft.has_alpha != 0, has_animation: ft.has_animation != 0, format: ft.format })
}

pub struct Demuxed {
    pub flags: u32,
    pub canvas_w: u32,
    pub canvas_h: u32,
    pub frames: u32,
    pub icc: Option<Vec<u8>>,
    pub exif: Option<Vec<u8>>,
    pub xmp: Option<Vec<u8>>,
}
/// libwebp's demuxer (src/demux/demux.c, compiled into libwebp-sys): WebPDemux + WebPDemuxGetI + WebPDemuxGetChunk
pub fn libwebp_demux(f: &[u8]) -> Option<Demuxed> {
    use libwebp_sys::*;
    unsafe {
        let data = WebPData { bytes: f.as_ptr(), size: f.len() };
        let mut state = WebPDemuxState::WEBP_DEMUX_PARSE_ERROR;
        let d = WebPDemuxInternal(&data, 0, &mut state, WEBP_DEMUX_ABI_VERSION as i32);
        if d.is_null() {
            return None;
        }
        if state != WebPDemuxState::WEBP_DEMUX_DONE {
            WebPDemuxDelete(d);
            return None;
        }
        let get = |fourcc: &[u8; 4]| -> Option<Vec<u8>> {
            let mut it = std::mem::MaybeUninit::<WebPChunkIterator>::zeroed();
            let ok = WebPDemuxGetChunk(d, fourcc.as_ptr() as *const _, 1, it.as_mut_ptr());
            if ok == 0 {
                return None;
            }
            let mut it = it.assume_init();
            let v = std::slice::from_raw_parts(it.chunk.bytes, it.chunk.size).to_vec();
            WebPDemuxReleaseChunkIterator(&mut it);
            Some(v)
        };
        let r = Demuxed {
            flags: WebPDemuxGetI(d, WebPFormatFeature::WEBP_FF_FORMAT_FLAGS),
            canvas_w: WebPDemuxGetI(d, WebPFormatFeature::WEBP_FF_CANVAS_WIDTH),
            canvas_h: WebPDemuxGetI(d, WebPFormatFeature::WEBP_FF_CANVAS_HEIGHT),
            frames: WebPDemuxGetI(d, WebPFormatFeature::WEBP_FF_FRAME_COUNT),
            icc: get(b"ICCP"),
            exif: get(b"EXIF"),
            xmp: get(b"XMP "),
        };
        WebPDemuxDelete(d);
        Some(r)
    }
}

// ------------------------------------------------------------------------------------------------
// the crate's own decoder
// ------------------------------------------------------------------------------------------------
pub struct Own {
    pub w: u32,
    pub h: u32,
    pub has_alpha: bool,
    pub rgba: Vec<u8>,
    pub icc: Option<Vec<u8>>,
    pub exif: Option<Vec<u8>>,
    pub xmp: Option<Vec<u8>>,
}
pub fn own_decode(f: &[u8]) -> Result<Own, String> {
    let r = catch(std::panic::AssertUnwindSafe(|| -> Result<Own, String> {
        let mut d = WebPDecoder::new(Cursor::new(f)).map_err(|e| format!("new: {e:?}"))?;
        let (w, h) = d.dimensions();
        let a = d.has_alpha();
        let n = d.output_buffer_size().ok_or("output_buffer_size None")?;
        let mut buf = vec![0u8; n];
        d.read_image(&mut buf).map_err(|e| format!("read_image: {e:?}"))?;
        let rgba = if a { buf } else { buf.chunks(3).flat_map(|p| [p[0], p[1], p[2], 255]).collect() };
        let icc = d.icc_profile().map_err(|e| format!("icc: {e:?}"))?;
        let exif = d.exif_metadata().map_err(|e| format!("exif: {e:?}"))?;
        let xmp = d.xmp_metadata().map_err(|e| format!("xmp: {e:?}"))?;
        Ok(Own { w, h, has_alpha: a, rgba, icc, exif, xmp })
    }));
    match r {
        Ok(x) => x,
        Err(p) => Err(format!("panic: {p}")),
    }
}

// ------------------------------------------------------------------------------------------------
// independent strict RIFF / WebP parser (container specification, "RIFF Header", "Extended File Format")
// ------------------------------------------------------------------------------------------------
pub struct Parsed {
    pub riff_size: u32,
    pub chunks: Vec<([u8; 4], Vec<u8>)>,
}
pub fn strict_parse(f: &[u8]) -> Result<Parsed, String> {
    if f.len() < 12 {
        return Err("shorter than a RIFF header".into());
    }
    if &f[0..4] != b"RIFF" {
        return Err("no RIFF".into());
    }
    if &f[8..12] != b"WEBP" {
        return Err("no WEBP".into());
    }
    let riff_size = u32::from_le_bytes(f[4..8].try_into().unwrap());
    if riff_size as u64 != f.len() as u64 - 8 {
        return Err(format!("RIFF size {} but file length - 8 = {}", riff_size, f.len() - 8));
    }
    if riff_size % 2 != 0 {
        return Err("odd RIFF size".into());
    }
    let mut pos = 12usize;
    let mut chunks = vec![];
    while pos < f.len() {
        if f.len() - pos < 8 {
            return Err(format!("truncated chunk header at {pos}"));
        }
        let cc: [u8; 4] = f[pos..pos + 4].try_into().unwrap();
        let sz = u32::from_le_bytes(f[pos + 4..pos + 8].try_into().unwrap()) as usize;
        let padded = sz + (sz & 1);
        if f.len() - pos - 8 < padded {
            return Err(format!("chunk {:?} at {pos} of size {sz} runs past the end", String::from_utf8_lossy(&cc)));
        }
        if sz & 1 == 1 && f[pos + 8 + sz] != 0 {
            return Err(format!("non-zero padding byte after chunk at {pos}"));
        }
        chunks.push((cc, f[pos + 8..pos + 8 + sz].to_vec()));
        pos += 8 + padded;
    }
    Ok(Parsed { riff_size, chunks })
}

/// the container clauses of C09 decided on the parsed file, independently of the encoder's code
pub fn check_container(p: &Parsed, c: &EncCase) -> Result<(), String> {
    let names: Vec<&[u8; 4]> = p.chunks.iter().map(|(n, _)| n).collect();
    let meta = !c.icc.is_empty() || !c.exif.is_empty() || !c.xmp.is_empty();
    let mut want: Vec<&[u8; 4]> = vec![];
    if meta {
        want.push(b"VP8X");
    }
    if !c.icc.is_empty() {
        want.push(b"ICCP");
    }
    want.push(b"VP8L");
    if !c.exif.is_empty() {
        want.push(b"EXIF");
    }
    if !c.xmp.is_empty() {
        want.push(b"XMP ");
    }
    if names != want {
        return Err(format!(
            "chunk sequence {:?}, expected {:?}",
            names.iter().map(|n| String::from_utf8_lossy(&n[..]).to_string()).collect::<Vec<_>>(),
            want.iter().map(|n| String::from_utf8_lossy(&n[..]).to_string()).collect::<Vec<_>>()
        ));
    }
    for (n, d) in &p.chunks {
        match n {
            b"VP8X" => {
                if d.len() != 10 {
                    return Err(format!("VP8X payload of {} bytes", d.len()));
                }
                let mut flags = 0u8;
                if !c.xmp.is_empty() {
                    flags |= 0x04;
                }
                if !c.exif.is_empty() {
                    flags |= 0x08;
                }
                if has_alpha(c.ct) {
                    flags |= 0x10;
                }
                if !c.icc.is_empty() {
                    flags |= 0x20;
                }
                if d[0] != flags {
                    return Err(format!("VP8X flags {:#04x}, expected {:#04x}", d[0], flags));
                }
                if d[1..4] != [0, 0, 0] {
                    return Err("VP8X reserved bytes not zero".into());
                }
                let cw = 1 + (d[4] as u32 | (d[5] as u32) << 8 | (d[6] as u32) << 16);
                let ch = 1 + (d[7] as u32 | (d[8] as u32) << 8 | (d[9] as u32) << 16);
                if (cw, ch) != (c.w, c.h) {
                    return Err(format!("VP8X canvas {cw}x{ch}, image {}x{}", c.w, c.h));
                }
            }
            b"ICCP" => {
                if d != &c.icc {
                    return Err("ICCP payload differs".into());
                }
            }
            b"EXIF" => {
                if d != &c.exif {
                    return Err("EXIF payload differs".into());
                }
            }
            b"XMP " => {
                if d != &c.xmp {
                    return Err("XMP payload differs".into());
                }
            }
            b"VP8L" => {
                if d.len() < 5 || d[0] != 0x2f {
                    return Err("VP8L payload lacks the 0x2f signature".into());
                }
                let hd = u32::from_le_bytes(d[1..5].try_into().unwrap());
                let (fw, fh) = ((hd & 0x3fff) + 1, ((hd >> 14) & 0x3fff) + 1);
                if (fw, fh) != (c.w, c.h) {
                    return Err(format!("VP8L header {fw}x{fh}, image {}x{}", c.w, c.h));
                }
                if ((hd >> 28) & 1 != 0) != has_alpha(c.ct) {
                    return Err("VP8L alpha_is_used differs from the colour type".into());
                }
                if hd >> 29 != 0 {
                    return Err("VP8L version not 0".into());
                }
            }
            _ => return Err("unexpected chunk".into()),
        }
    }
    Ok(())
}

fn opt<'a>(v: &'a [u8]) -> Option<&'a [u8]> {
    if v.is_empty() { None } else { Some(v) }
}

/// every clause of C04/C09 that can be decided on one successful encode; returns the list of failures
pub fn judge_file(c: &EncCase, file: &[u8], check_own: bool) -> Vec<String> {
    let mut bad = vec![];
    let want = expand(c.ct, &c.data);
    match strict_parse(file) {
        Err(e) => bad.push(format!("strict parser: {e}")),
        Ok(p) => {
            if let Err(e) = check_container(&p, c) {
                bad.push(format!("container: {e}"));
            }
        }
    }
    match libwebp_rgba(file) {
        None => bad.push("libwebp WebPDecodeRGBA rejects the file".into()),
        Some((px, w, h)) => {
            if (w, h) != (c.w, c.h) {
                bad.push(format!("libwebp dimensions {w}x{h}"));
            } else if px != want {
                let i = px.iter().zip(&want).position(|(a, b)| a != b).unwrap_or(0);
                bad.push(format!("libwebp pixels differ first at byte {i}: {} vs {}", px[i], want[i]));
            }
        }
    }
    match libwebp_features(file) {
        None => bad.push("libwebp WebPGetFeatures fails".into()),
        Some(ft) => {
            if (ft.w, ft.h) != (c.w, c.h) || ft.has_animation || ft.format != 2 {
                bad.push(format!("libwebp features {}x{} anim={} format={}", ft.w, ft.h, ft.has_animation, ft.format));
            }
            if ft.has_alpha != has_alpha(c.ct) {
                bad.push(format!("libwebp features has_alpha={} for {}", ft.has_alpha, ct_name(c.ct)));
            }
        }
    }
    match libwebp_demux(file) {
        None => bad.push("libwebp WebPDemux rejects the file".into()),
        Some(d) => {
            if (d.canvas_w, d.canvas_h) != (c.w, c.h) || d.frames != 1 {
                bad.push(format!("demux canvas {}x{} frames {}", d.canvas_w, d.canvas_h, d.frames));
            }
            if d.icc.as_deref() != opt(&c.icc) {
                bad.push("demux ICCP payload differs".into());
            }
            if d.exif.as_deref() != opt(&c.exif) {
                bad.push("demux EXIF payload differs".into());
            }
            if d.xmp.as_deref() != opt(&c.xmp) {
                bad.push("demux XMP payload differs".into());
            }
        }
    }
    if check_own {
        match own_decode(file) {
            Err(e) => bad.push(format!("own decoder: {e}")),
            Ok(o) => {
                if (o.w, o.h) != (c.w, c.h) {
                    bad.push(format!("own decoder dimensions {}x{}", o.w, o.h));
                } else if o.rgba != want {
                    bad.push("own decoder pixels differ".into());
                }
                if o.has_alpha != has_alpha(c.ct) {
                    bad.push(format!("own decoder has_alpha={}", o.has_alpha));
                }
                if o.icc.as_deref() != opt(&c.icc) {
                    bad.push("own decoder ICC payload differs".into());
                }
                if o.exif.as_deref() != opt(&c.exif) {
                    bad.push("own decoder EXIF payload differs".into());
                }
                if o.xmp.as_deref() != opt(&c.xmp) {
                    bad.push("own decoder XMP payload differs".into());
                }
            }
        }
    }
    bad
}

// ------------------------------------------------------------------------------------------------
// image generators: `n` pixels of `b` bytes, statistics chosen to drive every branch of encode_frame
// ------------------------------------------------------------------------------------------------
pub const STYLES: [&str; 13] = [
    "uniform", "constant", "two-colour", "long-runs", "runs-1to5", "fib-dominant", "fib-exact-norun", "one-code-length",
    "single-symbol-channels", "few-values", "gradient", "dominant-plus-noise", "fib-plus-ties-norun",
];

fn fib(k: usize) -> Vec<u64> {
    let mut v = vec![1u64, 1];
    while v.len() < k {
        let n = v.len();
        v.push(v[n - 1] + v[n - 2]);
    }
    v.truncate(k);
    v
}

/// returns the image data for `n = w*h` pixels
pub fn gen_pixels(style: usize, rng: &mut Rng, ct: ColorType, w: u32, h: u32) -> Vec<u8> {
    let b = bpp(ct);
    let n = w as usize * h as usize;
    let mut data = vec![0u8; n * b];
    let mut px = vec![0u8; b];
    match STYLES[style % STYLES.len()] {
        "uniform" => {
            for x in data.iter_mut() {
                *x = rng.byte();
            }
        }
        "constant" => {
            for x in px.iter_mut() {
                *x = rng.byte();
            }
            for i in 0..n {
                data[i * b..][..b].copy_from_slice(&px);
            }
        }
        "two-colour" => {
            let a: Vec<u8> = (0..b).map(|_| rng.byte()).collect();
            let c: Vec<u8> = (0..b).map(|_| rng.byte()).collect();
            for i in 0..n {
                data[i * b..][..b].copy_from_slice(if rng.chance(1, 2) { &a } else { &c });
            }
        }
        "long-runs" => {
            let p = *rng.pick(&[20u64, 50, 400, 5000]);
            for i in 0..n {
                if i == 0 || rng.chance(1, p) {
                    for x in px.iter_mut() {
                        *x = rng.byte();
                    }
                }
                data[i * b..][..b].copy_from_slice(&px);
            }
        }
        "runs-1to5" => {
            // runs of 1, 2, 3, 4, 5, 6 equal pixels in rotation: run_length (repeats after the literal) 0..5
            let mut left = 0usize;
            let mut r = rng.below(6) as usize;
            for i in 0..n {
                if left == 0 {
                    let old = px.clone();
                    while px == old {
                        for x in px.iter_mut() {
                            *x = rng.byte();
                        }
                    }
                    r = r % 6 + 1;
                    left = r;
                }
                left -= 1;
                data[i * b..][..b].copy_from_slice(&px);
            }
        }
        "fib-dominant" => {
            // values drawn with Fibonacci weights (24 values): deep codes once enough pixels are present
            let f = fib(24);
            let tot: u64 = f.iter().sum();
            for i in 0..n {
                let mut r = rng.below(tot);
                let mut k = 0;
                while r >= f[23 - k] {
                    r -= f[23 - k];
                    k += 1;
                }
                for (j, x) in px.iter_mut().enumerate() {
                    *x = (k * 10 + j) as u8;
                }
                data[i * b..][..b].copy_from_slice(&px);
            }
        }
        "fib-exact-norun" => {
            // exact Fibonacci counts over as many values as fit, arranged so that no two neighbours are equal:
            // without the predictor the literal histogram is exactly Fibonacci (depth = values - 1)
            let mut k = 2;
            while fib(k + 1).iter().sum::<u64>() <= n as u64 && k < 40 {
                k += 1;
            }
            let mut counts: Vec<u64> = fib(k);
            let mut rest = n as u64 - counts.iter().sum::<u64>().min(n as u64);
            // leftover pixels go to fresh values, one each, then to the top value
            let mut extra = vec![];
            while rest > 0 && k + extra.len() < 200 {
                extra.push(1u64);
                rest -= 1;
            }
            counts.extend(extra);
            let top = counts.len() - 1;
            let _ = top;
            counts[k - 1] += rest;
            let off = rng.byte();
            let mut prev = usize::MAX;
            for i in 0..n {
                // most frequent remaining value different from the previous one
                let mut best = usize::MAX;
                for (v, &c) in counts.iter().enumerate() {
                    if c > 0 && v != prev && (best == usize::MAX || c > counts[best]) {
                        best = v;
                    }
                }
                if best == usize::MAX {
                    best = prev;
                }
                counts[best] -= 1;
                prev = best;
                for (j, x) in px.iter_mut().enumerate() {
                    *x = (best as u8).wrapping_mul(if j % 2 == 0 { 1 } else { 3 }).wrapping_add(off);
                }
                data[i * b..][..b].copy_from_slice(&px);
            }
        }
        "fib-plus-ties-norun" => {
            // Fibonacci head (deep code, limit path) plus many values of one small equal count: equal frequencies that
            // straddle a length boundary, so the unstable sort's tie order decides who gets the longer code.
            // Green is constant 0 for the colour types (red/blue/alpha carry the histogram); no two neighbours equal.
            let mut k = 2;
            while (fib(k + 1).iter().sum::<u64>() as f64) <= n as f64 * 0.8 && k < 30 {
                k += 1;
            }
            let mut counts: Vec<u64> = fib(k);
            let mut rest = n as u64 - counts.iter().sum::<u64>().min(n as u64);
            let base = rng.range(1, 3);
            while rest >= base && counts.len() < 250 {
                counts.push(base);
                rest -= base;
            }
            counts[k - 1] += rest;
            let mut perm: Vec<u8> = (0..=255u8).collect();
            for i in 0..256usize {
                let j = i + rng.below((256 - i) as u64) as usize;
                perm.swap(i, j);
            }
            let mut prev = usize::MAX;
            for i in 0..n {
                let mut best = usize::MAX;
                for (v, &c) in counts.iter().enumerate() {
                    if c > 0 && v != prev && (best == usize::MAX || c > counts[best]) {
                        best = v;
                    }
                }
                if best == usize::MAX {
                    best = prev;
                }
                counts[best] -= 1;
                prev = best;
                let v = perm[best];
                let p: [u8; 4] = match b { 1 => [v, 0, 0, 0], 2 => [v, v, 0, 0], 3 => [v, 0, v, 0], _ => [v, 0, v, v] };
                data[i * b..][..b].copy_from_slice(&p[..b]);
            }
        }
        "one-code-length" => {
            // every channel a permutation pattern of 0..255 so that all 256 symbols are used equally often
            // (whole multiples of 256 pixels give exactly one code length per 256-symbol alphabet)
            let mult: Vec<usize> = (0..b).map(|_| 1 + 2 * rng.below(128) as usize).collect();
            let g0 = rng.chance(1, 2);
            for i in 0..n {
                for j in 0..b {
                    data[i * b + j] = ((i * mult[j]) & 255) as u8;
                }
                // green constant: subtract-green leaves red/blue untouched and the green alphabet has one symbol
                if g0 && b >= 3 {
                    data[i * b + 1] = 0;
                }
            }
        }
        "single-symbol-channels" => {
            // some channels constant, the others random
            let fixed: Vec<bool> = (0..b).map(|_| rng.chance(2, 3)).collect();
            let base: Vec<u8> = (0..b).map(|_| rng.byte()).collect();
            for i in 0..n {
                for j in 0..b {
                    data[i * b + j] = if fixed[j] { base[j] } else { rng.byte() };
                }
            }
        }
        "few-values" => {
            for i in 0..n {
                if rng.chance(1, 3) {
                    for x in px.iter_mut() {
                        *x = (rng.below(4) * 60) as u8;
                    }
                }
                data[i * b..][..b].copy_from_slice(&px);
            }
        }
        "gradient" => {
            for i in 0..n {
                for j in 0..b {
                    data[i * b + j] = ((i % w as usize) * (j + 1) + (i / w as usize) * 3) as u8;
                }
            }
        }
        _ => {
            // one dominant value plus rare noise
            let base: Vec<u8> = (0..b).map(|_| rng.byte()).collect();
            for i in 0..n {
                if rng.chance(1, 40) {
                    for j in 0..b {
                        data[i * b + j] = rng.byte();
                    }
                } else {
                    data[i * b..][..b].copy_from_slice(&base);
                }
            }
        }
    }
    data
}

/// JSON object from (key, count) pairs
pub fn jmap(m: &std::collections::BTreeMap<String, u64>) -> String {
    let mut s = String::from("{");
    for (i, (k, v)) in m.iter().enumerate() {
        if i > 0 {
            s.push(',');
        }
        s.push_str(&format!("{}:{}", jstr(k), v));
    }
    s.push('}');
    s
}
pub fn jarr(v: &[String]) -> String {
    format!("[{}]", v.iter().map(|s| jstr(s)).collect::<Vec<_>>().join(","))
}
