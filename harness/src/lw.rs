//! Thin safe wrappers over libwebp-sys (reference codec; never part of any proof).
use libwebp_sys::*;

unsafe fn take(out: *mut u8, len: usize) -> Vec<u8> {
    if out.is_null() || len == 0 {
        return vec![];
    }
    let v = std::slice::from_raw_parts(out, len).to_vec();
    WebPFree(out as *mut _);
    v
}

pub fn encode_lossy_rgb(rgb: &[u8], w: u32, h: u32, q: f32) -> Vec<u8> {
    unsafe {
        let mut out: *mut u8 = std::ptr::null_mut();
        let n = WebPEncodeRGB(rgb.as_ptr(), w as i32, h as i32, (w * 3) as i32, q, &mut out);
        take(out, n)
    }
}
pub fn encode_lossy_rgba(rgba: &[u8], w: u32, h: u32, q: f32) -> Vec<u8> {
    unsafe {
        let mut out: *mut u8 = std::ptr::null_mut();
        let n = WebPEncodeRGBA(rgba.as_ptr(), w as i32, h as i32, (w * 4) as i32, q, &mut out);
        take(out, n)
    }
}
pub fn encode_lossless_rgba(rgba: &[u8], w: u32, h: u32) -> Vec<u8> {
    unsafe {
        let mut out: *mut u8 = std::ptr::null_mut();
        let n = WebPEncodeLosslessRGBA(rgba.as_ptr(), w as i32, h as i32, (w * 4) as i32, &mut out);
        take(out, n)
    }
}
pub fn encode_lossless_rgb(rgb: &[u8], w: u32, h: u32) -> Vec<u8> {
    unsafe {
        let mut out: *mut u8 = std::ptr::null_mut();
        let n = WebPEncodeLosslessRGB(rgb.as_ptr(), w as i32, h as i32, (w * 3) as i32, &mut out);
        take(out, n)
    }
}
pub fn get_info(file: &[u8]) -> Option<(u32, u32)> {
    unsafe {
        let (mut w, mut h) = (0i32, 0i32);
        if WebPGetInfo(file.as_ptr(), file.len(), &mut w, &mut h) != 0 { Some((w as u32, h as u32)) } else { None }
    }
}
pub fn decode_rgba(file: &[u8]) -> Option<(u32, u32, Vec<u8>)> {
    unsafe {
        let (mut w, mut h) = (0i32, 0i32);
        let p = WebPDecodeRGBA(file.as_ptr(), file.len(), &mut w, &mut h);
        if p.is_null() { return None; }
        Some((w as u32, h as u32, take(p, (w * h * 4) as usize)))
    }
}
/// decode without fancy upsampling, RGB or RGBA
pub fn decode_nofancy(file: &[u8], alpha: bool) -> Option<(u32, u32, Vec<u8>)> {
    unsafe {
        let mut cfg: WebPDecoderConfig = std::mem::zeroed();
        if !WebPInitDecoderConfig(&mut cfg) { return None; }
        if WebPGetFeatures(file.as_ptr(), file.len(), &mut cfg.input) != VP8StatusCode::VP8_STATUS_OK { return None; }
        cfg.options.no_fancy_upsampling = 1;
        cfg.output.colorspace = if alpha { WEBP_CSP_MODE::MODE_RGBA } else { WEBP_CSP_MODE::MODE_RGB };
        if WebPDecode(file.as_ptr(), file.len(), &mut cfg) != VP8StatusCode::VP8_STATUS_OK { WebPFreeDecBuffer(&mut cfg.output); return None; }
        let (w, h) = (cfg.output.width as usize, cfg.output.height as usize);
        let bpp = if alpha { 4 } else { 3 };
        let rgba = cfg.output.u.RGBA;
        let mut v = Vec::with_capacity(w * h * bpp);
        for y in 0..h {
            let row = std::slice::from_raw_parts(rgba.rgba.add(y * rgba.stride as usize), w * bpp);
            v.extend_from_slice(row);
        }
        WebPFreeDecBuffer(&mut cfg.output);
        Some((w as u32, h as u32, v))
    }
}
