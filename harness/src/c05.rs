//! C05: lossy still images through the public API: BT.601 conversion without fancy upsampling, and the ALPH plane.
//!
//! Inputs: `VP8 ` (+ `ALPH`) files in the simple and the extended (VP8X) container, built by the muxer of `ref_webp`:
//!  * libwebp encodings (with and without alpha; alpha_compression 0/1, alpha_filtering 0..2, alpha_quality 0..100),
//!  * re-muxed files: a `VP8 ` payload (libwebp-encoded or written by `gen_vp8`) combined with an ALPH chunk written
//!    here -- every filter (none / horizontal / vertical / gradient) x raw / VP8L-compressed x pre-processing bit,
//!    alpha planes constant / gradient / few levels / binary / noise; sizes with w, h in {1,2,3,15,16,17,33} and random,
//!  * container variants: VP8X without alpha, VP8X with the alpha flag but no ALPH chunk (finding F18), ALPH chunk
//!    without the flag, extra metadata chunks,
//!  * the lossy still test images of the repository.
//! Reference: libwebp `WebPDecode` with `no_fancy_upsampling = 1` into RGB / RGBA; for ALPH chunks written here the
//! expected alpha plane is the plane that was filtered (exact by construction).
//!
//! case lines / result lines
//!   `still <hex file>`                      -> `OK <w> <h> <alpha 0|1> <hex pixels>` | `ERR` | `PANIC ..`
//!   `alpha <w> <h> <hex ALPH payload>`      -> `<hex alpha plane>` | `ERR` | `PANIC ..`   (hook `verif::alpha_plane`)
use crate::c02;
use crate::gen_vp8::{self, Features, GenOpts};
use crate::ref_webp as rw;
use crate::util::*;
use std::io::Cursor;

pub type StillResult = Result<(usize, usize, bool, Vec<u8>), String>;

pub fn read_image_impl(file: &[u8]) -> StillResult {
    let f = file.to_vec();
    match catch(move || -> Result<(usize, usize, bool, Vec<u8>), ()> {
        let mut d = image_webp::WebPDecoder::new(Cursor::new(f)).map_err(|_| ())?;
        let (w, h) = d.dimensions();
        let n = d.output_buffer_size().ok_or(())?;
        // a recognisable fill: bytes the decoder leaves untouched show up in the comparison
        let mut buf = vec![0x5au8; n];
        d.read_image(&mut buf).map_err(|_| ())?;
        Ok((w as usize, h as usize, d.has_alpha(), buf))
    }) {
        Ok(Ok(r)) => Ok(r),
        Ok(Err(())) => Err("ERR".to_string()),
        Err(m) => Err(format!("PANIC {}", m.replace('\n', " "))),
    }
}

pub fn still_line(r: &StillResult) -> String {
    match r {
        Ok((w, h, a, p)) => format!("OK {} {} {} {}", w, h, *a as u8, hex(p)),
        Err(e) => e.clone(),
    }
}

pub fn alpha_impl(w: usize, h: usize, payload: &[u8]) -> Result<Vec<u8>, String> {
    let p = payload.to_vec();
    match catch(move || image_webp::verif::alpha_plane(&p, w as u16, h as u16, 0x5a)) {
        Ok(Ok(v)) => Ok(v),
        Ok(Err(_)) => Err("ERR".to_string()),
        Err(m) => Err(format!("PANIC {}", m.replace('\n', " "))),
    }
}

// ------------------------------------------------------------------------------------------------
// ALPH chunk writer (container specification, section "Alpha")
// ------------------------------------------------------------------------------------------------

/// predictor of the pixel at (x, y) from the *original* plane
fn predictor(a: &[u8], w: usize, x: usize, y: usize, filter: u8) -> u8 {
    if filter == 0 || (x == 0 && y == 0) {
        return 0;
    }
    if y == 0 {
        return a[x - 1]; // top row: the pixel to the left
    }
    if x == 0 {
        return a[(y - 1) * w]; // left column: the pixel above
    }
    let (l, t, tl) = (a[y * w + x - 1] as i32, a[(y - 1) * w + x] as i32, a[(y - 1) * w + x - 1] as i32);
    match filter {
        1 => l as u8,
        2 => t as u8,
        _ => (l + t - tl).clamp(0, 255) as u8,
    }
}

pub fn filter_plane(a: &[u8], w: usize, h: usize, filter: u8) -> Vec<u8> {
    let mut out = vec![0u8; w * h];
    for y in 0..h {
        for x in 0..w {
            out[y * w + x] = a[y * w + x].wrapping_sub(predictor(a, w, x, y, filter));
        }
    }
    out
}

/// ALPH payload: header byte (pre-processing << 4 | filter << 2 | compression) + raw or VP8L-compressed filtered plane
pub fn alph_payload(rng: &mut Rng, a: &[u8], w: usize, h: usize, filter: u8, compressed: bool, preproc: u8) -> Option<Vec<u8>> {
    let filtered = filter_plane(a, w, h, filter);
    let mut p = vec![(preproc << 4) | (filter << 2) | compressed as u8];
    if compressed {
        let method = rng.below(7) as i32;
        let quality = rng.below(101) as f32;
        p.extend_from_slice(&rw::encode_alpha_vp8l(w, h, &filtered, method, quality)?);
    } else {
        p.extend_from_slice(&filtered);
        if rng.chance(1, 10) {
            // trailing bytes after the w*h raw samples are permitted
            let k = rng.range(1, 3) as usize;
            p.extend_from_slice(&rng.bytes(k));
        }
    }
    Some(p)
}

pub const ALPHA_KINDS: [&str; 6] = ["constant", "gradient", "levels", "binary", "noise", "opaque_mostly"];
pub fn alpha_content(rng: &mut Rng, w: usize, h: usize) -> (Vec<u8>, &'static str) {
    let kind = rng.below(6) as usize;
    let c = rng.byte();
    let levels: Vec<u8> = (0..rng.range(2, 6)).map(|_| rng.byte()).collect();
    let mut v = Vec::with_capacity(w * h);
    for y in 0..h {
        for x in 0..w {
            v.push(match kind {
                0 => c,
                1 => ((x * 255 / w.max(1) + y * 255 / h.max(1)) / 2) as u8,
                2 => levels[((x / 3 + y / 2) % levels.len()) as usize],
                3 => if (x / 4 + y / 4) % 2 == 0 { 255 } else { 0 },
                4 => rng.byte(),
                _ => if rng.chance(1, 12) { rng.byte() } else { 255 },
            });
        }
    }
    (v, ALPHA_KINDS[kind])
}

// ------------------------------------------------------------------------------------------------

struct Ctx {
    out: Out,
    feat: Features,
    violations: Vec<String>,
    violation_cases: Vec<String>,
    n_violations: u64,
    evaluations: u64,
}

impl Ctx {
    fn violation(&mut self, case: String, res: &str, why: String) {
        self.n_violations += 1;
        if self.violations.len() < 12 {
            let r = if res.len() > 80 { format!("{}...", &res[..80]) } else { res.to_string() };
            let c = if case.len() > 20000 {
                format!("{}...(truncated; full case: violation_cases.txt line {})", &case[..64], self.violation_cases.len() + 1)
            } else {
                case.clone()
            };
            self.violations.push(format!("{} -> {} : {}", c, r, why));
        }
        if self.violation_cases.len() < 200 {
            self.violation_cases.push(case);
        }
    }

    /// `still` case: public API against libwebp; `expect_alpha`: the alpha plane the file was built from, if known
    fn still(&mut self, class: &str, file: &[u8], expect_alpha: Option<&[u8]>, emit: bool) -> bool {
        self.evaluations += 1;
        self.feat.inc(&format!("still.{class}.inputs"));
        let r = read_image_impl(file);
        let line = still_line(&r);
        let case = format!("still {}", hex(file));
        if emit {
            self.out.case(&case, &line);
        }
        // libwebp: features, then RGB or RGBA according to the alpha the *implementation* reports (RGBA output of an
        // opaque image carries 255; RGB output of a transparent one drops the plane)
        let impl_alpha = matches!(&r, Ok((_, _, true, _)));
        let refr = rw::decode_rgb_nofancy(file, if r.is_ok() { impl_alpha } else { true });
        let Some((rw_, rh, rpix)) = refr else {
            self.feat.inc(&format!("still.{class}.rejected_by_libwebp"));
            return true; // muxer / generator problem, not a finding
        };
        let why: Option<String> = match &r {
            Err(e) => Some(format!("libwebp decodes {}x{}, implementation: {}", rw_, rh, &e[..e.len().min(100)])),
            Ok((w, h, a, pix)) => {
                let bpp = if *a { 4 } else { 3 };
                if *w != rw_ || *h != rh {
                    Some(format!("size {}x{} vs libwebp {}x{}", w, h, rw_, rh))
                } else if pix.len() != rpix.len() {
                    Some(format!("{} output bytes vs libwebp {}", pix.len(), rpix.len()))
                } else if let Some(i) = pix.iter().zip(rpix.iter()).position(|(p, q)| p != q) {
                    let nd = pix.iter().zip(rpix.iter()).filter(|(p, q)| p != q).count();
                    Some(format!(
                        "{} of {} bytes differ, first: pixel x={} y={} channel {}: {} vs libwebp {}",
                        nd, pix.len(), (i / bpp) % w, (i / bpp) / w, i % bpp, pix[i], rpix[i]
                    ))
                } else if let (Some(ea), true) = (expect_alpha, *a) {
                    // exactness of the alpha channel against the plane the chunk was built from
                    match pix.chunks_exact(4).zip(ea.iter()).position(|(p, &e)| p[3] != e) {
                        Some(i) => Some(format!("alpha at x={} y={} is {} but the ALPH chunk encodes {}", i % w, i / w, pix[i * 4 + 3], ea[i])),
                        None => None,
                    }
                } else {
                    None
                }
            }
        };
        if let Some((_, _, fa, _)) = rw::features(file) {
            if r.is_ok() && fa != impl_alpha {
                self.feat.inc(&format!("still.{class}.has_alpha_differs_from_libwebp_features"));
            }
        }
        match why {
            None => {
                self.feat.inc(&format!("still.{class}.agree"));
                true
            }
            Some(w) => {
                self.feat.inc(&format!("still.{class}.disagree"));
                if let Err(e) = &r {
                    self.feat.inc(if e.starts_with("PANIC") { "impl.panics" } else { "impl.rejects_file_libwebp_accepts" });
                }
                self.violation(case, &line, format!("{} [{}]", w, class));
                false
            }
        }
    }

    /// `alpha` case: hook `verif::alpha_plane` against the expected plane
    fn alpha(&mut self, class: &str, w: usize, h: usize, payload: &[u8], expected: &[u8]) -> bool {
        self.evaluations += 1;
        self.feat.inc(&format!("alpha.{class}.inputs"));
        let r = alpha_impl(w, h, payload);
        let line = match &r {
            Ok(v) => hex(v),
            Err(e) => e.clone(),
        };
        let case = format!("alpha {} {} {}", w, h, hex(payload));
        self.out.case(&case, &line);
        let why = match &r {
            Err(e) => Some(format!("valid ALPH chunk, implementation: {}", &e[..e.len().min(100)])),
            Ok(v) if v.len() != expected.len() => Some(format!("{} alpha samples, expected {}", v.len(), expected.len())),
            Ok(v) => v.iter().zip(expected.iter()).position(|(a, b)| a != b).map(|i| format!("alpha at x={} y={}: {} expected {}", i % w, i / w, v[i], expected[i])),
        };
        match why {
            None => {
                self.feat.inc(&format!("alpha.{class}.agree"));
                true
            }
            Some(why) => {
                self.feat.inc(&format!("alpha.{class}.disagree"));
                self.violation(case, &line, format!("{} [{}]", why, class));
                false
            }
        }
    }
}

fn pick_dims(rng: &mut Rng) -> (usize, usize) {
    let special = [1usize, 2, 3, 15, 16, 17, 33];
    if rng.chance(1, 2) {
        (*rng.pick(&special), *rng.pick(&special))
    } else {
        (rng.range(1, 40) as usize, rng.range(1, 40) as usize)
    }
}

/// a `VP8 ` payload of the given size: libwebp encoding of a synthetic image, or a frame written by gen_vp8
fn vp8_payload(rng: &mut Rng, w: usize, h: usize, feat: &mut Features) -> Option<Vec<u8>> {
    if rng.chance(3, 10) {
        let opts = GenOpts { max_dim: 80, wide_pct: 0, lf_ambiguous_pct: 0, colorspace_pct: 0 };
        let (spec, _, _) = gen_vp8::random_spec_sized(rng, &opts, w as u16, h as u16);
        feat.inc("vp8_source.gen_vp8");
        Some(gen_vp8::write_frame(&spec).payload)
    } else {
        let (f, _) = c02::random_libwebp_encoding(rng, w, h, false)?;
        feat.inc("vp8_source.libwebp");
        rw::vp8_payloads(&f).into_iter().next()
    }
}

pub fn run(tier: &str, seed: u64, outdir: &str, extra: &[String]) {
    let mut cx = Ctx {
        out: Out::new(outdir),
        feat: Features::default(),
        violations: vec![],
        violation_cases: vec![],
        n_violations: 0,
        evaluations: 0,
    };
    let mut rng = Rng::new(seed ^ 0xC05);

    if tier == "replay" {
        let text = std::fs::read_to_string(&extra[0]).unwrap_or_default();
        for l in text.lines() {
            let w: Vec<&str> = l.split_whitespace().collect();
            if w.len() == 2 && w[0] == "still" {
                cx.still("replay", &unhex(w[1]), None, true);
            } else if w.len() == 4 && w[0] == "alpha" {
                // the expected plane of a replayed alpha case: libwebp, through a file built around the chunk
                let (aw, ah) = (w[1].parse::<usize>().unwrap_or(0), w[2].parse::<usize>().unwrap_or(0));
                let payload = unhex(w[3]);
                if aw == 0 || ah == 0 || aw > 16383 || ah > 16383 {
                    continue;
                }
                let grey = vec![128u8; aw * ah * 3];
                let expected = rw::encode(aw, ah, &grey, 3, 50.0, |_| {})
                    .and_then(|f| rw::vp8_payloads(&f).into_iter().next())
                    .map(|v| rw::extended_vp8(rw::VP8X_ALPHA, aw, ah, Some(&payload), &v, &[]))
                    .and_then(|f| rw::decode_rgb_nofancy(&f, true))
                    .map(|(_, _, p)| p.chunks_exact(4).map(|q| q[3]).collect::<Vec<u8>>());
                match expected {
                    Some(e) => {
                        cx.alpha("replay", aw, ah, &payload, &e);
                    }
                    None => cx.feat.inc("alpha.replay.rejected_by_libwebp"),
                }
            }
        }
    } else {
        let (n_enc, rounds) = if tier == "thorough" { (1500u64, 12u64) } else { (200u64, 2u64) };
        // (1) libwebp encodings, as written by libwebp
        for _ in 0..n_enc {
            let mut r = rng.fork();
            let (w, h) = pick_dims(&mut r);
            let alpha = r.chance(1, 2);
            let Some((f, _)) = c02::random_libwebp_encoding(&mut r, w, h, alpha) else {
                cx.feat.inc("encoder_failed");
                continue;
            };
            let ch = rw::chunks(&f);
            let has_alph = ch.iter().any(|(c, _)| c == b"ALPH");
            let class = if has_alph { "libwebp_vp8x_alph" } else if ch.iter().any(|(c, _)| c == b"VP8X") { "libwebp_vp8x" } else { "libwebp_simple" };
            cx.still(class, &f, None, true);
            if let Some((_, a)) = ch.iter().find(|(c, _)| c == b"ALPH") {
                if !a.is_empty() {
                    cx.feat.inc(&format!("alph_header.libwebp.filter{}_{}_pre{}", (a[0] >> 2) & 3, if a[0] & 3 == 1 { "vp8l" } else { "raw" }, (a[0] >> 4) & 3));
                }
                // the hook on libwebp's own chunk; expected = libwebp's alpha channel
                if let Some((_, _, pix)) = rw::decode_rgb_nofancy(&f, true) {
                    let e: Vec<u8> = pix.chunks_exact(4).map(|p| p[3]).collect();
                    cx.alpha("libwebp_chunk", w, h, a, &e);
                }
            }
        }
        // (2) re-muxed: every filter x raw/compressed x pre-processing bit, on the special sizes and random ones
        for round in 0..rounds {
            for filter in 0..4u8 {
                for compressed in [false, true] {
                    for preproc in 0..2u8 {
                        for k in 0..4 {
                            let mut r = rng.fork();
                            let (w, h) = if round == 0 && k == 0 {
                                // make sure the smallest sizes meet every variant
                                ([1usize, 2, 3, 1][filter as usize], [1usize, 1, 2, 17][(preproc * 2 + compressed as u8) as usize])
                            } else {
                                pick_dims(&mut r)
                            };
                            let Some(vp8) = vp8_payload(&mut r, w, h, &mut cx.feat) else { continue };
                            let (a, kind) = alpha_content(&mut r, w, h);
                            let Some(alph) = alph_payload(&mut r, &a, w, h, filter, compressed, preproc) else {
                                cx.feat.inc("alpha_encoder_failed");
                                continue;
                            };
                            cx.feat.inc(&format!("alph_header.muxed.filter{}_{}_pre{}", filter, if compressed { "vp8l" } else { "raw" }, preproc));
                            cx.feat.inc(&format!("alpha_content.{kind}"));
                            cx.feat.inc(&format!("size.w{}", if w <= 3 { "1-3" } else if w < 16 { "4-15" } else if w <= 17 { "16-17" } else { "18+" }));
                            cx.feat.inc(&format!("size.parity.w{}h{}", w % 2, h % 2));
                            let extra_chunks: Vec<Vec<u8>> = if r.chance(1, 5) { vec![rw::chunk(b"EXIF", &r.bytes(7))] } else { vec![] };
                            let flags = rw::VP8X_ALPHA | if extra_chunks.is_empty() { 0 } else { 0x08 };
                            let f = rw::extended_vp8(flags, w, h, Some(&alph), &vp8, &extra_chunks);
                            cx.still("muxed_vp8x_alph", &f, Some(&a), true);
                            cx.alpha("muxed_chunk", w, h, &alph, &a);
                        }
                    }
                }
            }
            // (2b) ALPH payloads from the legal-stream generator of C01 (features libwebp's alpha encoder never emits: any transform
            //      order, colour indexing followed by predictor / colour transforms, colour cache, meta codes, simple codes, ...):
            //      the headerless form is the generated stream without its 5 header bytes; alpha = green channel, any filter
            {
                use crate::gen_vp8l;
                let mut gp = gen_vp8l::Params::full();
                gp.deep = false; gp.strips = false; gp.max16384 = false; gp.max_dim = 24;
                for _ in 0..(if tier == "thorough" { 24 } else { 12 }) {
                    let mut r = rng.fork();
                    let g = gen_vp8l::generate(r.next(), &gp, false);
                    let (w, h) = (g.width as usize, g.height as usize);
                    if g.payload.len() <= 5 || w * h > 4096 { continue; }
                    let Some(vp8) = vp8_payload(&mut r, w, h, &mut cx.feat) else { continue };
                    let filter = r.below(4) as u8;
                    let mut alph = vec![(filter << 2) | 1u8];
                    alph.extend_from_slice(&g.payload[5..]);
                    cx.feat.inc(&format!("alph_header.generated_stream.filter{}", filter));
                    let f = rw::extended_vp8(rw::VP8X_ALPHA, w, h, Some(&alph), &vp8, &[]);
                    cx.still("muxed_vp8x_alph_generated_stream", &f, None, true);
                }
            }
            // (3) container variants without transparency data
            for _ in 0..8 {
                let mut r = rng.fork();
                let (w, h) = pick_dims(&mut r);
                let Some(vp8) = vp8_payload(&mut r, w, h, &mut cx.feat) else { continue };
                cx.still("simple", &rw::simple_vp8(&vp8), None, true);
                if vp8.len() >= 10 {
                    // upscaling hints in the frame header (RFC 6386 9.1): valid, ignored by decoders
                    let mut v2 = vp8.clone();
                    v2[7] |= (1 + r.below(3) as u8) << 6;
                    v2[9] |= (r.below(4) as u8) << 6;
                    cx.still("simple_scale_bits", &rw::simple_vp8(&v2), None, true);
                    cx.still("vp8x_scale_bits", &rw::extended_vp8(0, w, h, None, &v2, &[]), None, true);
                }
                cx.still("vp8x_no_alpha", &rw::extended_vp8(0, w, h, None, &vp8, &[]), None, true);
                // finding F18: alpha flag set, no ALPH chunk -> libwebp decodes an opaque RGBA image
                cx.still("vp8x_alpha_flag_without_alph", &rw::extended_vp8(rw::VP8X_ALPHA, w, h, None, &vp8, &[]), None, true);
                // ALPH chunk present, flag clear: the implementation reports no alpha and returns RGB
                let (a, _) = alpha_content(&mut r, w, h);
                let (fl, cmp) = (r.below(4) as u8, r.chance(1, 2));
                if let Some(alph) = alph_payload(&mut r, &a, w, h, fl, cmp, 0) {
                    cx.still("vp8x_alph_without_flag", &rw::extended_vp8(0, w, h, Some(&alph), &vp8, &[]), None, true);
                }
            }
        }
        // (4) the repository's lossy still images (public API on the whole file)
        for (name, f) in c02::lossy_test_files() {
            if rw::features(&f).map(|x| x.3).unwrap_or(true) {
                continue; // animations belong to C06
            }
            let small = f.len() < 4000;
            // the extracted specification decodes a large lossless alpha plane very slowly (a 300x300 plane: > 15 min):
            // stills with an ALPH chunk above 40000 pixels are compared with libwebp only
            let big_alpha = f.windows(4).any(|w| w == b"ALPH") && rw::features(&f).map(|x| (x.0 as u64) * (x.1 as u64) > 40_000).unwrap_or(true);
            if !cx.still("test_images", &f, None, small || (tier == "thorough" && !big_alpha)) {
                cx.feat.inc(&format!("test_images.disagree.{}", name));
            }
        }
    }

    std::fs::write(format!("{outdir}/violation_cases.txt"), cx.violation_cases.join("\n") + if cx.violation_cases.is_empty() { "" } else { "\n" }).unwrap();
    let stats = format!(
        "{{\"check\": \"c05\", \"tier\": {}, \"seed\": {}, \"evaluations\": {}, \"cases_written\": {}, \"n_violations\": {}, \"features\": {}, \"violations\": [{}]}}",
        jstr(tier),
        seed,
        cx.evaluations,
        cx.out.n,
        cx.n_violations,
        cx.feat.json(),
        cx.violations.iter().map(|v| jstr(v)).collect::<Vec<_>>().join(", ")
    );
    cx.out.finish(&stats);
}
