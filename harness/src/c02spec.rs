//! c02spec: adequacy of the Coq specification Spec/VP8.v (oracle case `vp8 <hex payload>`) against libwebp.
//! The "implementation" column of this check is libwebp 1.3.1 (`WebPDecodeYUV` on the raw VP8 payload), not the
//! crate: the Spec is the reference the crate is judged against in C02/C05, so it must itself equal the normative
//! decoder.  Sources of payloads:
//!   (a) every `VP8 ` chunk of every file under <repo>/tests/images (stills and ANMF frames),
//!   (b) libwebp's lossy encoder (WebPEncode) with a varied WebPConfig on seeded synthetic images, sizes 1..48 with
//!       every residue mod 16 in both dimensions,
//!   (c) the streams of (b) with the first partition re-written (boolean decoder + encoder in this file): loop-filter
//!       type / level / sharpness, ref and mode deltas, per-segment filter strengths and quantisers in absolute and
//!       delta mode, quantiser deltas, skip probability -- header states libwebp's encoder never emits,
//!   (d) damaged streams: truncations, partition sizes edited, partition emptied -- the "data runs out" rules,
//!   (e) synthetic key frames from a VP8 writer in this file: random header states, random modes at every frame
//!       position, random token patterns (zero runs, explicit zeros to the end of a block, all categories).
//! Result line = `OK <w> <h> <hexY> <hexU> <hexV>` or `ERR`.
use crate::util::*;
use libwebp_sys as lw;
use std::collections::BTreeMap;

// ---------------------------------------------------------------------------------------------------------------
// libwebp side
// ---------------------------------------------------------------------------------------------------------------
pub fn lw_decode_yuv(payload: &[u8]) -> String {
    unsafe {
        let (mut w, mut h) = (0i32, 0i32);
        let (mut u, mut v): (*mut u8, *mut u8) = (std::ptr::null_mut(), std::ptr::null_mut());
        let (mut st, mut uvst) = (0i32, 0i32);
        let y = lw::WebPDecodeYUV(payload.as_ptr(), payload.len(), &mut w, &mut h, &mut u, &mut v, &mut st, &mut uvst);
        if y.is_null() {
            return "ERR".to_string();
        }
        let (cw, ch) = ((w + 1) / 2, (h + 1) / 2);
        let mut yy = Vec::with_capacity((w * h) as usize);
        for r in 0..h {
            yy.extend_from_slice(std::slice::from_raw_parts(y.offset((r * st) as isize), w as usize));
        }
        let mut uu = Vec::with_capacity((cw * ch) as usize);
        let mut vv = Vec::with_capacity((cw * ch) as usize);
        for r in 0..ch {
            uu.extend_from_slice(std::slice::from_raw_parts(u.offset((r * uvst) as isize), cw as usize));
            vv.extend_from_slice(std::slice::from_raw_parts(v.offset((r * uvst) as isize), cw as usize));
        }
        lw::WebPFree(y as *mut std::ffi::c_void);
        format!("OK {} {} {} {} {}", w, h, hex(&yy), hex(&uu), hex(&vv))
    }
}

#[derive(Clone, Debug, Default)]
pub struct Cfg {
    pub quality: f32,
    pub method: i32,
    pub segments: i32,
    pub sns: i32,
    pub fstrength: i32,
    pub sharp: i32,
    pub ftype: i32,
    pub autofilter: i32,
    pub partitions: i32,
    pub preprocessing: i32,
    pub partition_limit: i32,
    pub pass: i32,
}

pub fn lw_encode(w: i32, h: i32, rgb: &[u8], c: &Cfg) -> Option<Vec<u8>> {
    unsafe {
        let mut cfg: lw::WebPConfig = std::mem::zeroed();
        if lw::WebPConfigInitInternal(&mut cfg, lw::WebPPreset::WEBP_PRESET_DEFAULT, c.quality, lw::WEBP_ENCODER_ABI_VERSION as i32) == 0 {
            return None;
        }
        cfg.method = c.method;
        cfg.segments = c.segments;
        cfg.sns_strength = c.sns;
        cfg.filter_strength = c.fstrength;
        cfg.filter_sharpness = c.sharp;
        cfg.filter_type = c.ftype;
        cfg.autofilter = c.autofilter;
        cfg.partitions = c.partitions;
        cfg.preprocessing = c.preprocessing;
        cfg.partition_limit = c.partition_limit;
        cfg.pass = c.pass;
        if lw::WebPValidateConfig(&cfg) == 0 {
            return None;
        }
        let mut pic: lw::WebPPicture = std::mem::zeroed();
        if lw::WebPPictureInitInternal(&mut pic, lw::WEBP_ENCODER_ABI_VERSION as i32) == 0 {
            return None;
        }
        pic.width = w;
        pic.height = h;
        if lw::WebPPictureImportRGB(&mut pic, rgb.as_ptr(), w * 3) == 0 {
            return None;
        }
        let mut wr: lw::WebPMemoryWriter = std::mem::zeroed();
        lw::WebPMemoryWriterInit(&mut wr);
        pic.writer = Some(lw::WebPMemoryWrite);
        pic.custom_ptr = &mut wr as *mut _ as *mut std::ffi::c_void;
        let ok = lw::WebPEncode(&cfg, &mut pic) != 0;
        let out = if ok { Some(std::slice::from_raw_parts(wr.mem, wr.size).to_vec()) } else { None };
        lw::WebPPictureFree(&mut pic);
        lw::WebPMemoryWriterClear(&mut wr);
        out
    }
}

/// every `VP8 ` chunk of a RIFF/WEBP file (also inside ANMF frames)
pub fn vp8_chunks(d: &[u8]) -> Vec<Vec<u8>> {
    let mut out = vec![];
    let mut i = 12usize;
    while i + 8 <= d.len() {
        let tag = &d[i..i + 4];
        let n = u32::from_le_bytes([d[i + 4], d[i + 5], d[i + 6], d[i + 7]]) as usize;
        if tag == b"ANMF" {
            i += 8 + 16;
            continue;
        }
        if tag == b"VP8 " && i + 8 + n <= d.len() {
            out.push(d[i + 8..i + 8 + n].to_vec());
        }
        i += 8 + n + (n & 1);
    }
    out
}

fn walk(dir: &std::path::Path, out: &mut Vec<std::path::PathBuf>) {
    if let Ok(rd) = std::fs::read_dir(dir) {
        let mut es: Vec<_> = rd.filter_map(|e| e.ok()).map(|e| e.path()).collect();
        es.sort();
        for p in es {
            if p.is_dir() {
                walk(&p, out);
            } else if p.extension().map(|e| e == "webp").unwrap_or(false) {
                out.push(p);
            }
        }
    }
}

// ---------------------------------------------------------------------------------------------------------------
// synthetic images
// ---------------------------------------------------------------------------------------------------------------
pub const KINDS: [&str; 7] = ["noise", "hgrad", "vgrad", "flat", "edges", "blobs", "mix"];
pub fn synth(kind: usize, w: i32, h: i32, rng: &mut Rng) -> Vec<u8> {
    let (wu, hu) = (w as usize, h as usize);
    let mut v = vec![0u8; wu * hu * 3];
    let base = [rng.byte(), rng.byte(), rng.byte()];
    let amp = 1 + rng.below(64) as i32;
    let period = 1 + rng.below(9) as usize;
    for y in 0..hu {
        for x in 0..wu {
            for c in 0..3 {
                let g = match kind {
                    0 => rng.byte() as i32,
                    1 => (x as i32 * 255 / w.max(1)) + (rng.below(amp as u64 + 1) as i32) - amp / 2,
                    2 => (y as i32 * 255 / h.max(1)) + c as i32 * 20,
                    3 => base[c] as i32,
                    4 => {
                        if ((x / period) + (y / period)) % 2 == 0 {
                            base[c] as i32
                        } else {
                            255 - base[c] as i32
                        }
                    }
                    5 => {
                        let dx = x as i32 - w / 2;
                        let dy = y as i32 - h / 2;
                        ((dx * dx + dy * dy) * (3 + c as i32) / 4) & 255
                    }
                    _ => {
                        if y < hu / 2 {
                            rng.byte() as i32
                        } else if x < wu / 2 {
                            base[c] as i32
                        } else {
                            (x as i32 * 7 + y as i32 * 3) & 255
                        }
                    }
                };
                v[(y * wu + x) * 3 + c] = g.clamp(0, 255) as u8;
            }
        }
    }
    v
}

// ---------------------------------------------------------------------------------------------------------------
// boolean decoder / encoder and first-partition re-writer (source (c))
// ---------------------------------------------------------------------------------------------------------------
pub struct BoolDec<'a> {
    d: &'a [u8],
    pos: usize,
    value: u32,
    range: u32,
    bit_count: u32,
}
impl<'a> BoolDec<'a> {
    pub fn new(d: &'a [u8]) -> Self {
        let mut b = BoolDec { d, pos: 0, value: 0, range: 255, bit_count: 0 };
        let b0 = b.next();
        let b1 = b.next();
        b.value = (b0 << 8) | b1;
        b
    }
    fn next(&mut self) -> u32 {
        let v = if self.pos < self.d.len() { self.d[self.pos] as u32 } else { 0 };
        self.pos += 1;
        v
    }
    pub fn bit(&mut self, p: u32) -> u32 {
        let split = 1 + (((self.range - 1) * p) >> 8);
        let big = split << 8;
        let r = if self.value >= big {
            self.range -= split;
            self.value -= big;
            1
        } else {
            self.range = split;
            0
        };
        while self.range < 128 {
            self.value <<= 1;
            self.range <<= 1;
            self.bit_count += 1;
            if self.bit_count == 8 {
                self.bit_count = 0;
                let n = self.next();
                self.value |= n;
            }
        }
        r
    }
    pub fn lit(&mut self, n: u32) -> u32 {
        let mut v = 0;
        for _ in 0..n {
            v = (v << 1) | self.bit(128);
        }
        v
    }
    pub fn signed(&mut self, n: u32) -> i32 {
        let v = self.lit(n) as i32;
        if self.bit(128) == 1 {
            -v
        } else {
            v
        }
    }
    pub fn opt_signed(&mut self, n: u32) -> i32 {
        if self.bit(128) == 1 {
            self.signed(n)
        } else {
            0
        }
    }
}

/// RFC 6386 section 7.3 boolean encoder
pub struct BoolEnc {
    pub out: Vec<u8>,
    range: u32,
    bottom: u32,
    bit_count: i32,
}
impl BoolEnc {
    pub fn new() -> Self {
        BoolEnc { out: vec![], range: 255, bottom: 0, bit_count: 24 }
    }
    fn add_one(&mut self) {
        let mut i = self.out.len();
        while i > 0 {
            i -= 1;
            if self.out[i] == 255 {
                self.out[i] = 0;
            } else {
                self.out[i] += 1;
                break;
            }
        }
    }
    pub fn bit(&mut self, p: u32, b: u32) {
        let split = 1 + (((self.range - 1) * p) >> 8);
        if b != 0 {
            self.bottom = self.bottom.wrapping_add(split);
            self.range -= split;
        } else {
            self.range = split;
        }
        while self.range < 128 {
            self.range <<= 1;
            if self.bottom & (1 << 31) != 0 {
                self.add_one();
            }
            self.bottom <<= 1;
            self.bit_count -= 1;
            if self.bit_count == 0 {
                self.out.push((self.bottom >> 24) as u8);
                self.bottom &= (1 << 24) - 1;
                self.bit_count = 8;
            }
        }
    }
    pub fn lit(&mut self, n: u32, v: u32) {
        for i in (0..n).rev() {
            self.bit(128, (v >> i) & 1);
        }
    }
    pub fn signed(&mut self, n: u32, v: i32) {
        self.lit(n, v.unsigned_abs());
        self.bit(128, (v < 0) as u32);
    }
    pub fn opt_signed(&mut self, n: u32, v: i32) {
        if v == 0 {
            self.bit(128, 0);
        } else {
            self.bit(128, 1);
            self.signed(n, v);
        }
    }
    /// explicit form: flag set even for value 0 (sign given separately so that "-0" can be produced)
    pub fn opt_signed_explicit(&mut self, n: u32, mag: u32, neg: bool) {
        self.bit(128, 1);
        self.lit(n, mag);
        self.bit(128, neg as u32);
    }
    pub fn finish(mut self) -> Vec<u8> {
        let mut c = self.bit_count;
        let mut v = self.bottom;
        if v & (1 << (32 - c)) != 0 {
            self.add_one();
        }
        v <<= c & 7;
        c >>= 3;
        while c > 0 {
            c -= 1;
            v <<= 8;
        }
        c = 4;
        while c > 0 {
            c -= 1;
            self.out.push((v >> 24) as u8);
            v <<= 8;
        }
        self.out
    }
}

/// first-partition header fields (everything before the per-macroblock modes)
#[derive(Clone, Debug, Default)]
pub struct Hdr {
    pub color_space: u32,
    pub clamp: u32,
    pub use_seg: bool,
    pub update_map: bool,
    pub update_data: bool,
    pub absolute: bool,
    pub seg_q: [i32; 4],
    pub seg_f: [i32; 4],
    pub seg_p: [Option<u32>; 3],
    pub simple: u32,
    pub level: u32,
    pub sharp: u32,
    pub use_lf_delta: bool,
    pub update_lf_delta: bool,
    pub ref_d: [Option<i32>; 4],
    pub mode_d: [Option<i32>; 4],
    pub log2_parts: u32,
    pub base_q: u32,
    pub dq: [i32; 5],
    pub refresh: u32,
    pub proba_upd: Vec<Option<u32>>, // 4*8*3*11 entries
    pub use_skip: bool,
    pub skip_p: u32,
}

// probabilities of the coefficient-probability update flags (RFC 13.4), needed to step over / re-emit that part
include!("c02spec_tables.rs");

pub fn read_hdr(d: &mut BoolDec) -> Hdr {
    let mut h = Hdr::default();
    h.color_space = d.bit(128);
    h.clamp = d.bit(128);
    h.use_seg = d.bit(128) == 1;
    h.absolute = true;
    if h.use_seg {
        h.update_map = d.bit(128) == 1;
        h.update_data = d.bit(128) == 1;
        if h.update_data {
            h.absolute = d.bit(128) == 1;
            for i in 0..4 {
                h.seg_q[i] = d.opt_signed(7);
            }
            for i in 0..4 {
                h.seg_f[i] = d.opt_signed(6);
            }
        }
        if h.update_map {
            for i in 0..3 {
                h.seg_p[i] = if d.bit(128) == 1 { Some(d.lit(8)) } else { None };
            }
        }
    }
    h.simple = d.bit(128);
    h.level = d.lit(6);
    h.sharp = d.lit(3);
    h.use_lf_delta = d.bit(128) == 1;
    if h.use_lf_delta {
        h.update_lf_delta = d.bit(128) == 1;
        if h.update_lf_delta {
            for i in 0..4 {
                h.ref_d[i] = if d.bit(128) == 1 { Some(d.signed(6)) } else { None };
            }
            for i in 0..4 {
                h.mode_d[i] = if d.bit(128) == 1 { Some(d.signed(6)) } else { None };
            }
        }
    }
    h.log2_parts = d.lit(2);
    h.base_q = d.lit(7);
    for i in 0..5 {
        h.dq[i] = d.opt_signed(4);
    }
    h.refresh = d.bit(128);
    h.proba_upd = COEFF_UPDATE_PROBA.iter().map(|&p| if d.bit(p as u32) == 1 { Some(d.lit(8)) } else { None }).collect();
    h.use_skip = d.bit(128) == 1;
    if h.use_skip {
        h.skip_p = d.lit(8);
    }
    h
}

pub fn write_hdr(e: &mut BoolEnc, h: &Hdr) {
    e.bit(128, h.color_space);
    e.bit(128, h.clamp);
    e.bit(128, h.use_seg as u32);
    if h.use_seg {
        e.bit(128, h.update_map as u32);
        e.bit(128, h.update_data as u32);
        if h.update_data {
            e.bit(128, h.absolute as u32);
            for i in 0..4 {
                e.opt_signed(7, h.seg_q[i]);
            }
            for i in 0..4 {
                e.opt_signed(6, h.seg_f[i]);
            }
        }
        if h.update_map {
            for i in 0..3 {
                match h.seg_p[i] {
                    Some(p) => {
                        e.bit(128, 1);
                        e.lit(8, p)
                    }
                    None => e.bit(128, 0),
                }
            }
        }
    }
    e.bit(128, h.simple);
    e.lit(6, h.level);
    e.lit(3, h.sharp);
    e.bit(128, h.use_lf_delta as u32);
    if h.use_lf_delta {
        e.bit(128, h.update_lf_delta as u32);
        if h.update_lf_delta {
            for arr in [&h.ref_d, &h.mode_d] {
                for i in 0..4 {
                    match arr[i] {
                        Some(v) => {
                            e.bit(128, 1);
                            e.signed(6, v)
                        }
                        None => e.bit(128, 0),
                    }
                }
            }
        }
    }
    e.lit(2, h.log2_parts);
    e.lit(7, h.base_q);
    for i in 0..5 {
        e.opt_signed(4, h.dq[i]);
    }
    e.bit(128, h.refresh);
    for (i, u) in h.proba_upd.iter().enumerate() {
        match u {
            Some(v) => {
                e.bit(COEFF_UPDATE_PROBA[i] as u32, 1);
                e.lit(8, *v)
            }
            None => e.bit(COEFF_UPDATE_PROBA[i] as u32, 0),
        }
    }
    e.bit(128, h.use_skip as u32);
    if h.use_skip {
        e.lit(8, h.skip_p);
    }
}

/// sub-block mode tree in libwebp's encoding (tree_dec.c kYModesIntra4)
const YMODES_INTRA4: [i8; 18] = [0, 1, -1, 2, -2, 3, 4, 6, -3, 5, -4, -5, -6, 7, -7, 8, -8, -9];

/// copy the per-macroblock modes from decoder to encoder (same bits, same probabilities).  `new_skip_p`: the skip
/// flags are re-coded with the new probability; when the new header has no skip probability the flags are dropped
/// (every macroblock is then parsed for tokens, which is how the token partitions were produced only if no
/// macroblock was skipped -- the caller guarantees that).
fn copy_modes(d: &mut BoolDec, e: &mut BoolEnc, old: &Hdr, new: &Hdr, mbw: usize, mbh: usize, seg_p: [u32; 3]) -> (usize, usize) {
    let mut top = vec![0u8; 4 * mbw];
    let (mut nskip, mut ni4) = (0, 0);
    for _ in 0..mbh {
        let mut left = [0u8; 4];
        for mx in 0..mbw {
            if old.update_map {
                let b0 = d.bit(seg_p[0]);
                e.bit(seg_p[0], b0);
                let p = if b0 == 0 { seg_p[1] } else { seg_p[2] };
                let b1 = d.bit(p);
                e.bit(p, b1);
            }
            if old.use_skip {
                let s = d.bit(old.skip_p);
                nskip += s as usize;
                if new.use_skip {
                    e.bit(new.skip_p, s);
                }
            }
            let i16 = d.bit(145);
            e.bit(145, i16);
            if i16 == 1 {
                let b = d.bit(156);
                e.bit(156, b);
                let p = if b == 1 { 128 } else { 163 };
                let c = d.bit(p);
                e.bit(p, c);
                // libwebp numbering: DC 0, TM 1, V 2, H 3
                let ymode = if b == 1 { if c == 1 { 1 } else { 3 } } else if c == 1 { 2 } else { 0 };
                for k in 0..4 {
                    top[4 * mx + k] = ymode;
                    left[k] = ymode;
                }
            } else {
                ni4 += 1;
                for y in 0..4 {
                    let mut ymode = left[y];
                    for x in 0..4 {
                        let base = (top[4 * mx + x] as usize * 10 + ymode as usize) * 9;
                        let prob = &BMODES_PROBA[base..base + 9];
                        let b = d.bit(prob[0] as u32);
                        e.bit(prob[0] as u32, b);
                        let mut i = YMODES_INTRA4[b as usize];
                        while i > 0 {
                            let b = d.bit(prob[i as usize] as u32);
                            e.bit(prob[i as usize] as u32, b);
                            i = YMODES_INTRA4[2 * i as usize + b as usize];
                        }
                        ymode = (-i) as u8;
                        top[4 * mx + x] = ymode;
                    }
                    left[y] = ymode;
                }
            }
            let u0 = d.bit(142);
            e.bit(142, u0);
            if u0 == 1 {
                let u1 = d.bit(114);
                e.bit(114, u1);
                if u1 == 1 {
                    let u2 = d.bit(183);
                    e.bit(183, u2);
                }
            }
        }
    }
    (nskip, ni4)
}

/// header of the first partition of a payload, with the macroblock grid
pub fn payload_hdr(payload: &[u8]) -> Option<(Hdr, usize, usize, usize)> {
    if payload.len() < 10 {
        return None;
    }
    let bits = payload[0] as u32 | (payload[1] as u32) << 8 | (payload[2] as u32) << 16;
    let plen = (bits >> 5) as usize;
    if 10 + plen > payload.len() {
        return None;
    }
    let w = ((payload[6] as usize) | (payload[7] as usize) << 8) & 0x3fff;
    let h = ((payload[8] as usize) | (payload[9] as usize) << 8) & 0x3fff;
    let mut d = BoolDec::new(&payload[10..10 + plen]);
    Some((read_hdr(&mut d), plen, (w + 15) / 16, (h + 15) / 16))
}

/// Re-write the first partition of an encoder-made payload with the header `new` (modes copied bit for bit).
pub fn rewrite_with(payload: &[u8], new: &Hdr) -> Option<(Vec<u8>, usize, usize)> {
    let (_, plen, mbw, mbh) = payload_hdr(payload)?;
    let bits = payload[0] as u32 | (payload[1] as u32) << 8 | (payload[2] as u32) << 16;
    let p0 = &payload[10..10 + plen];
    let mut d = BoolDec::new(p0);
    let old = read_hdr(&mut d);
    let mut e = BoolEnc::new();
    write_hdr(&mut e, new);
    let seg_p = [old.seg_p[0].unwrap_or(255), old.seg_p[1].unwrap_or(255), old.seg_p[2].unwrap_or(255)];
    let (nskip, ni4) = copy_modes(&mut d, &mut e, &old, new, mbw, mbh, seg_p);
    if d.pos > p0.len() + 2 {
        return None; // ran past the partition: not a well-formed source
    }
    let np0 = e.finish();
    if np0.len() >= 1 << 19 {
        return None;
    }
    let mut out = Vec::with_capacity(payload.len() + 16);
    let nbits = (bits & 31) | ((np0.len() as u32) << 5);
    out.extend_from_slice(&[nbits as u8, (nbits >> 8) as u8, (nbits >> 16) as u8]);
    out.extend_from_slice(&payload[3..10]);
    out.extend_from_slice(&np0);
    out.extend_from_slice(&payload[10 + plen..]);
    Some((out, nskip, ni4))
}

/// choose new header fields: states libwebp's encoder never emits.  Quantiser indices are only ever lowered, so
/// that the dequantised coefficients stay inside the 16-bit pipeline.
pub fn edit(old: &Hdr, rng: &mut Rng, feats: &mut BTreeMap<String, u64>) -> (Hdr, String) {
    let mut new = old.clone();
    let mut desc = vec![];
    new.simple = rng.below(2) as u32;
    new.level = match rng.below(6) {
        0 => 0,
        1 => rng.range(1, 14) as u32,
        2 => rng.range(15, 39) as u32,
        3 => rng.range(40, 63) as u32,
        _ => rng.below(64) as u32,
    };
    new.sharp = rng.below(8) as u32;
    desc.push(format!("lf={}/{}/{}", new.simple, new.level, new.sharp));
    *feats.entry(format!("rw_filter_{}", if new.level == 0 { "off" } else if new.simple == 1 { "simple" } else { "normal" })).or_insert(0) += 1;
    if rng.chance(2, 3) {
        new.use_lf_delta = true;
        new.update_lf_delta = rng.chance(5, 6);
        let small = rng.chance(1, 2);
        for i in 0..4 {
            let pick = |rng: &mut Rng| if small { rng.range(0, 16) as i32 - 8 } else { rng.range(0, 126) as i32 - 63 };
            new.ref_d[i] = if rng.chance(3, 4) { Some(pick(rng)) } else { None };
            new.mode_d[i] = if rng.chance(3, 4) { Some(pick(rng)) } else { None };
        }
        desc.push(format!("lfd upd={} ref0={:?} mode0={:?}", new.update_lf_delta, new.ref_d[0], new.mode_d[0]));
        *feats.entry("rw_lf_delta".into()).or_insert(0) += 1;
    } else {
        new.use_lf_delta = false;
    }
    let old_q = |s: usize| -> i32 {
        let q = if old.use_seg { old.seg_q[s] + if old.absolute { 0 } else { old.base_q as i32 } } else { old.base_q as i32 };
        q.clamp(0, 127)
    };
    let new_base = rng.below(old.base_q as u64 + 1) as u32;
    new.base_q = new_base;
    let turn_on = !old.use_seg && rng.chance(1, 3);
    if old.use_seg || turn_on {
        // with no map in the stream every macroblock is in segment 0, whose values then come from the segment data
        new.use_seg = true;
        new.update_map = old.use_seg && old.update_map;
        new.update_data = true;
        new.absolute = rng.chance(1, 2);
        for s in 0..4 {
            let target = rng.below(old_q(s) as u64 + 1) as i32;
            new.seg_q[s] = if new.absolute { target } else { target - new_base as i32 };
            new.seg_f[s] = if new.absolute { rng.below(64) as i32 } else { rng.range(0, 126) as i32 - 63 };
        }
        desc.push(format!("seg abs={} q={:?} f={:?}", new.absolute, new.seg_q, new.seg_f));
        *feats.entry(format!("rw_seg_{}{}", if new.absolute { "absolute" } else { "delta" }, if turn_on { "_nomap" } else { "" })).or_insert(0) += 1;
        if rng.chance(1, 8) {
            new.update_data = false; // key-frame defaults: "absolute, all values 0"
            *feats.entry("rw_seg_no_data".into()).or_insert(0) += 1;
            desc.push("seg-no-data".into());
        }
    }
    for i in 0..5 {
        let base = old.dq[i].min(0);
        new.dq[i] = base - rng.below((16 + base) as u64) as i32;
    }
    desc.push(format!("q={} dq={:?}", new.base_q, new.dq));
    if old.use_skip && rng.chance(1, 2) {
        new.skip_p = rng.below(256) as u32;
    }
    (new, desc.join(" "))
}

// ---------------------------------------------------------------------------------------------------------------
// damaged streams (source (d))
// ---------------------------------------------------------------------------------------------------------------
pub fn damage(payload: &[u8], rng: &mut Rng) -> (Vec<u8>, &'static str) {
    let mut p = payload.to_vec();
    let plen = if p.len() >= 3 { ((p[0] as usize | (p[1] as usize) << 8 | (p[2] as usize) << 16) >> 5).min(p.len()) } else { 0 };
    match rng.below(8) {
        0 => {
            // cut inside / right after the first partition
            let at = (10 + plen).saturating_sub(rng.below(4) as usize).min(p.len());
            p.truncate(at + rng.below(3) as usize);
            (p, "cut_near_partition0_end")
        }
        1 => {
            let k = 1 + rng.below(6) as usize;
            let n = p.len().saturating_sub(k);
            p.truncate(n);
            (p, "cut_tail_small")
        }
        2 => {
            let n = rng.below(p.len() as u64 + 1) as usize;
            p.truncate(n);
            (p, "cut_anywhere")
        }
        3 => {
            // shorten the declared first-partition length: modes run out (or are read from token bytes)
            if p.len() >= 3 && plen > 0 {
                let nl = rng.below(plen as u64) as u32;
                let bits = (p[0] as u32 & 31) | (nl << 5);
                p[0] = bits as u8;
                p[1] = (bits >> 8) as u8;
                p[2] = (bits >> 16) as u8;
            }
            (p, "partition0_length_reduced")
        }
        4 => {
            // lengthen the declared first-partition length
            if p.len() >= 3 {
                let nl = (plen as u32 + 1 + rng.below(40) as u32).min((1 << 19) - 1);
                let bits = (p[0] as u32 & 31) | (nl << 5);
                p[0] = bits as u8;
                p[1] = (bits >> 8) as u8;
                p[2] = (bits >> 16) as u8;
            }
            (p, "partition0_length_increased")
        }
        5 => {
            // edit a token-partition size entry (if there is one) or drop the last byte
            let off = 10 + plen;
            if p.len() > off + 3 {
                let k = off + rng.below(3) as usize;
                p[k] = rng.byte();
            } else if !p.is_empty() {
                p.pop();
            }
            (p, "partition_size_bytes_edited")
        }
        6 => {
            // frame tag / start code / size bits
            if p.len() >= 10 {
                let k = rng.below(10) as usize;
                p[k] ^= 1 << rng.below(8);
            }
            (p, "frame_header_bit_flipped")
        }
        _ => {
            // zero out the tail: same length, tokens turn into zeros / EOBs
            let n = p.len();
            let from = n - (rng.below((n as u64 / 2).max(1)) as usize).min(n);
            for b in &mut p[from..] {
                *b = 0;
            }
            (p, "tail_zeroed")
        }
    }
}

// ---------------------------------------------------------------------------------------------------------------
// run
// ---------------------------------------------------------------------------------------------------------------
pub fn run(tier: &str, seed: u64, outdir: &str, extra: &[String]) {
    let mut out = Out::new(outdir);
    let mut rng = Rng::new(seed ^ 0xC02);
    let mut feats: BTreeMap<String, u64> = BTreeMap::new();
    let mut skipped_big: Vec<String> = vec![];
    let (mut n_ok, mut n_err) = (0u64, 0u64);
    let emit = |out: &mut Out, payload: &[u8], n_ok: &mut u64, n_err: &mut u64| {
        let r = lw_decode_yuv(payload);
        if r == "ERR" {
            *n_err += 1
        } else {
            *n_ok += 1
        }
        out.case(&format!("vp8 {}", hex(payload)), &r);
    };

    if tier == "replay" {
        let txt = std::fs::read_to_string(&extra[0]).unwrap_or_default();
        for line in txt.lines() {
            let ws: Vec<&str> = line.split_whitespace().collect();
            if ws.len() == 2 && ws[0] == "vp8" {
                emit(&mut out, &unhex(ws[1]), &mut n_ok, &mut n_err);
            }
        }
        out.finish(&format!("{{\"evaluations\": {}, \"valid\": {}, \"invalid\": {}, \"violations\": []}}", n_ok + n_err, n_ok, n_err));
        return;
    }

    // (a) files of the repository
    let repo = std::env::var("VERIF_REPO").unwrap_or_else(|_| "/repo".to_string());
    let max_mbs: usize = if tier == "thorough" { 4000 } else { 900 };
    let mut files = vec![];
    walk(&std::path::Path::new(&repo).join("tests/images"), &mut files);
    let (mut n_file_chunks, mut n_files) = (0u64, 0u64);
    // the big frames are spread over the case file so that the oracle's contiguous shards share them
    let mut file_payloads: Vec<Vec<u8>> = vec![];
    for f in &files {
        let d = match std::fs::read(f) {
            Ok(d) => d,
            Err(_) => continue,
        };
        let cs = vp8_chunks(&d);
        if !cs.is_empty() {
            n_files += 1;
        }
        for (k, c) in cs.iter().enumerate() {
            if c.len() < 10 {
                continue;
            }
            let w = ((c[6] as usize) | (c[7] as usize) << 8) & 0x3fff;
            let h = ((c[8] as usize) | (c[9] as usize) << 8) & 0x3fff;
            let mbs = ((w + 15) / 16) * ((h + 15) / 16);
            let name = f.strip_prefix(&repo).unwrap_or(f).display().to_string();
            if mbs > max_mbs {
                skipped_big.push(format!("{}#{} {}x{}", name, k, w, h));
                continue;
            }
            // quick tier: the first 4 frames of an animation are enough
            if tier != "thorough" && k >= 4 {
                continue;
            }
            n_file_chunks += 1;
            file_payloads.push(c.clone());
        }
    }

    // (b) encoder-made streams, (c) re-written headers, (d) damaged streams
    let n_enc: usize = if tier == "thorough" { 1100 } else { 60 };
    let n_rw: usize = if tier == "thorough" { 450 } else { 40 };
    let n_dmg: usize = if tier == "thorough" { 250 } else { 24 };
    let mut sizes: BTreeMap<String, u64> = BTreeMap::new();
    let mut res_w = [0u64; 16];
    let mut res_h = [0u64; 16];
    let mut pool: Vec<Vec<u8>> = vec![];
    let mut n_encoded = 0u64;
    let mut rw_samples: Vec<String> = vec![];
    file_payloads.sort_by_key(|p| std::cmp::Reverse(p.len()));
    let stride = (n_enc / (file_payloads.len() + 1)).max(1);
    let mut next_file = 0usize;
    for it in 0..n_enc {
        if it % stride == 0 && next_file < file_payloads.len() {
            emit(&mut out, &file_payloads[next_file], &mut n_ok, &mut n_err);
            next_file += 1;
        }
        // every residue mod 16 in both dimensions: walk the residues, randomise the multiple
        let (w, h) = if it % 5 == 4 {
            (1 + rng.below(48) as i32, 1 + rng.below(48) as i32)
        } else {
            let rw = (it % 16) as i32;
            let rh = ((it / 16 + it) % 16) as i32;
            let w = rw + 16 * rng.below(3) as i32;
            let h = rh + 16 * rng.below(3) as i32;
            (if w == 0 { 16 * (1 + rng.below(3) as i32) } else { w }, if h == 0 { 16 * (1 + rng.below(3) as i32) } else { h })
        };
        let kind = rng.below(KINDS.len() as u64) as usize;
        let rgb = synth(kind, w, h, &mut rng);
        let c = Cfg {
            quality: rng.below(101) as f32,
            method: rng.below(7) as i32,
            segments: 1 + rng.below(4) as i32,
            sns: rng.below(101) as i32,
            fstrength: if rng.chance(1, 8) { 0 } else { rng.below(101) as i32 },
            sharp: rng.below(8) as i32,
            ftype: rng.below(2) as i32,
            autofilter: rng.chance(1, 4) as i32,
            partitions: rng.below(4) as i32,
            preprocessing: rng.below(8) as i32,
            partition_limit: if rng.chance(1, 4) { rng.below(101) as i32 } else { 0 },
            pass: 1 + rng.below(3) as i32,
        };
        let file = match lw_encode(w, h, &rgb, &c) {
            Some(f) => f,
            None => continue,
        };
        let cs = vp8_chunks(&file);
        if cs.is_empty() {
            continue;
        }
        let p = cs[0].clone();
        res_w[(w % 16) as usize] += 1;
        res_h[(h % 16) as usize] += 1;
        *sizes.entry(format!("{}x{}mb", (w + 15) / 16, (h + 15) / 16)).or_insert(0) += 1;
        *feats.entry(format!("img_{}", KINDS[kind])).or_insert(0) += 1;
        *feats.entry(format!("enc_partitions_{}", 1 << c.partitions)).or_insert(0) += 1;
        *feats.entry(format!("enc_segments_{}", c.segments)).or_insert(0) += 1;
        *feats.entry(format!("enc_filter_{}", if c.fstrength == 0 { "0" } else if c.ftype == 0 { "simple" } else { "normal" })).or_insert(0) += 1;
        *feats.entry(format!("enc_method_{}", c.method)).or_insert(0) += 1;
        n_encoded += 1;
        emit(&mut out, &p, &mut n_ok, &mut n_err);
        if pool.len() < 600 {
            pool.push(p);
        }
    }
    while next_file < file_payloads.len() {
        emit(&mut out, &file_payloads[next_file], &mut n_ok, &mut n_err);
        next_file += 1;
    }
    let mut n_rw_done = 0u64;
    let (mut ident_ok, mut ident_bad) = (0u64, 0u64);
    if !pool.is_empty() {
        for k in 0..n_rw {
            let src = rng.pick(&pool).clone();
            let (old, _, _, _) = match payload_hdr(&src) {
                Some(x) => x,
                None => continue,
            };
            // sanity of the re-writer itself: the unchanged header must give libwebp's result for the original
            if k % 8 == 0 {
                if let Some((p, _, _)) = rewrite_with(&src, &old) {
                    if lw_decode_yuv(&p) == lw_decode_yuv(&src) {
                        ident_ok += 1
                    } else {
                        ident_bad += 1
                    }
                }
            }
            let (new, desc) = edit(&old, &mut rng, &mut feats);
            if let Some((p, nskip, ni4)) = rewrite_with(&src, &new) {
                if rw_samples.len() < 5 {
                    rw_samples.push(format!("{} skip={} i4={}", desc, nskip, ni4));
                }
                n_rw_done += 1;
                emit(&mut out, &p, &mut n_ok, &mut n_err);
            }
        }
    }
    // (e) synthetic key frames
    let n_syn: usize = if tier == "thorough" { 700 } else { 60 };
    for _ in 0..n_syn {
        let p = synth_frame(&mut rng, &mut feats);
        if pool.len() < 900 && rng.chance(1, 3) {
            pool.push(p.clone()); // also a source of damaged streams
        }
        emit(&mut out, &p, &mut n_ok, &mut n_err);
    }
    let mut dmg_kinds: BTreeMap<String, u64> = BTreeMap::new();
    if !pool.is_empty() {
        for _ in 0..n_dmg {
            let src = rng.pick(&pool).clone();
            let (p, kind) = damage(&src, &mut rng);
            *dmg_kinds.entry(kind.to_string()).or_insert(0) += 1;
            emit(&mut out, &p, &mut n_ok, &mut n_err);
        }
    }
    let jmap = |m: &BTreeMap<String, u64>| format!("{{{}}}", m.iter().map(|(k, v)| format!("{}: {}", jstr(k), v)).collect::<Vec<_>>().join(", "));
    let stats = format!(
        "{{\"evaluations\": {}, \"valid\": {}, \"invalid\": {}, \"repo_files_with_vp8\": {}, \"repo_vp8_chunks\": {}, \"skipped_too_big\": [{}], \
         \"encoded\": {}, \"rewritten\": {}, \"rewriter_identity_ok\": {}, \"rewriter_identity_bad\": {}, \"synthetic\": {}, \"damaged\": {}, \"width_mod16\": {:?}, \"height_mod16\": {:?}, \"mb_sizes\": {}, \"features\": {}, \
         \"damage_kinds\": {}, \"rewrite_samples\": [{}], \"violations\": []}}",
        n_ok + n_err,
        n_ok,
        n_err,
        n_files,
        n_file_chunks,
        skipped_big.iter().map(|s| jstr(s)).collect::<Vec<_>>().join(", "),
        n_encoded,
        n_rw_done,
        ident_ok,
        ident_bad,
        n_syn,
        n_dmg,
        res_w,
        res_h,
        jmap(&sizes),
        jmap(&feats),
        jmap(&dmg_kinds),
        rw_samples.iter().map(|s| jstr(s)).collect::<Vec<_>>().join(", ")
    );
    out.finish(&stats);
}

// ---------------------------------------------------------------------------------------------------------------
// synthetic key frames (source (e)): a VP8 key-frame writer producing streams no encoder emits -- random modes at
// every frame position, random token patterns (immediate EOB, zero runs, explicit zeros to the end of the block,
// every category), random header states.  Token magnitudes are budgeted so that the sum of |dequantised
// coefficient| per block stays below 3000, which keeps the whole residual pipeline inside 16 bits.
// ---------------------------------------------------------------------------------------------------------------
const COEFF_TREE: [i8; 22] = [-11, 2, 0, 4, -1, 6, 8, 12, -2, 10, -3, -4, 14, 16, -5, -6, 18, 20, -7, -8, -9, -10];
const CAT_PROBS: [&[u8]; 6] = [&[159], &[165, 145], &[173, 148, 140], &[176, 155, 140, 135], &[180, 157, 141, 134, 130],
    &[254, 254, 243, 230, 196, 177, 153, 140, 133, 130, 129]];
const CAT_BASE: [u32; 6] = [5, 7, 11, 19, 35, 67];

/// write the leaf `leaf` of an RFC-layout tree starting at index `start`
fn write_tree(e: &mut BoolEnc, tree: &[i8], probs: &[u8], start: usize, leaf: i8) {
    fn find(tree: &[i8], i: usize, leaf: i8, path: &mut Vec<(usize, u32)>) -> bool {
        for b in 0..2u32 {
            let j = tree[i + b as usize];
            path.push((i >> 1, b));
            if j > 0 {
                if find(tree, j as usize, leaf, path) {
                    return true;
                }
            } else if -j == leaf {
                return true;
            }
            path.pop();
        }
        false
    }
    let mut path = vec![];
    assert!(find(tree, start, leaf, &mut path), "leaf not in tree");
    for (pi, b) in path {
        e.bit(probs[pi] as u32, b);
    }
}

struct NzCtx {
    y: [u8; 4],
    u: [u8; 2],
    v: [u8; 2],
    dc: u8,
}
impl NzCtx {
    fn new() -> Self {
        NzCtx { y: [0; 4], u: [0; 2], v: [0; 2], dc: 0 }
    }
}

/// one block: choose a token pattern within `budget`, write it, return (nz as libwebp counts it, sum |coef|, first value)
fn write_block(e: &mut BoolEnc, rng: &mut Rng, probas: &[u8], ty: usize, ctx0: usize, first: usize, dq: (u32, u32), budget: u32,
               feats: &mut BTreeMap<String, u64>) -> (usize, u32, i32) {
    let shape = rng.below(10);
    let end: usize = match shape {
        0..=2 => first,                                 // immediate end of block
        3 => 16,                                        // explicit tokens to the end
        _ => first + 1 + rng.below((16 - first) as u64) as usize,
    };
    let mut vals = vec![0i32; 16];
    let mut left = budget;
    let dense = rng.chance(1, 3);
    let all_zero = shape == 3 && rng.chance(1, 3);
    for n in first..end {
        let q = if n == 0 { dq.0 } else { dq.1 };
        let maxv = left / q.max(1);
        let must = n + 1 == end && end < 16; // an end of block cannot follow a zero
        let zero = !must && !(dense && rng.chance(3, 4)) && rng.chance(1, 2);
        let mut v: u32 = if zero {
            0
        } else {
            match rng.below(12) {
                0..=4 => 1,
                5 | 6 => rng.range(2, 4) as u32,
                7 => rng.range(5, 6) as u32,
                8 => rng.range(7, 10) as u32,
                9 => rng.range(11, 34) as u32,
                10 => rng.range(35, 66) as u32,
                _ => rng.range(67, 2114) as u32,
            }
        };
        if all_zero || (shape == 3 && rng.chance(1, 4)) {
            v = 0
        }
        v = v.min(maxv);
        if must && v == 0 {
            // no budget left for the mandatory non-zero: end the block earlier instead (handled below)
            vals[n] = 0;
            continue;
        }
        left -= v * q;
        vals[n] = if rng.chance(1, 2) { -(v as i32) } else { v as i32 };
    }
    // the coded length: if end < 16 the last coded value must be non-zero -> trim trailing zeros
    let mut end = end;
    if end < 16 {
        while end > first && vals[end - 1] == 0 {
            end -= 1;
        }
    }
    let mut ctx = ctx0;
    let mut after_zero = false;
    let mut sum = 0u32;
    for n in first..end {
        let p = &probas[((ty * 8 + BANDS[n] as usize) * 3 + ctx) * 11..][..11];
        let v = vals[n].unsigned_abs();
        let start = if after_zero { 2 } else { 0 };
        let tok: i8 = match v {
            0..=4 => v as i8,
            5..=6 => 5,
            7..=10 => 6,
            11..=18 => 7,
            19..=34 => 8,
            35..=66 => 9,
            _ => 10,
        };
        write_tree(e, &COEFF_TREE, p, start, tok);
        if tok >= 5 {
            let c = (tok - 5) as usize;
            let extra = v - CAT_BASE[c];
            let nb = CAT_PROBS[c].len();
            for (k, &pp) in CAT_PROBS[c].iter().enumerate() {
                e.bit(pp as u32, (extra >> (nb - 1 - k)) & 1);
            }
            *feats.entry(format!("syn_tok_cat{}", c + 1)).or_insert(0) += 1;
        }
        if v != 0 {
            e.bit(128, (vals[n] < 0) as u32);
            sum += v * if n == 0 { dq.0 } else { dq.1 };
        }
        after_zero = v == 0;
        ctx = if v == 0 { 0 } else if v == 1 { 1 } else { 2 };
    }
    if end < 16 {
        let p = &probas[((ty * 8 + BANDS[end] as usize) * 3 + ctx) * 11..][..11];
        write_tree(e, &COEFF_TREE, p, 0, 11);
    } else if vals[first..16].iter().all(|&v| v == 0) {
        *feats.entry("syn_block_all_explicit_zeros".into()).or_insert(0) += 1;
    }
    (end, sum, vals[0] * dq.0 as i32)
}

pub fn synth_frame(rng: &mut Rng, feats: &mut BTreeMap<String, u64>) -> Vec<u8> {
    // per-block budget for the sum of |dequantised coefficient|; 3000 keeps Spec.VP8.in_range true (9 * sum + 4 < 2^15).
    // C02SPEC_BUDGET overrides it for experiments on the boundary of the 16-bit pipeline (results then only
    // comparable where `vp8range` answers INRANGE 1).
    let budget: u32 = std::env::var("C02SPEC_BUDGET").ok().and_then(|v| v.parse().ok()).unwrap_or(3000);
    let w = 1 + rng.below(48) as usize;
    let h = 1 + rng.below(48) as usize;
    let (mbw, mbh) = ((w + 15) / 16, (h + 15) / 16);
    let mut hd = Hdr::default();
    hd.color_space = rng.below(2) as u32;
    hd.clamp = rng.below(2) as u32;
    hd.use_seg = rng.chance(1, 2);
    hd.absolute = true;
    if hd.use_seg {
        hd.update_map = rng.chance(3, 4);
        hd.update_data = rng.chance(7, 8);
        hd.absolute = rng.chance(1, 2);
        for s in 0..4 {
            hd.seg_q[s] = if hd.absolute { rng.below(128) as i32 } else { rng.range(0, 254) as i32 - 127 };
            hd.seg_f[s] = if hd.absolute { rng.below(64) as i32 } else { rng.range(0, 126) as i32 - 63 };
            if rng.chance(1, 6) {
                hd.seg_q[s] = 0;
                hd.seg_f[s] = 0;
            }
        }
        for i in 0..3 {
            hd.seg_p[i] = if rng.chance(2, 3) { Some(rng.below(256) as u32) } else { None };
        }
    }
    hd.simple = rng.below(2) as u32;
    hd.level = if rng.chance(1, 6) { 0 } else { rng.below(64) as u32 };
    hd.sharp = rng.below(8) as u32;
    hd.use_lf_delta = rng.chance(1, 2);
    if hd.use_lf_delta {
        hd.update_lf_delta = rng.chance(5, 6);
        let small = rng.chance(1, 2);
        for i in 0..4 {
            let pick = |rng: &mut Rng| if small { rng.range(0, 16) as i32 - 8 } else { rng.range(0, 126) as i32 - 63 };
            hd.ref_d[i] = if rng.chance(3, 4) { Some(pick(rng)) } else { None };
            hd.mode_d[i] = if rng.chance(3, 4) { Some(pick(rng)) } else { None };
        }
    }
    hd.log2_parts = rng.below(4) as u32;
    hd.base_q = rng.below(128) as u32;
    for i in 0..5 {
        hd.dq[i] = if rng.chance(1, 2) { 0 } else { rng.range(0, 30) as i32 - 15 };
    }
    hd.refresh = rng.below(2) as u32;
    let upd_rate = *rng.pick(&[0u64, 0, 40, 8]);
    let mut probas = COEFFS_PROBA0.to_vec();
    hd.proba_upd = (0..1056)
        .map(|i| {
            if upd_rate > 0 && rng.chance(1, upd_rate) {
                let v = if rng.chance(1, 10) { *rng.pick(&[0u32, 1, 255, 128]) } else { rng.below(256) as u32 };
                probas[i] = v as u8;
                Some(v)
            } else {
                None
            }
        })
        .collect();
    hd.use_skip = rng.chance(2, 3);
    hd.skip_p = rng.below(256) as u32;
    *feats.entry(format!("syn_parts_{}", 1 << hd.log2_parts)).or_insert(0) += 1;
    *feats.entry(format!("syn_filter_{}", if hd.level == 0 { "off" } else if hd.simple == 1 { "simple" } else { "normal" })).or_insert(0) += 1;
    if hd.use_seg {
        *feats.entry(format!("syn_seg_{}{}", if hd.absolute { "abs" } else { "delta" }, if hd.update_map { "_map" } else { "" })).or_insert(0) += 1;
    }
    // dequantisation factors per segment, as the decoder derives them
    let quant = |s: usize| -> [(u32, u32); 3] {
        let (absolute, segq) = if hd.use_seg && !hd.update_data { (true, 0) } else { (hd.absolute, hd.seg_q[s]) };
        let q: i32 = if hd.use_seg { segq + if absolute { 0 } else { hd.base_q as i32 } } else { hd.base_q as i32 };
        let idx = |d: i32, m: i32| (q + d).clamp(0, m) as usize;
        let y2ac = (AC_TABLE[idx(hd.dq[2], 127)] as u32 * 155 / 100).max(8);
        [
            (DC_TABLE[idx(hd.dq[0], 127)] as u32, AC_TABLE[idx(0, 127)] as u32),
            (DC_TABLE[idx(hd.dq[1], 127)] as u32 * 2, y2ac),
            (DC_TABLE[idx(hd.dq[3], 117)] as u32, AC_TABLE[idx(hd.dq[4], 127)] as u32),
        ]
    };
    let mut e0 = BoolEnc::new();
    write_hdr(&mut e0, &hd);
    let nparts = 1usize << hd.log2_parts;
    let mut pe: Vec<BoolEnc> = (0..nparts).map(|_| BoolEnc::new()).collect();
    let seg_p = [hd.seg_p[0].unwrap_or(255), hd.seg_p[1].unwrap_or(255), hd.seg_p[2].unwrap_or(255)];
    let mut top_modes = vec![0u8; 4 * mbw];
    let mut top_nz: Vec<NzCtx> = (0..mbw).map(|_| NzCtx::new()).collect();
    let skip_bias = rng.range(1, 6);
    let i4_bias = rng.range(1, 4);
    for my in 0..mbh {
        let mut left_modes = [0u8; 4];
        let mut left_nz = NzCtx::new();
        let e = &mut pe[my & (nparts - 1)];
        for mx in 0..mbw {
            // ---- modes (first partition) ----
            let seg = if hd.use_seg && hd.update_map { rng.below(4) as usize } else { 0 };
            if hd.use_seg && hd.update_map {
                e0.bit(seg_p[0], (seg >> 1) as u32);
                e0.bit(if seg < 2 { seg_p[1] } else { seg_p[2] }, (seg & 1) as u32);
            }
            let skip = hd.use_skip && rng.chance(1, skip_bias);
            if hd.use_skip {
                e0.bit(hd.skip_p, skip as u32);
            }
            let i4 = rng.chance(1, i4_bias);
            if i4 {
                e0.bit(145, 0);
                for y in 0..4 {
                    let mut ymode = left_modes[y];
                    for x in 0..4 {
                        let base = (top_modes[4 * mx + x] as usize * 10 + ymode as usize) * 9;
                        let prob = &BMODES_PROBA[base..base + 9];
                        let m = rng.below(10) as i8;
                        // libwebp layout -> walk: find the path by brute force over the 18-entry table
                        let rfc: Vec<i8> = YMODES_INTRA4.iter().map(|&v| if v > 0 { 2 * v } else { v }).collect();
                        write_tree(&mut e0, &rfc, prob, 0, m);
                        ymode = m as u8;
                        top_modes[4 * mx + x] = ymode;
                    }
                    left_modes[y] = ymode;
                }
                *feats.entry("syn_mb_i4x4".into()).or_insert(0) += 1;
            } else {
                e0.bit(145, 1);
                let ym = rng.below(4) as u8; // libwebp numbering DC 0, TM 1, V 2, H 3
                let (b, c) = match ym {
                    0 => (0, 0),
                    2 => (0, 1),
                    3 => (1, 0),
                    _ => (1, 1),
                };
                e0.bit(156, b);
                e0.bit(if b == 1 { 128 } else { 163 }, c);
                for k in 0..4 {
                    top_modes[4 * mx + k] = ym;
                    left_modes[k] = ym;
                }
                *feats.entry("syn_mb_i16".into()).or_insert(0) += 1;
            }
            match rng.below(4) {
                0 => e0.bit(142, 0),
                1 => {
                    e0.bit(142, 1);
                    e0.bit(114, 0)
                }
                2 => {
                    e0.bit(142, 1);
                    e0.bit(114, 1);
                    e0.bit(183, 0)
                }
                _ => {
                    e0.bit(142, 1);
                    e0.bit(114, 1);
                    e0.bit(183, 1)
                }
            }
            // ---- tokens ----
            let t = &mut top_nz[mx];
            if skip {
                *feats.entry("syn_mb_skipped".into()).or_insert(0) += 1;
                t.y = [0; 4];
                t.u = [0; 2];
                t.v = [0; 2];
                left_nz.y = [0; 4];
                left_nz.u = [0; 2];
                left_nz.v = [0; 2];
                if !i4 {
                    t.dc = 0;
                    left_nz.dc = 0;
                }
                continue;
            }
            let q = quant(seg);
            let mut ydc_budget_used = 0u32;
            let first = if i4 {
                0
            } else {
                let (nz, sum, _) = write_block(e, rng, &probas, 1, (t.dc + left_nz.dc) as usize, 0, q[1], budget, feats);
                t.dc = (nz > 0) as u8;
                left_nz.dc = t.dc;
                ydc_budget_used = (sum + 3) / 8 + 1;
                1
            };
            let yty = if i4 { 3 } else { 0 };
            for y in 0..4 {
                let mut l = left_nz.y[y];
                for x in 0..4 {
                    let (nz, _, _) = write_block(e, rng, &probas, yty, (l + t.y[x]) as usize, first, q[0], (budget - 100).saturating_sub(ydc_budget_used), feats);
                    l = (nz > first) as u8;
                    t.y[x] = l;
                }
                left_nz.y[y] = l;
            }
            for ch in 0..2 {
                for y in 0..2 {
                    let mut l = if ch == 0 { left_nz.u[y] } else { left_nz.v[y] };
                    for x in 0..2 {
                        let tt = if ch == 0 { t.u[x] } else { t.v[x] };
                        let (nz, _, _) = write_block(e, rng, &probas, 2, (l + tt) as usize, 0, q[2], budget, feats);
                        l = (nz > 0) as u8;
                        if ch == 0 {
                            t.u[x] = l
                        } else {
                            t.v[x] = l
                        }
                    }
                    if ch == 0 {
                        left_nz.u[y] = l
                    } else {
                        left_nz.v[y] = l
                    }
                }
            }
        }
    }
    let p0 = e0.finish();
    let parts: Vec<Vec<u8>> = pe.into_iter().map(|e| e.finish()).collect();
    let profile = rng.below(4) as u32;
    let bits = (profile << 1) | (1 << 4) | ((p0.len() as u32) << 5);
    let mut out = vec![bits as u8, (bits >> 8) as u8, (bits >> 16) as u8, 0x9d, 0x01, 0x2a];
    let sx = rng.below(4) as usize;
    let sy = rng.below(4) as usize;
    out.extend_from_slice(&[(w & 255) as u8, ((w >> 8) | (sx << 6)) as u8, (h & 255) as u8, ((h >> 8) | (sy << 6)) as u8]);
    out.extend_from_slice(&p0);
    for p in &parts[..nparts - 1] {
        out.extend_from_slice(&[(p.len() & 255) as u8, ((p.len() >> 8) & 255) as u8, ((p.len() >> 16) & 255) as u8]);
    }
    for p in &parts {
        out.extend_from_slice(p);
    }
    out
}
