//! VP8 intra prediction (C02): every predictor of vp8.rs, `add_residue`, `predict_4x4`, `create_border_luma`, the
//! neighbour readers and the two callers `intra_predict_luma` / `intra_predict_chroma` (the chroma border is built
//! inline there), through the `image_webp::verif::vp8_*` hooks, on generated bordered workspaces.
//!  * cases for the Coq oracle (Model/Vp8Predict.v): implementation = Model, including panics;
//!  * natively: the written block against formulas transcribed from libwebp 1.3.1 src/dsp/dec.c (TrueMotion, VE16,
//!    HE16, DC16*, VE4 ... HU4, the 8x8 chroma versions) and src/dec/frame_dec.c (127 / 129 borders, top-right
//!    replication), which do not use the crate.  A mismatch is a violation.
use crate::util::*;
use image_webp::verif as iw;
use std::collections::BTreeMap;

// ------------------------------------------------------------------------------------------------
// reference formulas (libwebp dsp/dec.c); dst = &ws[y0 * bps + x0], BPS = bps
// ------------------------------------------------------------------------------------------------
fn avg3(a: i32, b: i32, c: i32) -> u8 {
    ((a + 2 * b + c + 2) >> 2) as u8
}
fn avg2(a: i32, b: i32) -> u8 {
    ((a + b + 1) >> 1) as u8
}
fn clip8(v: i32) -> u8 {
    v.clamp(0, 255) as u8
}

/// the `size` x `size` block predicted by libwebp's function for `which`; None when the predictor is unknown
fn lw_block(which: &str, ws: &[u8], size: usize, x0: usize, y0: usize, bps: usize, above: bool, left: bool) -> Option<Vec<u8>> {
    let d = |dx: i32, dy: i32| -> i32 { ws[((y0 as i32 + dy) * bps as i32 + x0 as i32 + dx) as usize] as i32 };
    let mut out = vec![0u8; size * size];
    let mut put = |x: usize, y: usize, v: u8| out[y * size + x] = v;
    match which {
        "tmpred" => {
            for y in 0..size { for x in 0..size { put(x, y, clip8(d(x as i32, -1) + d(-1, y as i32) - d(-1, -1))); } }
        }
        "vpred" => {
            for y in 0..size { for x in 0..size { put(x, y, d(x as i32, -1) as u8); } }
        }
        "hpred" => {
            for y in 0..size { for x in 0..size { put(x, y, d(-1, y as i32) as u8); } }
        }
        "dcpred" => {
            // DC16 / DC16NoTop / DC16NoLeft / DC16NoTopLeft and the DC8uv versions
            let n = size as i32;
            let sh = if size == 16 { 4 } else { 3 };
            let mut t = 0; let mut l = 0;
            for i in 0..n { t += d(i, -1); l += d(-1, i); }
            let dc = if above && left { (t + l + n) >> (sh + 1) }
                     else if left { (l + (n >> 1)) >> sh }
                     else if above { (t + (n >> 1)) >> sh }
                     else { 0x80 };
            for y in 0..size { for x in 0..size { put(x, y, dc as u8); } }
        }
        "bdcpred" => {
            let mut dc = 4;
            for i in 0..4 { dc += d(i, -1) + d(-1, i); }
            dc >>= 3;
            for y in 0..4 { for x in 0..4 { put(x, y, dc as u8); } }
        }
        "bvepred" => {
            let vals = [avg3(d(-1, -1), d(0, -1), d(1, -1)), avg3(d(0, -1), d(1, -1), d(2, -1)),
                        avg3(d(1, -1), d(2, -1), d(3, -1)), avg3(d(2, -1), d(3, -1), d(4, -1))];
            for y in 0..4 { for x in 0..4 { put(x, y, vals[x]); } }
        }
        "bhepred" => {
            let (a, b, c, dd, e) = (d(-1, -1), d(-1, 0), d(-1, 1), d(-1, 2), d(-1, 3));
            let vals = [avg3(a, b, c), avg3(b, c, dd), avg3(c, dd, e), avg3(dd, e, e)];
            for y in 0..4 { for x in 0..4 { put(x, y, vals[y]); } }
        }
        "brdpred" => {
            let (i, j, k, l) = (d(-1, 0), d(-1, 1), d(-1, 2), d(-1, 3));
            let (x, a, b, c, dd) = (d(-1, -1), d(0, -1), d(1, -1), d(2, -1), d(3, -1));
            put(0, 3, avg3(j, k, l));
            let v = avg3(i, j, k); put(1, 3, v); put(0, 2, v);
            let v = avg3(x, i, j); put(2, 3, v); put(1, 2, v); put(0, 1, v);
            let v = avg3(a, x, i); put(3, 3, v); put(2, 2, v); put(1, 1, v); put(0, 0, v);
            let v = avg3(b, a, x); put(3, 2, v); put(2, 1, v); put(1, 0, v);
            let v = avg3(c, b, a); put(3, 1, v); put(2, 0, v);
            put(3, 0, avg3(dd, c, b));
        }
        "bldpred" => {
            let (a, b, c, dd, e, f, g, h) = (d(0, -1), d(1, -1), d(2, -1), d(3, -1), d(4, -1), d(5, -1), d(6, -1), d(7, -1));
            put(0, 0, avg3(a, b, c));
            let v = avg3(b, c, dd); put(1, 0, v); put(0, 1, v);
            let v = avg3(c, dd, e); put(2, 0, v); put(1, 1, v); put(0, 2, v);
            let v = avg3(dd, e, f); put(3, 0, v); put(2, 1, v); put(1, 2, v); put(0, 3, v);
            let v = avg3(e, f, g); put(3, 1, v); put(2, 2, v); put(1, 3, v);
            let v = avg3(f, g, h); put(3, 2, v); put(2, 3, v);
            put(3, 3, avg3(g, h, h));
        }
        "bvrpred" => {
            let (i, j, k) = (d(-1, 0), d(-1, 1), d(-1, 2));
            let (x, a, b, c, dd) = (d(-1, -1), d(0, -1), d(1, -1), d(2, -1), d(3, -1));
            let v = avg2(x, a); put(0, 0, v); put(1, 2, v);
            let v = avg2(a, b); put(1, 0, v); put(2, 2, v);
            let v = avg2(b, c); put(2, 0, v); put(3, 2, v);
            put(3, 0, avg2(c, dd));
            put(0, 3, avg3(k, j, i));
            put(0, 2, avg3(j, i, x));
            let v = avg3(i, x, a); put(0, 1, v); put(1, 3, v);
            let v = avg3(x, a, b); put(1, 1, v); put(2, 3, v);
            let v = avg3(a, b, c); put(2, 1, v); put(3, 3, v);
            put(3, 1, avg3(b, c, dd));
        }
        "bvlpred" => {
            let (a, b, c, dd, e, f, g, h) = (d(0, -1), d(1, -1), d(2, -1), d(3, -1), d(4, -1), d(5, -1), d(6, -1), d(7, -1));
            put(0, 0, avg2(a, b));
            let v = avg2(b, c); put(1, 0, v); put(0, 2, v);
            let v = avg2(c, dd); put(2, 0, v); put(1, 2, v);
            let v = avg2(dd, e); put(3, 0, v); put(2, 2, v);
            put(0, 1, avg3(a, b, c));
            let v = avg3(b, c, dd); put(1, 1, v); put(0, 3, v);
            let v = avg3(c, dd, e); put(2, 1, v); put(1, 3, v);
            let v = avg3(dd, e, f); put(3, 1, v); put(2, 3, v);
            put(3, 2, avg3(e, f, g));
            put(3, 3, avg3(f, g, h));
        }
        "bhupred" => {
            let (i, j, k, l) = (d(-1, 0), d(-1, 1), d(-1, 2), d(-1, 3));
            put(0, 0, avg2(i, j));
            let v = avg2(j, k); put(2, 0, v); put(0, 1, v);
            let v = avg2(k, l); put(2, 1, v); put(0, 2, v);
            put(1, 0, avg3(i, j, k));
            let v = avg3(j, k, l); put(3, 0, v); put(1, 1, v);
            let v = avg3(k, l, l); put(3, 1, v); put(1, 2, v);
            for (x, y) in [(3, 2), (2, 2), (0, 3), (1, 3), (2, 3), (3, 3)] { put(x, y, l as u8); }
        }
        "bhdpred" => {
            let (i, j, k, l) = (d(-1, 0), d(-1, 1), d(-1, 2), d(-1, 3));
            let (x, a, b, c) = (d(-1, -1), d(0, -1), d(1, -1), d(2, -1));
            let v = avg2(i, x); put(0, 0, v); put(2, 1, v);
            let v = avg2(j, i); put(0, 1, v); put(2, 2, v);
            let v = avg2(k, j); put(0, 2, v); put(2, 3, v);
            put(0, 3, avg2(l, k));
            put(3, 0, avg3(a, b, c));
            put(2, 0, avg3(x, a, b));
            let v = avg3(i, x, a); put(1, 0, v); put(3, 1, v);
            let v = avg3(j, i, x); put(1, 1, v); put(3, 2, v);
            let v = avg3(k, j, i); put(1, 2, v); put(3, 3, v);
            put(1, 3, avg3(l, k, j));
        }
        _ => return None,
    }
    Some(out)
}

const SUBS: [&str; 10] = ["bdcpred", "tmpred", "bvepred", "bhepred", "bldpred", "brdpred", "bvrpred", "bvlpred", "bhdpred", "bhupred"];
// index = the crate's IntraMode number (vp8.rs B_DC_PRED .. B_HU_PRED)

/// a frame plane with the out-of-frame conventions of the reference decoder (frame_dec.c): row -1 reads 127
/// everywhere, column -1 reads 129 on rows >= 0
fn pget(p: &[u8], w: usize, x: i32, y: i32) -> u8 {
    if y < 0 { 127 } else if x < 0 { 129 } else { p[y as usize * w + x as usize] }
}

/// reference reconstruction of the luma macroblock (mx, my) inside plane `p` (width 16 * mbw); mode numbers of the crate
fn ref_luma_mb(p: &mut [u8], mbw: usize, mx: usize, my: usize, mode: i8, bpred: &[i8; 16], res: &[i32]) {
    let w = 16 * mbw;
    // a libwebp-style work buffer: BPS = 32, block at (8, 8)... here simply a bordered copy with 1 + 16 + 4 columns
    let bps = 21usize;
    let mut ws = vec![0u8; 17 * bps];
    let (bx, by) = (16 * mx as i32, 16 * my as i32);
    for i in 0..21i32 {
        ws[i as usize] = if i <= 16 { pget(p, w, bx - 1 + i, by - 1) }
                         else if mx + 1 == mbw { pget(p, w, bx + 15, by - 1) }
                         else { pget(p, w, bx - 1 + i, by - 1) };
    }
    for j in 0..16 { ws[(j + 1) * bps] = pget(p, w, bx - 1, by + j as i32); }
    if mode != 4 {
        let name = ["dcpred", "vpred", "hpred", "tmpred"][mode as usize];
        let blk = lw_block(name, &ws, 16, 1, 1, bps, my != 0, mx != 0).unwrap();
        for y in 0..16 { for x in 0..16 { ws[(1 + y) * bps + 1 + x] = blk[y * 16 + x]; } }
        for i in 0..16 {
            let (sx, sy) = (i % 4, i / 4);
            for k in 0..16 {
                let idx = (1 + 4 * sy + k / 4) * bps + 1 + 4 * sx + k % 4;
                ws[idx] = clip8(ws[idx] as i32 + res[i * 16 + k].clamp(-100000, 100000));
            }
        }
    } else {
        // top-right of the macroblock for the sub-blocks of the right column, rows 4, 8, 12
        for r in [4usize, 8, 12] { for i in 17..21 { ws[r * bps + i] = ws[i]; } }
        for i in 0..16 {
            let (sx, sy) = (i % 4, i / 4);
            let blk = lw_block(SUBS[bpred[i] as usize], &ws, 4, 1 + 4 * sx, 1 + 4 * sy, bps, true, true).unwrap();
            for k in 0..16 {
                let idx = (1 + 4 * sy + k / 4) * bps + 1 + 4 * sx + k % 4;
                ws[idx] = clip8(blk[k] as i32 + res[i * 16 + k].clamp(-100000, 100000));
            }
        }
    }
    for y in 0..16 { for x in 0..16 { p[(16 * my + y) * w + 16 * mx + x] = ws[(1 + y) * bps + 1 + x]; } }
}

fn ref_chroma_mb(p: &mut [u8], mbw: usize, mx: usize, my: usize, mode: i8, res: &[i32], base: usize) {
    let w = 8 * mbw;
    let bps = 9usize;
    let mut ws = vec![0u8; 9 * bps];
    let (bx, by) = (8 * mx as i32, 8 * my as i32);
    for i in 0..9i32 { ws[i as usize] = pget(p, w, bx - 1 + i, by - 1); }
    for j in 0..8 { ws[(j + 1) * bps] = pget(p, w, bx - 1, by + j as i32); }
    let name = ["dcpred", "vpred", "hpred", "tmpred"][mode as usize];
    let blk = lw_block(name, &ws, 8, 1, 1, bps, my != 0, mx != 0).unwrap();
    for i in 0..4 {
        let (sx, sy) = (i % 2, i / 2);
        for k in 0..16 {
            let (x, y) = (4 * sx + k % 4, 4 * sy + k / 4);
            p[(8 * my + y) * w + 8 * mx + x] = clip8(blk[y * 8 + x] as i32 + res[base + i * 16 + k].clamp(-100000, 100000));
        }
    }
}

// ------------------------------------------------------------------------------------------------
// generators
// ------------------------------------------------------------------------------------------------
fn gen_bytes(rng: &mut Rng, n: usize) -> Vec<u8> {
    match rng.below(8) {
        0 => vec![*rng.pick(&[0u8, 1, 127, 128, 129, 254, 255]); n],
        1 => (0..n).map(|_| *rng.pick(&[0u8, 255])).collect(),
        2 => (0..n).map(|_| *rng.pick(&[0u8, 1, 2, 253, 254, 255])).collect(),
        3 => { let b = rng.byte(); (0..n).map(|k| b.wrapping_add((k as u8).wrapping_mul(3))).collect() }
        _ => rng.bytes(n),
    }
}
fn gen_res(rng: &mut Rng, n: usize, allow_huge: bool) -> Vec<i32> {
    let style = rng.below(10);
    (0..n).map(|_| match style {
        0 => 0,
        1 => rng.range(0, 8) as i32 - 4,
        2 => rng.range(0, 1024) as i32 - 512,
        3 => *rng.pick(&[-256, -255, -1, 0, 1, 255, 256, -100000, 100000]),
        4 if allow_huge => *rng.pick(&[i32::MIN, i32::MAX - 255, i32::MAX - 254, i32::MAX, 0, 7, -9]),
        _ => rng.range(0, 300) as i32 - 150,
    }).collect()
}
fn csv(v: &[i32]) -> String {
    if v.is_empty() { "-".to_string() } else { v.iter().map(|x| x.to_string()).collect::<Vec<_>>().join(",") }
}
fn uncsv(s: &str) -> Vec<i32> {
    if s == "-" { vec![] } else { s.split(',').map(|x| x.parse().unwrap()).collect() }
}
fn hexi8(v: &[i8]) -> String { hex(&v.iter().map(|&x| x as u8).collect::<Vec<_>>()) }

struct St {
    out: Out,
    violations: Vec<String>,
    counts: BTreeMap<String, u64>,
    panics: BTreeMap<String, u64>,
    native: u64,
    tail_writes: u64,
}
impl St {
    fn count(&mut self, k: &str) { *self.counts.entry(k.to_string()).or_insert(0) += 1; }
    fn viol(&mut self, case: &str, what: String) {
        if self.violations.len() < 20 { self.violations.push(format!("{case} : {what}")); }
    }
}

fn run_case(st: &mut St, line: &str) {
    let ws: Vec<&str> = line.split_whitespace().collect();
    if ws.len() < 2 || ws[0] != "vp8i" { return; }
    let us = |s: &str| -> usize { s.parse().unwrap() };
    match ws[1] {
        "pred" if ws.len() == 10 => {
            let (which, size, x0, y0, stride) = (ws[2].to_string(), us(ws[3]), us(ws[4]), us(ws[5]), us(ws[6]));
            let (above, left, native) = (ws[7] == "1", ws[8].starts_with('1'), !ws[8].ends_with('w'));
            let buf = unhex(ws[9]);
            st.count(&format!("predict_{which}"));
            let (w2, b2) = (which.clone(), buf.clone());
            match catch(move || iw::vp8_predict(&w2, b2, size, x0, y0, stride, above, left)) {
                Ok(o) => {
                    if native {
                        let n = if which.starts_with('b') { 4 } else { size };
                        let (bx, by) = if which == "dcpred" { (1, 1) } else { (x0, y0) };
                        let blk = lw_block(&which, &buf, n, bx, by, stride, above, left).unwrap();
                        st.native += 1;
                        let mut bad = None;
                        for k in 0..o.len() {
                            let (x, y) = (k % stride, k / stride);
                            let inside = x >= bx && x < bx + n && y >= by && y < by + n;
                            if inside {
                                let e = blk[(y - by) * n + (x - bx)];
                                if o[k] != e { bad = Some(format!("sample ({},{}) of the block is {} but libwebp's formula gives {}", x - bx, y - by, o[k], e)); break; }
                            } else if o[k] != buf[k] {
                                // predict_vpred / predict_hpred overwrite the tail of each row of the block (unused cells of the workspace)
                                let tail = (which == "vpred" || which == "hpred") && y >= by && y < by + n && x >= bx + n;
                                if tail { st.tail_writes += 1; } else { bad = Some(format!("workspace cell {k} outside the block modified")); break; }
                            }
                        }
                        if let Some(b) = bad { st.viol(line, b); }
                    }
                    st.out.case(line, &format!("OK {}", hex(&o)));
                }
                Err(e) => {
                    *st.panics.entry(format!("predict_{which}")).or_insert(0) += 1;
                    if native { st.viol(line, format!("PANIC {e}")); }
                    st.out.case(line, "PANIC");
                }
            }
        }
        "pix" if ws.len() == 7 => {
            let (which, x0, y0, stride, buf) = (ws[2].to_string(), us(ws[3]), us(ws[4]), us(ws[5]), unhex(ws[6]));
            st.count(&format!("{which}_pixels"));
            let (w2, b2) = (which.clone(), buf.clone());
            match catch(move || iw::vp8_pixels(&w2, &b2, x0, y0, stride)) {
                Ok(o) => st.out.case(line, &format!("OK {}", hex(&o))),
                Err(_) => { *st.panics.entry(format!("{which}_pixels")).or_insert(0) += 1; st.out.case(line, "PANIC"); }
            }
        }
        "res" if ws.len() == 7 => {
            let (y0, x0, stride, buf, r) = (us(ws[2]), us(ws[3]), us(ws[4]), unhex(ws[5]), uncsv(ws[6]));
            st.count("add_residue");
            let rb: [i32; 16] = r.clone().try_into().unwrap();
            let b2 = buf.clone();
            match catch(move || iw::vp8_add_residue(b2, &rb, y0, x0, stride)) {
                Ok(o) => {
                    if stride >= x0 + 4 && (y0 + 4) * stride <= buf.len() {
                        st.native += 1;
                        for k in 0..o.len() {
                            let (x, y) = (k % stride, k / stride);
                            let e = if x >= x0 && x < x0 + 4 && y >= y0 && y < y0 + 4 {
                                (buf[k] as i64 + r[(y - y0) * 4 + (x - x0)] as i64).clamp(0, 255) as u8
                            } else { buf[k] };
                            if o[k] != e { st.viol(line, format!("cell {k} is {} but clip255(pred + residue) / unchanged gives {}", o[k], e)); break; }
                        }
                    }
                    st.out.case(line, &format!("OK {}", hex(&o)));
                }
                Err(_) => { *st.panics.entry("add_residue".into()).or_insert(0) += 1; st.out.case(line, "PANIC"); }
            }
        }
        "p4x4" if ws.len() == 6 => {
            let (stride, modes, buf, r) = (us(ws[2]), unhex(ws[3]), unhex(ws[4]), uncsv(ws[5]));
            st.count("predict_4x4");
            let m8: Vec<i8> = modes.iter().map(|&m| m as i8).collect();
            let (b2, r2, m2) = (buf.clone(), r.clone(), m8.clone());
            match catch(move || iw::vp8_predict_4x4(b2, stride, &m2, &r2)) {
                Ok(o) => {
                    if stride == 21 && buf.len() == 357 && m8.len() == 16 && r.len() >= 256 {
                        st.native += 1;
                        let mut e = buf.clone();
                        for i in 0..16 {
                            let (sx, sy) = (i % 4, i / 4);
                            let blk = lw_block(SUBS[m8[i] as usize], &e, 4, 1 + 4 * sx, 1 + 4 * sy, 21, true, true).unwrap();
                            for k in 0..16 {
                                e[(1 + 4 * sy + k / 4) * 21 + 1 + 4 * sx + k % 4] = (blk[k] as i64 + r[i * 16 + k] as i64).clamp(0, 255) as u8;
                            }
                        }
                        if e != o { st.viol(line, "predict_4x4 differs from sub-block-wise libwebp prediction + clipped residue".into()); }
                    }
                    st.out.case(line, &format!("OK {}", hex(&o)));
                }
                Err(_) => { *st.panics.entry("predict_4x4".into()).or_insert(0) += 1; st.out.case(line, "PANIC"); }
            }
        }
        "bluma" if ws.len() == 8 => {
            // vp8i bluma mbx mby mbw <top> <left> <plane|->   (plane = reference frame rows for the native check)
            let (mbx, mby, mbw, top, left, plane) = (us(ws[2]), us(ws[3]), us(ws[4]), unhex(ws[5]), unhex(ws[6]), unhex(ws[7]));
            st.count("create_border_luma");
            let (t2, l2) = (top.clone(), left.clone());
            match catch(move || iw::vp8_create_border_luma(mbx, mby, mbw, &t2, &l2)) {
                Ok(o) => {
                    if !plane.is_empty() {
                        st.native += 1;
                        let w = 16 * mbw;
                        let (bx, by) = (16 * mbx as i32, 16 * mby as i32);
                        let mut bad = None;
                        for i in 0..21i32 {
                            let e = if i <= 16 { pget(&plane, w, bx - 1 + i, by - 1) }
                                    else if mbx + 1 == mbw { pget(&plane, w, bx + 15, by - 1) }
                                    else { pget(&plane, w, bx - 1 + i, by - 1) };
                            if o[i as usize] != e { bad = Some(format!("above row cell {i} is {} expected {}", o[i as usize], e)); }
                            if i >= 17 { for r in [4usize, 8, 12] { if o[r * 21 + i as usize] != e { bad = Some(format!("top-right copy row {r} cell {i}")); } } }
                        }
                        for j in 0..16 {
                            let e = pget(&plane, w, bx - 1, by + j as i32);
                            if o[(j + 1) * 21] != e { bad = Some(format!("left column cell {j} is {} expected {}", o[(j + 1) * 21], e)); }
                        }
                        if let Some(b) = bad { st.viol(line, b); }
                    }
                    st.out.case(line, &format!("OK {}", hex(&o)));
                }
                Err(e) => {
                    *st.panics.entry("create_border_luma".into()).or_insert(0) += 1;
                    if !plane.is_empty() { st.viol(line, format!("PANIC {e}")); }
                    st.out.case(line, "PANIC");
                }
            }
        }
        "iluma" if ws.len() == 12 => {
            // vp8i iluma mbw mbx mby mode <bpred> <res> <ybuf> <top> <left> native(0/1)
            let (mbw, mbx, mby, mode) = (us(ws[2]), us(ws[3]), us(ws[4]), ws[5].parse::<i8>().unwrap());
            let bp: Vec<i8> = unhex(ws[6]).iter().map(|&m| m as i8).collect();
            let bpred: [i8; 16] = bp.try_into().unwrap();
            let (r, ybuf, top, left, native) = (uncsv(ws[7]), unhex(ws[8]), unhex(ws[9]), unhex(ws[10]), ws[11] == "1");
            st.count("intra_predict_luma");
            let (r2, y2, t2, l2) = (r.clone(), ybuf.clone(), top.clone(), left.clone());
            match catch(move || iw::vp8_intra_predict_luma(mbw as u16, mbx, mby, mode, &bpred, &r2, y2, t2, l2)) {
                Ok((y, t, l)) => {
                    if native {
                        st.native += 1;
                        let mut e = ybuf.clone();
                        ref_luma_mb(&mut e, mbw, mbx, mby, mode, &bpred, &r);
                        if e != y { st.viol(line, "luma plane after intra_predict_luma differs from the libwebp-formula reconstruction".into()); }
                        let w = 16 * mbw;
                        let mut et = top.clone(); let mut el = left.clone();
                        el[0] = if mby == 0 { 127 } else { top[mbx * 16 + 15] };
                        for j in 0..16 { el[1 + j] = e[(16 * mby + j) * w + 16 * mbx + 15]; }
                        for i in 0..16 { et[mbx * 16 + i] = e[(16 * mby + 15) * w + 16 * mbx + i]; }
                        if et != t { st.viol(line, "top_border after intra_predict_luma is not the bottom row of the macroblock".into()); }
                        if el != l { st.viol(line, "left_border after intra_predict_luma is not (above-right corner, right column)".into()); }
                    }
                    st.out.case(line, &format!("OK {} {} {}", hex(&y), hex(&t), hex(&l)));
                }
                Err(e) => {
                    *st.panics.entry("intra_predict_luma".into()).or_insert(0) += 1;
                    if native { st.viol(line, format!("PANIC {e}")); }
                    st.out.case(line, "PANIC");
                }
            }
        }
        "ichroma" if ws.len() == 10 => {
            // vp8i ichroma mbw mbx mby mode <res> <ubuf> <vbuf> native
            let (mbw, mbx, mby, mode) = (us(ws[2]), us(ws[3]), us(ws[4]), ws[5].parse::<i8>().unwrap());
            let (r, ub, vb, native) = (uncsv(ws[6]), unhex(ws[7]), unhex(ws[8]), ws[9] == "1");
            st.count("intra_predict_chroma");
            let (r2, u2, v2) = (r.clone(), ub.clone(), vb.clone());
            match catch(move || iw::vp8_intra_predict_chroma(mbw as u16, mbx, mby, mode, &r2, u2, v2)) {
                Ok((u, v)) => {
                    if native {
                        st.native += 1;
                        let (mut eu, mut ev) = (ub.clone(), vb.clone());
                        ref_chroma_mb(&mut eu, mbw, mbx, mby, mode, &r, 256);
                        ref_chroma_mb(&mut ev, mbw, mbx, mby, mode, &r, 320);
                        if eu != u || ev != v { st.viol(line, "chroma planes after intra_predict_chroma differ from the libwebp-formula reconstruction".into()); }
                    }
                    st.out.case(line, &format!("OK {} {}", hex(&u), hex(&v)));
                }
                Err(e) => {
                    *st.panics.entry("intra_predict_chroma".into()).or_insert(0) += 1;
                    if native { st.viol(line, format!("PANIC {e}")); }
                    st.out.case(line, "PANIC");
                }
            }
        }
        _ => {}
    }
}

/// top_border / left_border as the decoder holds them when it reaches macroblock (mbx, mby) of plane `p`
fn borders_of(rng: &mut Rng, p: &[u8], mbw: usize, width: usize, mbx: usize, mby: usize) -> (Vec<u8>, Vec<u8>) {
    let w = 16 * mbw;
    let mut top = vec![127u8; width + 4 + 16];
    let mut left = vec![129u8; 17];
    if mby > 0 {
        for k in 0..top.len().min(w) {
            // columns left of this macroblock already hold row mby's bottom row (not read): random
            top[k] = if k < 16 * mbx { rng.byte() } else { p[(16 * mby - 1) * w + k] };
        }
    }
    if mbx > 0 {
        for j in 0..16 { left[1 + j] = p[(16 * mby + j) * w + 16 * mbx - 1]; }
        left[0] = if mby > 0 { p[(16 * mby - 1) * w + 16 * mbx - 1] } else { 127 };
    } else if mby > 0 {
        left[0] = rng.byte(); // not read
    }
    (top, left)
}

pub fn run(tier: &str, seed: u64, outdir: &str, extra: &[String]) {
    let mut st = St { out: Out::new(outdir), violations: vec![], counts: BTreeMap::new(), panics: BTreeMap::new(), native: 0, tail_writes: 0 };
    let mut rng = Rng::new(seed);
    let mut lines: Vec<String> = vec![];
    if tier == "replay" {
        for l in std::fs::read_to_string(&extra[0]).unwrap().lines() { lines.push(l.to_string()); }
    } else {
        let reps = if tier == "thorough" { 40 } else { 5 };
        for _ in 0..reps {
            // 4x4 predictors at the 16 sub-block positions of the luma workspace
            for which in SUBS {
                for sy in 0..4 { for sx in 0..4 {
                    let b = gen_bytes(&mut rng, 357);
                    lines.push(format!("vp8i pred {which} 4 {} {} 21 0 1 {}", 1 + 4 * sx, 1 + 4 * sy, hex(&b)));
                } }
            }
            // neighbour readers, add_residue: luma positions and the four chroma positions
            for sy in 0..4 { for sx in 0..4 {
                for which in ["topleft", "top", "left", "edge"] {
                    let b = gen_bytes(&mut rng, 357);
                    lines.push(format!("vp8i pix {which} {} {} 21 {}", 1 + 4 * sx, 1 + 4 * sy, hex(&b)));
                }
                let b = gen_bytes(&mut rng, 357);
                lines.push(format!("vp8i res {} {} 21 {} {}", 1 + 4 * sy, 1 + 4 * sx, hex(&b), csv(&gen_res(&mut rng, 16, true))));
                if sx < 2 && sy < 2 {
                    let b = gen_bytes(&mut rng, 81);
                    lines.push(format!("vp8i res {} {} 9 {} {}", 1 + 4 * sy, 1 + 4 * sx, hex(&b), csv(&gen_res(&mut rng, 16, true))));
                }
            } }
            // 16x16 and 8x8
            for _ in 0..6 {
                for which in ["vpred", "hpred", "tmpred"] {
                    let b = gen_bytes(&mut rng, 357);
                    lines.push(format!("vp8i pred {which} 16 1 1 21 0 1 {}", hex(&b)));
                    let b = gen_bytes(&mut rng, 81);
                    lines.push(format!("vp8i pred {which} 8 1 1 9 0 1 {}", hex(&b)));
                }
                for (a, l) in [(0, 0), (0, 1), (1, 0), (1, 1)] {
                    let b = gen_bytes(&mut rng, 357);
                    lines.push(format!("vp8i pred dcpred 16 1 1 21 {a} {l} {}", hex(&b)));
                    let b = gen_bytes(&mut rng, 81);
                    lines.push(format!("vp8i pred dcpred 8 1 1 9 {a} {l} {}", hex(&b)));
                }
            }
            // predict_4x4
            for _ in 0..12 {
                let b = gen_bytes(&mut rng, 357);
                let modes: Vec<u8> = (0..16).map(|_| rng.below(10) as u8).collect();
                lines.push(format!("vp8i p4x4 21 {} {} {}", hex(&modes), hex(&b), csv(&gen_res(&mut rng, 384, false))));
            }
            // borders and whole-macroblock calls on a partly reconstructed frame: every kind of position
            for mbw in 1..=4usize {
                let mbh = 3usize;
                let positions: Vec<(usize, usize)> = (0..mbh).flat_map(|y| (0..mbw).map(move |x| (x, y))).collect();
                for (mbx, mby) in positions {
                    let width = 16 * (mbw - 1) + rng.range(1, 16) as usize;
                    let plane = gen_bytes(&mut rng, 16 * mbw * 16 * mbh);
                    let (top, left) = borders_of(&mut rng, &plane, mbw, width, mbx, mby);
                    lines.push(format!("vp8i bluma {mbx} {mby} {mbw} {} {} {}", hex(&top), hex(&left), hex(&plane)));
                    for mode in 0..5i8 {
                        let plane = gen_bytes(&mut rng, 16 * mbw * 16 * mbh);
                        let (top, left) = borders_of(&mut rng, &plane, mbw, width, mbx, mby);
                        let bpred: Vec<i8> = (0..16).map(|_| rng.below(10) as i8).collect();
                        lines.push(format!("vp8i iluma {mbw} {mbx} {mby} {mode} {} {} {} {} {} 1", hexi8(&bpred),
                            csv(&gen_res(&mut rng, 384, false)), hex(&plane), hex(&top), hex(&left)));
                    }
                    for mode in 0..4i8 {
                        let u = gen_bytes(&mut rng, 8 * mbw * 8 * mbh);
                        let v = gen_bytes(&mut rng, 8 * mbw * 8 * mbh);
                        lines.push(format!("vp8i ichroma {mbw} {mbx} {mby} {mode} {} {} {} 1", csv(&gen_res(&mut rng, 384, false)), hex(&u), hex(&v)));
                    }
                }
            }
            // wild parameters: any stride / size / origin / buffer length (mostly panics); implementation = Model only
            for _ in 0..120 {
                let stride = *rng.pick(&[0usize, 1, 3, 4, 5, 8, 9, 12, 20, 21, 21, 22]);
                let n = if rng.chance(1, 2) { stride * rng.range(0, 18) as usize + rng.below(3) as usize } else { rng.below(400) as usize };
                let b = gen_bytes(&mut rng, n);
                let (xm, ym) = (if rng.chance(1, 4) { 24 } else { 6 }, if rng.chance(1, 4) { 20 } else { 6 });
                let (x0, y0) = (rng.below(xm) as usize, rng.below(ym) as usize);
                let size = *rng.pick(&[0usize, 1, 4, 8, 16, 16, 17]);
                match rng.below(4) {
                    0 => {
                        let which = *rng.pick(&["vpred", "hpred", "tmpred", "dcpred"]);
                        lines.push(format!("vp8i pred {which} {size} {x0} {y0} {stride} {} {}w {}", rng.below(2), rng.below(2), hex(&b)));
                    }
                    1 => {
                        let which = *rng.pick(&SUBS);
                        lines.push(format!("vp8i pred {which} 4 {x0} {y0} {stride} 0 1w {}", hex(&b)));
                    }
                    2 => {
                        let which = *rng.pick(&["topleft", "top", "left", "edge"]);
                        lines.push(format!("vp8i pix {which} {x0} {y0} {stride} {}", hex(&b)));
                    }
                    _ => lines.push(format!("vp8i res {y0} {x0} {stride} {} {}", hex(&b), csv(&gen_res(&mut rng, 16, true)))),
                }
            }
            // borders with short / inconsistent arrays (panics) and odd mbw
            for _ in 0..20 {
                let (mbx, mby, mbw) = (rng.below(4) as usize, rng.below(3) as usize, rng.below(5) as usize);
                let (nt, nl) = (rng.below(90) as usize, *rng.pick(&[0usize, 1, 5, 16, 17, 17, 18]));
                let top = gen_bytes(&mut rng, nt);
                let left = gen_bytes(&mut rng, nl);
                lines.push(format!("vp8i bluma {mbx} {mby} {mbw} {} {} -", hex(&top), hex(&left)));
            }
            for _ in 0..10 {
                let (mbw, mbx, mby) = (rng.range(1, 3) as usize, rng.below(4) as usize, rng.below(3) as usize);
                let (nu, nv, nr, ny, nt, nl, nr2) = (64 * rng.below(8) as usize, 64 * rng.below(8) as usize, *rng.pick(&[384usize, 384, 300, 0]),
                    256 * rng.below(8) as usize, rng.below(90) as usize, *rng.pick(&[0usize, 1, 16, 17, 17]), *rng.pick(&[384usize, 384, 200, 0]));
                let u = gen_bytes(&mut rng, nu);
                let v = gen_bytes(&mut rng, nv);
                lines.push(format!("vp8i ichroma {mbw} {mbx} {mby} {} {} {} {} 0", rng.below(4), csv(&gen_res(&mut rng, nr, false)), hex(&u), hex(&v)));
                let y = gen_bytes(&mut rng, ny);
                let top = gen_bytes(&mut rng, nt);
                let left = gen_bytes(&mut rng, nl);
                let bpred: Vec<i8> = (0..16).map(|_| rng.below(10) as i8).collect();
                lines.push(format!("vp8i iluma {mbw} {mbx} {mby} {} {} {} {} {} {} 0", rng.below(5), hexi8(&bpred),
                    csv(&gen_res(&mut rng, nr2, false)), hex(&y), hex(&top), hex(&left)));
            }
        }
    }
    for l in &lines { run_case(&mut st, l); }
    let evaluations = st.out.n;
    let m = |m: &BTreeMap<String, u64>| m.iter().map(|(k, v)| format!("{}: {}", jstr(k), v)).collect::<Vec<_>>().join(", ");
    let stats = format!(
        "{{\"evaluations\": {}, \"per_function\": {{{}}}, \"panics_per_function\": {{{}}}, \"native_checks\": {}, \"row_tail_cells_overwritten_by_vpred_hpred\": {}, \"violations\": [{}]}}",
        evaluations, m(&st.counts), m(&st.panics), st.native, st.tail_writes,
        st.violations.iter().map(|v| jstr(v)).collect::<Vec<_>>().join(", "));
    st.out.finish(&stats);
}
