//! Corpus of valid WebP files shared by the schedule / fault / buffer / robustness checks:
//! the repository's test images plus small files produced with libwebp (stills of every kind, re-muxed as
//! extended files and animations with sub-rectangle frames).
use crate::lw;
use crate::mux::*;
use crate::util::*;

pub fn repo_dir() -> String {
    std::env::var("VERIF_REPO").unwrap_or_else(|_| "/repo".to_string())
}

pub struct Item {
    pub name: String,
    pub bytes: Vec<u8>,
    pub kind: &'static str, // lossy | lossy_alpha | lossless | extended | animated
}

fn walk(dir: &std::path::Path, out: &mut Vec<std::path::PathBuf>) {
    if let Ok(rd) = std::fs::read_dir(dir) {
        let mut es: Vec<_> = rd.flatten().map(|e| e.path()).collect();
        es.sort();
        for p in es {
            if p.is_dir() { walk(&p, out) } else if p.extension().map(|e| e == "webp").unwrap_or(false) { out.push(p) }
        }
    }
}

pub fn test_images(max_len: usize) -> Vec<Item> {
    let mut paths = vec![];
    walk(std::path::Path::new(&format!("{}/tests/images", repo_dir())), &mut paths);
    let mut v = vec![];
    for p in paths {
        if let Ok(b) = std::fs::read(&p) {
            if b.len() <= max_len {
                let cs = parse_chunks(&b);
                let kind = if cs.iter().any(|c| &c.0 == b"ANMF") { "animated" }
                    else if cs.iter().any(|c| &c.0 == b"VP8X") { "extended" }
                    else if cs.iter().any(|c| &c.0 == b"VP8L") { "lossless" } else { "lossy" };
                v.push(Item { name: p.file_name().unwrap().to_string_lossy().to_string(), bytes: b, kind });
            }
        }
    }
    v
}

/// synthetic RGBA image; `style` selects statistics
pub fn synth_rgba(rng: &mut Rng, w: u32, h: u32, style: u64, alpha_mode: u64) -> Vec<u8> {
    let mut v = Vec::with_capacity((w * h * 4) as usize);
    let pal: Vec<[u8; 3]> = (0..(1 + rng.below(6))).map(|_| [rng.byte(), rng.byte(), rng.byte()]).collect();
    for y in 0..h {
        for x in 0..w {
            let c = match style % 5 {
                0 => [rng.byte(), rng.byte(), rng.byte()],
                1 => [(x * 255 / w.max(1)) as u8, (y * 255 / h.max(1)) as u8, ((x + y) * 7) as u8],
                2 => pal[((x / 3 + y / 2) as usize) % pal.len()],
                3 => pal[0],
                _ => if (x / 4 + y / 4) % 2 == 0 { [250, 250, 250] } else { [5, 5, 5] },
            };
            let a = match alpha_mode % 4 {
                0 => 255,
                1 => if (x + y) % 3 == 0 { 0 } else { 255 },
                2 => rng.byte(),
                _ => ((x * 37 + y * 91) % 256) as u8,
            };
            v.extend_from_slice(&[c[0], c[1], c[2], a]);
        }
    }
    v
}

pub fn rgb_of(rgba: &[u8]) -> Vec<u8> {
    rgba.chunks_exact(4).flat_map(|p| [p[0], p[1], p[2]]).collect()
}

/// stills produced by libwebp: (kind, file)
pub fn generated_stills(rng: &mut Rng, n: usize, max_side: u32) -> Vec<Item> {
    let mut v = vec![];
    for i in 0..n {
        let w = rng.range(1, max_side as u64) as u32;
        let h = rng.range(1, max_side as u64) as u32;
        let style = rng.below(5);
        match i % 4 {
            0 => {
                let img = synth_rgba(rng, w, h, style, 0);
                let f = lw::encode_lossy_rgb(&rgb_of(&img), w, h, rng.range(5, 95) as f32);
                if !f.is_empty() { v.push(Item { name: format!("gen_lossy_{i}_{w}x{h}"), bytes: f, kind: "lossy" }); }
            }
            1 => {
                let am = 1 + rng.below(3);
                let img = synth_rgba(rng, w, h, style, am);
                let f = lw::encode_lossy_rgba(&img, w, h, rng.range(5, 95) as f32);
                if !f.is_empty() { v.push(Item { name: format!("gen_lossya_{i}_{w}x{h}"), bytes: f, kind: "lossy_alpha" }); }
            }
            2 => {
                let am = rng.below(4);
                let img = synth_rgba(rng, w, h, style, am);
                let f = lw::encode_lossless_rgba(&img, w, h);
                if !f.is_empty() { v.push(Item { name: format!("gen_ll_{i}_{w}x{h}"), bytes: f, kind: "lossless" }); }
            }
            _ => {
                // lossless re-muxed as an extended still with metadata and an unknown chunk
                let am = rng.below(4);
                let img = synth_rgba(rng, w, h, style, am);
                let f = lw::encode_lossless_rgba(&img, w, h);
                let ic = image_chunks(&f);
                if ic.is_empty() { continue; }
                let has_alpha = img.chunks_exact(4).any(|p| p[3] != 255);
                let mut chunks = vec![vp8x(FLAG_EXIF | FLAG_ICC | if has_alpha { FLAG_ALPHA } else { 0 }, w, h)];
                let k = rng.range(1, 9) as usize;
                chunks.push((fourcc("ICCP"), rng.bytes(k)));
                let k = rng.range(0, 5) as usize;
                chunks.push((fourcc("UNKN"), rng.bytes(k)));
                chunks.extend(ic);
                let k = rng.range(1, 9) as usize;
                chunks.push((fourcc("EXIF"), rng.bytes(k)));
                v.push(Item { name: format!("gen_ext_{i}_{w}x{h}"), bytes: riff(&chunks), kind: "extended" });
            }
        }
    }
    v
}

/// animations muxed from libwebp-encoded frames (lossless, lossy, lossy+alpha), sub-rectangles, all flag combinations
pub fn generated_animations(rng: &mut Rng, n: usize, max_side: u32) -> Vec<Item> {
    let mut v = vec![];
    for i in 0..n {
        let cw = rng.range(2, max_side as u64) as u32;
        let ch = rng.range(2, max_side as u64) as u32;
        let nframes = rng.range(1, 5);
        let mut frames = vec![];
        for _ in 0..nframes {
            let x = (rng.below((cw as u64 + 1) / 2) as u32) * 2;
            let y = (rng.below((ch as u64 + 1) / 2) as u32) * 2;
            let x = x.min(cw - 1) & !1;
            let y = y.min(ch - 1) & !1;
            let (mut fw, mut fh) = (rng.range(1, (cw - x) as u64) as u32, rng.range(1, (ch - y) as u64) as u32);
            let (mut fx, mut fy) = (x, y);
            if rng.chance(1, 4) { fx = 0; fy = 0; fw = cw; fh = ch; }
            let (st, am) = (rng.below(5), rng.below(4));
            let img = synth_rgba(rng, fw, fh, st, am);
            let file = match rng.below(3) {
                0 => lw::encode_lossless_rgba(&img, fw, fh),
                1 => lw::encode_lossy_rgb(&rgb_of(&img), fw, fh, 60.0),
                _ => lw::encode_lossy_rgba(&img, fw, fh, 60.0),
            };
            let chunks = image_chunks(&file);
            if chunks.is_empty() { continue; }
            frames.push(Frame { x: fx, y: fy, w: fw, h: fh, duration: rng.below(1 << 24) as u32, blend: rng.chance(1, 2), dispose: rng.chance(1, 2), chunks });
        }
        if frames.is_empty() { continue; }
        let bg = [rng.byte(), rng.byte(), rng.byte(), rng.byte()];
        v.push(Item { name: format!("gen_anim_{i}_{cw}x{ch}_{}f", frames.len()), bytes: animation(cw, ch, rng.chance(1, 2), bg, rng.below(3) as u16, &frames), kind: "animated" });
    }
    v
}

pub fn standard(rng: &mut Rng, tier: &str) -> Vec<Item> {
    let thorough = tier == "thorough";
    let mut v = test_images(if thorough { 400_000 } else { 60_000 });
    v.extend(generated_stills(rng, if thorough { 160 } else { 40 }, 24));
    v.extend(generated_animations(rng, if thorough { 80 } else { 20 }, 20));
    v.extend(generated_vp8l(rng, if thorough { 120 } else { 30 }));
    v.extend(generated_filtered_alpha_stills(rng, if thorough { 80 } else { 24 }, 20));
    v.extend(generated_multipartition_stills(rng, if thorough { 12 } else { 6 }));
    let sc = with_scale_bits(rng, &v, 3);
    v.extend(sc);
    v
}

/// lossy stills with 2, 4 or 8 token partitions (libwebp's default is one), noisy enough for every partition to be longer than
/// the windows of the reader schedules
pub fn generated_multipartition_stills(rng: &mut Rng, n: usize) -> Vec<Item> {
    use crate::ref_webp as rw;
    let mut v = vec![];
    for i in 0..n {
        let w = rng.range(17, 64) as u32;
        let h = rng.range(33, 80) as u32;
        let img = synth_rgba(rng, w, h, 4, 0);
        let parts = 1 + (i % 3) as i32;
        let q = rng.range(60, 98) as f32;
        if let Some(f) = rw::encode(w as usize, h as usize, &rgb_of(&img), 3, q, |c| { c.partitions = parts; c.low_memory = 1; c.method = (i % 3) as i32; c.segments = 1 + (i % 4) as i32; }) {
            v.push(Item { name: format!("gen_lossy_parts{}_{i}_{w}x{h}", 1 << parts), bytes: f, kind: "lossy" });
        }
    }
    v
}

/// copies of the lossy stills of `items` (simple or extended, not animated) whose VP8 frame header carries non-zero upscaling
/// hints (top two bits of the 16-bit width / height fields: valid per RFC 6386 9.1, ignored by decoders, never set by libwebp)
pub fn with_scale_bits(rng: &mut Rng, items: &[Item], every: usize) -> Vec<Item> {
    let mut v = vec![];
    for (i, it) in items.iter().enumerate() {
        if it.kind == "animated" || i % every.max(1) != 0 {
            continue;
        }
        let b = &it.bytes;
        // the first top-level "VP8 " chunk
        let mut p = 12usize;
        while p + 8 <= b.len() {
            let sz = u32::from_le_bytes([b[p + 4], b[p + 5], b[p + 6], b[p + 7]]) as usize;
            if &b[p..p + 4] == b"VP8 " && sz >= 10 && p + 8 + 10 <= b.len() && b[p + 8 + 3..p + 8 + 6] == [0x9d, 0x01, 0x2a] {
                let mut c = b.clone();
                let (sx, sy) = match rng.below(3) { 0 => (1 + rng.below(3) as u8, 0), 1 => (0, 1 + rng.below(3) as u8), _ => (1 + rng.below(3) as u8, 1 + rng.below(3) as u8) };
                c[p + 8 + 7] |= sx << 6;
                c[p + 8 + 9] |= sy << 6;
                v.push(Item { name: format!("{}_scale{}{}", it.name, sx, sy), bytes: c, kind: it.kind });
                break;
            }
            p = p.saturating_add(8 + sz + (sz & 1));
        }
    }
    v
}

/// lossless files from the legal-stream generator (features libwebp's encoder never emits), wrapped as simple files
pub fn generated_vp8l(rng: &mut Rng, n: usize) -> Vec<Item> {
    use crate::gen_vp8l;
    let mut p = gen_vp8l::Params::full();
    p.deep = false;
    let mut v = vec![];
    for i in 0..n {
        let g = gen_vp8l::generate(rng.next(), &p, false);
        if g.payload.len() <= 30_000 && (g.width as u64) * (g.height as u64) <= 20_000 {
            v.push(Item { name: format!("gen_vp8l_{i}_{}x{}", g.width, g.height), bytes: riff(&[(fourcc("VP8L"), g.payload)]), kind: "lossless" });
        }
    }
    v
}

/// forward alpha filtering (inverse of the container spec's un-filtering): residuals for filter 0..3
pub fn alpha_filter_forward(filter: u8, w: usize, h: usize, alpha: &[u8]) -> Vec<u8> {
    let mut out = vec![0u8; w * h];
    for y in 0..h {
        for x in 0..w {
            let at = |xx: usize, yy: usize| alpha[yy * w + xx] as i32;
            let p: i32 = match (filter, x, y) {
                (0, _, _) => 0,
                (_, 0, 0) => 0,
                (1, 0, _) => at(0, y - 1),
                (1, _, _) => at(x - 1, y),
                (2, _, 0) => at(x - 1, 0),
                (2, _, _) => at(x, y - 1),
                (_, 0, _) => at(0, y - 1),
                (_, _, 0) => at(x - 1, 0),
                _ => (at(x - 1, y) + at(x, y - 1) - at(x - 1, y - 1)).clamp(0, 255),
            };
            out[y * w + x] = alpha[y * w + x].wrapping_sub(p as u8);
        }
    }
    out
}

/// lossy stills with a hand-made raw ALPH chunk using each prediction filter (libwebp's encoder rarely picks them)
pub fn generated_filtered_alpha_stills(rng: &mut Rng, n: usize, max_side: u32) -> Vec<Item> {
    let mut v = vec![];
    for i in 0..n {
        let w = rng.range(1, max_side as u64) as u32;
        let h = rng.range(1, max_side as u64) as u32;
        let (st, am) = (rng.below(5), 1 + rng.below(3));
        let img = synth_rgba(rng, w, h, st, am);
        let f = lw::encode_lossy_rgb(&rgb_of(&img), w, h, 70.0);
        let Some((_, vp8)) = image_chunks(&f).into_iter().find(|c| &c.0 == b"VP8 ") else { continue };
        let alpha: Vec<u8> = img.chunks_exact(4).map(|p| p[3]).collect();
        let filter = (i % 4) as u8;
        let mut alph = vec![filter << 2];
        alph.extend(alpha_filter_forward(filter, w as usize, h as usize, &alpha));
        let chunks = vec![vp8x(FLAG_ALPHA, w, h), (fourcc("ALPH"), alph), (fourcc("VP8 "), vp8)];
        v.push(Item { name: format!("gen_lossy_alphfilter{filter}_{i}_{w}x{h}"), bytes: riff(&chunks), kind: "lossy_alpha" });
    }
    v
}
