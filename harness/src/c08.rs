//! C08 (header and metadata accessors) + the container part of C03 (no panic on any byte string).
//!
//! Well-formed stream: containers are generated from a structured description (the Rust twin of
//! coq/Spec/Container.v), serialised, and run through the public API (`WebPDecoder::new`, every accessor,
//! `set_memory_limit`, the three metadata getters).  The expected tuple is computed from the description, never
//! from the bytes; a mismatch is a C08 violation.  "Strict" descriptions (recommended chunk order, reserved bits
//! zero, frames inside the canvas, bit-stream headers libwebp accepts) are also given to libwebp
//! (`WebPGetFeatures`, `WebPDemux`) as an adequacy check of the expected values.
//!
//! Malformed stream: mutations of the well-formed files (truncation, size fields, FourCCs, flags, chunk
//! reordering / removal / duplication, random bytes).  The only checks are: no panic (a panic is a C03
//! violation) and, through the oracle, implementation = Model including the error class.
//!
//! Case lines:  `container <memory_limit|-> <hex file> [expect <expected tuple>]`
//!              `container_spec <memory_limit|-> <description>`: the structured description of a well-formed file in prefix
//!              notation; the oracle evaluates coq/Spec/Container.v on it (wf, serialize, expected values) and must print
//!              what the generator printed: `WF 1 <hex file> <expected tuple>` (generator = twin of the Spec)
//! Result line: `OK w h alpha anim lossy frames loop(0=forever) duration icc=<hex|none|ERR class> exif=.. xmp=.. bufsize=<n|none>`
//!              | `ERR <DecodingError variant name>` (the property only distinguishes MemoryLimitExceeded; the names make the
//!                model/code tie stricter) | `PANIC <message>`
use crate::util::*;
use image_webp::{DecodingError, LoopCount, WebPDecoder};
use std::collections::BTreeMap;
use std::io::Cursor;

// ------------------------------------------------------------------------------------------------
// structured description (twin of coq/Spec/Container.v)
// ------------------------------------------------------------------------------------------------
#[derive(Clone)]
pub struct Vp8 { pub tag: u32, pub w: u32, pub hs: u32, pub h: u32, pub vs: u32, pub rest: Vec<u8> }
#[derive(Clone)]
pub struct Vp8l { pub w1: u32, pub h1: u32, pub alpha: bool, pub rest: Vec<u8> }
#[derive(Clone)]
pub struct Alph { pub pre: u8, pub filter: u8, pub comp: u8, pub rest: Vec<u8> }
#[derive(Clone)]
pub struct Unk { pub cc: [u8; 4], pub payload: Vec<u8> }
#[derive(Clone)]
pub enum FrameImage { Lossy(Option<Alph>, Vp8), Lossless(Vp8l) }
#[derive(Clone)]
pub struct Frame {
    pub x: u32, pub y: u32, pub w1: u32, pub h1: u32, pub duration: u32,
    pub rsv: u8, pub noblend: bool, pub dispose: bool, pub image: FrameImage, pub unknown: Vec<Unk>,
}
#[derive(Clone)]
pub enum Chunk {
    Iccp(Vec<u8>), Exif(Vec<u8>), Xmp(Vec<u8>), Anim([u8; 4], u16), Anmf(Frame),
    Alph(Alph), Vp8(Vp8), Vp8l(Vp8l), Unknown(Unk),
}
#[derive(Clone)]
pub struct Vp8x {
    pub rsv1: u8, pub icc: bool, pub alpha: bool, pub exif: bool, pub xmp: bool, pub anim: bool, pub rsv2: u8,
    pub rsv3: u32, pub w1: u32, pub h1: u32,
}
#[derive(Clone)]
pub enum Container { SimpleLossy(Vp8, Vec<Unk>), SimpleLossless(Vp8l, Vec<Unk>), Extended(Vp8x, Vec<Chunk>) }

const KNOWN: [&[u8; 4]; 11] =
    [b"RIFF", b"WEBP", b"VP8 ", b"VP8L", b"VP8X", b"ANIM", b"ANMF", b"ALPH", b"ICCP", b"EXIF", b"XMP "];

fn le16(v: u32) -> [u8; 2] { [(v & 255) as u8, ((v >> 8) & 255) as u8] }
fn le24(v: u32) -> [u8; 3] { [(v & 255) as u8, ((v >> 8) & 255) as u8, ((v >> 16) & 255) as u8] }
fn le32(v: u32) -> [u8; 4] { v.to_le_bytes() }

/// serialiser that remembers where the 32-bit size fields and the FourCCs are (targets of the mutations)
#[derive(Default)]
pub struct Ser { pub b: Vec<u8>, pub size_fields: Vec<usize>, pub fourccs: Vec<usize>, pub top_chunks: Vec<(usize, usize)> }
impl Ser {
    fn chunk(&mut self, cc: &[u8; 4], p: &[u8]) {
        self.fourccs.push(self.b.len());
        self.b.extend_from_slice(cc);
        self.size_fields.push(self.b.len());
        self.b.extend_from_slice(&le32(p.len() as u32));
        self.b.extend_from_slice(p);
        if p.len() % 2 == 1 { self.b.push(0); }
    }
}

impl Vp8 {
    fn bytes(&self) -> Vec<u8> {
        let mut o = le24(self.tag).to_vec();
        o.extend_from_slice(&[0x9d, 0x01, 0x2a]);
        o.extend_from_slice(&le16(self.w + 16384 * self.hs));
        o.extend_from_slice(&le16(self.h + 16384 * self.vs));
        o.extend_from_slice(&self.rest);
        o
    }
}
impl Vp8l {
    fn bytes(&self) -> Vec<u8> {
        let mut o = vec![0x2f];
        o.extend_from_slice(&le32(self.w1 + 16384 * self.h1 + ((self.alpha as u32) << 28)));
        o.extend_from_slice(&self.rest);
        o
    }
}
impl Alph {
    fn bytes(&self) -> Vec<u8> {
        let mut o = vec![16 * self.pre + 4 * self.filter + self.comp];
        o.extend_from_slice(&self.rest);
        o
    }
}
impl Frame {
    fn payload(&self) -> Vec<u8> {
        let mut s = Ser::default();
        s.b.extend_from_slice(&le24(self.x));
        s.b.extend_from_slice(&le24(self.y));
        s.b.extend_from_slice(&le24(self.w1));
        s.b.extend_from_slice(&le24(self.h1));
        s.b.extend_from_slice(&le24(self.duration));
        s.b.push(4 * self.rsv + 2 * self.noblend as u8 + self.dispose as u8);
        match &self.image {
            FrameImage::Lossy(a, v) => {
                if let Some(a) = a { s.chunk(b"ALPH", &a.bytes()); }
                s.chunk(b"VP8 ", &v.bytes());
            }
            FrameImage::Lossless(l) => s.chunk(b"VP8L", &l.bytes()),
        }
        for u in &self.unknown { s.chunk(&u.cc, &u.payload); }
        s.b
    }
    fn lossy(&self) -> bool { matches!(self.image, FrameImage::Lossy(..)) }
}
impl Chunk {
    fn cc(&self) -> [u8; 4] {
        match self {
            Chunk::Iccp(_) => *b"ICCP", Chunk::Exif(_) => *b"EXIF", Chunk::Xmp(_) => *b"XMP ", Chunk::Anim(..) => *b"ANIM",
            Chunk::Anmf(_) => *b"ANMF", Chunk::Alph(_) => *b"ALPH", Chunk::Vp8(_) => *b"VP8 ", Chunk::Vp8l(_) => *b"VP8L",
            Chunk::Unknown(u) => u.cc,
        }
    }
    fn payload(&self) -> Vec<u8> {
        match self {
            Chunk::Iccp(p) | Chunk::Exif(p) | Chunk::Xmp(p) => p.clone(),
            Chunk::Anim(bg, n) => { let mut o = bg.to_vec(); o.extend_from_slice(&le16(*n as u32)); o }
            Chunk::Anmf(f) => f.payload(),
            Chunk::Alph(a) => a.bytes(), Chunk::Vp8(v) => v.bytes(), Chunk::Vp8l(l) => l.bytes(),
            Chunk::Unknown(u) => u.payload.clone(),
        }
    }
}
impl Vp8x {
    fn payload(&self) -> Vec<u8> {
        let flags = 64 * self.rsv1 + 32 * self.icc as u8 + 16 * self.alpha as u8 + 8 * self.exif as u8
            + 4 * self.xmp as u8 + 2 * self.anim as u8 + self.rsv2;
        let mut o = vec![flags];
        o.extend_from_slice(&le24(self.rsv3));
        o.extend_from_slice(&le24(self.w1));
        o.extend_from_slice(&le24(self.h1));
        o
    }
}

impl Container {
    pub fn serialize(&self) -> Ser {
        let mut s = Ser::default();
        s.b.extend_from_slice(b"RIFF");
        s.size_fields.push(4);
        s.b.extend_from_slice(&[0; 4]);
        s.b.extend_from_slice(b"WEBP");
        let top = |s: &mut Ser, cc: &[u8; 4], p: &[u8]| {
            let a = s.b.len();
            s.chunk(cc, p);
            let e = s.b.len();
            s.top_chunks.push((a, e));
        };
        match self {
            Container::SimpleLossy(v, trail) => {
                top(&mut s, b"VP8 ", &v.bytes());
                for u in trail { top(&mut s, &u.cc, &u.payload); }
            }
            Container::SimpleLossless(l, trail) => {
                top(&mut s, b"VP8L", &l.bytes());
                for u in trail { top(&mut s, &u.cc, &u.payload); }
            }
            Container::Extended(x, cs) => {
                top(&mut s, b"VP8X", &x.payload());
                for c in cs { top(&mut s, &c.cc(), &c.payload()); }
            }
        }
        let n = (s.b.len() - 8) as u32;
        s.b[4..8].copy_from_slice(&le32(n));
        s
    }

    /// the values the headers define, in the result-line format (memory limit applied to the metadata getters)
    pub fn expected(&self, limit: Option<u64>) -> String {
        let lim = limit.unwrap_or(u64::MAX);
        let meta = |p: Option<&Vec<u8>>| match p {
            None => "none".to_string(),
            Some(p) if p.len() as u64 > lim => "ERR MemoryLimitExceeded".to_string(),
            Some(p) => hex(p),
        };
        let (w, h, alpha, anim, lossy, frames, lp, dur, icc, exif, xmp): (u64, u64, bool, bool, bool, u64, u64, u64, String, String, String) = match self {
            Container::SimpleLossy(v, _) => (v.w as u64, v.h as u64, false, false, true, 0, 1, 0, meta(None), meta(None), meta(None)),
            Container::SimpleLossless(l, _) => (l.w1 as u64 + 1, l.h1 as u64 + 1, l.alpha, false, false, 0, 1, 0, meta(None), meta(None), meta(None)),
            Container::Extended(x, cs) => {
                let fr: Vec<&Frame> = cs.iter().filter_map(|c| if let Chunk::Anmf(f) = c { Some(f) } else { None }).collect();
                let lossy = cs.iter().any(|c| matches!(c, Chunk::Vp8(_))) || fr.iter().any(|f| f.lossy());
                let lp = if x.anim {
                    cs.iter().find_map(|c| if let Chunk::Anim(_, n) = c { Some(*n as u64) } else { None }).unwrap_or(1)
                } else { 1 };
                let icc = cs.iter().find_map(|c| if let Chunk::Iccp(p) = c { Some(p) } else { None });
                let exif = cs.iter().find_map(|c| if let Chunk::Exif(p) = c { Some(p) } else { None });
                let xmp = cs.iter().find_map(|c| if let Chunk::Xmp(p) = c { Some(p) } else { None });
                (x.w1 as u64 + 1, x.h1 as u64 + 1, x.alpha, x.anim, lossy, fr.len() as u64, lp,
                 fr.iter().map(|f| f.duration as u64).sum(), meta(icc), meta(exif), meta(xmp))
            }
        };
        let buf = (w as u128) * (h as u128) * (if alpha { 4 } else { 3 });
        let bufs = if buf > u64::MAX as u128 { "none".to_string() } else { buf.to_string() };
        format!("OK {w} {h} {} {} {} {frames} {lp} {dur} icc={icc} exif={exif} xmp={xmp} bufsize={bufs}",
                alpha as u8, anim as u8, lossy as u8)
    }
}

// ------------------------------------------------------------------------------------------------
// description in the prefix notation the oracle parses into a Spec.Container.container (`container_spec` cases)
// ------------------------------------------------------------------------------------------------
fn d_vp8(v: &Vp8) -> String { format!("{} {} {} {} {} {}", v.tag, v.w, v.hs, v.h, v.vs, hex(&v.rest)) }
fn d_vp8l(l: &Vp8l) -> String { format!("{} {} {} {}", l.w1, l.h1, l.alpha as u8, hex(&l.rest)) }
fn d_alph(a: &Alph) -> String { format!("{} {} {} {}", a.pre, a.filter, a.comp, hex(&a.rest)) }
fn d_unk(u: &Unk) -> String { format!("{} {}", hex(&u.cc), hex(&u.payload)) }
fn d_unks(us: &[Unk]) -> String {
    let mut o = us.len().to_string();
    for u in us { o.push(' '); o.push_str(&d_unk(u)); }
    o
}
fn d_frame(f: &Frame) -> String {
    let img = match &f.image {
        FrameImage::Lossy(None, v) => format!("LY0 {}", d_vp8(v)),
        FrameImage::Lossy(Some(a), v) => format!("LY1 {} {}", d_alph(a), d_vp8(v)),
        FrameImage::Lossless(l) => format!("LL {}", d_vp8l(l)),
    };
    format!("{} {} {} {} {} {} {} {} {} {}", f.x, f.y, f.w1, f.h1, f.duration, f.rsv, f.noblend as u8, f.dispose as u8, img, d_unks(&f.unknown))
}
fn d_chunk(c: &Chunk) -> String {
    match c {
        Chunk::Iccp(p) => format!("ICCP {}", hex(p)),
        Chunk::Exif(p) => format!("EXIF {}", hex(p)),
        Chunk::Xmp(p) => format!("XMP {}", hex(p)),
        Chunk::Anim(bg, n) => format!("ANIM {} {}", hex(bg), n),
        Chunk::Anmf(f) => format!("ANMF {}", d_frame(f)),
        Chunk::Alph(a) => format!("ALPH {}", d_alph(a)),
        Chunk::Vp8(v) => format!("VP8 {}", d_vp8(v)),
        Chunk::Vp8l(l) => format!("VP8L {}", d_vp8l(l)),
        Chunk::Unknown(u) => format!("UNK {}", d_unk(u)),
    }
}
pub fn describe(c: &Container) -> String {
    match c {
        Container::SimpleLossy(v, t) => format!("SL {} {}", d_vp8(v), d_unks(t)),
        Container::SimpleLossless(l, t) => format!("SLL {} {}", d_vp8l(l), d_unks(t)),
        Container::Extended(x, cs) => {
            let mut o = format!("EX {} {} {} {} {} {} {} {} {} {} {}", x.rsv1, x.icc as u8, x.alpha as u8, x.exif as u8, x.xmp as u8,
                                x.anim as u8, x.rsv2, x.rsv3, x.w1, x.h1, cs.len());
            for k in cs { o.push(' '); o.push_str(&d_chunk(k)); }
            o
        }
    }
}

// ------------------------------------------------------------------------------------------------
// implementation side
// ------------------------------------------------------------------------------------------------
fn class(e: &DecodingError) -> &'static str {
    match e { DecodingError::MemoryLimitExceeded => "MemoryLimitExceeded", DecodingError::IoError(_) => "IoError",
        DecodingError::RiffSignatureInvalid(_) => "RiffSignatureInvalid", DecodingError::WebpSignatureInvalid(_) => "WebpSignatureInvalid",
        DecodingError::ChunkMissing => "ChunkMissing", DecodingError::ChunkHeaderInvalid(_) => "ChunkHeaderInvalid",
        DecodingError::ImageTooLarge => "ImageTooLarge", DecodingError::LosslessSignatureInvalid(_) => "LosslessSignatureInvalid",
        DecodingError::VersionNumberInvalid(_) => "VersionNumberInvalid", DecodingError::Vp8MagicInvalid(_) => "Vp8MagicInvalid",
        DecodingError::InconsistentImageSizes => "InconsistentImageSizes", DecodingError::UnsupportedFeature(_) => "UnsupportedFeature",
        DecodingError::InvalidChunkSize => "InvalidChunkSize", _ => "other" }
}

pub fn run_impl(bytes: &[u8], limit: Option<u64>) -> String {
    let data = bytes.to_vec();
    let r = catch(move || {
        let mut d = match WebPDecoder::new(Cursor::new(data)) {
            Ok(d) => d,
            Err(e) => return format!("ERR {}", class(&e)),
        };
        let (w, h) = d.dimensions();
        let alpha = d.has_alpha();
        let anim = d.is_animated();
        let lossy = d.is_lossy();
        let frames = d.num_frames();
        let lp = match d.loop_count() { LoopCount::Forever => 0u32, LoopCount::Times(n) => n.get() as u32 };
        let dur = d.loop_duration();
        if let Some(l) = limit { d.set_memory_limit(l as usize); }
        let meta = |r: Result<Option<Vec<u8>>, DecodingError>| match r {
            Ok(None) => "none".to_string(),
            Ok(Some(p)) => hex(&p),
            Err(e) => format!("ERR {}", class(&e)),
        };
        let icc = meta(d.icc_profile());
        let exif = meta(d.exif_metadata());
        let xmp = meta(d.xmp_metadata());
        let buf = match d.output_buffer_size() { Some(n) => n.to_string(), None => "none".to_string() };
        format!("OK {w} {h} {} {} {} {frames} {lp} {dur} icc={icc} exif={exif} xmp={xmp} bufsize={buf}",
                alpha as u8, anim as u8, lossy as u8)
    });
    match r { Ok(s) => s, Err(m) => format!("PANIC {}", m.replace('\n', " ")) }
}

// ------------------------------------------------------------------------------------------------
// libwebp adequacy check (strict descriptions only)
// ------------------------------------------------------------------------------------------------
struct LibInfo { w: u32, h: u32, flags: u32, loops: u32, frames: u32, duration: u64, icc: Option<Vec<u8>>, exif: Option<Vec<u8>>, xmp: Option<Vec<u8>> }

fn libwebp_demux(bytes: &[u8]) -> Option<LibInfo> {
    use libwebp_sys::*;
    unsafe {
        let data = WebPData { bytes: bytes.as_ptr(), size: bytes.len() };
        let dmux = WebPDemuxInternal(&data, 0, std::ptr::null_mut(), WEBP_DEMUX_ABI_VERSION as _);
        if dmux.is_null() { return None; }
        let geti = |f| WebPDemuxGetI(dmux, f);
        let mut info = LibInfo {
            w: geti(WebPFormatFeature::WEBP_FF_CANVAS_WIDTH), h: geti(WebPFormatFeature::WEBP_FF_CANVAS_HEIGHT),
            flags: geti(WebPFormatFeature::WEBP_FF_FORMAT_FLAGS), loops: geti(WebPFormatFeature::WEBP_FF_LOOP_COUNT),
            frames: geti(WebPFormatFeature::WEBP_FF_FRAME_COUNT), duration: 0, icc: None, exif: None, xmp: None,
        };
        let mut it: WebPIterator = std::mem::zeroed();
        if WebPDemuxGetFrame(dmux, 1, &mut it) != 0 {
            loop {
                info.duration += it.duration as u64;
                if WebPDemuxNextFrame(&mut it) == 0 { break; }
            }
            WebPDemuxReleaseIterator(&mut it);
        }
        let get = |cc: &[u8; 5]| -> Option<Vec<u8>> {
            let mut ci: WebPChunkIterator = std::mem::zeroed();
            if WebPDemuxGetChunk(dmux, cc.as_ptr() as *const _, 1, &mut ci) != 0 {
                let v = if ci.chunk.size == 0 { vec![] } else { std::slice::from_raw_parts(ci.chunk.bytes, ci.chunk.size).to_vec() };
                WebPDemuxReleaseChunkIterator(&mut ci);
                Some(v)
            } else { None }
        };
        info.icc = get(b"ICCP\0");
        info.exif = get(b"EXIF\0");
        info.xmp = get(b"XMP \0");
        WebPDemuxDelete(dmux);
        Some(info)
    }
}

/// compares the expected values of a strict description with libwebp; Err(text) = they differ
fn libwebp_adequacy(c: &Container, bytes: &[u8]) -> Result<(), String> {
    let Some(li) = libwebp_demux(bytes) else { return Err("libwebp WebPDemux rejects the file".into()) };
    let meta = |p: Option<Vec<u8>>| p;
    match c {
        Container::SimpleLossy(v, _) => {
            if (li.w, li.h) != (v.w, v.h) { return Err(format!("libwebp dims {}x{}", li.w, li.h)); }
        }
        Container::SimpleLossless(l, _) => {
            if (li.w, li.h) != (l.w1 + 1, l.h1 + 1) { return Err(format!("libwebp dims {}x{}", li.w, li.h)); }
            if (li.flags & 0x10 != 0) != l.alpha { return Err("libwebp alpha".into()); }
        }
        Container::Extended(x, cs) => {
            if (li.w, li.h) != (x.w1 + 1, x.h1 + 1) { return Err(format!("libwebp canvas {}x{}", li.w, li.h)); }
            if (li.flags & 0x10 != 0) != x.alpha || (li.flags & 0x02 != 0) != x.anim { return Err(format!("libwebp flags {:x}", li.flags)); }
            let find = |f: &dyn Fn(&Chunk) -> Option<Vec<u8>>| cs.iter().find_map(|c| f(c));
            let icc = find(&|c| if let Chunk::Iccp(p) = c { Some(p.clone()) } else { None });
            let exif = find(&|c| if let Chunk::Exif(p) = c { Some(p.clone()) } else { None });
            let xmp = find(&|c| if let Chunk::Xmp(p) = c { Some(p.clone()) } else { None });
            if meta(li.icc) != icc || meta(li.exif) != exif || meta(li.xmp) != xmp { return Err("libwebp metadata payloads".into()); }
            if x.anim {
                let fr: Vec<&Frame> = cs.iter().filter_map(|c| if let Chunk::Anmf(f) = c { Some(f) } else { None }).collect();
                let lp = cs.iter().find_map(|c| if let Chunk::Anim(_, n) = c { Some(*n as u32) } else { None }).unwrap_or(1);
                if li.frames as usize != fr.len() { return Err(format!("libwebp frames {}", li.frames)); }
                if li.loops != lp { return Err(format!("libwebp loop count {}", li.loops)); }
                let d: u64 = fr.iter().map(|f| f.duration as u64).sum();
                if li.duration != d { return Err(format!("libwebp duration {}", li.duration)); }
            }
        }
    }
    // WebPGetFeatures on the whole file
    unsafe {
        let mut f: libwebp_sys::WebPBitstreamFeatures = std::mem::zeroed();
        let st = libwebp_sys::WebPGetFeatures(bytes.as_ptr(), bytes.len(), &mut f);
        if st != libwebp_sys::VP8StatusCode::VP8_STATUS_OK { return Err(format!("WebPGetFeatures status {:?}", st)); }
        let (w, h, alpha, anim) = match c {
            Container::SimpleLossy(v, _) => (v.w, v.h, false, false),
            Container::SimpleLossless(l, _) => (l.w1 + 1, l.h1 + 1, l.alpha, false),
            Container::Extended(x, _) => (x.w1 + 1, x.h1 + 1, x.alpha, x.anim),
        };
        if (f.width as u32, f.height as u32) != (w, h) { return Err(format!("WebPGetFeatures dims {}x{}", f.width, f.height)); }
        if (f.has_animation != 0) != anim { return Err("WebPGetFeatures has_animation".into()); }
        // for a still image libwebp reports the alpha of the bit-stream, for an animation the VP8X flag
        let _ = alpha;
        let lossy_fmt = match c {
            Container::SimpleLossy(..) => Some(1),
            Container::SimpleLossless(..) => Some(2),
            Container::Extended(x, cs) if !x.anim => Some(if cs.iter().any(|c| matches!(c, Chunk::Vp8(_))) { 1 } else { 2 }),
            _ => None,
        };
        if let Some(fm) = lossy_fmt { if f.format != fm { return Err(format!("WebPGetFeatures format {}", f.format)); } }
    }
    Ok(())
}

// ------------------------------------------------------------------------------------------------
// generator
// ------------------------------------------------------------------------------------------------
#[derive(Default)]
struct Dist(BTreeMap<String, u64>);
impl Dist {
    fn add(&mut self, k: &str) { *self.0.entry(k.to_string()).or_insert(0) += 1; }
    fn json(&self) -> String {
        let v: Vec<String> = self.0.iter().map(|(k, n)| format!("{}:{}", jstr(k), n)).collect();
        format!("{{{}}}", v.join(","))
    }
}

macro_rules! pick {
    ($r:expr, [$($x:expr),* $(,)?]) => {{ let v = [$($x),*]; let i = $r.below(v.len() as u64) as usize; v[i] }};
}
fn rbytes(r: &mut Rng, max: u64) -> Vec<u8> { let n = r.below(max) as usize; r.bytes(n) }

fn payload(r: &mut Rng) -> Vec<u8> {
    // biased to empty, one byte, odd lengths
    let n = match r.below(8) { 0 => 0, 1 => 1, 2 => 2 * r.below(8) + 1, 3 => 2 * r.below(8), _ => r.below(24) };
    r.bytes(n as usize)
}
fn unknown(r: &mut Rng) -> Unk {
    loop {
        let cc: [u8; 4] = match r.below(4) {
            0 => { // one character away from a known FourCC
                let mut c = **r.pick(&KNOWN);
                let i = r.below(4) as usize;
                c[i] = match r.below(3) { 0 => c[i] ^ 0x20, 1 => c[i].wrapping_add(1), _ => r.byte() };
                c
            }
            1 => [r.byte(), r.byte(), r.byte(), r.byte()],
            _ => { let a = b"abcdefghijklmnopqrstuvwxyzABCDEFGHIJKLMNOPQRSTUVWXYZ0123456789 "; [*r.pick(a), *r.pick(a), *r.pick(a), *r.pick(a)] }
        };
        if !KNOWN.iter().any(|k| **k == cc) { return Unk { cc, payload: payload(r) }; }
    }
}
fn unknowns(r: &mut Rng, max: u64) -> Vec<Unk> { (0..r.below(max + 1)).map(|_| unknown(r)).collect() }

fn dim14(r: &mut Rng, max: u32) -> u32 {
    // 1..=max (max = 16383 for VP8, 16384 for VP8L)
    pick!(r, [1, 1, 2, 3, 255, 256, 257, max - 1, max, max, 1 + r.below(max as u64) as u32, 1 + r.below(64) as u32])
}
fn vp8(r: &mut Rng, dims: Option<(u32, u32)>, strict: bool) -> Vp8 {
    let (w, h) = dims.unwrap_or_else(|| (dim14(r, 16383), dim14(r, 16383)));
    let rest = rbytes(r, 12);
    // frame tag: bit 0 = 0 (key frame), version(3), show_frame(1), first_part_size(19)
    let tag = if strict {
        let part = r.below(3.min(10 + rest.len() as u64)) as u32;
        (r.below(4) as u32) << 1 | 1 << 4 | part << 5
    } else {
        (r.next() as u32 & 0xFFFFFE) & if r.chance(1, 2) { 0xFFFFFF } else { 0xFF }
    };
    Vp8 { tag, w, hs: r.below(4) as u32, h, vs: r.below(4) as u32, rest }
}
fn vp8l(r: &mut Rng, dims: Option<(u32, u32)>) -> Vp8l {
    let (w, h) = dims.unwrap_or_else(|| (dim14(r, 16384), dim14(r, 16384)));
    Vp8l { w1: w - 1, h1: h - 1, alpha: r.chance(1, 2), rest: rbytes(r, 12) }
}
fn alph(r: &mut Rng, strict: bool) -> Alph {
    Alph { pre: r.below(if strict { 2 } else { 4 }) as u8, filter: r.below(4) as u8, comp: r.below(if strict { 2 } else { 4 }) as u8, rest: rbytes(r, 10) }
}

fn canvas(r: &mut Rng) -> (u32, u32) {
    // 1 ..= 2^24 with the product at most 2^32 - 1
    loop {
        let pick = |r: &mut Rng| pick!(r, [1u32, 1, 2, 3, 100, 255, 256, 16383, 16384, 16385, 65535, 65536, 1 << 24, (1 << 24) - 1,
                                            1 + r.below(1 << 24) as u32, 1 + r.below(300) as u32]);
        let (w, h) = (pick(r), pick(r));
        if (w as u64) * (h as u64) <= u32::MAX as u64 { return (w, h); }
        if r.chance(1, 2) { return (w, (u32::MAX / w).max(1).min(1 << 24)); } // largest legal height for this width
    }
}

fn shuffle<T>(r: &mut Rng, v: &mut Vec<T>) {
    for i in (1..v.len()).rev() { let j = r.below(i as u64 + 1) as usize; v.swap(i, j); }
}
fn insert_random<T>(r: &mut Rng, v: &mut Vec<T>, x: T) { let i = r.below(v.len() as u64 + 1) as usize; v.insert(i, x); }

/// a well-formed container; `strict` additionally keeps everything libwebp insists on
fn gen(r: &mut Rng, dist: &mut Dist, strict: bool) -> Container {
    match r.below(8) {
        0 => { dist.add("kind:simple_lossy"); Container::SimpleLossy(vp8(r, None, strict), unknowns(r, if strict { 0 } else { 2 })) }
        1 => { dist.add("kind:simple_lossless"); Container::SimpleLossless(vp8l(r, None), unknowns(r, if strict { 0 } else { 2 })) }
        2 | 3 | 4 => { dist.add("kind:extended_still"); gen_still(r, dist, strict) }
        _ => { dist.add("kind:animated"); gen_anim(r, dist, strict) }
    }
}

fn metadata(r: &mut Rng, dist: &mut Dist) -> (Vec<Chunk>, Vec<Chunk>, bool, bool, bool) {
    // (before the image data, after it) in the recommended order; duplicates carry a different payload
    let (mut pre, mut post) = (vec![], vec![]);
    let icc = r.chance(1, 2);
    let exif = r.chance(1, 2);
    let xmp = r.chance(1, 2);
    if icc { pre.push(Chunk::Iccp(payload(r))); if r.chance(1, 4) { dist.add("feature:duplicate_metadata"); post.push(Chunk::Iccp(payload(r))); } }
    if exif { post.push(Chunk::Exif(payload(r))); if r.chance(1, 4) { dist.add("feature:duplicate_metadata"); post.push(Chunk::Exif(payload(r))); } }
    if xmp { post.push(Chunk::Xmp(payload(r))); if r.chance(1, 4) { dist.add("feature:duplicate_metadata"); post.push(Chunk::Xmp(payload(r))); } }
    (pre, post, icc, exif, xmp)
}

fn gen_still(r: &mut Rng, dist: &mut Dist, strict: bool) -> Container {
    let (pre, post, icc, exif, xmp) = metadata(r, dist);
    let lossy = r.chance(1, 2);
    let mut image: Vec<Chunk> = vec![];
    let (w, h, img_alpha);
    if lossy {
        let v = vp8(r, None, strict);
        (w, h) = (v.w, v.h);
        let a = r.chance(1, 2);
        img_alpha = a;
        if a { image.push(Chunk::Alph(alph(r, strict))); }
        image.push(Chunk::Vp8(v));
    } else {
        let l = vp8l(r, None);
        (w, h, img_alpha) = (l.w1 + 1, l.h1 + 1, l.alpha);
        image.push(Chunk::Vp8l(l));
    }
    let mut cs: Vec<Chunk> = vec![];
    let (cw, ch);
    if strict {
        (cw, ch) = (w, h);
        cs.extend(pre);
        cs.extend(image);
        cs.extend(post);
        // unknown chunks anywhere but inside the image data
        for u in unknowns(r, 3) {
            let ok: Vec<usize> = (0..=cs.len()).filter(|&i| !(i > 0 && i < cs.len() && matches!(cs[i - 1], Chunk::Alph(_)))).collect();
            let i = *r.pick(&ok);
            cs.insert(i, Chunk::Unknown(u));
        }
    } else {
        (cw, ch) = if r.chance(1, 3) { (w, h) } else { canvas(r) };
        cs.extend(pre);
        cs.extend(image);
        cs.extend(post);
        if r.chance(1, 4) { dist.add("feature:anim_chunk_in_still"); cs.push(Chunk::Anim([r.byte(), r.byte(), r.byte(), r.byte()], r.next() as u16)); }
        if r.chance(1, 5) && lossy { cs.push(Chunk::Alph(alph(r, false))); }
        for u in unknowns(r, 3) { cs.push(Chunk::Unknown(u)); }
        if r.chance(3, 4) { dist.add("feature:shuffled_order"); shuffle(r, &mut cs); }
    }
    if cs.iter().any(|c| matches!(c, Chunk::Unknown(_))) { dist.add("feature:unknown_chunks"); }
    let x = Vp8x {
        rsv1: if strict { 0 } else { r.below(4) as u8 }, icc, alpha: if strict { img_alpha } else { r.chance(1, 2) }, exif, xmp, anim: false,
        rsv2: if strict { 0 } else { r.below(2) as u8 }, rsv3: if strict || r.chance(1, 2) { 0 } else { r.below(1 << 24) as u32 },
        w1: cw - 1, h1: ch - 1,
    };
    Container::Extended(x, cs)
}

fn gen_anim(r: &mut Rng, dist: &mut Dist, strict: bool) -> Container {
    let (pre, post, icc, exif, xmp) = metadata(r, dist);
    let (cw, ch) = canvas(r);
    let n = 1 + r.below(6);
    dist.add(&format!("frames:{n}"));
    let mut any_alpha = false;
    let mut frames = vec![];
    for _ in 0..n {
        // frame rectangle: strict = inside the canvas, at most 16384 (16383 for VP8), bit-stream of the same size
        let lossy = r.chance(1, 2);
        let cap = if lossy { 16383 } else { 16384 };
        let (fw, fh, fx, fy);
        if strict {
            fw = if r.chance(1, 3) { cw.min(cap) } else { 1 + r.below(cw.min(cap) as u64) as u32 };
            fh = if r.chance(1, 3) { ch.min(cap) } else { 1 + r.below(ch.min(cap) as u64) as u32 };
            fx = r.below(((cw - fw) / 2) as u64 + 1) as u32;
            fy = r.below(((ch - fh) / 2) as u64 + 1) as u32;
        } else {
            let p = |r: &mut Rng| pick!(r, [0u32, 1, 16383, 16384, (1 << 24) - 1, r.below(1 << 24) as u32, r.below(64) as u32]);
            (fw, fh, fx, fy) = (p(r) + 1, p(r) + 1, p(r), p(r));
        }
        let bits = if strict { Some((fw, fh)) } else { None };
        let image = if lossy {
            let a = if r.chance(1, 2) { Some(alph(r, strict)) } else { None };
            any_alpha |= a.is_some();
            FrameImage::Lossy(a, vp8(r, bits, strict))
        } else {
            let l = vp8l(r, bits);
            any_alpha |= l.alpha;
            FrameImage::Lossless(l)
        };
        let duration = pick!(r, [0u32, 1, 10, 100, (1 << 24) - 1, (1 << 24) - 1, r.below(1 << 24) as u32, r.below(1 << 24) as u32]);
        frames.push(Frame {
            x: fx, y: fy, w1: fw - 1, h1: fh - 1, duration, rsv: if strict { 0 } else { r.below(64) as u8 },
            noblend: r.chance(1, 2), dispose: r.chance(1, 2), image, unknown: unknowns(r, 2),
        });
    }
    if frames.iter().any(|f| !f.unknown.is_empty()) { dist.add("feature:unknown_subchunks"); }
    let loops = pick!(r, [0u16, 0, 1, 1, 65535, 65535, 2, r.next() as u16]);
    dist.add(&format!("loops:{}", match loops { 0 => "0", 1 => "1", 65535 => "65535", _ => "other" }));
    let mut cs: Vec<Chunk> = vec![];
    cs.extend(pre);
    cs.push(Chunk::Anim([r.byte(), r.byte(), r.byte(), r.byte()], loops));
    if r.chance(1, 6) { dist.add("feature:duplicate_anim"); cs.push(Chunk::Anim([r.byte(), r.byte(), r.byte(), r.byte()], r.next() as u16)); }
    for f in frames { cs.push(Chunk::Anmf(f)); }
    cs.extend(post);
    for u in unknowns(r, 3) { insert_random(r, &mut cs, Chunk::Unknown(u)); }
    if !strict && r.chance(3, 4) { dist.add("feature:shuffled_order"); shuffle(r, &mut cs); }
    if cs.iter().any(|c| matches!(c, Chunk::Unknown(_))) { dist.add("feature:unknown_chunks"); }
    let x = Vp8x {
        rsv1: if strict { 0 } else { r.below(4) as u8 }, icc, alpha: if strict { any_alpha } else { r.chance(1, 2) }, exif, xmp, anim: true,
        rsv2: if strict { 0 } else { r.below(2) as u8 }, rsv3: if strict || r.chance(1, 2) { 0 } else { r.below(1 << 24) as u32 },
        w1: cw - 1, h1: ch - 1,
    };
    Container::Extended(x, cs)
}

/// memory limits around the metadata payload sizes
fn pick_limit(r: &mut Rng, c: &Container, dist: &mut Dist) -> Option<u64> {
    let mut sizes: Vec<u64> = vec![];
    if let Container::Extended(_, cs) = c {
        for k in cs { if let Chunk::Iccp(p) | Chunk::Exif(p) | Chunk::Xmp(p) = k { sizes.push(p.len() as u64); } }
    }
    let l = match r.below(9) {
        0 | 1 => None,
        2 => Some(0),
        3 => Some(u64::MAX),
        4 => Some(r.below(32)),
        // limits at and above 2^32 whose low 32 bits are small (a limit must not be narrowed to 32 bits anywhere)
        8 => { let k = r.below(8); Some(*r.pick(&[1u64 << 32, (1 << 32) + 1, (1 << 33) + k, 1 << 40, (1 << 32) + (1 << 31)])) }
        _ if !sizes.is_empty() => { let s = *r.pick(&sizes); Some(match r.below(3) { 0 => s.saturating_sub(1), 1 => s, _ => s + 1 }) }
        _ => Some(1 << 32),
    };
    dist.add(match l { None => "limit:default", Some(0) => "limit:0", Some(u64::MAX) => "limit:usize_max", Some(v) if v >= 1 << 32 => "limit:above_2pow32", _ => "limit:near_payload_sizes" });
    l
}

// ------------------------------------------------------------------------------------------------
// mutations
// ------------------------------------------------------------------------------------------------
fn mutate(r: &mut Rng, c: &Container, s: &Ser, dist: &mut Dist) -> Vec<u8> {
    let mut b = s.b.clone();
    match r.below(12) {
        0 | 1 => { // truncation
            dist.add("mutation:truncate");
            let n = r.below(b.len() as u64) as usize;
            b.truncate(n);
        }
        2 | 3 | 4 => { // a size field replaced
            dist.add("mutation:size_field");
            let off = *r.pick(&s.size_fields);
            let v = u32::from_le_bytes([b[off], b[off + 1], b[off + 2], b[off + 3]]);
            let nv = match r.below(10) {
                0 => 0, 1 => 1, 2 => u32::MAX, 3 => u32::MAX - 1, 4 => v.wrapping_add(1), 5 => v.wrapping_sub(1), 6 => v.wrapping_add(2),
                7 => 0x7FFF_FFFF, 8 => r.below(64) as u32, _ => r.next() as u32,
            };
            b[off..off + 4].copy_from_slice(&nv.to_le_bytes());
        }
        5 => { // a FourCC replaced by a known one
            dist.add("mutation:fourcc");
            let off = *r.pick(&s.fourccs);
            b[off..off + 4].copy_from_slice(*r.pick(&KNOWN));
        }
        6 => { // header bytes (flags, dimensions, signatures)
            dist.add("mutation:header_byte");
            for _ in 0..1 + r.below(3) {
                let n = b.len().min(48);
                let i = r.below(n as u64) as usize;
                b[i] = match r.below(3) { 0 => b[i] ^ (1 << r.below(8)), 1 => 0, _ => r.byte() };
            }
        }
        7 => { // random bytes anywhere
            dist.add("mutation:random_bytes");
            for _ in 0..1 + r.below(4) { let i = r.below(b.len() as u64) as usize; b[i] = r.byte(); }
        }
        8 | 9 => { // top-level chunks reordered / removed / duplicated (RIFF size recomputed or left stale)
            dist.add("mutation:chunk_list");
            let mut chunks: Vec<Vec<u8>> = s.top_chunks.iter().map(|&(a, e)| b[a..e].to_vec()).collect();
            match r.below(4) {
                0 => shuffle(r, &mut chunks),
                1 => { let i = r.below(chunks.len() as u64) as usize; chunks.remove(i); }
                2 => { let i = r.below(chunks.len() as u64) as usize; let c = chunks[i].clone(); insert_random(r, &mut chunks, c); }
                _ => { if chunks.len() > 1 { let i = 1 + r.below(chunks.len() as u64 - 1) as usize; let c = chunks.remove(i); insert_random(r, &mut chunks, c); } }
            }
            b.truncate(12);
            for c in chunks { b.extend_from_slice(&c); }
            if r.chance(2, 3) { let n = (b.len() - 8) as u32; b[4..8].copy_from_slice(&n.to_le_bytes()); }
        }
        10 => { // trailing data / embedded file
            dist.add("mutation:trailing_data");
            match r.below(3) {
                0 => b.extend(rbytes(r, 24)),
                1 => { let e = Chunk::Exif(payload(r)); let mut t = Ser::default(); t.chunk(&e.cc(), &e.payload()); b.extend(t.b); }
                _ => { let t = b.clone(); b.extend(t); }
            }
        }
        _ => { // structural: flags against the chunk list
            dist.add("mutation:description");
            let mut c2 = c.clone();
            if let Container::Extended(x, cs) = &mut c2 {
                match r.below(8) {
                    6 | 7 => {
                        // the first sub-chunk payload of the first frame starts like a chunk header with a known FourCC
                        // (exercises the second iteration of the first-frame registration loop of read_data)
                        let cc = **r.pick(&KNOWN);
                        let mut rest = cc[1..].to_vec();
                        rest.extend_from_slice(&le32(r.below(12) as u32));
                        rest.extend(rbytes(r, 10));
                        let drop_top = r.chance(1, 2);
                        if drop_top { cs.retain(|k| k.cc() != cc || matches!(k, Chunk::Anmf(_) | Chunk::Anim(..))); }
                        if let Some(Chunk::Anmf(f)) = cs.iter_mut().find(|k| matches!(k, Chunk::Anmf(_))) {
                            let v = match &f.image { FrameImage::Lossy(_, v) => v.clone(), FrameImage::Lossless(_) => vp8(r, None, false) };
                            f.image = FrameImage::Lossy(Some(Alph { pre: cc[0] >> 4, filter: (cc[0] >> 2) & 3, comp: cc[0] & 3, rest }), v);
                        }
                    }
                    0 => x.anim = !x.anim,
                    1 => { x.icc = !x.icc; x.exif = !x.exif; }
                    2 => x.xmp = !x.xmp,
                    3 => cs.retain(|k| !matches!(k, Chunk::Anmf(_))),
                    4 => cs.retain(|k| !matches!(k, Chunk::Anim(..))),
                    _ => { x.w1 = (1 << 24) - 1; x.h1 = r.below(1 << 24) as u32; }
                }
            }
            b = c2.serialize().b;
        }
    }
    b
}

// ------------------------------------------------------------------------------------------------
// F10 witness: an animation whose only frame is ALPH + 'VP8 ', the ANMF header says 4x4, the VP8 key frame is 8x8
// ------------------------------------------------------------------------------------------------
pub fn f10_witness() -> Vec<u8> {
    let (w, h) = (8i32, 8i32);
    let rgb: Vec<u8> = (0..(w * h * 3) as usize).map(|i| (i as u8).wrapping_mul(37).wrapping_add(1)).collect();
    let mut outp: *mut u8 = std::ptr::null_mut();
    let n = unsafe { libwebp_sys::WebPEncodeRGB(rgb.as_ptr(), w, h, w * 3, 50.0, &mut outp) };
    let f = unsafe { std::slice::from_raw_parts(outp, n) }.to_vec();
    unsafe { libwebp_sys::WebPFree(outp as *mut _) };
    let pos = f.windows(4).position(|x| x == b"VP8 ").unwrap();
    let sz = u32::from_le_bytes(f[pos + 4..pos + 8].try_into().unwrap()) as usize;
    let vp8_payload = &f[pos + 8..pos + 8 + sz];
    let mut alph = vec![0u8];
    alph.extend(std::iter::repeat(200u8).take(16));
    let mut fr = Ser::default();
    for v in [0u32, 0, 3, 3, 100] { fr.b.extend_from_slice(&le24(v)); }
    fr.b.push(0);
    fr.chunk(b"ALPH", &alph);
    fr.chunk(b"VP8 ", vp8_payload);
    let mut s = Ser::default();
    s.b.extend_from_slice(b"RIFF\0\0\0\0WEBP");
    s.chunk(b"VP8X", &Vp8x { rsv1: 0, icc: false, alpha: true, exif: false, xmp: false, anim: true, rsv2: 0, rsv3: 0, w1: 7, h1: 7 }.payload());
    s.chunk(b"ANIM", &[0, 0, 0, 0, 0, 0]);
    s.chunk(b"ANMF", &fr.b);
    let n = (s.b.len() - 8) as u32;
    s.b[4..8].copy_from_slice(&le32(n));
    s.b
}

pub fn read_all_frames(bytes: &[u8]) -> String {
    let data = bytes.to_vec();
    let r = catch(move || {
        let mut d = match WebPDecoder::new(Cursor::new(data)) { Ok(d) => d, Err(e) => return format!("ERR new {e:?}") };
        if !d.is_animated() { return "ERR not animated".to_string(); }
        let Some(n) = d.output_buffer_size() else { return "ERR buffer size".to_string() };
        if n > 1 << 26 { return "SKIP large canvas".to_string(); }
        let mut buf = vec![0u8; n];
        let mut k = 0;
        loop {
            match d.read_frame(&mut buf) {
                Ok(_) => k += 1,
                Err(DecodingError::NoMoreFrames) => return format!("OK {k} frames"),
                Err(e) => return format!("ERR frame {k}: {e:?}"),
            }
        }
    });
    match r { Ok(s) => s, Err(m) => format!("PANIC {}", m.replace('\n', " ")) }
}

// ------------------------------------------------------------------------------------------------
// driver
// ------------------------------------------------------------------------------------------------
fn limit_word(l: Option<u64>) -> String { match l { None => "-".into(), Some(v) => v.to_string() } }

pub fn run(tier: &str, seed: u64, outdir: &str, extra: &[String]) {
    let mut out = Out::new(outdir);
    let mut dist = Dist::default();
    let mut violations: Vec<String> = vec![];
    let mut adequacy: Vec<String> = vec![];
    let (mut n_wf, mut n_strict, mut n_lib_ok, mut n_mal, mut n_mal_ok, mut n_mal_err, mut n_mal_mle, mut evals) = (0u64, 0u64, 0u64, 0u64, 0u64, 0u64, 0u64, 0u64);

    if tier == "frames" || tier == "f10demo" {
        // not a correspondence tier: `frames <hex>` -> new + read_frame to exhaustion under catch_unwind (used to
        // demonstrate F10 before / after the fix).  `f10demo` builds the F10 witness itself.
        let lines: Vec<String> = if tier == "f10demo" { vec![format!("frames {}", hex(&f10_witness()))] }
            else { std::fs::read_to_string(&extra[0]).unwrap_or_default().lines().map(|l| l.to_string()).collect() };
        for line in lines {
            let ws: Vec<&str> = line.split_whitespace().collect();
            if ws.len() < 2 || ws[0] != "frames" { continue; }
            let res = read_all_frames(&unhex(ws[1]));
            evals += 1;
            if res.starts_with("PANIC") { violations.push(format!("C03 panic: {line} -> {res}")); }
            out.case(&line, &res);
        }
    } else if tier == "replay" {
        // every line: `container <limit> <hex> [expect <tuple>]`
        let txt = std::fs::read_to_string(&extra[0]).unwrap_or_default();
        for line in txt.lines() {
            let ws: Vec<&str> = line.split_whitespace().collect();
            if ws.len() < 3 || ws[0] != "container" { continue; }
            let limit = if ws[1] == "-" { None } else { ws[1].parse::<u64>().ok() };
            let bytes = unhex(ws[2]);
            let res = run_impl(&bytes, limit);
            evals += 1;
            if res.starts_with("PANIC") { violations.push(format!("C03 panic: {line} -> {res}")); }
            if let Some(i) = ws.iter().position(|w| *w == "expect") {
                let exp = ws[i + 1..].join(" ");
                if exp != res { violations.push(format!("C08 accessor mismatch: container {} {} -> impl `{res}` expected `{exp}`", ws[1], ws[2])); }
            }
            out.case(line, &res);
        }
    } else {
        let (n_good, n_bad, exhaustive_trunc) = match tier { "thorough" => (30000u64, 20000u64, 400usize), _ => (2000, 1500, 12) };
        let mut r = Rng::new(seed);
        // ---- well-formed stream
        let mut small: Vec<(Container, Ser)> = vec![];
        for i in 0..n_good {
            let mut rr = r.fork();
            let strict = i % 3 == 0;
            let c = gen(&mut rr, &mut dist, strict);
            let s = c.serialize();
            let limit = pick_limit(&mut rr, &c, &mut dist);
            let exp = c.expected(limit);
            let res = run_impl(&s.b, limit);
            evals += 1;
            n_wf += 1;
            dist.add(&format!("result_wf:{}", res.split(" icc=").next().unwrap().split(' ').take(if res.starts_with("OK") { 1 } else { 2 }).collect::<Vec<_>>().join(" ")));
            if res != exp {
                violations.push(format!("C08 accessor mismatch: container {} {} -> impl `{res}` expected `{exp}`", limit_word(limit), hex(&s.b)));
            }
            if strict {
                n_strict += 1;
                match libwebp_adequacy(&c, &s.b) {
                    Ok(()) => n_lib_ok += 1,
                    Err(e) => adequacy.push(format!("{e}: {}", hex(&s.b))),
                }
            }
            out.case(&format!("container {} {} expect {exp}", limit_word(limit), hex(&s.b)), &res);
            // twin check of the generator against coq/Spec/Container.v: the oracle parses the description, and must find
            // it well-formed, serialise it to the same bytes and expect the same tuple
            out.case(&format!("container_spec {} {}", limit_word(limit), describe(&c)), &format!("WF 1 {} {exp}", hex(&s.b)));
            if small.len() < 4000 && (s.b.len() < 160 || i % 8 == 0) { small.push((c, s)); }
        }
        // ---- malformed stream
        let mal = |bytes: Vec<u8>, limit: u64, out: &mut Out, violations: &mut Vec<String>| -> String {
            let res = run_impl(&bytes, Some(limit));
            if res.starts_with("PANIC") { violations.push(format!("C03 panic: container {limit} {} -> {res}", hex(&bytes))); }
            out.case(&format!("container {limit} {}", hex(&bytes)), &res);
            res
        };
        let mut tally = |res: &str| {
            if res.contains("MemoryLimitExceeded") { n_mal_mle += 1 }
            if res.starts_with("OK") { n_mal_ok += 1 } else { n_mal_err += 1 }
        };
        // truncation at every offset for a few small files of every kind
        for (_, s) in small.iter().filter(|(_, s)| s.b.len() < 200).take(exhaustive_trunc) {
            for n in 0..s.b.len() {
                let res = mal(s.b[..n].to_vec(), 1 << 20, &mut out, &mut violations);
                tally(&res);
                dist.add(&format!("result_malformed:{}", res.split(' ').take(if res.starts_with("OK") { 1 } else { 2 }).collect::<Vec<_>>().join(" ")));
                n_mal += 1;
                evals += 1;
                dist.add("mutation:truncate_every_offset");
            }
        }
        for _ in 0..n_bad {
            let mut rr = r.fork();
            let (c, s) = &small[rr.below(small.len() as u64) as usize];
            let mut b = mutate(&mut rr, c, s, &mut dist);
            if rr.chance(1, 5) && !b.is_empty() {
                // a second mutation on top: a random size-like word
                let i = rr.below(b.len() as u64) as usize;
                b[i] = rr.byte();
            }
            let limit = pick!(rr, [0u64, 1, 6, 16, 1 << 20, 1 << 24]);
            let res = mal(b, limit, &mut out, &mut violations);
            tally(&res);
            dist.add(&format!("result_malformed:{}", res.split(' ').take(if res.starts_with("OK") { 1 } else { 2 }).collect::<Vec<_>>().join(" ")));
            n_mal += 1;
            evals += 1;
        }
    }
    let vj: Vec<String> = violations.iter().take(50).map(|v| jstr(v)).collect();
    let aj: Vec<String> = adequacy.iter().take(20).map(|v| jstr(v)).collect();
    let stats = format!(
        "{{\"check\":\"c08\",\"tier\":{},\"seed\":{seed},\"evaluations\":{evals},\"well_formed\":{n_wf},\"strict\":{n_strict},\"libwebp_agrees\":{n_lib_ok},\
\"malformed\":{n_mal},\"malformed_accepted\":{n_mal_ok},\"malformed_rejected\":{n_mal_err},\"malformed_memory_limit\":{n_mal_mle},\
\"distribution\":{},\"n_violations\":{},\"violations\":[{}],\"n_adequacy_failures\":{},\"adequacy_failures\":[{}]}}",
        jstr(tier), dist.json(), violations.len(), vj.join(","), adequacy.len(), aj.join(","));
    out.finish(&stats);
}
