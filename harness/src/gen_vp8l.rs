//! Seeded generator of *legal* VP8L (WebP lossless) bitstreams (property C01, DESIGN.md section 6/7).
//!
//! The generator writes a random "stream program" with an LSB-first bit writer: random subsets and orders of
//! the four transforms, colour cache, meta prefix codes, every form of prefix-code description and
//! literal / backward-reference / colour-cache tokens.  It tracks the *pre-transform* pixels of every
//! (sub-)image it emits (needed to know the entropy image, and to keep predictor modes in 0..13); it does
//! not apply the transforms.  Every stream is meant to be accepted by libwebp; the check `c01` counts the
//! streams libwebp rejects as generator bugs.
use crate::util::Rng;
use std::collections::BTreeMap;

// ------------------------------------------------------------------------------------------------
// bit writer

pub struct BitWriter {
    pub out: Vec<u8>,
    acc: u64,
    n: u32,
}

thread_local! {
    /// Field sabotage (robustness search, property C03): when Some((state, one_in)), every multi-purpose field written
    /// with `put` (not the bits of prefix code words) is replaced, with probability 1/one_in, by an extreme value
    /// (all ones, all ones - 1, 0, half range, random).  The stream stops being legal; the decoder must still not panic.
    pub static SABOTAGE: std::cell::Cell<Option<(u64, u64)>> = const { std::cell::Cell::new(None) };
}
fn sabotage(v: u64, nb: u32) -> u64 {
    SABOTAGE.with(|c| {
        if let Some((mut st, one_in)) = c.get() {
            st = st.wrapping_mul(6364136223846793005).wrapping_add(1442695040888963407);
            let r = st >> 33;
            let mut out = v;
            if nb >= 1 && r % one_in == 0 {
                let max = if nb >= 64 { u64::MAX } else { (1u64 << nb) - 1 };
                out = match (r / one_in) % 10 {
                    0..=4 => max,
                    5 | 6 => max.saturating_sub(1),
                    7 => 0,
                    8 => max / 2,
                    _ => (st >> 7) & max,
                };
            }
            c.set(Some((st, one_in)));
            out
        } else {
            v
        }
    })
}

impl BitWriter {
    pub fn new() -> Self {
        BitWriter { out: vec![], acc: 0, n: 0 }
    }
    /// `nb` bits of `v`, least significant first
    pub fn put(&mut self, v: u64, nb: u32) {
        debug_assert!(nb <= 32);
        debug_assert!(nb == 32 || v < (1u64 << nb), "value {v} does not fit {nb} bits");
        let v = sabotage(v, nb);
        self.put_raw(v, nb);
    }
    fn put_raw(&mut self, v: u64, nb: u32) {
        self.acc |= v << self.n;
        self.n += nb;
        while self.n >= 8 {
            self.out.push(self.acc as u8);
            self.acc >>= 8;
            self.n -= 8;
        }
    }
    /// a prefix code word: canonical code value, most significant bit first
    pub fn put_code(&mut self, code: u32, len: u32) {
        for i in (0..len).rev() {
            self.put_raw(((code >> i) & 1) as u64, 1);
        }
    }
    /// pad the last byte with the given filler bits
    pub fn finish(mut self, filler: u8) -> Vec<u8> {
        if self.n > 0 {
            let pad = 8 - self.n;
            self.put((filler as u64) & ((1 << pad) - 1), pad);
        }
        self.out
    }
}

// ------------------------------------------------------------------------------------------------
// statistics

#[derive(Default, Clone)]
pub struct Stats(pub BTreeMap<String, u64>);
impl Stats {
    pub fn bump(&mut self, k: &str) {
        self.add(k, 1);
    }
    pub fn add(&mut self, k: &str, n: u64) {
        if n > 0 {
            *self.0.entry(k.to_string()).or_insert(0) += n;
        }
    }
    pub fn max(&mut self, k: &str, n: u64) {
        let e = self.0.entry(k.to_string()).or_insert(0);
        if n > *e {
            *e = n;
        }
    }
    /// sum the counters of `o` into self; keys starting with "max." are maxima; for every key also count
    /// the number of streams in which it was non-zero ("streams_with.<key>")
    pub fn merge_stream(&mut self, o: &Stats) {
        for (k, v) in &o.0 {
            if k.starts_with("max.") {
                self.max(k, *v);
            } else {
                self.add(k, *v);
                if !["plane_code.", "length_prefix_symbol.", "distance_prefix_symbol.", "predictor_mode.", "transform.order."].iter().any(|p| k.starts_with(p)) {
                    self.add(&format!("streams_with.{k}"), 1);
                }
            }
        }
    }
    pub fn json(&self) -> String {
        let mut s = String::from("{");
        for (i, (k, v)) in self.0.iter().enumerate() {
            if i > 0 {
                s.push(',');
            }
            s.push_str(&format!("\n  {}: {}", crate::util::jstr(k), v));
        }
        s.push_str("\n }");
        s
    }
}

// ------------------------------------------------------------------------------------------------
// parameters (what the generator may use; the minimiser switches features off)

#[derive(Clone, Debug, PartialEq)]
pub struct Params {
    pub max_dim: u32,         // largest side of the "ordinary" size class
    pub strips: bool,         // 1xN / Nx1 images, N up to 16384
    pub max16384: bool,       // exactly 16384 on one side
    pub deep: bool,           // the huge "deep back-reference" scenario (57/58-bit tokens)
    pub transforms: [bool; 4], // predictor, colour, subtract green, colour indexing
    pub cache: bool,
    pub meta: bool,
    pub backrefs: bool,
    pub sub_features: bool,   // colour cache / back-references inside sub-images
    pub simple_codes: bool,
    pub normal_codes: bool,
    pub rle_codes: bool,      // repeat codes 16/17/18
    pub max_symbol: bool,
    pub odd_single_len: bool, // single used symbol declared with a length other than 1
    pub max_len: u8,          // longest code word
    pub max_syms: usize,      // most used symbols per code
}
impl Params {
    pub fn full() -> Params {
        Params {
            max_dim: 64,
            strips: true,
            max16384: true,
            deep: true,
            transforms: [true; 4],
            cache: true,
            meta: true,
            backrefs: true,
            sub_features: true,
            simple_codes: true,
            normal_codes: true,
            rle_codes: true,
            max_symbol: true,
            odd_single_len: true,
            max_len: 15,
            max_syms: 4096,
        }
    }
    pub fn describe(&self) -> String {
        format!("{:?}", self)
    }
    /// one-step reductions, most drastic first
    pub fn reductions(&self) -> Vec<Params> {
        let mut v = vec![];
        let mut push = |p: Params| {
            if p != *self {
                v.push(p)
            }
        };
        let mut p = self.clone();
        p.deep = false;
        push(p);
        let mut p = self.clone();
        p.max16384 = false;
        push(p);
        let mut p = self.clone();
        p.strips = false;
        push(p);
        let mut p = self.clone();
        p.transforms = [false; 4];
        push(p);
        for i in 0..4 {
            let mut p = self.clone();
            p.transforms[i] = false;
            push(p);
        }
        let mut p = self.clone();
        p.meta = false;
        push(p);
        let mut p = self.clone();
        p.cache = false;
        push(p);
        let mut p = self.clone();
        p.backrefs = false;
        push(p);
        let mut p = self.clone();
        p.sub_features = false;
        push(p);
        let mut p = self.clone();
        p.normal_codes = false;
        if p.simple_codes {
            push(p);
        }
        let mut p = self.clone();
        p.simple_codes = false;
        if p.normal_codes {
            push(p);
        }
        let mut p = self.clone();
        p.rle_codes = false;
        push(p);
        let mut p = self.clone();
        p.max_symbol = false;
        push(p);
        let mut p = self.clone();
        p.odd_single_len = false;
        push(p);
        for d in [1u32, 2, 4, 8, 16, 32] {
            if d < self.max_dim {
                let mut p = self.clone();
                p.max_dim = d;
                push(p);
            }
        }
        for l in [1u8, 2, 4, 8, 11] {
            if l < self.max_len {
                let mut p = self.clone();
                p.max_len = l;
                push(p);
            }
        }
        for s in [1usize, 2, 4, 16, 64] {
            if s < self.max_syms {
                let mut p = self.clone();
                p.max_syms = s;
                push(p);
            }
        }
        v
    }
}

// ------------------------------------------------------------------------------------------------
// prefix codes

pub const CODE_LENGTH_ORDER: [usize; 19] = [17, 18, 0, 1, 2, 3, 4, 5, 16, 6, 7, 8, 9, 10, 11, 12, 13, 14, 15];

/// canonical code words (MSB-first values) of a length vector
pub fn canonical(lens: &[u8]) -> Vec<u16> {
    let mut codes = vec![0u16; lens.len()];
    let mut code = 0u32;
    for l in 1..=15u8 {
        for (i, &li) in lens.iter().enumerate() {
            if li == l {
                codes[i] = code as u16;
                code += 1;
            }
        }
        code <<= 1;
    }
    codes
}

#[derive(Clone, Debug)]
pub struct Code {
    pub lens: Vec<u8>,
    pub codes: Vec<u16>,
    pub used: Vec<u16>,
}
impl Code {
    pub fn from_lens(lens: Vec<u8>) -> Code {
        let codes = canonical(&lens);
        let used = (0..lens.len()).filter(|&i| lens[i] != 0).map(|i| i as u16).collect();
        Code { lens, codes, used }
    }
    /// write the code word of `sym` (nothing for a code with a single used symbol)
    pub fn emit(&self, w: &mut BitWriter, sym: u16) {
        debug_assert!(self.lens[sym as usize] != 0);
        if self.used.len() > 1 {
            w.put_code(self.codes[sym as usize] as u32, self.lens[sym as usize] as u32);
        }
    }
    pub fn bits_of(&self, sym: u16) -> u32 {
        if self.used.len() > 1 {
            self.lens[sym as usize] as u32
        } else {
            0
        }
    }
}

/// A complete set of `n >= 2` code lengths, none above `max_len`, built by splitting leaves.
/// shape 0: random leaf, 1: deepest leaf first (skewed), 2: shallowest (balanced), 3: mostly-last (long tails)
pub fn split_lengths(rng: &mut Rng, n: usize, max_len: u8, shape: u8) -> Vec<u8> {
    assert!(n >= 2 && (max_len >= 15 || n <= (1usize << max_len)));
    let mut leaves: Vec<u8> = vec![1, 1];
    while leaves.len() < n {
        let cand: Vec<usize> = (0..leaves.len()).filter(|&i| leaves[i] < max_len).collect();
        let pick = match shape {
            1 => *cand.iter().max_by_key(|&&i| (leaves[i], i)).unwrap(),
            2 => *cand.iter().min_by_key(|&&i| (leaves[i], i)).unwrap(),
            3 => {
                if rng.chance(3, 4) {
                    *cand.iter().max_by_key(|&&i| (leaves[i], i)).unwrap()
                } else {
                    cand[rng.below(cand.len() as u64) as usize]
                }
            }
            _ => cand[rng.below(cand.len() as u64) as usize],
        };
        leaves[pick] += 1;
        let d = leaves[pick];
        leaves.push(d);
    }
    // random assignment order
    for i in (1..leaves.len()).rev() {
        let j = rng.below(i as u64 + 1) as usize;
        leaves.swap(i, j);
    }
    leaves
}

/// value range [lo, hi] and number of extra bits of a length / distance prefix symbol
pub fn prefix_range(sym: u32) -> (u32, u32, u32) {
    if sym < 4 {
        (sym + 1, sym + 1, 0)
    } else {
        let eb = (sym - 2) >> 1;
        let off = (2 + (sym & 1)) << eb;
        (off + 1, off + (1 << eb), eb)
    }
}

/// (dx, dy) of plane codes 1..=120, literal from the specification
#[rustfmt::skip]
pub const DISTANCE_MAP: [(i32, i32); 120] = [
    (0, 1),  (1, 0),  (1, 1),  (-1, 1), (0, 2),  (2, 0),  (1, 2),  (-1, 2),
    (2, 1),  (-2, 1), (2, 2),  (-2, 2), (0, 3),  (3, 0),  (1, 3),  (-1, 3),
    (3, 1),  (-3, 1), (2, 3),  (-2, 3), (3, 2),  (-3, 2), (0, 4),  (4, 0),
    (1, 4),  (-1, 4), (4, 1),  (-4, 1), (3, 3),  (-3, 3), (2, 4),  (-2, 4),
    (4, 2),  (-4, 2), (0, 5),  (3, 4),  (-3, 4), (4, 3),  (-4, 3), (5, 0),
    (1, 5),  (-1, 5), (5, 1),  (-5, 1), (2, 5),  (-2, 5), (5, 2),  (-5, 2),
    (4, 4),  (-4, 4), (3, 5),  (-3, 5), (5, 3),  (-5, 3), (0, 6),  (6, 0),
    (1, 6),  (-1, 6), (6, 1),  (-6, 1), (2, 6),  (-2, 6), (6, 2),  (-6, 2),
    (4, 5),  (-4, 5), (5, 4),  (-5, 4), (3, 6),  (-3, 6), (6, 3),  (-6, 3),
    (0, 7),  (7, 0),  (1, 7),  (-1, 7), (5, 5),  (-5, 5), (7, 1),  (-7, 1),
    (4, 6),  (-4, 6), (6, 4),  (-6, 4), (2, 7),  (-2, 7), (7, 2),  (-7, 2),
    (3, 7),  (-3, 7), (7, 3),  (-7, 3), (5, 6),  (-5, 6), (6, 5),  (-6, 5),
    (8, 0),  (4, 7),  (-4, 7), (7, 4),  (-7, 4), (8, 1),  (8, 2),  (6, 6),
    (-6, 6), (8, 3),  (5, 7),  (-5, 7), (7, 5),  (-7, 5), (8, 4),  (6, 7),
    (-6, 7), (7, 6),  (-7, 6), (8, 5),  (7, 7),  (-7, 7), (8, 6),  (8, 7),
];

/// distance code -> (pixel distance, was clamped from < 1)
pub fn map_distance(code: u32, xsize: usize) -> (usize, bool) {
    if code > 120 {
        ((code - 120) as usize, false)
    } else {
        let (dx, dy) = DISTANCE_MAP[code as usize - 1];
        let d = dx as i64 + dy as i64 * xsize as i64;
        if d < 1 {
            (1, true)
        } else {
            (d as usize, false)
        }
    }
}

pub fn cache_hash(argb: u32, bits: u32) -> usize {
    (0x1e35a7bdu32.wrapping_mul(argb) >> (32 - bits)) as usize
}

// ------------------------------------------------------------------------------------------------
// the generator proper

#[derive(Clone, Copy, PartialEq, Debug)]
pub enum Role {
    Argb,
    Predictor,
    ColorXf,
    Palette,
    /// entropy image: red literals in 0..=red_hi, green literals below green_n
    Entropy { red_hi: u16, green_n: u16 },
}
impl Role {
    fn name(&self) -> &'static str {
        match self {
            Role::Argb => "argb",
            Role::Predictor => "predictor",
            Role::ColorXf => "colorxf",
            Role::Palette => "palette",
            Role::Entropy { .. } => "entropy",
        }
    }
}

#[allow(dead_code)]
pub struct GenStream {
    pub seed: u64,
    pub payload: Vec<u8>,
    pub width: u32,
    pub height: u32,
    pub alpha_bit: bool,
    pub stats: Stats,
    /// ARGB pixels the stream decodes to, known only when no transform is present
    pub expected_argb: Option<Vec<u32>>,
    /// human-readable stream program
    pub desc: Vec<String>,
}

struct Group {
    codes: [Code; 5],
    lits: Vec<u16>,
    lens: Vec<u16>,
    caches: Vec<u16>,
}

pub struct Gen<'a> {
    rng: Rng,
    p: &'a Params,
    w: BitWriter,
    st: Stats,
    desc: Vec<String>,
    trace_tokens: bool,
}

fn log2ceil(n: usize) -> u32 {
    let mut b = 0;
    while (1usize << b) < n {
        b += 1;
    }
    b
}

impl<'a> Gen<'a> {
    // ---------------- choosing the used symbols of a code
    fn target_count(&mut self, pool: usize) -> usize {
        let r = self.rng.below(100);
        let n = if r < 14 {
            1
        } else if r < 28 {
            2
        } else if r < 58 {
            self.rng.range(3, 8) as usize
        } else if r < 83 {
            self.rng.range(9, 40) as usize
        } else if r < 95 {
            self.rng.range(41, 300) as usize
        } else {
            pool
        };
        let n = n.min(pool).min(self.p.max_syms).max(1);
        if !self.p.normal_codes {
            n.min(2)
        } else {
            n
        }
    }

    fn pick_distinct(&mut self, pool: &[u16], n: usize) -> Vec<u16> {
        let mut v: Vec<u16> = pool.to_vec();
        let n = n.min(v.len());
        for i in 0..n {
            let j = i + self.rng.below((v.len() - i) as u64) as usize;
            v.swap(i, j);
        }
        v.truncate(n);
        v
    }

    /// used symbols of a 256-symbol channel
    fn choose_plain(&mut self, pool: &[u16]) -> Vec<u16> {
        let pool: Vec<u16> = if self.p.normal_codes { pool.to_vec() } else { pool.iter().cloned().filter(|&s| s < 256).collect() };
        let n = self.target_count(pool.len());
        // sometimes a contiguous low range (makes "uniform" codes and 1-bit simple symbols likely)
        if self.rng.chance(1, 5) {
            let mut v: Vec<u16> = pool.iter().cloned().take(n).collect();
            if v.is_empty() {
                v.push(pool[0]);
            }
            return v;
        }
        self.pick_distinct(&pool, n)
    }

    /// used symbols of the distance alphabet; biased to distances that are legal in an image of `npix` pixels
    fn choose_dist(&mut self, npix: usize) -> Vec<u16> {
        let n = self.target_count(40);
        let near = ((2 * log2ceil(npix + 120) + 2) as u16).min(40).max(4);
        let mut set = std::collections::BTreeSet::new();
        let mut guard = 0;
        while set.len() < n && guard < 1000 {
            guard += 1;
            let s = if self.rng.chance(3, 4) { self.rng.below(near as u64) as u16 } else { self.rng.below(40) as u16 };
            set.insert(s);
        }
        set.into_iter().collect()
    }

    /// used symbols of a green alphabet: literals (restricted by role), length prefixes, cache indices
    fn choose_green(&mut self, role: Role, cache_bits: u32, npix: usize, backrefs: bool) -> Vec<u16> {
        let lit_pool: Vec<u16> = match role {
            Role::Predictor => (0..14).collect(),
            Role::Entropy { green_n, .. } => (0..green_n.min(256)).collect(),
            _ => (0..256).collect(),
        };
        let cache_n = if cache_bits > 0 { 1usize << cache_bits } else { 0 };
        let simple_only = !self.p.normal_codes;
        let backrefs = backrefs && npix > 1 && !simple_only;
        let cache_ok = cache_n > 0 && !simple_only;
        let pool = lit_pool.len() + if backrefs { 24 } else { 0 } + if cache_ok { cache_n } else { 0 };
        let n = self.target_count(pool);
        if n == pool {
            let mut v = lit_pool.clone();
            if backrefs {
                v.extend(256..280);
            }
            if cache_ok {
                v.extend((0..cache_n).map(|i| 280 + i as u16));
            }
            return v;
        }
        let near_len = ((2 * log2ceil(npix) + 2) as u64).min(24).max(2);
        let (wl, wb, wc) = (5u64, if backrefs { 3 } else { 0 }, if cache_ok { 3 } else { 0 });
        let mut set = std::collections::BTreeSet::new();
        let mut guard = 0;
        while set.len() < n && guard < 20000 {
            guard += 1;
            let r = self.rng.below(wl + wb + wc);
            let s = if r < wl {
                lit_pool[self.rng.below(lit_pool.len() as u64) as usize]
            } else if r < wl + wb {
                256 + if self.rng.chance(3, 4) { self.rng.below(near_len) } else { self.rng.below(24) } as u16
            } else {
                // bias to few distinct slots so that repeated hits happen
                280 + if self.rng.chance(1, 2) { self.rng.below(cache_n.min(8) as u64) } else { self.rng.below(cache_n as u64) } as u16
            };
            set.insert(s);
        }
        let mut v: Vec<u16> = set.into_iter().collect();
        // at least one symbol that is legal everywhere: a literal or a cache index
        if !v.iter().any(|&s| s < 256 || s >= 280) {
            let s = if cache_ok && self.rng.chance(1, 2) {
                280 + self.rng.below(cache_n as u64) as u16
            } else {
                lit_pool[self.rng.below(lit_pool.len() as u64) as usize]
            };
            if v.len() > 1 {
                v[0] = s;
            } else {
                v.push(s);
            }
            v.sort();
            v.dedup();
        }
        v
    }

    // ---------------- writing one prefix code
    /// Write a description of a prefix code whose used symbols are exactly `used`; returns the code.
    fn write_code(&mut self, alphabet: usize, used: &[u16], tag: &str) -> Code {
        let mut used = used.to_vec();
        used.sort();
        used.dedup();
        let n = used.len();
        assert!(n >= 1 && (*used.last().unwrap() as usize) < alphabet);
        let mut lens = vec![0u8; alphabet];
        let all_small = used.iter().all(|&s| s < 256);
        let simple_ok = self.p.simple_codes && all_small && n <= 2;
        let normal_ok = self.p.normal_codes || !simple_ok;
        let use_simple = simple_ok && (!normal_ok || self.rng.chance(2, 3));
        if use_simple {
            self.w.put(1, 1);
            if n == 1 {
                let s = used[0];
                lens[s as usize] = 1;
                let two_equal = self.rng.chance(1, 4);
                self.w.put(two_equal as u64, 1);
                let short = s < 2 && self.rng.chance(1, 2);
                if short {
                    self.w.put(0, 1);
                    self.w.put(s as u64, 1);
                } else {
                    self.w.put(1, 1);
                    self.w.put(s as u64, 8);
                }
                if two_equal {
                    self.w.put(s as u64, 8);
                    self.st.bump("code.simple2_equal");
                } else if short {
                    self.st.bump("code.simple1_1bit");
                } else {
                    self.st.bump("code.simple1_8bit");
                }
                self.desc.push(format!("    {tag}: simple one symbol {s}{}", if two_equal { " written twice" } else { "" }));
            } else {
                let (a, b) = if self.rng.chance(1, 2) { (used[0], used[1]) } else { (used[1], used[0]) };
                lens[a as usize] = 1;
                lens[b as usize] = 1;
                self.w.put(1, 1);
                let short = a < 2 && self.rng.chance(1, 2);
                if short {
                    self.w.put(0, 1);
                    self.w.put(a as u64, 1);
                } else {
                    self.w.put(1, 1);
                    self.w.put(a as u64, 8);
                }
                self.w.put(b as u64, 8);
                self.st.bump(if a < b { "code.simple2_ascending" } else { "code.simple2_descending" });
                if short {
                    self.st.bump("code.simple2_first_1bit");
                }
                self.desc.push(format!("    {tag}: simple two symbols written {a},{b}"));
            }
            return Code::from_lens(lens);
        }
        // normal form
        if n == 1 {
            let l = if self.p.odd_single_len && self.rng.chance(1, 3) { self.rng.range(1, self.p.max_len.max(1) as u64) as u8 } else { 1 };
            lens[used[0] as usize] = l;
            self.st.bump("code.normal_single_symbol");
            if l != 1 {
                self.st.bump("code.normal_single_symbol_len_not_1");
            }
        } else {
            // "uniform" special shape: symbols 0..2^L-1 all of length L (the code-length code then has one symbol)
            let pow2 = n.is_power_of_two() && used[n - 1] as usize == n - 1 && log2ceil(n) as u8 <= self.p.max_len;
            let ls = if pow2 && self.rng.chance(1, 2) {
                self.st.bump("code.normal_uniform");
                vec![log2ceil(n) as u8; n]
            } else {
                let min_len = log2ceil(n) as u8;
                let max_len = self.p.max_len.max(min_len).min(15);
                let shape = self.rng.below(4) as u8;
                split_lengths(&mut self.rng, n, max_len, shape)
            };
            for (i, &s) in used.iter().enumerate() {
                lens[s as usize] = ls[i];
            }
            self.st.bump("code.normal");
        }
        let maxl = *lens.iter().max().unwrap();
        self.st.bump(&format!("code.normal_maxlen.{maxl}"));
        self.st.max("max.code_symbols", n as u64);
        self.write_normal(&lens);
        self.desc.push(format!("    {tag}: normal, {n} symbols, longest {maxl}"));
        Code::from_lens(lens)
    }

    /// the normal (code-length coded) description of `lens`
    fn write_normal(&mut self, lens: &[u8]) {
        let alphabet = lens.len();
        let last_nz = lens.iter().rposition(|&l| l != 0).unwrap() + 1;
        // tokens of the code-length sequence
        let truncate = self.p.max_symbol && last_nz < alphabet && self.rng.chance(1, 2);
        let mut cut = if truncate { self.rng.range(last_nz as u64, alphabet as u64) as usize } else { alphabet };
        let mut toks: Vec<(u8, u32)> = vec![]; // (code-length symbol, extra value)
        let mut prev = 8u8;
        let mut i = 0;
        let rle = self.p.rle_codes;
        let rle_pct = *self.rng.pick(&[0u64, 30, 70, 100]);
        loop {
            while i < cut {
                let v = lens[i];
                let mut run = 1;
                while i + run < cut && lens[i + run] == v {
                    run += 1;
                }
                let use_rle = rle && run >= 3 && self.rng.below(100) < rle_pct;
                if v == 0 && use_rle {
                    let k = if self.rng.chance(1, 2) { run.min(138) } else { self.rng.range(3, run.min(138) as u64) as usize };
                    if k <= 10 {
                        toks.push((17, (k - 3) as u32));
                    } else {
                        toks.push((18, (k - 11) as u32));
                    }
                    i += k;
                } else if v != 0 && v == prev && use_rle {
                    let k = if self.rng.chance(1, 2) { run.min(6) } else { self.rng.range(3, run.min(6) as u64) as usize };
                    toks.push((16, (k - 3) as u32));
                    i += k;
                } else {
                    toks.push((v, 0));
                    if v != 0 {
                        prev = v;
                    }
                    i += 1;
                }
            }
            if toks.len() >= 2 || cut == alphabet {
                break;
            }
            cut = alphabet.min(cut + 1 + self.rng.below(4) as usize);
        }
        let ntok = toks.len();
        // max_symbol: absent, exact, or larger than needed (only possible when the tokens cover the alphabet)
        let max_symbol: Option<usize> = if cut < alphabet {
            Some(ntok)
        } else if self.p.max_symbol && ntok.max(2) <= alphabet && self.rng.chance(1, 4) {
            Some(self.rng.range(ntok.max(2) as u64, alphabet as u64) as usize)
        } else {
            None
        };
        // the code-length code
        let mut cl_used = [false; 19];
        for &(s, _) in &toks {
            cl_used[s as usize] = true;
        }
        if self.rng.chance(1, 3) {
            for _ in 0..self.rng.range(1, 4) {
                cl_used[self.rng.below(19) as usize] = true;
            }
        }
        let cl_syms: Vec<usize> = (0..19).filter(|&s| cl_used[s]).collect();
        let mut cl_lens = vec![0u8; 19];
        if cl_syms.len() == 1 {
            cl_lens[cl_syms[0]] = if self.p.odd_single_len { self.rng.range(1, 7) as u8 } else { 1 };
            self.st.bump("code.lengthcode_single_symbol");
        } else {
            let shape = self.rng.below(4) as u8;
            let ls = split_lengths(&mut self.rng, cl_syms.len(), 7, shape);
            for (i, &s) in cl_syms.iter().enumerate() {
                cl_lens[s] = ls[i];
            }
        }
        let cl = Code::from_lens(cl_lens.clone());
        let needed = (0..19).rposition(|i| cl_lens[CODE_LENGTH_ORDER[i]] != 0).unwrap() + 1;
        let num = if self.rng.chance(1, 4) { self.rng.range(needed.max(4) as u64, 19) as usize } else { needed.max(4) };
        self.w.put(0, 1);
        self.w.put((num - 4) as u64, 4);
        for i in 0..num {
            self.w.put(cl_lens[CODE_LENGTH_ORDER[i]] as u64, 3);
        }
        match max_symbol {
            None => {
                self.w.put(0, 1);
                self.st.bump("code.max_symbol_absent");
            }
            Some(m) => {
                assert!(m >= 2 && m <= alphabet);
                self.w.put(1, 1);
                let v = (m - 2) as u64;
                let ks: Vec<u64> = (0..8u64).filter(|k| v < (1u64 << (2 + 2 * k))).collect();
                let k = *self.rng.pick(&ks);
                self.w.put(k, 3);
                self.w.put(v, (2 + 2 * k) as u32);
                self.st.bump(if cut < alphabet { "code.max_symbol_truncating" } else { "code.max_symbol_not_binding" });
            }
        }
        for &(s, extra) in &toks {
            cl.emit(&mut self.w, s as u16);
            match s {
                16 => {
                    self.w.put(extra as u64, 2);
                    self.st.bump("code.repeat16");
                }
                17 => {
                    self.w.put(extra as u64, 3);
                    self.st.bump("code.repeat17");
                }
                18 => {
                    self.w.put(extra as u64, 7);
                    self.st.bump("code.repeat18");
                }
                _ => {}
            }
        }
    }
}

/// token mix of one image
#[derive(Clone, Copy)]
struct Mix {
    lit: u64,
    backref: u64,
    cache: u64,
    long_copies: bool,
}

struct Cache {
    bits: u32,
    slots: Vec<u32>,
    /// 0 never written, 1 written by a literal / copied pixel, 2 last written by a cache-hit pixel
    origin: Vec<u8>,
}
impl Cache {
    fn insert(&mut self, argb: u32, from_hit: bool) {
        let k = cache_hash(argb, self.bits);
        self.slots[k] = argb;
        self.origin[k] = if from_hit { 2 } else { 1 };
    }
}

impl<'a> Gen<'a> {
    fn choose_cache_bits(&mut self, allowed: bool) -> u32 {
        if !allowed || !self.p.cache || self.rng.chance(2, 5) {
            return 0;
        }
        if self.rng.chance(1, 2) {
            self.rng.range(1, 4) as u32
        } else {
            self.rng.range(1, 11) as u32
        }
    }

    /// the five codes of one group
    fn write_group(&mut self, role: Role, cache_bits: u32, xsize: usize, npix: usize, backrefs: bool, tag: &str) -> Group {
        let green_alphabet = 280 + if cache_bits > 0 { 1usize << cache_bits } else { 0 };
        let all: Vec<u16> = (0..256).collect();
        let trivial = self.rng.chance(1, 8); // all-single-symbol groups (zero bits per pixel)
        let gu = if trivial {
            let g = self.choose_green(role, cache_bits, npix, false);
            let lit: Vec<u16> = g.iter().cloned().filter(|&s| s < 256).take(1).collect();
            if lit.is_empty() {
                vec![g[0]]
            } else {
                lit
            }
        } else {
            self.choose_green(role, cache_bits, npix, backrefs)
        };
        let green = self.write_code(green_alphabet, &gu, &format!("{tag} green"));
        let red_pool: Vec<u16> = match role {
            Role::Entropy { red_hi, .. } => (0..=red_hi).collect(),
            _ => all.clone(),
        };
        let chan = |me: &mut Self, pool: &[u16], name: &str| {
            let u = if trivial { vec![pool[me.rng.below(pool.len() as u64) as usize]] } else { me.choose_plain(pool) };
            me.write_code(256, &u, &format!("{tag} {name}"))
        };
        let red = chan(self, &red_pool, "red");
        let blue = chan(self, &all, "blue");
        let alpha = chan(self, &all, "alpha");
        let du = self.choose_dist(npix.max(xsize));
        let du: Vec<u16> = if self.p.normal_codes { du } else { du.into_iter().take(2).collect() };
        let dist = self.write_code(40, &du, &format!("{tag} dist"));
        if trivial {
            self.st.bump("group.all_single_symbol");
        }
        let lits = green.used.iter().cloned().filter(|&s| s < 256).collect();
        let lens = green.used.iter().cloned().filter(|&s| (256..280).contains(&s)).collect();
        let caches = green.used.iter().cloned().filter(|&s| s >= 280).collect();
        Group { codes: [green, red, blue, alpha, dist], lits, lens, caches }
    }

    /// One entropy-coded image: [colour cache] [meta prefix (main only)] codes, tokens.
    /// Returns the pre-transform ARGB pixels.
    fn emit_image(&mut self, xsize: usize, ysize: usize, role: Role, is_main: bool, mix: Mix) -> Vec<u32> {
        let npix = xsize * ysize;
        let rname = role.name();
        let feat = is_main || self.p.sub_features;
        let cache_bits = self.choose_cache_bits(feat);
        if cache_bits > 0 {
            self.w.put(1, 1);
            self.w.put(cache_bits as u64, 4);
        } else {
            self.w.put(0, 1);
        }
        self.st.bump(&format!("cache_bits.{}.{}", if is_main { "main" } else { "sub" }, cache_bits));
        self.desc.push(format!("  image {rname} {xsize}x{ysize} cache_bits={cache_bits}"));
        let backrefs = self.p.backrefs && feat && (is_main || self.rng.chance(2, 3));

        // meta prefix codes
        let mut meta_bits = 0u32;
        let mut meta_xsize = 1usize;
        let mut meta_img: Vec<u32> = vec![];
        let mut ngroups = 1usize;
        if is_main {
            if self.p.meta && self.rng.chance(1, 2) {
                meta_bits = if self.rng.chance(1, 2) { self.rng.range(2, 4) as u32 } else { self.rng.range(2, 9) as u32 };
                self.w.put(1, 1);
                self.w.put((meta_bits - 2) as u64, 3);
                meta_xsize = (xsize + (1 << meta_bits) - 1) >> meta_bits;
                let meta_ysize = (ysize + (1 << meta_bits) - 1) >> meta_bits;
                let r = self.rng.below(100);
                let (red_hi, green_n) = if r < 15 {
                    (0u16, 1u16)
                } else if r < 80 {
                    (0, self.rng.range(2, 8) as u16)
                } else if r < 96 {
                    (0, self.rng.range(9, 60) as u16)
                } else if r < 98 {
                    (0, 256)
                } else {
                    (self.rng.range(1, 4) as u16, self.rng.range(1, 6) as u16) // > 256 groups, mostly unused
                };
                self.desc.push(format!("  meta prefix bits={meta_bits} ({meta_xsize}x{meta_ysize}), red<= {red_hi}, green< {green_n}"));
                let sub = Mix { lit: 5, backref: 2, cache: 2, long_copies: false };
                let img = self.emit_image(meta_xsize, meta_ysize, Role::Entropy { red_hi, green_n }, false, sub);
                meta_img = img.iter().map(|&p| (p >> 8) & 0xffff).collect();
                ngroups = *meta_img.iter().max().unwrap() as usize + 1;
                self.st.bump(&format!("meta_bits.{meta_bits}"));
                self.st.max("max.groups", ngroups as u64);
                let bucket = if ngroups == 1 { "1" } else if ngroups <= 8 { "2-8" } else if ngroups <= 64 { "9-64" } else if ngroups <= 256 { "65-256" } else { "257+" };
                self.st.bump(&format!("meta_groups.{bucket}"));
                if ngroups > 1000 || ngroups > npix {
                    self.st.bump("meta_groups.more_than_pixels_or_1000");
                }
            } else {
                self.w.put(0, 1);
                self.st.bump("meta_bits.none");
            }
        }
        let mut groups = Vec::with_capacity(ngroups);
        for g in 0..ngroups {
            groups.push(self.write_group(role, cache_bits, xsize, npix, backrefs, &format!("group {g}")));
        }

        // tokens
        let mut px = vec![0u32; npix];
        let mut cache = Cache { bits: cache_bits, slots: vec![0; if cache_bits > 0 { 1 << cache_bits } else { 0 }], origin: vec![0; if cache_bits > 0 { 1 << cache_bits } else { 0 }] };
        let mut idx = 0usize;
        let (mut n_lit, mut n_ref, mut n_hit, mut n_overlap, mut n_far, mut n_clamped, mut n_hit_unwritten, mut n_hit_after_hit, mut n_zero_over_nonzero, mut n_hit_hit) =
            (0u64, 0u64, 0u64, 0u64, 0u64, 0u64, 0u64, 0u64, 0u64, 0u64);
        let mut max_len = 0usize;
        let mut max_dsym = 0u32;
        let mut max_tok_bits = 0u32;
        let mut planes = [0u64; 121];
        let mut len_syms = [0u64; 24];
        let mut dist_syms = [0u64; 40];
        let mut last_was_hit = false;
        while idx < npix {
            let (x, y) = (idx % xsize, idx / xsize);
            let g = if meta_bits == 0 { 0 } else { meta_img[(y >> meta_bits) * meta_xsize + (x >> meta_bits)] as usize };
            let grp = &groups[g];
            let remaining = npix - idx;
            let can_ref = idx > 0 && !grp.lens.is_empty();
            let wl = if grp.lits.is_empty() { 0 } else { mix.lit };
            let wb = if can_ref { mix.backref } else { 0 };
            let wc = if grp.caches.is_empty() { 0 } else { mix.cache };
            let total = wl + wb + wc;
            let mut kind = if total == 0 {
                // only back-reference symbols weighted in: fall back below
                if !grp.lits.is_empty() { 0 } else { 2 }
            } else {
                let r = self.rng.below(total);
                if r < wl { 0 } else if r < wl + wb { 1 } else { 2 }
            };
            if kind == 1 {
                // choose a legal length and distance
                let legal_lens: Vec<u16> = grp.lens.iter().cloned().filter(|&s| prefix_range(s as u32 - 256).0 as usize <= remaining).collect();
                let mut chosen: Option<(u16, u32, usize, u16, u32, usize, bool, u32)> = None;
                if !legal_lens.is_empty() {
                    let ls = if mix.long_copies { *legal_lens.iter().max().unwrap() } else { *self.rng.pick(&legal_lens) };
                    let (lo, hi, _) = prefix_range(ls as u32 - 256);
                    let hi = hi.min(remaining as u32);
                    let r = self.rng.below(10);
                    let length = if mix.long_copies || r < 3 { hi } else if r < 5 { lo } else { self.rng.range(lo as u64, hi as u64) as u32 };
                    let dcode = &grp.codes[4];
                    for _ in 0..12 {
                        let ds = *self.rng.pick(&dcode.used);
                        let (dlo, dhi, _) = prefix_range(ds as u32);
                        let cap = dhi.min((idx as u64 + 120).max(120).min(u32::MAX as u64) as u32);
                        if dlo > cap {
                            continue;
                        }
                        let dc = self.rng.range(dlo as u64, cap as u64) as u32;
                        let (d, clamped) = map_distance(dc, xsize);
                        if d <= idx {
                            chosen = Some((ls, length - lo, length as usize, ds, dc - dlo, d, clamped, dc));
                            break;
                        }
                    }
                }
                match chosen {
                    Some((ls, lextra, length, ds, dextra, d, clamped, dc)) => {
                        let (_, _, leb) = prefix_range(ls as u32 - 256);
                        let (_, _, deb) = prefix_range(ds as u32);
                        grp.codes[0].emit(&mut self.w, ls);
                        self.w.put(lextra as u64, leb);
                        grp.codes[4].emit(&mut self.w, ds);
                        self.w.put(dextra as u64, deb);
                        max_tok_bits = max_tok_bits.max(grp.codes[0].bits_of(ls) + leb + grp.codes[4].bits_of(ds) + deb);
                        for i in 0..length {
                            let v = px[idx + i - d];
                            px[idx + i] = v;
                            if cache_bits > 0 {
                                cache.insert(v, false);
                            }
                        }
                        if self.trace_tokens {
                            self.desc.push(format!("    @{idx} copy len={length} dist={d} (code {dc})"));
                        }
                        idx += length;
                        n_ref += 1;
                        if d < length {
                            n_overlap += 1;
                        }
                        if dc > 120 {
                            n_far += 1;
                        } else {
                            planes[dc as usize] += 1;
                        }
                        if clamped {
                            n_clamped += 1;
                        }
                        max_len = max_len.max(length);
                        max_dsym = max_dsym.max(ds as u32);
                        len_syms[ls as usize - 256] += 1;
                        dist_syms[ds as usize] += 1;
                        last_was_hit = false;
                        continue;
                    }
                    None => {
                        kind = if !grp.lits.is_empty() && (grp.caches.is_empty() || self.rng.chance(1, 2)) { 0 } else { 2 };
                    }
                }
            }
            if kind == 0 {
                let gs = *self.rng.pick(&grp.lits);
                let rs = *self.rng.pick(&grp.codes[1].used);
                let bs = *self.rng.pick(&grp.codes[2].used);
                let as_ = *self.rng.pick(&grp.codes[3].used);
                grp.codes[0].emit(&mut self.w, gs);
                grp.codes[1].emit(&mut self.w, rs);
                grp.codes[2].emit(&mut self.w, bs);
                grp.codes[3].emit(&mut self.w, as_);
                max_tok_bits = max_tok_bits.max(grp.codes[0].bits_of(gs) + grp.codes[1].bits_of(rs) + grp.codes[2].bits_of(bs) + grp.codes[3].bits_of(as_));
                let v = ((as_ as u32) << 24) | ((rs as u32) << 16) | ((gs as u32) << 8) | bs as u32;
                px[idx] = v;
                if cache_bits > 0 {
                    cache.insert(v, false);
                }
                if self.trace_tokens {
                    self.desc.push(format!("    @{idx} literal {v:08x}"));
                }
                idx += 1;
                n_lit += 1;
                last_was_hit = false;
            } else {
                let cs = *self.rng.pick(&grp.caches);
                let key = (cs - 280) as usize;
                grp.codes[0].emit(&mut self.w, cs);
                let v = cache.slots[key];
                match cache.origin[key] {
                    0 => n_hit_unwritten += 1,
                    2 => n_hit_after_hit += 1,
                    _ => {}
                }
                let k2 = cache_hash(v, cache_bits);
                if cache.slots[k2] != v {
                    n_zero_over_nonzero += 1; // the inserted hit pixel replaces a different colour
                }
                px[idx] = v;
                cache.insert(v, true);
                if self.trace_tokens {
                    self.desc.push(format!("    @{idx} cache[{key}] = {v:08x}"));
                }
                idx += 1;
                n_hit += 1;
                if last_was_hit {
                    n_hit_hit += 1;
                }
                last_was_hit = true;
            }
        }
        let pre = format!("tok.{}", if is_main { "main" } else { "sub" });
        self.st.add(&format!("{pre}.literal"), n_lit);
        self.st.add(&format!("{pre}.backref"), n_ref);
        self.st.add(&format!("{pre}.cache_hit"), n_hit);
        self.st.add("tok.backref_overlapping", n_overlap);
        self.st.add("tok.backref_distance_code_above_120", n_far);
        self.st.add("tok.backref_mapped_distance_below_1", n_clamped);
        self.st.add("tok.cache_hit_on_never_written_slot", n_hit_unwritten);
        self.st.add("tok.cache_hit_on_slot_written_by_cache_hit", n_hit_after_hit);
        self.st.add("tok.cache_hit_pixel_replaces_other_colour", n_zero_over_nonzero);
        self.st.add("tok.cache_hit_directly_after_cache_hit", n_hit_hit);
        self.st.max("max.copy_length", max_len as u64);
        self.st.max("max.distance_prefix_symbol", max_dsym as u64);
        self.st.max("max.token_bits", max_tok_bits as u64);
        for (c, &n) in planes.iter().enumerate() {
            if n > 0 {
                self.st.add(&format!("plane_code.{c:03}"), n);
            }
        }
        for (c, &n) in len_syms.iter().enumerate() {
            self.st.add(&format!("length_prefix_symbol.{c:02}"), n);
        }
        for (c, &n) in dist_syms.iter().enumerate() {
            self.st.add(&format!("distance_prefix_symbol.{c:02}"), n);
        }
        self.desc.push(format!("    tokens: {n_lit} literals, {n_ref} copies (longest {max_len}), {n_hit} cache hits; {ngroups} group(s)"));
        px
    }
}

impl<'a> Gen<'a> {
    fn choose_dims(&mut self) -> (u32, u32) {
        let md = self.p.max_dim.max(1) as u64;
        let r = self.rng.below(100);
        if self.p.max16384 && r < 2 {
            self.st.bump("size.16384_side");
            return if self.rng.chance(1, 2) { (16384, self.rng.range(1, 2) as u32) } else { (self.rng.range(1, 2) as u32, 16384) };
        }
        if self.p.strips && r < 14 {
            let n = if self.rng.chance(1, 3) { self.rng.range(4097, 16384) } else { self.rng.range(1, 2500) } as u32;
            self.st.bump("size.strip");
            return if self.rng.chance(1, 2) { (n, 1) } else { (1, n) };
        }
        if r < 30 {
            self.st.bump("size.tiny_1_to_4");
            return (self.rng.range(1, 4.min(md)) as u32, self.rng.range(1, 4.min(md)) as u32);
        }
        if r < 38 && md >= 64 {
            self.st.bump("size.65_to_160");
            return (self.rng.range(65, 160) as u32, self.rng.range(30, 120) as u32);
        }
        self.st.bump("size.1_to_max_dim");
        (self.rng.range(1, md) as u32, self.rng.range(1, md) as u32)
    }

    fn header(&mut self, width: u32, height: u32) -> bool {
        let alpha_bit = self.rng.chance(1, 2);
        self.w.put(0x2f, 8);
        self.w.put((width - 1) as u64, 14);
        self.w.put((height - 1) as u64, 14);
        self.w.put(alpha_bit as u64, 1);
        self.w.put(0, 3);
        alpha_bit
    }

    fn stream(&mut self) -> (u32, u32, bool, Option<Vec<u32>>) {
        let (width, height) = self.choose_dims();
        let alpha_bit = self.header(width, height);
        self.desc.push(format!("VP8L {width}x{height} alpha_is_used={}", alpha_bit as u8));
        // transforms
        let mut order: Vec<u8> = (0..4u8).filter(|&t| self.p.transforms[t as usize] && self.rng.chance(2, 5)).collect();
        for i in (1..order.len()).rev() {
            let j = self.rng.below(i as u64 + 1) as usize;
            order.swap(i, j);
        }
        let mut xsize = width as usize;
        let ysize = height as usize;
        let sub = Mix { lit: 5, backref: 2, cache: 2, long_copies: false };
        let names = ["predictor", "colour", "subtract_green", "colour_indexing"];
        for &t in &order {
            self.w.put(1, 1);
            self.w.put(t as u64, 2);
            self.st.bump(&format!("transform.{}", names[t as usize]));
            match t {
                0 | 1 => {
                    let bits = if self.rng.chance(1, 2) { self.rng.range(2, 4) } else { self.rng.range(2, 9) } as usize;
                    self.w.put((bits - 2) as u64, 3);
                    self.st.bump(&format!("transform.{}_bits.{}", names[t as usize], bits));
                    let bx = (xsize + (1 << bits) - 1) >> bits;
                    let by = (ysize + (1 << bits) - 1) >> bits;
                    self.desc.push(format!(" transform {} bits={bits}", names[t as usize]));
                    let img = self.emit_image(bx, by, if t == 0 { Role::Predictor } else { Role::ColorXf }, false, sub);
                    if t == 0 {
                        for p in img {
                            self.st.bump(&format!("predictor_mode.{:02}", (p >> 8) & 0xff));
                        }
                    }
                }
                2 => self.desc.push(" transform subtract_green".into()),
                _ => {
                    let r = self.rng.below(6);
                    let n = match r {
                        0 => self.rng.range(1, 2),
                        1 => self.rng.range(3, 4),
                        2 => self.rng.range(5, 16),
                        3 => self.rng.range(17, 256),
                        4 => *self.rng.pick(&[1u64, 2, 4, 16, 17, 256]),
                        _ => self.rng.range(1, 256),
                    } as usize;
                    self.w.put((n - 1) as u64, 8);
                    let bits = if n <= 2 { 3 } else if n <= 4 { 2 } else if n <= 16 { 1 } else { 0 };
                    self.st.bump(&format!("transform.palette_pixels_per_byte.{}", 1 << bits));
                    self.st.max("max.palette", n as u64);
                    self.desc.push(format!(" transform colour_indexing n={n}"));
                    self.emit_image(n, 1, Role::Palette, false, sub);
                    xsize = (xsize + (1 << bits) - 1) >> bits;
                }
            }
        }
        self.w.put(0, 1);
        self.st.bump(&format!("transform.count.{}", order.len()));
        if order.len() >= 2 {
            self.st.bump(&format!("transform.order.{}", order.iter().map(|t| t.to_string()).collect::<Vec<_>>().join("")));
        }
        let npix = xsize * ysize;
        let mix = match self.rng.below(5) {
            0 => Mix { lit: 1, backref: 0, cache: 0, long_copies: false },
            1 => Mix { lit: 2, backref: 1, cache: 6, long_copies: false },
            2 => Mix { lit: 2, backref: 6, cache: 1, long_copies: false },
            3 if npix > 5000 => Mix { lit: 1, backref: 8, cache: 1, long_copies: true },
            _ => Mix { lit: 4, backref: 3, cache: 3, long_copies: false },
        };
        let px = self.emit_image(xsize, ysize, Role::Argb, true, mix);
        (width, height, alpha_bit, if order.is_empty() { Some(px) } else { None })
    }

    /// The "deep" scenario: > 2^18 (or 2^19) pixels, code words of 13..15 bits on the length symbols with 10 extra
    /// bits and the distance symbols with 17/18 extra bits, so that single tokens need 55..58 bits.
    fn deep_stream(&mut self) -> (u32, u32, bool, Option<Vec<u32>>) {
        let far = self.rng.chance(2, 3); // distance symbols 38/39 (18 extra bits) else 36/37
        let second = self.rng.chance(1, 3); // large enough for the second deep distance symbol (39 / 37) as well
        let need = match (far, second) {
            (true, false) => 524_169,
            (true, true) => 786_313,
            (false, false) => 262_025,
            (false, true) => 393_097,
        } + 4200 + self.rng.below(90_000) as usize;
        let width = *self.rng.pick(&[16384u32, 8192, 4099, 1024, 733]);
        let height = ((need as u32) + width - 1) / width + 1;
        let alpha_bit = self.header(width, height);
        self.st.bump("size.deep_scenario");
        self.desc.push(format!("VP8L {width}x{height} deep scenario far={far}"));
        self.w.put(0, 1); // no transform
        let cache_bits = if self.p.cache && self.rng.chance(1, 3) { self.rng.range(1, 11) as u32 } else { 0 };
        if cache_bits > 0 {
            self.w.put(1, 1);
            self.w.put(cache_bits as u64, 4);
        } else {
            self.w.put(0, 1);
        }
        self.st.bump(&format!("cache_bits.main.{cache_bits}"));
        self.w.put(0, 1); // no meta
        self.st.bump("meta_bits.none");
        // green: skewed code 1,2,..,14,15,15 over 16 symbols
        let skew: Vec<u8> = (1..=15u8).chain(std::iter::once(15)).collect();
        let mut glens = vec![0u8; 280 + if cache_bits > 0 { 1 << cache_bits } else { 0 }];
        let bulk_len_sym: u16 = 256 + 21;
        let deep_len_syms: [u16; 2] = [256 + 22, 256 + 23];
        let mut order: Vec<u16> = vec![bulk_len_sym];
        let lits = self.pick_distinct(&(0..256).collect::<Vec<u16>>(), 13);
        order.extend(lits.iter().cloned());
        // the two 15-bit (or 14/15) words go to the deep length symbols
        let shift = self.rng.below(3) as usize; // deep symbols get lengths 15,15 / 14,15 / 13,14
        let mut glist: Vec<(u16, u8)> = vec![];
        for (i, &s) in order.iter().enumerate() {
            glist.push((s, skew[i]));
        }
        glist.push((deep_len_syms[0], 15));
        glist.push((deep_len_syms[1], 15));
        if shift > 0 {
            // swap a literal's shorter word with a deep symbol's
            let k = 14 - shift;
            let n = glist.len();
            let a = glist[k].1;
            glist[k].1 = glist[n - 1].1;
            glist[n - 1].1 = a;
        }
        for &(s, l) in &glist {
            glens[s as usize] = l;
        }
        self.write_normal(&glens);
        self.st.bump("code.normal");
        let green = Code::from_lens(glens);
        let mut chans = vec![];
        for name in ["red", "blue", "alpha"] {
            let k = 1 + self.rng.below(2) as usize;
            let u = self.pick_distinct(&(0..256).collect::<Vec<u16>>(), k);
            chans.push(self.write_code(256, &u, name));
        }
        // distance: skewed as well; symbol 1 (code 2 = one pixel to the left) is the one-bit word
        let mut dlens = vec![0u8; 40];
        let deep_d: [u16; 2] = if far { [38, 39] } else { [36, 37] };
        let mut dorder: Vec<u16> = vec![1];
        let others: Vec<u16> = (0..40u16).filter(|s| *s != 1 && !deep_d.contains(s)).collect();
        dorder.extend(self.pick_distinct(&others, 13));
        for (i, &s) in dorder.iter().enumerate() {
            dlens[s as usize] = skew[i];
        }
        dlens[deep_d[0] as usize] = 15;
        dlens[deep_d[1] as usize] = 15;
        self.write_normal(&dlens);
        self.st.bump("code.normal");
        let dist = Code::from_lens(dlens);
        // tokens
        let npix = width as usize * height as usize;
        let xsize = width as usize;
        let mut px = vec![0u32; npix];
        let mut cache = vec![0u32; if cache_bits > 0 { 1 << cache_bits } else { 0 }];
        let mut idx = 0;
        let (mut n_lit, mut n_ref, mut n_deep) = (0u64, 0u64, 0u64);
        let mut max_bits = 0u32;
        let threshold = if far { 524_169 } else { 262_025 };
        let pad = 1 + self.rng.below(9) as usize;
        while idx < npix {
            let remaining = npix - idx;
            let lit = idx < pad || remaining < 1537 || self.rng.chance(1, 6);
            if lit {
                let gs = lits[self.rng.below(lits.len() as u64) as usize];
                green.emit(&mut self.w, gs);
                let mut v = (gs as u32) << 8;
                for (c, sh) in [(0usize, 16u32), (1, 0), (2, 24)] {
                    let s = *self.rng.pick(&chans[c].used);
                    chans[c].emit(&mut self.w, s);
                    v |= (s as u32) << sh;
                }
                px[idx] = v;
                if cache_bits > 0 {
                    cache[cache_hash(v, cache_bits)] = v;
                }
                idx += 1;
                n_lit += 1;
                continue;
            }
            let deep = idx > threshold + 8 && remaining >= 2049 && self.rng.chance(1, 2);
            let legal_d: Vec<u16> = deep_d.iter().cloned().filter(|&d| prefix_range(d as u32).0 as usize <= idx + 120).collect();
            // "mid": any other distance symbol of the code that is legal here (covers symbols 30..35)
            let legal_mid: Vec<u16> = dorder.iter().cloned().filter(|&d| prefix_range(d as u32).0 as usize <= idx + 120).collect();
            let mid = !deep && self.rng.chance(1, 4);
            let (ls, ds) = if deep {
                (if remaining >= 3073 { *self.rng.pick(&deep_len_syms) } else { deep_len_syms[0] }, *self.rng.pick(&legal_d))
            } else if mid {
                (bulk_len_sym, *self.rng.pick(&legal_mid))
            } else {
                (bulk_len_sym, 1u16)
            };
            let (llo, lhi, leb) = prefix_range(ls as u32 - 256);
            let lhi = lhi.min(remaining as u32);
            let length = if deep { self.rng.range(llo as u64, lhi as u64) as u32 } else { lhi };
            let (dlo, dhi, _) = prefix_range(ds as u32);
            let mut dc = if deep || mid { self.rng.range(dlo as u64, dhi.min(idx as u32 + 120) as u64) as u32 } else { 2 };
            if map_distance(dc, xsize).0 > idx {
                dc = dlo; // plane codes can map beyond the start of the image
            }
            let (ls, ds, dc) = if map_distance(dc, xsize).0 > idx { (bulk_len_sym, 1u16, 2u32) } else { (ls, ds, dc) };
            let (dlo, _, deb) = prefix_range(ds as u32);
            let (d, _) = map_distance(dc, xsize);
            assert!(d <= idx && length >= llo);
            self.st.bump(&format!("length_prefix_symbol.{:02}", ls - 256));
            self.st.bump(&format!("distance_prefix_symbol.{:02}", ds));
            green.emit(&mut self.w, ls);
            self.w.put((length - llo) as u64, leb);
            dist.emit(&mut self.w, ds);
            self.w.put((dc - dlo) as u64, deb);
            let bits = green.bits_of(ls) + leb + dist.bits_of(ds) + deb;
            max_bits = max_bits.max(bits);
            if deep {
                n_deep += 1;
                self.st.bump(&format!("tok.deep_backref_bits.{bits}"));
            }
            for i in 0..length as usize {
                let v = px[idx + i - d];
                px[idx + i] = v;
                if cache_bits > 0 {
                    cache[cache_hash(v, cache_bits)] = v;
                }
            }
            idx += length as usize;
            n_ref += 1;
        }
        self.st.add("tok.main.literal", n_lit);
        self.st.add("tok.main.backref", n_ref);
        self.st.add("tok.deep_backref", n_deep);
        self.st.max("max.token_bits", max_bits as u64);
        self.st.max("max.copy_length", 4096);
        self.st.max("max.distance_prefix_symbol", if n_deep > 0 { deep_d[1] as u64 } else { 1 });
        self.desc.push(format!("    tokens: {n_lit} literals, {n_ref} copies of which {n_deep} deep (max {max_bits} bits)"));
        (width, height, alpha_bit, Some(px))
    }

    /// The "long literals" scenario: a small image whose four literal codes are all skewed (lengths 1,2,..,14,15,15) and whose pixels
    /// prefer the long code words, so that one literal pixel needs up to 4 x 15 = 60 bits (more than one refill of the bit reservoir
    /// guarantees: the decoder must top it up between the channels).
    fn long_literal_stream(&mut self) -> (u32, u32, bool, Option<Vec<u32>>) {
        let width = self.rng.range(1, 24) as u32;
        let height = self.rng.range(1, 12) as u32;
        let alpha_bit = self.header(width, height);
        self.st.bump("size.long_literal_scenario");
        self.desc.push(format!("VP8L {width}x{height} long-literal scenario"));
        self.w.put(0, 1); // no transform
        self.w.put(0, 1); // no colour cache
        self.st.bump("cache_bits.main.0");
        self.w.put(0, 1); // no meta
        self.st.bump("meta_bits.none");
        let skew: Vec<u8> = (1..=15u8).chain(std::iter::once(15)).collect();
        let mut codes = vec![];
        let mut syms: Vec<Vec<u16>> = vec![];
        for (ci, alphabet) in [280usize, 256, 256, 256].iter().enumerate() {
            let mut lens = vec![0u8; *alphabet];
            let mut order = self.pick_distinct(&(0..256).collect::<Vec<u16>>(), 16);
            // which symbols get the long words varies; green keeps literals only (no back-reference in this scenario)
            if self.rng.chance(1, 2) { order.reverse(); }
            for (i, &sy) in order.iter().enumerate() {
                lens[sy as usize] = skew[i];
            }
            self.write_normal(&lens);
            self.st.bump("code.normal");
            codes.push(Code::from_lens(lens));
            syms.push(order);
            let _ = ci;
        }
        // distance code: never used, a single symbol
        let d = self.write_code(40, &[0], "dist");
        let _ = d;
        let npix = (width * height) as usize;
        let mut px = vec![0u32; npix];
        let mut max_bits = 0u32;
        for i in 0..npix {
            let mut v = 0u32;
            let mut bits = 0u32;
            // stream order: green, red, blue, alpha
            for (c, sh) in [(0usize, 8u32), (1, 16), (2, 0), (3, 24)] {
                // 3 of 4 times one of the four longest words (13..15 bits)
                let k = if self.rng.chance(3, 4) { 12 + self.rng.below(4) as usize } else { self.rng.below(16) as usize };
                let sy = syms[c][k];
                codes[c].emit(&mut self.w, sy);
                bits += codes[c].bits_of(sy);
                v |= (sy as u32) << sh;
            }
            max_bits = max_bits.max(bits);
            self.st.bump(&format!("tok.long_literal_bits.{:02}", bits));
            px[i] = v;
        }
        self.st.add("tok.main.literal", npix as u64);
        self.st.max("max.literal_pixel_bits", max_bits as u64);
        self.desc.push(format!("    tokens: {npix} literals (max {max_bits} bits per pixel)"));
        (width, height, alpha_bit, Some(px))
    }
}

/// Generate one stream from a sub-seed.
pub fn generate(seed: u64, p: &Params, trace_tokens: bool) -> GenStream {
    let mut g = Gen { rng: Rng::new(seed), p, w: BitWriter::new(), st: Stats::default(), desc: vec![], trace_tokens };
    let deep = p.deep && g.rng.chance(1, 50);
    let long_lit = !deep && g.rng.chance(1, 25);
    let (width, height, alpha_bit, expected) = if deep { g.deep_stream() } else if long_lit { g.long_literal_stream() } else { g.stream() };
    let filler = g.rng.byte();
    let Gen { w, st, desc, .. } = g;
    let payload = w.finish(filler);
    GenStream { seed, payload, width, height, alpha_bit, stats: st, expected_argb: expected, desc }
}
