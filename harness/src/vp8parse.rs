//! vp8parse: the parsing functions of src/vp8.rs at component level against Model.Vp8Parse.
//! Hook `verif::Vp8Parser` (a real `Vp8Decoder` over an in-memory reader; `state` / `set_state` copy the parsing
//! fields, every `read_*` is a direct call of the private function of the same name).
//!
//! A case is self-contained: `vp8p <fn> <args> <key>=<values> ...` lists the state the function starts from (omitted
//! keys = `Vp8Decoder::new` defaults) and the result line lists everything the function may have changed:
//!   hdr   #payload                                  read_frame_header on a fresh decoder
//!   coef  p plane complexity dcq acq b0,..,b15      read_coefficients
//!   res   mbx p <30 macroblock numbers>             read_residual_data
//!   mbh   mbx                                       read_macroblock_header
//!   segu | quant | lfadj | tokp                     read_segment_updates, read_quantization_indices,
//!                                                   read_loop_filter_adjustments, update_token_probabilities
//!   parts n                                         init_partitions
//! Keys: 1 reader bytes | 2 data of `b` | 3 registers of `b` | 10+k data of partition k | 20+k its registers |
//!   30 mbwidth,mbheight | 31 frame (9) | 32 segments_enabled,segments_update_map | 33 segments (4 x 9) | 34 ref_delta |
//!   35 mode_delta | 36 num_partitions | 37 segment tree probs | 38 token probs (#hex, 1056) | 39 prob_intra |
//!   40 prob_skip_false | 41 length of top | 42 i,macroblock i of top | 43 left.   Registers: chunk_index, range,
//!   bit_count, final_bytes_remaining, final_bytes (3), value (8 bytes big endian).
//! Every case is evaluated twice: on the live decoder it was captured from, and on a decoder rebuilt from the
//! printed line (`live_vs_rebuilt_mismatch` must stay 0: the printed state is complete).
//!
//! Inputs: (a) libwebp encodes (random configuration: quality, segments, partitions, filter, ...), (b) the random frame
//! programs of gen_vp8 (for these the parsed header, modes and dequantised coefficients are also compared with the
//! program that wrote them: `violations`), (c) random bytes and random states.
use crate::c02;
use crate::gen_vp8 as gv;
use crate::ref_webp as rw;
use crate::util::*;
use image_webp::verif::{DecState, MbState, ParseState, Vp8Parser};
use std::collections::BTreeMap;
use std::panic::AssertUnwindSafe;

#[derive(Clone, Debug)]
enum Val {
    Nums(Vec<i64>),
    Bytes(Vec<u8>),
}
type Kvs = Vec<(u32, Val)>;

fn kv_word(k: u32, v: &Val) -> String {
    match v {
        Val::Bytes(b) => format!("{}=#{}", k, hex(b)),
        Val::Nums(n) => format!("{}={}", k, n.iter().map(|x| x.to_string()).collect::<Vec<_>>().join(",")),
    }
}
fn parse_kv(w: &str) -> Option<(u32, Val)> {
    let (k, v) = w.split_once('=')?;
    let k: u32 = k.parse().ok()?;
    if let Some(h) = v.strip_prefix('#') {
        Some((k, Val::Bytes(unhex(h))))
    } else if v.is_empty() {
        Some((k, Val::Nums(vec![])))
    } else {
        Some((k, Val::Nums(v.split(',').map(|x| x.parse().unwrap_or(0)).collect())))
    }
}
fn nums(v: &Val) -> Vec<i64> {
    match v {
        Val::Nums(n) => n.clone(),
        Val::Bytes(b) => b.iter().map(|&x| x as i64).collect(),
    }
}
fn bytes(v: &Val) -> Vec<u8> {
    match v {
        Val::Nums(n) => n.iter().map(|&x| x as u8).collect(),
        Val::Bytes(b) => b.clone(),
    }
}

fn dec_nums(d: &DecState) -> Vec<i64> {
    let mut v = vec![d.chunk_index as i64, d.range as i64, d.bit_count as i64, d.final_bytes_remaining as i64];
    v.extend(d.final_bytes.iter().map(|&b| b as i64));
    v.extend(d.value.to_be_bytes().iter().map(|&b| b as i64));
    v
}
fn dec_from(n: &[i64], old: &DecState) -> DecState {
    if n.len() < 7 {
        return *old;
    }
    let mut value: u64 = 0;
    for &b in &n[7..] {
        value = value.wrapping_mul(256).wrapping_add(b as u64);
    }
    DecState {
        chunk_index: n[0] as usize,
        range: n[1] as u32,
        bit_count: n[2] as i32,
        final_bytes_remaining: n[3] as i8,
        final_bytes: [n[4] as u8, n[5] as u8, n[6] as u8],
        value,
    }
}
fn mb_nums(m: &MbState) -> Vec<i64> {
    let mut v: Vec<i64> = m.bpred.iter().map(|&x| x as i64).collect();
    v.extend(m.complexity.iter().map(|&x| x as i64));
    v.extend([m.luma_mode as i64, m.chroma_mode as i64, m.segmentid as i64, m.coeffs_skipped as i64, m.non_zero_coeffs as i64]);
    v
}
fn at(n: &[i64], i: usize) -> i64 {
    n.get(i).copied().unwrap_or(0)
}
fn mb_from(n: &[i64]) -> MbState {
    let mut m = MbState::default();
    for i in 0..16 {
        m.bpred[i] = at(n, i) as u8;
    }
    for i in 0..9 {
        m.complexity[i] = at(n, 16 + i) as u8;
    }
    m.luma_mode = at(n, 25) as u8;
    m.chroma_mode = at(n, 26) as u8;
    m.segmentid = at(n, 27) as u8;
    m.coeffs_skipped = at(n, 28) != 0;
    m.non_zero_coeffs = at(n, 29) != 0;
    m
}
fn flat_tp(tp: &[[[[u8; 11]; 3]; 8]; 4]) -> Vec<u8> {
    let mut v = Vec::with_capacity(1056);
    for a in tp.iter() {
        for b in a.iter() {
            for c in b.iter() {
                v.extend_from_slice(c);
            }
        }
    }
    v
}

/// the byte strings behind the reader and the decoders (the hook does not expose them; the driver tracks them)
#[derive(Clone, Default)]
struct Datas {
    reader: Vec<u8>,
    b: Vec<u8>,
    parts: [Vec<u8>; 8],
}

fn kvs_for(st: &ParseState, datas: &Datas, keys: &[u32], mbx: usize) -> Kvs {
    let mut out: Kvs = vec![];
    for &k in keys {
        let v = match k {
            1 => Val::Bytes(datas.reader[datas.reader.len() - st.reader_remaining.min(datas.reader.len())..].to_vec()),
            2 => Val::Bytes(datas.b.clone()),
            3 => Val::Nums(dec_nums(&st.b)),
            10..=17 => Val::Bytes(datas.parts[(k - 10) as usize].clone()),
            20..=27 => Val::Nums(dec_nums(&st.partitions[(k - 20) as usize])),
            30 => Val::Nums(vec![st.mbwidth as i64, st.mbheight as i64]),
            31 => {
                let f = &st.frame;
                Val::Nums(vec![f.width as i64, f.height as i64, f.keyframe as i64, f.version as i64, f.for_display as i64,
                               f.pixel_type as i64, f.filter_type as i64, f.filter_level as i64, f.sharpness_level as i64])
            }
            32 => Val::Nums(vec![st.segments_enabled as i64, st.segments_update_map as i64]),
            33 => Val::Nums(seg_nums(st)),
            34 => Val::Nums(st.ref_delta.iter().map(|&x| x as i64).collect()),
            35 => Val::Nums(st.mode_delta.iter().map(|&x| x as i64).collect()),
            36 => Val::Nums(vec![st.num_partitions as i64]),
            37 => Val::Nums(st.segment_tree_probs.iter().map(|&x| x as i64).collect()),
            38 => {
                if *st.token_probs == gv::COEFFS_PROBA0 {
                    continue;
                }
                Val::Bytes(flat_tp(&st.token_probs))
            }
            39 => Val::Nums(vec![st.prob_intra as i64]),
            40 => Val::Nums(st.prob_skip_false.iter().map(|&x| x as i64).collect()),
            41 => Val::Nums(vec![st.top.len() as i64]),
            42 => {
                if mbx >= st.top.len() {
                    continue;
                }
                let mut v = vec![mbx as i64];
                v.extend(mb_nums(&st.top[mbx]));
                Val::Nums(v)
            }
            43 => Val::Nums(mb_nums(&st.left)),
            _ => continue,
        };
        out.push((k, v));
    }
    out
}
fn seg_nums(st: &ParseState) -> Vec<i64> {
    let mut v = vec![];
    for s in st.segment.iter() {
        v.extend([s.ydc as i64, s.yac as i64, s.y2dc as i64, s.y2ac as i64, s.uvdc as i64, s.uvac as i64,
                  s.delta_values as i64, s.quantizer_level as i64, s.loopfilter_level as i64]);
    }
    v
}

/// a decoder in the state a list of keys describes (mirror of Model.Vp8Parse.apply_kv)
fn build_parser(kvs: &Kvs) -> Vp8Parser {
    let reader = kvs.iter().find(|(k, _)| *k == 1).map(|(_, v)| bytes(v)).unwrap_or_default();
    let mut p = Vp8Parser::new(reader);
    for (k, v) in kvs {
        match *k {
            2 => p.init_b(&bytes(v)).expect("init"),
            10..=17 => p.init_partition((*k - 10) as usize, &bytes(v)).expect("init"),
            _ => {}
        }
    }
    let mut st = p.state();
    for (k, v) in kvs {
        let n = nums(v);
        match *k {
            3 => st.b = dec_from(&n, &st.b),
            20..=27 => {
                let i = (*k - 20) as usize;
                st.partitions[i] = dec_from(&n, &st.partitions[i]);
            }
            30 => {
                st.mbwidth = at(&n, 0) as u16;
                st.mbheight = at(&n, 1) as u16;
            }
            31 => {
                let f = &mut st.frame;
                f.width = at(&n, 0) as u16;
                f.height = at(&n, 1) as u16;
                f.keyframe = at(&n, 2) != 0;
                f.version = at(&n, 3) as u8;
                f.for_display = at(&n, 4) != 0;
                f.pixel_type = at(&n, 5) as u8;
                f.filter_type = at(&n, 6) != 0;
                f.filter_level = at(&n, 7) as u8;
                f.sharpness_level = at(&n, 8) as u8;
            }
            32 => {
                st.segments_enabled = at(&n, 0) != 0;
                st.segments_update_map = at(&n, 1) != 0;
            }
            33 => {
                for (i, s) in st.segment.iter_mut().enumerate() {
                    let o = 9 * i;
                    s.ydc = at(&n, o) as i16;
                    s.yac = at(&n, o + 1) as i16;
                    s.y2dc = at(&n, o + 2) as i16;
                    s.y2ac = at(&n, o + 3) as i16;
                    s.uvdc = at(&n, o + 4) as i16;
                    s.uvac = at(&n, o + 5) as i16;
                    s.delta_values = at(&n, o + 6) != 0;
                    s.quantizer_level = at(&n, o + 7) as i8;
                    s.loopfilter_level = at(&n, o + 8) as i8;
                }
            }
            34 => {
                for i in 0..4 {
                    st.ref_delta[i] = at(&n, i) as i32;
                }
            }
            35 => {
                for i in 0..4 {
                    st.mode_delta[i] = at(&n, i) as i32;
                }
            }
            36 => st.num_partitions = at(&n, 0) as u8,
            37 => {
                if n.len() == 3 {
                    for i in 0..3 {
                        st.segment_tree_probs[i] = n[i] as u8;
                    }
                }
            }
            38 => {
                let b = bytes(v);
                if b.len() == 1056 {
                    let mut it = b.iter();
                    for a in st.token_probs.iter_mut() {
                        for bb in a.iter_mut() {
                            for c in bb.iter_mut() {
                                for t in c.iter_mut() {
                                    *t = *it.next().unwrap();
                                }
                            }
                        }
                    }
                }
            }
            39 => st.prob_intra = at(&n, 0) as u8,
            40 => st.prob_skip_false = n.first().map(|&x| x as u8),
            41 => st.top = vec![MbState::default(); at(&n, 0) as usize],
            42 => {
                let i = at(&n, 0) as usize;
                if i < st.top.len() && n.len() > 1 {
                    st.top[i] = mb_from(&n[1..]);
                }
            }
            43 => st.left = mb_from(&n),
            _ => {}
        }
    }
    p.set_state(&st);
    p
}

fn sec(n: &[i64]) -> String {
    if n.is_empty() {
        "-".to_string()
    } else {
        n.iter().map(|x| x.to_string()).collect::<Vec<_>>().join(" ")
    }
}
fn ok_line(secs: &[Vec<i64>]) -> String {
    format!("OK {}", secs.iter().map(|s| sec(s)).collect::<Vec<_>>().join(" | "))
}
fn err_name(e: &image_webp::DecodingError) -> String {
    let d = format!("{:?}", e);
    d.chars().take_while(|c| c.is_ascii_alphanumeric()).collect()
}
fn header_secs(st: &ParseState) -> Vec<Vec<i64>> {
    let f = &st.frame;
    vec![
        vec![f.width as i64, f.height as i64, f.keyframe as i64, f.version as i64, f.for_display as i64, f.pixel_type as i64,
             f.filter_type as i64, f.filter_level as i64, f.sharpness_level as i64],
        vec![st.mbwidth as i64, st.mbheight as i64, st.top.len() as i64],
        vec![st.segments_enabled as i64, st.segments_update_map as i64],
        seg_nums(st),
        st.ref_delta.iter().map(|&x| x as i64).collect(),
        st.mode_delta.iter().map(|&x| x as i64).collect(),
        vec![st.num_partitions as i64],
        st.segment_tree_probs.iter().map(|&x| x as i64).collect(),
        st.prob_skip_false.iter().map(|&x| x as i64).collect(),
        dec_nums(&st.b),
    ]
}

/// one function call on a parser; the result line (mirror of the vp8p_* entry points of Model.Vp8Parse)
fn call(p: &mut Vp8Parser, func: &str, args: &[String]) -> String {
    let ai = |i: usize| -> i64 { args.get(i).and_then(|s| s.parse().ok()).unwrap_or(0) };
    let r = catch(AssertUnwindSafe(|| -> Result<Vec<Vec<i64>>, String> {
        match func {
            "hdr" => {
                p.read_frame_header().map_err(|e| err_name(&e))?;
                let st = p.state();
                let mut s = header_secs(&st);
                s.push(flat_tp(&st.token_probs).iter().map(|&x| x as i64).collect());
                for d in st.partitions.iter() {
                    s.push(dec_nums(d));
                }
                s.push(st.top.first().map(mb_nums).unwrap_or_default());
                s.push(mb_nums(&st.left));
                Ok(s)
            }
            "coef" => {
                let (pp, plane, cx, dcq, acq) = (ai(0) as usize, ai(1) as usize, ai(2) as usize, ai(3) as i16, ai(4) as i16);
                let mut block = [0i32; 16];
                for (i, w) in args.get(5).map(|s| s.as_str()).unwrap_or("").split(',').enumerate().take(16) {
                    block[i] = w.parse().unwrap_or(0);
                }
                let n = p.read_coefficients(&mut block, pp, plane, cx, dcq, acq).map_err(|e| err_name(&e))?;
                let st = p.state();
                Ok(vec![vec![n as i64], block.iter().map(|&x| x as i64).collect(),
                        dec_nums(st.partitions.get(pp).unwrap_or(&new_dec()))])
            }
            "res" => {
                let (mbx, pp) = (ai(0) as usize, ai(1) as usize);
                let mbn: Vec<i64> = args.get(2).map(|s| s.as_str()).unwrap_or("").split(',').map(|x| x.parse().unwrap_or(0)).collect();
                let mb = mb_from(&mbn);
                let (blocks, nz) = p.read_residual_data(&mb, mbx, pp).map_err(|e| err_name(&e))?;
                let st = p.state();
                let d = MbState::default();
                Ok(vec![vec![nz as i64], blocks.iter().map(|&x| x as i64).collect(),
                        st.top.get(mbx).unwrap_or(&d).complexity.iter().map(|&x| x as i64).collect(),
                        st.left.complexity.iter().map(|&x| x as i64).collect(),
                        dec_nums(st.partitions.get(pp).unwrap_or(&new_dec()))])
            }
            "mbh" => {
                let mbx = ai(0) as usize;
                let mb = p.read_macroblock_header(mbx).map_err(|e| err_name(&e))?;
                let st = p.state();
                let d = MbState::default();
                Ok(vec![mb_nums(&mb), mb_nums(st.top.get(mbx).unwrap_or(&d)), mb_nums(&st.left), dec_nums(&st.b)])
            }
            "segu" | "quant" | "lfadj" => {
                match func {
                    "segu" => p.read_segment_updates(),
                    "quant" => p.read_quantization_indices(),
                    _ => p.read_loop_filter_adjustments(),
                }
                .map_err(|e| err_name(&e))?;
                Ok(header_secs(&p.state()))
            }
            "tokp" => {
                p.update_token_probabilities().map_err(|e| err_name(&e))?;
                let st = p.state();
                Ok(vec![flat_tp(&st.token_probs).iter().map(|&x| x as i64).collect(), dec_nums(&st.b)])
            }
            "parts" => {
                p.init_partitions(ai(0) as usize).map_err(|e| err_name(&e))?;
                let st = p.state();
                let mut s: Vec<Vec<i64>> = st.partitions.iter().map(dec_nums).collect();
                s.push(vec![st.reader_remaining as i64]);
                Ok(s)
            }
            _ => Err("BADCASE".to_string()),
        }
    }));
    match r {
        Ok(Ok(s)) => ok_line(&s),
        Ok(Err(e)) => format!("ERR {}", e),
        Err(_) => "PANIC".to_string(),
    }
}
fn new_dec() -> DecState {
    DecState { chunk_index: 0, value: 0, range: 255, bit_count: -8, final_bytes: [0; 3], final_bytes_remaining: -14 }
}

fn n_args(func: &str) -> usize {
    match func {
        "hdr" => 0,
        "coef" => 6,
        "res" => 3,
        "mbh" | "parts" => 1,
        _ => 0,
    }
}
fn case_line(func: &str, args: &[String], kvs: &Kvs) -> String {
    let mut w = vec!["vp8p".to_string(), func.to_string()];
    w.extend(args.iter().cloned());
    w.extend(kvs.iter().map(|(k, v)| kv_word(*k, v)));
    w.join(" ")
}
/// evaluate a printed case on a decoder rebuilt from the line alone
fn exec_line(line: &str) -> String {
    let ws: Vec<&str> = line.split_whitespace().collect();
    if ws.len() < 2 || ws[0] != "vp8p" {
        return "BADCASE".to_string();
    }
    let func = ws[1];
    let na = n_args(func);
    let args: Vec<String> = ws[2..].iter().take(na).map(|s| s.to_string()).collect();
    let mut kvs: Kvs = ws[2 + na.min(ws.len() - 2)..].iter().filter_map(|w| parse_kv(w)).collect();
    if func == "hdr" {
        // `hdr #hex`: the payload is the reader
        if let Some(h) = ws.get(2).and_then(|w| w.strip_prefix('#')) {
            kvs = vec![(1, Val::Bytes(unhex(h)))];
        }
    }
    match catch(AssertUnwindSafe(|| build_parser(&kvs))) {
        Ok(mut p) => call(&mut p, func, &args),
        Err(_) => "BADCASE".to_string(),
    }
}

// ================================================================================================
// bookkeeping
// ================================================================================================
struct Cx {
    out: Out,
    feat: BTreeMap<String, u64>,
    violations: Vec<String>,
    mismatch: u64,
    evaluations: u64,
    budget: BTreeMap<&'static str, i64>,
}
impl Cx {
    fn inc(&mut self, k: &str) {
        *self.feat.entry(k.to_string()).or_insert(0) += 1;
    }
    fn add(&mut self, k: &str, n: u64) {
        *self.feat.entry(k.to_string()).or_insert(0) += n;
    }
    fn want(&mut self, kind: &'static str) -> bool {
        let b = self.budget.entry(kind).or_insert(0);
        if *b > 0 {
            *b -= 1;
            true
        } else {
            false
        }
    }
    /// record a case: `live` is the result obtained on the decoder the state was captured from (None: no live decoder)
    fn emit(&mut self, src: &str, func: &str, line: String, live: Option<String>) -> String {
        let r = exec_line(&line);
        self.evaluations += 1;
        if let Some(l) = live {
            if l != r {
                self.mismatch += 1;
                if self.violations.len() < 20 {
                    self.violations.push(format!("{} : live result differs from the result on the rebuilt state: live `{}` rebuilt `{}`",
                                                 &line[..line.len().min(300)], &l[..l.len().min(200)], &r[..r.len().min(200)]));
                }
            }
        }
        self.inc(&format!("cases.{}", func));
        self.inc(&format!("cases.{}.{}", func, src));
        let kind = if r.starts_with("OK") { "OK".to_string() } else { r.clone() };
        self.inc(&format!("result.{}.{}", func, kind.replace(' ', "_")));
        self.stats_of(func, &line, &r);
        self.out.case(&line, &r);
        r
    }
    fn stats_of(&mut self, func: &str, line: &str, r: &str) {
        if !r.starts_with("OK") {
            return;
        }
        let secs: Vec<Vec<i64>> = r[3..].split(" | ").map(|s| if s == "-" { vec![] } else { s.split(' ').map(|x| x.parse().unwrap_or(0)).collect() }).collect();
        match func {
            "coef" => {
                let ws: Vec<&str> = line.split_whitespace().collect();
                self.inc(&format!("coef.plane.{}", ws[3]));
                self.inc(&format!("coef.complexity.{}", ws[4]));
                self.inc(&format!("coef.has_coefficients.{}", secs[0][0]));
                let nzc = secs[1].iter().filter(|&&x| x != 0).count();
                self.inc(&format!("coef.nonzero_count.{}", match nzc { 0 => "0", 1 => "1", 2..=4 => "2-4", 5..=15 => "5-15", _ => "16" }));
                let mx = secs[1].iter().map(|x| x.abs()).max().unwrap_or(0);
                self.inc(&format!("coef.max_abs.{}", match mx { 0 => "0", 1..=99 => "<100", 100..=2047 => "<2048", 2048..=32767 => "<32768", _ => ">=32768" }));
            }
            "mbh" => {
                self.inc(&format!("mbh.luma_mode.{}", secs[0][25]));
                self.inc(&format!("mbh.chroma_mode.{}", secs[0][26]));
                self.inc(&format!("mbh.segmentid.{}", secs[0][27]));
                self.inc(&format!("mbh.coeffs_skipped.{}", secs[0][28]));
                if secs[0][25] == 4 {
                    for i in 0..16 {
                        self.inc(&format!("mbh.bpred.{}", secs[0][i]));
                    }
                }
            }
            "res" => {
                self.inc(&format!("res.non_zero.{}", secs[0][0]));
                let nzb = (0..24).filter(|b| secs[1][16 * b..16 * b + 16].iter().any(|&x| x != 0)).count();
                self.inc(&format!("res.nonzero_blocks.{}", match nzb { 0 => "0", 1..=4 => "1-4", 5..=15 => "5-15", _ => "16-24" }));
            }
            "hdr" => {
                self.inc(&format!("hdr.num_partitions.{}", secs[6][0]));
                self.inc(&format!("hdr.segments_enabled.{}", secs[2][0]));
                self.inc(&format!("hdr.update_map.{}", secs[2][1]));
                self.inc(&format!("hdr.filter_type.{}", secs[0][6]));
                self.inc(&format!("hdr.skip_prob.{}", if secs[8].is_empty() { "none" } else { "some" }));
                self.inc(&format!("hdr.mbs.{}", match secs[1][0] * secs[1][1] { 0 => "0", 1 => "1", 2..=9 => "2-9", 10..=30 => "10-30", _ => ">30" }));
                let changed = secs[10].iter().zip(flat_tp(&gv::COEFFS_PROBA0).iter()).filter(|(a, b)| **a != **b as i64).count();
                self.inc(&format!("hdr.token_probs_changed.{}", match changed { 0 => "0", 1..=20 => "1-20", _ => ">20" }));
            }
            _ => {}
        }
    }
    fn violation(&mut self, s: String) {
        self.inc("violations_total");
        if self.violations.len() < 20 {
            self.violations.push(s);
        }
    }
}

// ================================================================================================
// walking a frame the way decode_frame_ does
// ================================================================================================
const KEYS_COEF: [u32; 1] = [38];
const KEYS_RES: [u32; 5] = [33, 38, 41, 42, 43];
const KEYS_MBH: [u32; 10] = [2, 3, 31, 32, 37, 39, 40, 41, 42, 43];

const ZIGZAG: [usize; 16] = [0, 1, 4, 8, 5, 2, 3, 6, 9, 12, 13, 10, 7, 11, 14, 15];
const YMODE_TO_CRATE: [u8; 5] = [0, 3, 1, 2, 4]; // generator numbering DC TM V H B -> crate DC=0 V=1 H=2 TM=3 B=4
const BMODE_TO_CRATE: [u8; 10] = [0, 1, 2, 3, 5, 6, 4, 7, 8, 9]; // B_DC B_TM B_VE B_HE B_RD B_VR B_LD B_VL B_HD B_HU

/// split a payload as read_frame_header / init_partitions do (driver-side, only to print the decoders' data)
fn split_payload(payload: &[u8], nparts: usize) -> Option<Datas> {
    if payload.len() < 10 {
        return None;
    }
    let tag = payload[0] as usize | (payload[1] as usize) << 8 | (payload[2] as usize) << 16;
    let size = tag >> 5;
    let mut d = Datas { reader: payload.to_vec(), ..Default::default() };
    if payload.len() < 10 + size {
        return None;
    }
    d.b = payload[10..10 + size].to_vec();
    let mut pos = 10 + size;
    let sizes_at = pos;
    pos += 3 * (nparts - 1);
    if payload.len() < pos {
        return None;
    }
    for i in 0..nparts - 1 {
        let s = &payload[sizes_at + 3 * i..];
        let sz = s[0] as usize | (s[1] as usize) << 8 | (s[2] as usize) << 16;
        if payload.len() < pos + sz {
            return None;
        }
        d.parts[i] = payload[pos..pos + sz].to_vec();
        pos += sz;
    }
    d.parts[nparts - 1] = payload[pos..].to_vec();
    Some(d)
}

fn key_with_part(base: &[u32], p: usize) -> Vec<u32> {
    let mut k = vec![10 + p as u32, 20 + p as u32];
    k.extend_from_slice(base);
    k.sort();
    k
}

/// expected dequantised block of a frame program: levels[n] * q at ZIGZAG[n]
fn expected_block(b: &gv::Block, first: usize, q: &[i32; 2]) -> [i32; 16] {
    let mut e = [0i32; 16];
    for n in first..16 {
        let zz = ZIGZAG[n];
        e[zz] = b.levels[n] as i32 * if zz > 0 { q[1] } else { q[0] };
    }
    e
}

fn walk(cx: &mut Cx, rng: &mut Rng, src: &'static str, payload: &[u8], spec: Option<&gv::FrameSpec>, max_mbs: usize) {
    // --- frame header ---
    let mut live = Vp8Parser::new(payload.to_vec());
    let hdr_line = format!("vp8p hdr #{}", hex(payload));
    let live_r = call(&mut live, "hdr", &[]);
    if cx.want("hdr") {
        cx.emit(src, "hdr", hdr_line, Some(live_r.clone()));
    }
    if !live_r.starts_with("OK") {
        return;
    }
    let st0 = live.state();
    if let Some(sp) = spec {
        check_header(cx, sp, &st0, payload);
    }
    let nparts = st0.num_partitions as usize;
    let datas = match split_payload(payload, nparts) {
        Some(d) => d,
        None => return,
    };
    let (mbw, mbh) = (st0.mbwidth as usize, st0.mbheight as usize);
    let mut done = 0usize;
    'rows: for mby in 0..mbh {
        let p = mby % nparts;
        // self.left = MacroBlock::default()
        let mut st = live.state();
        st.left = MbState::default();
        live.set_state(&st);
        for mbx in 0..mbw {
            if done >= max_mbs {
                break 'rows;
            }
            done += 1;
            // --- macroblock header ---
            let before = live.state();
            let args = vec![mbx.to_string()];
            let r_live = call(&mut live, "mbh", &args);
            if rng.chance(1, 3) && cx.want("mbh") {
                let line = case_line("mbh", &args, &kvs_for(&before, &datas, &KEYS_MBH, mbx));
                cx.emit(src, "mbh", line, Some(r_live.clone()));
            }
            if !r_live.starts_with("OK") {
                break 'rows;
            }
            let mbn: Vec<i64> = r_live[3..].split(" | ").next().unwrap().split(' ').map(|x| x.parse().unwrap()).collect();
            let mb = mb_from(&mbn);
            let spec_mb = spec.map(|sp| &sp.mbs[mby * mbw + mbx]);
            if let (Some(sp), Some(m)) = (spec, spec_mb) {
                check_modes(cx, sp, m, &mb, mbx, mby);
            }
            if !mb.coeffs_skipped {
                let before = live.state();
                // --- the 25 (24) read_coefficients calls on a twin decoder rebuilt from the printed state ---
                let light = src == "testfile_light";
                let want_coef = rng.chance(1, 2) && !light;
                if want_coef || spec.is_some() {
                    let kvs = kvs_for(&before, &datas, &key_with_part(&KEYS_RES, p), mbx);
                    let mut twin = build_parser(&kvs);
                    mirror_residual(cx, rng, src, &mut twin, &datas, &mb, mbx, p, want_coef, spec.zip(spec_mb));
                }
                // --- read_residual_data ---
                let args = vec![mbx.to_string(), p.to_string(), mbn.iter().map(|x| x.to_string()).collect::<Vec<_>>().join(",")];
                let r_live = call(&mut live, "res", &args);
                if rng.chance(1, 3) && !light && cx.want("res") {
                    let line = case_line("res", &args, &kvs_for(&before, &datas, &key_with_part(&KEYS_RES, p), mbx));
                    cx.emit(src, "res", line, Some(r_live.clone()));
                }
                if !r_live.starts_with("OK") {
                    break 'rows;
                }
            } else {
                let mut st = live.state();
                if mb.luma_mode != 4 {
                    st.left.complexity[0] = 0;
                    st.top[mbx].complexity[0] = 0;
                }
                for i in 1..9 {
                    st.left.complexity[i] = 0;
                    st.top[mbx].complexity[i] = 0;
                }
                live.set_state(&st);
            }
        }
    }
    cx.add("macroblocks_walked", done as u64);
}

/// the call pattern of read_residual_data, one read_coefficients at a time, on `twin`
#[allow(clippy::too_many_arguments)]
fn mirror_residual(cx: &mut Cx, rng: &mut Rng, src: &'static str, twin: &mut Vp8Parser, datas: &Datas, mb: &MbState, mbx: usize, p: usize,
                   emit: bool, spec: Option<(&gv::FrameSpec, &gv::MbSpec)>) {
    let st = twin.state();
    let seg = st.segment[(mb.segmentid as usize).min(3)];
    let mut top = st.top[mbx].complexity;
    let mut left = st.left.complexity;
    let dq = spec.map(|(sp, m)| sp.dequant(sp.mb_segment(m)));
    let mut plan: Vec<(usize, usize, usize, i16, i16, usize, usize)> = vec![]; // (plane, top idx, left idx, dcq, acq, spec block, first)
    let mut plane = if mb.luma_mode == 4 { 3 } else { 1 };
    if plane == 1 {
        plan.push((1, 0, 0, seg.y2dc, seg.y2ac, 24, 0));
        plane = 0;
    }
    for y in 0..4 {
        for x in 0..4 {
            plan.push((plane, x + 1, y + 1, seg.ydc, seg.yac, x + 4 * y, if plane == 0 { 1 } else { 0 }));
        }
    }
    for (j, base) in [(5usize, 16usize), (7, 20)] {
        for y in 0..2 {
            for x in 0..2 {
                plan.push((2, x + j, y + j, seg.uvdc, seg.uvac, base + x + 2 * y, 0));
            }
        }
    }
    for (plane, ti, li, dcq, acq, sb, first) in plan {
        let cxy = (top[ti] + left[li]) as usize;
        let before = twin.state();
        let zero = vec!["0"; 16].join(",");
        let args = vec![p.to_string(), plane.to_string(), cxy.to_string(), dcq.to_string(), acq.to_string(), zero];
        let r = call(twin, "coef", &args);
        if emit && rng.chance(1, 4) && cx.want("coef") {
            let line = case_line("coef", &args, &kvs_for(&before, datas, &key_with_part(&KEYS_COEF, p), mbx));
            cx.emit(src, "coef", line, Some(r.clone()));
        }
        if !r.starts_with("OK") {
            return;
        }
        let secs: Vec<&str> = r[3..].split(" | ").collect();
        let n = secs[0] == "1";
        top[ti] = n as u8;
        left[li] = n as u8;
        if let (Some((_, m)), Some(dq)) = (spec, dq.as_ref()) {
            let q = match plane {
                1 => &dq.y2,
                2 => &dq.uv,
                _ => &dq.y1,
            };
            let e = expected_block(&m.blocks[sb], first, q);
            let got: Vec<i32> = secs[1].split(' ').map(|x| x.parse().unwrap()).collect();
            cx.inc("intent.blocks_checked");
            if got != e.to_vec() || n != m.blocks[sb].coded(first) {
                cx.violation(format!("read_coefficients differs from the frame program: mbx {} block {} plane {}: got {:?} flag {} expected {:?} flag {}",
                                     mbx, sb, plane, got, n, e, m.blocks[sb].coded(first)));
            }
        }
    }
}

fn check_header(cx: &mut Cx, sp: &gv::FrameSpec, st: &ParseState, payload: &[u8]) {
    cx.inc("intent.headers_checked");
    let mut bad = vec![];
    let f = &st.frame;
    if (f.width, f.height) != (sp.width, sp.height) { bad.push("size"); }
    if f.version != sp.version & 7 { bad.push("version"); }
    if f.pixel_type != sp.clamp_type as u8 { bad.push("pixel_type"); }
    if st.segments_enabled != sp.seg_enabled { bad.push("segments_enabled"); }
    if sp.seg_enabled && st.segments_update_map != sp.seg_update_map { bad.push("update_map"); }
    if f.filter_type != sp.filter_simple || f.filter_level != sp.filter_level || f.sharpness_level != sp.sharpness { bad.push("filter"); }
    if st.num_partitions as usize != sp.num_parts() { bad.push("partitions"); }
    if *st.token_probs != sp.coeff_probs() { bad.push("token_probs"); }
    if st.prob_skip_false != if sp.use_skip { Some(sp.prob_skip) } else { None } { bad.push("prob_skip_false"); }
    for s in 0..(if sp.seg_enabled { 4 } else { 1 }) {
        let dq = sp.dequant(s);
        let g = &st.segment[s];
        if [g.ydc as i32, g.yac as i32] != dq.y1 || [g.y2dc as i32, g.y2ac as i32] != dq.y2 || [g.uvdc as i32, g.uvac as i32] != dq.uv {
            bad.push("quantizers");
        }
        if sp.seg_enabled && (g.loopfilter_level as i32 != sp.seg_lf_eff(s) || g.delta_values == sp.seg_abs_eff()) {
            bad.push("segment_levels");
        }
    }
    if sp.seg_enabled && sp.seg_update_map {
        for i in 0..3 {
            if st.segment_tree_probs[i] != sp.seg_probs[i].unwrap_or(255) { bad.push("segment_probs"); }
        }
    }
    if sp.lf_delta_enabled && sp.lf_delta_update {
        for i in 0..4 {
            if st.ref_delta[i] != gv::sv(sp.ref_delta[i]) || st.mode_delta[i] != gv::sv(sp.mode_delta[i]) { bad.push("lf_deltas"); }
        }
    }
    if !bad.is_empty() {
        bad.dedup();
        cx.violation(format!("vp8p hdr #{} : read_frame_header differs from the frame program in {:?}", hex(payload), bad));
    }
}
fn check_modes(cx: &mut Cx, sp: &gv::FrameSpec, m: &gv::MbSpec, mb: &MbState, mbx: usize, mby: usize) {
    cx.inc("intent.modes_checked");
    let mut ok = mb.luma_mode == YMODE_TO_CRATE[m.ymode as usize]
        && mb.chroma_mode == YMODE_TO_CRATE[m.uvmode as usize]
        && mb.segmentid as usize == sp.mb_segment(m)
        && mb.coeffs_skipped == sp.mb_skipped(m);
    if m.is_i4() {
        for i in 0..16 {
            ok &= mb.bpred[i] == BMODE_TO_CRATE[m.bmodes[i] as usize];
        }
    }
    if !ok {
        cx.violation(format!("read_macroblock_header differs from the frame program at ({}, {}): got {:?} expected {:?}", mbx, mby, mb, m));
    }
}

// ================================================================================================
// synthetic states (random bytes, random contexts)
// ================================================================================================
fn rand_tp(rng: &mut Rng) -> Vec<u8> {
    let style = rng.below(4);
    let base = flat_tp(&gv::COEFFS_PROBA0);
    (0..1056).map(|i| match style {
        0 => base[i],
        1 => rng.byte(),
        2 => if rng.chance(1, 8) { *rng.pick(&[0u8, 1, 255, 254, 128]) } else { base[i] },
        _ => *rng.pick(&[0u8, 1, 2, 128, 254, 255]),
    }).collect()
}
fn rand_data(rng: &mut Rng) -> Vec<u8> {
    let n = match rng.below(10) {
        0 => rng.below(4) as usize,
        1..=5 => rng.range(4, 40) as usize,
        _ => rng.range(40, 400) as usize,
    };
    match rng.below(8) {
        0 => vec![0u8; n],
        1 => vec![0xffu8; n],
        2 => (0..n).map(|_| if rng.chance(1, 6) { rng.byte() } else { 0 }).collect(),
        _ => rng.bytes(n),
    }
}
fn rand_mb(rng: &mut Rng) -> MbState {
    let mut m = MbState::default();
    for i in 0..16 {
        m.bpred[i] = rng.below(10) as u8;
    }
    for i in 0..9 {
        m.complexity[i] = rng.below(2) as u8;
    }
    m.luma_mode = rng.below(5) as u8;
    m.chroma_mode = rng.below(4) as u8;
    m.segmentid = rng.below(4) as u8;
    m
}
fn rand_q(rng: &mut Rng) -> i64 {
    match rng.below(10) {
        0 => *rng.pick(&[0i64, 1, -1, 32767, -32768, 132, 157, 8]),
        1..=6 => rng.range(4, 157) as i64,
        7 => rng.range(4, 314) as i64,
        _ => rng.below(65536) as i64 - 32768,
    }
}
fn rand_segments(rng: &mut Rng, quant: bool) -> Vec<i64> {
    let mut v = vec![];
    let dv = rng.chance(1, 2);
    for _ in 0..4 {
        for _ in 0..6 {
            v.push(if quant { rand_q(rng) } else { 0 });
        }
        v.push(dv as i64);
        v.push(rng.below(255) as i64 - 127);
        v.push(rng.below(127) as i64 - 63);
    }
    v
}

fn synthetic(cx: &mut Cx, rng: &mut Rng) {
    let src = "random";
    match rng.below(10) {
        0..=2 if cx.want("coef_random") => {
            // read_coefficients: random partition, probabilities, arguments; a few calls in a row on the same decoder
            let p = rng.below(8) as usize;
            let data = rand_data(rng);
            let mut kvs: Kvs = vec![(10 + p as u32, Val::Bytes(data.clone()))];
            if rng.chance(3, 4) {
                kvs.push((38, Val::Bytes(rand_tp(rng))));
            }
            let mut datas = Datas::default();
            datas.parts[p] = data;
            let mut live = build_parser(&kvs);
            for _ in 0..rng.range(1, 6) {
                let before = live.state();
                let block: Vec<String> = (0..16).map(|_| if rng.chance(1, 10) { (rng.below(2001) as i64 - 1000).to_string() } else { "0".to_string() }).collect();
                let bad = rng.chance(1, 60);
                let args = vec![if bad && rng.chance(1, 2) { "9".to_string() } else { p.to_string() },
                                if bad && rng.chance(1, 2) { "4".to_string() } else { rng.below(4).to_string() },
                                if bad && rng.chance(1, 2) { "3".to_string() } else { rng.below(3).to_string() },
                                rand_q(rng).to_string(), rand_q(rng).to_string(), block.join(",")];
                let r = call(&mut live, "coef", &args);
                let line = case_line("coef", &args, &kvs_for(&before, &datas, &key_with_part(&KEYS_COEF, p), 0));
                cx.emit(src, "coef", line, Some(r.clone()));
                if !r.starts_with("OK") {
                    break;
                }
            }
        }
        3..=4 if cx.want("mbh_random") => {
            let data = rand_data(rng);
            let n = rng.range(1, 4) as usize;
            let mut kvs: Kvs = vec![(2, Val::Bytes(data.clone())),
                (31, Val::Nums(vec![16 * n as i64, 16, if rng.chance(1, 12) { 0 } else { 1 }, 0, 1, 0, 0, 0, 0])),
                (32, Val::Nums(vec![rng.below(2) as i64, rng.below(2) as i64])),
                (37, Val::Nums((0..3).map(|_| if rng.chance(1, 3) { 255 } else { rng.byte() as i64 }).collect())),
                (39, Val::Nums(vec![rng.byte() as i64])),
                (40, Val::Nums(if rng.chance(1, 2) { vec![rng.byte() as i64] } else { vec![] })),
                (41, Val::Nums(vec![n as i64]))];
            for i in 0..n {
                let mut v = vec![i as i64];
                v.extend(mb_nums(&rand_mb(rng)));
                kvs.push((42, Val::Nums(v)));
            }
            kvs.push((43, Val::Nums(mb_nums(&rand_mb(rng)))));
            let datas = Datas { b: data, ..Default::default() };
            let mut live = build_parser(&kvs);
            for _ in 0..rng.range(1, 5) {
                let before = live.state();
                let mbx = if rng.chance(1, 40) { n } else { rng.below(n as u64) as usize };
                let args = vec![mbx.to_string()];
                let r = call(&mut live, "mbh", &args);
                let mut keys = KEYS_MBH.to_vec();
                keys.retain(|&k| k != 42);
                let mut kv = kvs_for(&before, &datas, &keys, 0);
                for i in 0..before.top.len() {
                    kv.extend(kvs_for(&before, &datas, &[42], i));
                }
                kv.sort_by_key(|(k, _)| *k);
                cx.emit(src, "mbh", case_line("mbh", &args, &kv), Some(r.clone()));
                if !r.starts_with("OK") {
                    break;
                }
            }
        }
        5 if cx.want("res_random") => {
            let p = rng.below(8) as usize;
            let data = rand_data(rng);
            let mut kvs: Kvs = vec![(10 + p as u32, Val::Bytes(data.clone())), (33, Val::Nums(rand_segments(rng, true)))];
            if rng.chance(3, 4) {
                kvs.push((38, Val::Bytes(rand_tp(rng))));
            }
            kvs.push((41, Val::Nums(vec![2])));
            for i in 0..2 {
                let mut v = vec![i as i64];
                v.extend(mb_nums(&rand_mb(rng)));
                kvs.push((42, Val::Nums(v)));
            }
            kvs.push((43, Val::Nums(mb_nums(&rand_mb(rng)))));
            let mut datas = Datas::default();
            datas.parts[p] = data;
            let mut live = build_parser(&kvs);
            for _ in 0..rng.range(1, 3) {
                let before = live.state();
                let mbx = if rng.chance(1, 40) { 2 } else { rng.below(2) as usize };
                let mut mb = rand_mb(rng);
                if rng.chance(1, 40) {
                    mb.segmentid = 4 + rng.below(200) as u8;
                }
                let args = vec![mbx.to_string(), p.to_string(), mb_nums(&mb).iter().map(|x| x.to_string()).collect::<Vec<_>>().join(",")];
                let r = call(&mut live, "res", &args);
                let mut kv = kvs_for(&before, &datas, &key_with_part(&[33, 38, 41, 43], p), 0);
                for i in 0..before.top.len() {
                    kv.extend(kvs_for(&before, &datas, &[42], i));
                }
                kv.sort_by_key(|(k, _)| *k);
                cx.emit(src, "res", case_line("res", &args, &kv), Some(r.clone()));
                if !r.starts_with("OK") {
                    break;
                }
            }
        }
        6..=7 if cx.want("hdrparts_random") => {
            // chains of header sub-functions on one decoder
            let data = rand_data(rng);
            let mut kvs: Kvs = vec![(2, Val::Bytes(data.clone())),
                                    (32, Val::Nums(vec![rng.below(2) as i64, rng.below(2) as i64])),
                                    (33, Val::Nums(rand_segments(rng, false)))];
            if rng.chance(1, 3) {
                kvs.push((38, Val::Bytes(rand_tp(rng))));
            }
            let datas = Datas { b: data, ..Default::default() };
            let mut live = build_parser(&kvs);
            for _ in 0..rng.range(1, 5) {
                let before = live.state();
                let func = *rng.pick(&["segu", "quant", "lfadj", "tokp", "quant", "segu"]);
                let r = call(&mut live, func, &[]);
                let kv = kvs_for(&before, &datas, &[2, 3, 32, 33, 34, 35, 37, 38], 0);
                cx.emit(src, func, case_line(func, &[], &kv), Some(r.clone()));
                if !r.starts_with("OK") {
                    break;
                }
            }
        }
        8 if cx.want("parts_random") => {
            let n = if rng.chance(1, 15) { *rng.pick(&[0u64, 3, 5, 9]) } else { 1 << rng.below(4) };
            let mut body = vec![];
            let mut sizes = vec![];
            for _ in 0..n.saturating_sub(1) {
                let sz = if rng.chance(1, 10) { rng.below(1 << 12) as usize } else { rng.below(20) as usize };
                sizes.extend_from_slice(&(sz as u32).to_le_bytes()[..3]);
                if body.len() < 4000 {
                    body.extend(rng.bytes(sz.min(64)));
                    if sz > 64 && rng.chance(9, 10) {
                        body.extend(vec![7u8; sz - 64]);
                    }
                }
            }
            let tail = rng.below(12) as usize;
            body.extend(rng.bytes(tail));
            let mut reader = sizes;
            reader.extend(body);
            if rng.chance(1, 6) {
                let cut = rng.below(reader.len() as u64 + 1) as usize;
                reader.truncate(cut);
            }
            let kvs: Kvs = vec![(1, Val::Bytes(reader))];
            let args = vec![n.to_string()];
            cx.emit(src, "parts", case_line("parts", &args, &kvs), None);
        }
        _ if cx.want("hdr_random") => {
            // random payloads: fully random, or a plausible 10-byte start followed by random bytes
            let mut pl = rand_data(rng);
            if rng.chance(4, 5) {
                let first = rng.below(pl.len() as u64 + 3) as u32;
                let tag: u32 = (if rng.chance(1, 10) { 1 } else { 0 }) | (rng.below(8) as u32) << 1 | (rng.below(2) as u32) << 4 | first << 5;
                let mut h = vec![tag as u8, (tag >> 8) as u8, (tag >> 16) as u8, 0x9d, 0x01, 0x2a];
                if rng.chance(1, 15) {
                    h[3 + rng.below(3) as usize] ^= 1 << rng.below(8);
                }
                h.extend_from_slice(&(rng.below(70) as u16 | (rng.below(4) as u16) << 14).to_le_bytes());
                h.extend_from_slice(&(rng.below(70) as u16 | (rng.below(4) as u16) << 14).to_le_bytes());
                if !pl.is_empty() && rng.chance(3, 4) {
                    pl[0] &= 0x3f; // colour space bit and clamp bit mostly 0
                }
                h.extend(pl);
                pl = h;
            }
            cx.emit(src, "hdr", format!("vp8p hdr #{}", hex(&pl)), None);
        }
        _ => {}
    }
}

// ================================================================================================
pub fn run(tier: &str, seed: u64, outdir: &str, extra: &[String]) {
    let mut cx = Cx { out: Out::new(outdir), feat: BTreeMap::new(), violations: vec![], mismatch: 0, evaluations: 0, budget: BTreeMap::new() };
    let mut rng = Rng::new(seed ^ 0x7038_7061);
    if tier == "replay" {
        let text = std::fs::read_to_string(&extra[0]).unwrap_or_default();
        for l in text.lines() {
            if l.starts_with("vp8p ") {
                let r = exec_line(l);
                cx.evaluations += 1;
                cx.out.case(l, &r);
            }
        }
    } else {
        let thorough = tier == "thorough";
        let scale: i64 = if thorough { 100 } else { 3 };
        for (k, n) in [("hdr", 60), ("mbh", 250), ("res", 150), ("coef", 500), ("coef_random", 120), ("mbh_random", 80), ("res_random", 40),
                       ("hdrparts_random", 120), ("parts_random", 60), ("hdr_random", 120)] {
            cx.budget.insert(k, n * scale);
        }
        let (n_lw, n_gen, n_files, n_syn) = if thorough { (1500, 3000, 60, 130000) } else { (60, 100, 6, 4000) };
        // (a) libwebp encodes
        for i in 0..n_lw {
            let w = 1 + rng.below(if i % 5 == 0 { 96 } else { 48 }) as usize;
            let h = 1 + rng.below(if i % 5 == 0 { 96 } else { 48 }) as usize;
            if let Some((file, _)) = c02::random_libwebp_encoding(&mut rng, w, h, false) {
                for pl in rw::vp8_payloads(&file) {
                    cx.inc("frames.libwebp");
                    let mut r2 = rng.fork();
                    walk(&mut cx, &mut r2, "libwebp", &pl, None, 40);
                }
            }
        }
        // test images of the repository: every `VP8 ` payload (animation frames included); first macroblocks only, and for
        // payloads above 8000 bytes only the cases that do not print a token partition (header, macroblock headers)
        let mut n_tf = 0;
        'files: for (_name, file) in c02::lossy_test_files() {
            for pl in rw::vp8_payloads(&file) {
                if pl.len() < 40_000 {
                    if n_tf >= n_files {
                        break 'files;
                    }
                    n_tf += 1;
                    let light = pl.len() >= 8000;
                    cx.inc(if light { "frames.testfile_header_and_modes_only" } else { "frames.testfile" });
                    let mut r2 = rng.fork();
                    walk(&mut cx, &mut r2, if light { "testfile_light" } else { "testfile" }, &pl, None, 12);
                }
            }
        }
        // (b) frame programs
        let opts = gv::GenOpts { max_dim: 64, ..Default::default() };
        for _ in 0..n_gen {
            let g = gv::generate(&mut rng, &opts);
            cx.inc("frames.program");
            cx.inc(&format!("frames.program.{}", g.style));
            let mut r2 = rng.fork();
            walk(&mut cx, &mut r2, "program", &g.payload, Some(&g.spec), 40);
            // damaged copies: truncated / flipped (no intent check)
            if rng.chance(1, 4) {
                let mut d = g.payload.clone();
                if rng.chance(1, 2) {
                    d.truncate(rng.below(d.len() as u64 + 1) as usize);
                } else {
                    let i = rng.below(d.len() as u64) as usize;
                    d[i] ^= 1 << rng.below(8);
                }
                cx.inc("frames.damaged");
                let mut r2 = rng.fork();
                walk(&mut cx, &mut r2, "damaged", &d, None, 20);
            }
        }
        // (c) random bytes and states
        for _ in 0..n_syn {
            synthetic(&mut cx, &mut rng);
        }
    }
    let feat = cx.feat.iter().map(|(k, v)| format!("{}: {}", jstr(k), v)).collect::<Vec<_>>().join(", ");
    let viol = cx.violations.iter().map(|v| jstr(v)).collect::<Vec<_>>().join(", ");
    let stats = format!("{{\"check\": \"vp8parse\", \"tier\": {}, \"seed\": {}, \"evaluations\": {}, \"cases\": {}, \"live_vs_rebuilt_mismatch\": {}, \"distribution\": {{{}}}, \"violations\": [{}]}}",
                        jstr(tier), seed, cx.evaluations, cx.out.n, cx.mismatch, feat, viol);
    cx.out.finish(&stats);
}
