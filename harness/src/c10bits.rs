//! c10bits: the lossless BitReader (lossless.rs) over a reader whose `fill_buf` fails once, against
//! coq/Model/BitReaderIO.v (property C10, second half, bit-reader level).
//!
//! One script (a list of fill / read_bits / consume / peek+consume operations, as in c01model's m_bitreader) is run
//! through the existing hook `image_webp::verif::bitreader_script` over `&mut FaultyReader`: a BufRead whose k-th
//! `fill_buf` call exposes min(max(1, sched[k]), remaining) bytes and whose call number `fail_at` returns
//! io::ErrorKind::Other.  The reader is lent (`&mut R: BufRead`), so the harness still owns it after an error and
//! knows the number of `fill_buf` calls made and the bytes not consumed.
//! For every script and schedule: the fault-free run, then a fault at EVERY call index of the fault-free run, then a few
//! indices beyond.  Case kind (ocaml/o_c10bits.ml):
//!     brio <sched> <hex data> <ops> <fail_at | ->
//!     -> [values] <OK | BITSTREAM | IOERR | ERR_..> calls=N left=L nbits=B bits=<buffer mod 2^nbits, hex> buffer=<u64, 16 hex digits>
//!      | PANIC <kind>
//! (nbits / bits / buffer = the state the BitReader is left in, also after an error: hook `bitreader_script_state`)
//! `violations`: decided on the implementation alone: a fault at a call index the fault-free run reaches must give
//! IoError(kind Other) after exactly fail_at + 1 calls with a prefix of the fault-free values; a fault beyond must change nothing.
use crate::util::*;
use image_webp::verif::{bitreader_script, bitreader_script_state, BitOp};
use image_webp::DecodingError;
use std::collections::BTreeMap;
use std::io::{BufRead, Read};

#[derive(Clone, Debug)]
enum Sched {
    Whole,
    Const(usize),
    /// a finite prefix, then a constant
    Random(Vec<usize>, usize),
}
impl Sched {
    fn at(&self, k: usize) -> usize {
        match self {
            Sched::Whole => usize::MAX,
            Sched::Const(c) => (*c).max(1),
            Sched::Random(p, c) => if k < p.len() { p[k].max(1) } else { (*c).max(1) },
        }
    }
    /// text for `calls` fill_buf calls: items `k` or `kxN`
    fn text(&self, calls: usize) -> String {
        match self {
            Sched::Whole => "-".to_string(),
            Sched::Const(c) => format!("{}x{}", c, calls.max(1)),
            Sched::Random(p, c) => {
                let mut items: Vec<String> = p.iter().take(calls.max(1)).map(|k| k.to_string()).collect();
                if calls > p.len() {
                    items.push(format!("{}x{}", c, calls - p.len()));
                }
                items.join(",")
            }
        }
    }
    fn label(&self) -> String {
        match self {
            Sched::Whole => "whole".into(),
            Sched::Const(c) => format!("const{}", c),
            Sched::Random(..) => "random".into(),
        }
    }
}

/// scheduled + failing reader
struct FaultyReader {
    data: Vec<u8>,
    pos: usize,
    sched: Sched,
    calls: usize,
    fail_at: Option<usize>,
}
impl Read for FaultyReader {
    fn read(&mut self, out: &mut [u8]) -> std::io::Result<usize> {
        let n = {
            let b = self.fill_buf()?;
            let n = b.len().min(out.len());
            out[..n].copy_from_slice(&b[..n]);
            n
        };
        self.consume(n);
        Ok(n)
    }
}
impl BufRead for FaultyReader {
    fn fill_buf(&mut self) -> std::io::Result<&[u8]> {
        let idx = self.calls;
        self.calls += 1;
        if self.fail_at == Some(idx) {
            return Err(std::io::Error::new(std::io::ErrorKind::Other, "injected fault"));
        }
        let k = self.sched.at(idx);
        let end = self.pos.saturating_add(k).min(self.data.len());
        Ok(&self.data[self.pos..end])
    }
    fn consume(&mut self, n: usize) {
        self.pos += n;
    }
}

#[derive(Clone, PartialEq, Debug)]
enum Class {
    Ok,
    BitStream,
    Io,
    Other,
    Panic,
}
struct Outcome {
    line: String,
    class: Class,
    vals: Vec<u64>,
    calls: usize,
}

fn class_of(r: &Result<(), String>) -> Class {
    match r {
        Ok(()) => Class::Ok,
        Err(k) if k == "BITSTREAM" => Class::BitStream,
        Err(k) if k.starts_with("IOERR") => Class::Io,
        Err(_) => Class::Other,
    }
}

fn err_text(e: &DecodingError) -> String {
    match e {
        DecodingError::BitStreamError => "BITSTREAM".to_string(),
        DecodingError::IoError(e) => if e.kind() == std::io::ErrorKind::Other { "IOERR".to_string() } else { format!("IOERR-kind-{:?}", e.kind()) },
        e => format!("ERR {:?}", e).replace(' ', "_"),
    }
}

/// The script through the existing hook `bitreader_script` (values, outcome, final state when Ok) and, over a second reader
/// of the same configuration, through `bitreader_script_state` (the state the BitReader is left in, also after an error).
fn run_one(data: &[u8], sched: &Sched, ops: &[BitOp], fail_at: Option<usize>) -> Outcome {
    let mut rd = FaultyReader { data: data.to_vec(), pos: 0, sched: sched.clone(), calls: 0, fail_at };
    let r = {
        let rdm = &mut rd;
        catch(std::panic::AssertUnwindSafe(move || {
            let (vals, res, _) = bitreader_script(rdm, ops);
            (vals, res)
        }))
    };
    let calls = rd.calls;
    let left = rd.data.len() - rd.pos;
    let mut rd2 = FaultyReader { data: data.to_vec(), pos: 0, sched: sched.clone(), calls: 0, fail_at };
    let r2 = {
        let rdm = &mut rd2;
        catch(std::panic::AssertUnwindSafe(move || bitreader_script_state(rdm, ops)))
    };
    let vtxt = |vals: &[u64]| vals.iter().map(|v| v.to_string()).collect::<Vec<_>>().join(",");
    let (vals, res) = match r {
        Ok(x) => x,
        Err(m) => {
            let line = if r2.is_err() { format!("PANIC {}", panic_kind(&m)) } else { "HOOKS-DISAGREE panic".to_string() };
            return Outcome { line, class: Class::Panic, vals: vec![], calls };
        }
    };
    let (vals2, res2, buffer, nbits) = match r2 {
        Ok(x) => x,
        Err(_) => return Outcome { line: "HOOKS-DISAGREE panic".to_string(), class: Class::Panic, vals, calls },
    };
    let out1: Result<(), String> = match &res { Ok(_) => Ok(()), Err(e) => Err(err_text(e)) };
    let out2: Result<(), String> = match &res2 { Ok(_) => Ok(()), Err(e) => Err(err_text(e)) };
    let same_state = match &res { Ok((b, n)) => *b == buffer && *n == nbits, Err(_) => true };
    if vals != vals2 || out1 != out2 || !same_state || rd2.calls != calls || rd2.data.len() - rd2.pos != left {
        return Outcome { line: "HOOKS-DISAGREE".to_string(), class: Class::Other, vals, calls };
    }
    let class = class_of(&out1);
    let bits = if nbits >= 64 { buffer } else { buffer & ((1u64 << nbits) - 1) };
    let word = match &out1 { Ok(()) => "OK".to_string(), Err(k) => k.clone() };
    let line = format!("[{}] {} calls={} left={} nbits={} bits={:x} buffer={:016x}", vtxt(&vals), word, calls, left, nbits, bits, buffer);
    Outcome { line, class, vals, calls }
}

fn panic_kind(m: &str) -> &'static str {
    if m.contains("attempt to shift") {
        "shift"
    } else if m.contains("with overflow") {
        "overflow"
    } else if m.contains("assertion") {
        "assert"
    } else if m.contains("unwrap()") {
        "unwrap"
    } else {
        "other"
    }
}

fn pick_sched(rng: &mut Rng) -> Sched {
    match rng.below(9) {
        0 | 1 => Sched::Whole,
        2 => Sched::Const(1),
        3 => Sched::Const(2),
        4 => Sched::Const(3),
        5 => Sched::Const(7),
        6 => Sched::Const(8),
        7 => Sched::Const(9),
        _ => {
            let n = rng.range(1, 48) as usize;
            let p: Vec<usize> = (0..n).map(|_| if rng.chance(1, 3) { rng.range(8, 20) } else { rng.range(1, 9) } as usize).collect();
            let c = *rng.pick(&[1usize, 2, 5, 8, 13, 1000]);
            Sched::Random(p, c)
        }
    }
}

fn parse_ops(text: &str) -> Vec<BitOp> {
    let mut ops = vec![];
    if text == "-" {
        return ops;
    }
    for w in text.split(',') {
        let num = |s: &str| s.parse::<u8>().unwrap();
        match w.as_bytes()[0] {
            b'f' => ops.push(BitOp::Fill),
            b'r' => ops.push(BitOp::ReadBits(num(&w[1..]))),
            b'c' => ops.push(BitOp::Consume(num(&w[1..]))),
            b't' => ops.push(BitOp::Take(num(&w[1..]))),
            _ => {
                ops.push(BitOp::Fill);
                ops.push(BitOp::ReadBits(num(w)));
            }
        }
    }
    ops
}

fn parse_sched(text: &str) -> Sched {
    if text == "-" {
        return Sched::Whole;
    }
    let mut p = vec![];
    for it in text.split(',') {
        match it.find('x') {
            Some(i) => {
                let k: usize = it[..i].parse().unwrap();
                let n: usize = it[i + 1..].parse().unwrap();
                for _ in 0..n {
                    p.push(k);
                }
            }
            None => p.push(it.parse().unwrap()),
        }
    }
    // the Model exposes the whole remainder once the schedule is used up
    Sched::Random(p, usize::MAX)
}

struct Ctx {
    out: Out,
    counts: BTreeMap<String, u64>,
    violations: Vec<String>,
}
impl Ctx {
    fn bump(&mut self, k: &str) {
        *self.counts.entry(k.to_string()).or_insert(0) += 1;
    }
    fn add(&mut self, k: &str, n: u64) {
        *self.counts.entry(k.to_string()).or_insert(0) += n;
    }
}

fn class_name(c: &Class) -> &'static str {
    match c {
        Class::Ok => "OK",
        Class::BitStream => "BITSTREAM",
        Class::Io => "IOERR",
        Class::Other => "ERR-other",
        Class::Panic => "PANIC",
    }
}

/// one script under one schedule: fault-free, every reached call index, a few beyond
fn run_script(cx: &mut Ctx, rng: &mut Rng, data: &[u8], sched: &Sched, ops: &[BitOp], toks: &str) {
    // 9 fill_buf calls per fill at most (1 + 7 bytes would already be 8); the text covers every possible call
    let cover = ops.len() * 9 + 10;
    let stext = sched.text(cover);
    let free = run_one(data, sched, ops, None);
    assert!(free.calls <= cover);
    let head = format!("brio {} {} {}", stext, hex(data), toks);
    cx.out.case(&format!("{} -", head), &free.line);
    cx.bump("scripts");
    cx.bump(&format!("sched.{}", sched.label()));
    cx.bump(&format!("free.result.{}", class_name(&free.class)));
    cx.add("free.fill_buf_calls", free.calls as u64);
    if free.class == Class::Io || free.class == Class::Other {
        cx.violations.push(format!("{} - :: fault-free run reports {}", head, free.line));
    }
    let mut fails: Vec<usize> = (0..free.calls).collect();
    fails.push(free.calls);
    fails.push(free.calls + 1 + rng.below(5) as usize);
    fails.push(free.calls + 100 + rng.below(1000) as usize);
    for k in fails {
        let o = run_one(data, sched, ops, Some(k));
        let case = format!("{} {}", head, k);
        if k < free.calls {
            cx.bump("fault.reached");
            let prefix = o.vals.len() <= free.vals.len() && o.vals[..] == free.vals[..o.vals.len()];
            if !(o.class == Class::Io && o.line.contains("] IOERR calls=") && o.calls == k + 1 && prefix) {
                cx.violations.push(format!("{} :: fault at a reached call gives `{}` (fault-free `{}`)", case, o.line, free.line));
            }
            cx.bump(&format!("fault.reached.result.{}", class_name(&o.class)));
            if free.class == Class::BitStream && o.vals.len() == free.vals.len() {
                cx.bump("fault.in_the_operation_that_ends_in_BitStreamError");
            }
        } else {
            cx.bump("fault.beyond");
            if o.line != free.line {
                cx.violations.push(format!("{} :: fault beyond the calls made changes the result: `{}` vs `{}`", case, o.line, free.line));
            }
        }
        cx.out.case(&case, &o.line);
    }
}

fn gen(cx: &mut Ctx, rng: &mut Rng, tier: &str) {
    let n = if tier == "thorough" { 6000 } else { 700 };
    for it in 0..n {
        let len = if rng.chance(1, 10) { rng.range(0, 3) } else { rng.range(0, 40) } as usize;
        let data = rng.bytes(len);
        // half of the scripts are short enough to end Ok on most data
        let nops = if rng.chance(1, 2) { rng.range(0, 24) } else { rng.range(0, 2 + len as u64 / 3) } as usize;
        let mut ops: Vec<BitOp> = vec![];
        let mut toks: Vec<String> = vec![];
        for _ in 0..nops {
            match rng.below(20) {
                0..=6 => { let k = rng.range(0, 32) as u8; ops.push(BitOp::Fill); ops.push(BitOp::ReadBits(k)); toks.push(format!("{}", k)); }
                7..=12 => { let k = rng.range(0, 32) as u8; ops.push(BitOp::ReadBits(k)); toks.push(format!("r{}", k)); }
                13..=14 => { ops.push(BitOp::Fill); toks.push("f".into()); }
                15..=16 => { let hi = if rng.chance(1, 8) { 70 } else { 20 }; let k = rng.range(0, hi) as u8; ops.push(BitOp::Consume(k)); toks.push(format!("c{}", k)); }
                _ => { let k = rng.range(0, 56) as u8; ops.push(BitOp::Take(k)); toks.push(format!("t{}", k)); }
            }
        }
        let toks = if toks.is_empty() { "-".to_string() } else { toks.join(",") };
        // every script under the whole-buffer schedule and one-byte windows on a rota, plus a picked schedule
        let mut scheds = vec![pick_sched(rng)];
        if it % 4 == 0 { scheds.push(Sched::Whole); }
        if it % 4 == 1 { scheds.push(Sched::Const(1)); }
        if it % 8 == 2 { scheds.push(Sched::Const(7)); }
        if it % 8 == 6 { scheds.push(Sched::Const(8)); }
        for s in scheds {
            run_script(cx, rng, &data, &s, &ops, &toks);
        }
    }
    // the crate's own unit tests as scripts
    for (d, t) in [(vec![0x9Cu8, 0x41, 0xE1], "r3,r2,r6,r10,r3"), (vec![0x6A], "r3,r5,r4")] {
        for s in [Sched::Whole, Sched::Const(1), Sched::Const(8)] {
            run_script(cx, rng, &d, &s, &parse_ops(t), t);
        }
    }
}

fn replay_line(cx: &mut Ctx, line: &str) {
    let w: Vec<&str> = line.split_whitespace().collect();
    if w.len() != 5 || w[0] != "brio" {
        return;
    }
    let sched = parse_sched(w[1]);
    let data = unhex(w[2]);
    let ops = parse_ops(w[3]);
    let fail = if w[4] == "-" { None } else { Some(w[4].parse::<usize>().unwrap()) };
    let o = run_one(&data, &sched, &ops, fail);
    cx.out.case(line, &o.line);
}

pub fn run(tier: &str, seed: u64, outdir: &str, extra: &[String]) {
    let mut cx = Ctx { out: Out::new(outdir), counts: BTreeMap::new(), violations: vec![] };
    let mut rng = Rng::new(seed);
    if tier == "replay" {
        for l in std::fs::read_to_string(&extra[0]).unwrap().lines() {
            replay_line(&mut cx, l);
        }
    } else {
        gen(&mut cx, &mut rng, tier);
    }
    let counts: Vec<String> = cx.counts.iter().map(|(k, v)| format!("{}: {}", jstr(k), v)).collect();
    let viol: Vec<String> = cx.violations.iter().map(|s| jstr(s)).collect();
    let stats = format!(
        "{{\n \"check\": \"c10bits\", \"tier\": {}, \"seed\": {}, \"evaluations\": {},\n \"distribution\": {{{}}},\n \"violations\": [{}]\n}}\n",
        jstr(tier), seed, cx.out.n, counts.join(", "), viol.join(", ")
    );
    cx.out.finish(&stats);
}
