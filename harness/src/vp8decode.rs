//! vp8decode: the WHOLE `Vp8Decoder::decode_frame` (public API, through the recording hook of `image_webp::verif` only to
//! read the header fields that classify an input) against Model.Vp8Decode.decode_frame = Model.Vp8Frame.parse_frame, the
//! conversion of the decoder state into the reconstruction header, Model.Vp8Recon.decode_frame_planes.
//!
//! case line   `vp8d #<payload hex>`
//! result line `OK <w> <h> <hexY> <hexU> <hexV>` | `ERR <DecodingError variant>` | `PANIC`
//!
//! Inputs: key frames written by `gen_vp8` frame programs (every header feature / mode / token class, sizes of every
//! residue mod 16), libwebp encodes with varied `WebPConfig`, the `VP8 ` payloads of the repository's lossy test images
//! (by size), and damaged copies of all of these (truncations, bit flips, edited first-partition size, zeroed tail).
//! Natively (independent of the Model; a mismatch is a `violation`): the planes of every frame libwebp's `WebPDecodeYUV`
//! (C kernels) accepts, unless the segment filter base leaves 0..63 before the deltas (`lf_ambiguous`: libwebp clamps
//! once, the RFC decoder and the crate twice -- counted, not judged); a panic of the real decoder on ANY input.
use crate::c02;
use crate::gen_vp8 as gv;
use crate::ref_webp as rw;
use crate::util::*;
use std::collections::BTreeMap;

fn err_name(e: &image_webp::DecodingError) -> String {
    let d = format!("{:?}", e);
    d.chars().take_while(|c| c.is_ascii_alphanumeric()).collect()
}

struct Cx {
    out: Out,
    feat: BTreeMap<String, u64>,
    violations: Vec<String>,
    n_violations: u64,
    /// smallest lf_ambiguous frame on which the crate and libwebp return different planes (an observation, not a violation)
    amb_witness: Option<Vec<u8>>,
    /// damaged copies accepted by both decoders with different planes (to be classified by Spec.VP8.in_range)
    damaged_diffs: Vec<String>,
}
impl Cx {
    fn inc(&mut self, k: &str) {
        *self.feat.entry(k.to_string()).or_insert(0) += 1;
    }
    fn add(&mut self, k: &str, n: u64) {
        *self.feat.entry(k.to_string()).or_insert(0) += n;
    }
    fn violation(&mut self, s: String) {
        self.n_violations += 1;
        if self.violations.len() < 20 {
            self.violations.push(s);
        }
    }
}

fn bucket(n: usize) -> &'static str {
    match n {
        0 => "0",
        1 => "1",
        2..=4 => "2-4",
        5..=16 => "5-16",
        17..=64 => "17-64",
        65..=400 => "65-400",
        _ => ">400",
    }
}

/// the segment-adjusted base level leaves 0..63 for some segment (the class the two references disagree on)
fn lf_ambiguous(h: &image_webp::verif::ReconHeader) -> bool {
    if !h.segments_enabled || h.filter_level == 0 {
        return false;
    }
    (0..4).any(|i| {
        let base = if h.segment_delta_values[i] { h.filter_level as i32 + h.segment_loopfilter_level[i] as i32 } else { h.segment_loopfilter_level[i] as i32 };
        !(0..=63).contains(&base)
    })
}

fn one(cx: &mut Cx, src: &str, payload: &[u8]) {
    let pl = payload.to_vec();
    let r = catch(move || image_webp::verif::vp8_decode_frame_recorded(&pl));
    cx.inc(&format!("frames.{}", src));
    cx.inc(&format!("payload_bytes.{}", match payload.len() { 0..=99 => "<100", 100..=999 => "<1000", 1000..=9999 => "<10000", _ => ">=10000" }));
    let line = match r {
        Err(msg) => {
            image_webp::verif::vp8_recording_reset();
            cx.inc("result.PANIC");
            cx.violation(format!("vp8d #{} : decode_frame panicked: {}", hex(payload), msg.replace('\n', " ")));
            "PANIC".to_string()
        }
        Ok((Err(e), rec)) => {
            let n = err_name(&e);
            cx.inc(&format!("result.ERR_{}", n));
            cx.inc(&format!("result.{}.ERR_{}", src, n));
            if rec.header.is_some() {
                cx.inc(&format!("failed_after_macroblocks.{}", bucket(rec.macroblocks.len())));
            }
            if src != "damaged" {
                cx.violation(format!("vp8d #{} : {} frame rejected: {}", hex(payload), src, n));
            }
            format!("ERR {}", n)
        }
        Ok((Ok(f), rec)) => {
            cx.inc("result.OK");
            cx.inc(&format!("result.{}.OK", src));
            let mut amb = false;
            if let Some(h) = &rec.header {
                amb = lf_ambiguous(h);
                cx.inc(&format!("header.macroblocks.{}", bucket(h.mbwidth as usize * h.mbheight as usize)));
                cx.inc(&format!("header.width_mod16.{}", h.width % 16));
                cx.inc(&format!("header.height_mod16.{}", h.height % 16));
                cx.inc(&format!("header.filter.{}", if h.filter_level == 0 { "off" } else if h.filter_type { "simple" } else { "normal" }));
                cx.inc(&format!("header.segments_enabled.{}", h.segments_enabled as u8));
                if amb {
                    cx.inc("header.lf_ambiguous");
                }
            }
            cx.add("macroblocks", rec.macroblocks.len() as u64);
            for (m, _) in &rec.macroblocks {
                cx.inc(&format!("mb.luma_mode.{}", m.luma_mode));
                cx.inc(&format!("mb.skipped.{}", m.coeffs_skipped as u8));
            }
            // native: libwebp's decoder (C kernels)
            rw::force_c(true);
            let refp = rw::decode_yuv(&rw::simple_vp8(payload));
            rw::force_c(false);
            match refp {
                None => cx.inc(&format!("native.{}.rejected_by_libwebp", src)),
                Some(p) => {
                    if amb {
                        cx.inc("native.skipped_lf_ambiguous");
                        let ir: c02::ImplResult = Ok((f.width as usize, f.height as usize, f.ybuf.clone(), f.ubuf.clone(), f.vbuf.clone()));
                        if c02::compare(&ir, &p).is_some() {
                            cx.inc("native.lf_ambiguous_differs_from_libwebp");
                            if cx.amb_witness.as_ref().map_or(true, |w| payload.len() < w.len()) {
                                cx.amb_witness = Some(payload.to_vec());
                            }
                        }
                    } else if src == "damaged" {
                        // a damaged copy that both decoders still accept need not stay inside the 16-bit residual pipeline libwebp's
                        // storage assumes (Spec.VP8.in_range); counted and listed (`vp8range` lines for the Spec oracle), not judged
                        cx.inc("native.damaged_accepted_by_libwebp");
                        let ir: c02::ImplResult = Ok((f.width as usize, f.height as usize, f.ybuf.clone(), f.ubuf.clone(), f.vbuf.clone()));
                        if c02::compare(&ir, &p).is_some() {
                            cx.inc("native.damaged_differs_from_libwebp");
                            cx.damaged_diffs.push(hex(payload));
                        }
                    } else {
                        cx.inc("native.libwebp_checks");
                        let ir: c02::ImplResult = Ok((f.width as usize, f.height as usize, f.ybuf.clone(), f.ubuf.clone(), f.vbuf.clone()));
                        if let Some(d) = c02::compare(&ir, &p) {
                            cx.violation(format!("vp8d #{} : differs from libwebp: {}", hex(payload), d));
                        }
                    }
                }
            }
            format!("OK {} {} {} {} {}", f.width, f.height, hex(&f.ybuf), hex(&f.ubuf), hex(&f.vbuf))
        }
    };
    cx.out.case(&format!("vp8d #{}", hex(payload)), &line);
}

fn damage(rng: &mut Rng, p: &[u8]) -> (Vec<u8>, &'static str) {
    let mut d = p.to_vec();
    if d.is_empty() {
        return (d, "empty");
    }
    match rng.below(6) {
        0 => {
            d.truncate(rng.below(d.len() as u64 + 1) as usize);
            (d, "truncated_anywhere")
        }
        1 => {
            let k = 1 + rng.below(6) as usize;
            d.truncate(d.len().saturating_sub(k));
            (d, "truncated_tail")
        }
        2 => {
            let i = rng.below(d.len() as u64) as usize;
            d[i] ^= 1 << rng.below(8);
            (d, "bit_flipped")
        }
        3 => {
            let i = (10 + rng.below(12) as usize).min(d.len() - 1);
            d[i] ^= 1 << rng.below(8);
            (d, "header_bit_flipped")
        }
        4 => {
            let tag = d[0] as u32 | (d.get(1).copied().unwrap_or(0) as u32) << 8 | (d.get(2).copied().unwrap_or(0) as u32) << 16;
            let size = (tag >> 5) as i64 + rng.range(0, 6) as i64 - 3;
            let tag2 = (tag & 31) | ((size.max(0) as u32) << 5);
            d[0] = tag2 as u8;
            if d.len() > 2 {
                d[1] = (tag2 >> 8) as u8;
                d[2] = (tag2 >> 16) as u8;
            }
            (d, "first_partition_size_edited")
        }
        _ => {
            let n = d.len();
            for b in d.iter_mut().skip(n - (n / 4).max(1)) {
                *b = 0;
            }
            (d, "tail_zeroed")
        }
    }
}

pub fn run(tier: &str, seed: u64, outdir: &str, extra: &[String]) {
    let mut cx = Cx { out: Out::new(outdir), feat: BTreeMap::new(), violations: vec![], n_violations: 0, amb_witness: None, damaged_diffs: vec![] };
    let mut rng = Rng::new(seed ^ 0x7038_6465);
    if tier == "replay" {
        let text = std::fs::read_to_string(&extra[0]).unwrap_or_default();
        for l in text.lines() {
            if let Some(h) = l.strip_prefix("vp8d #") {
                one(&mut cx, "replay", &unhex(h.trim()));
            }
        }
    } else {
        let thorough = tier == "thorough";
        let (n_lw, n_gen, max_dim, file_bytes, file_mbs) = if thorough { (600, 1500, 96, 40_000, 1200) } else { (80, 250, 64, 6_000, 16) };
        let mut pool: Vec<Vec<u8>> = vec![];
        // (a) frame programs; half of them with forced sizes cycling through every residue mod 16
        let opts = gv::GenOpts { max_dim, wide_pct: 20, lf_ambiguous_pct: 6, colorspace_pct: 0 };
        for _ in 0..n_gen {
            let g = gv::generate(&mut rng, &opts);
            cx.inc(&format!("frames.program.{}", g.style));
            one(&mut cx, "program", &g.payload);
            if rng.chance(1, 3) {
                pool.push(g.payload);
            }
        }
        // (b) libwebp encodes
        for i in 0..n_lw {
            let big = i % 5 == 0;
            let w = 1 + rng.below(if big { max_dim as u64 } else { 40 }) as usize;
            let h = 1 + rng.below(if big { max_dim as u64 } else { 40 }) as usize;
            if let Some((file, _)) = c02::random_libwebp_encoding(&mut rng, w, h, false) {
                for pl in rw::vp8_payloads(&file) {
                    one(&mut cx, "libwebp", &pl);
                    if rng.chance(1, 3) {
                        pool.push(pl);
                    }
                }
            }
        }
        // (c) `VP8 ` payloads of the repository's test images, by size
        let mut seen = 0;
        for (_name, file) in c02::lossy_test_files() {
            for pl in rw::vp8_payloads(&file) {
                let mbs = if pl.len() >= 10 {
                    let w = (pl[6] as usize | (pl[7] as usize) << 8) & 0x3fff;
                    let h = (pl[8] as usize | (pl[9] as usize) << 8) & 0x3fff;
                    ((w + 15) / 16) * ((h + 15) / 16)
                } else {
                    0
                };
                if pl.len() <= file_bytes && mbs <= file_mbs && seen < if thorough { 30 } else { 8 } {
                    seen += 1;
                    one(&mut cx, "testfile", &pl);
                    if pl.len() < 4000 {
                        pool.push(pl);
                    }
                } else {
                    cx.inc("frames.testfile_skipped_too_large_for_tier");
                }
            }
        }
        // (d) damaged copies
        let n_dmg = if thorough { 1500 } else { 150 };
        for _ in 0..n_dmg {
            if pool.is_empty() {
                break;
            }
            let src = rng.pick(&pool).clone();
            let (d, kind) = damage(&mut rng, &src);
            cx.inc(&format!("damage.{}", kind));
            one(&mut cx, "damaged", &d);
        }
    }
    let feat = cx.feat.iter().map(|(k, v)| format!("{}: {}", jstr(k), v)).collect::<Vec<_>>().join(", ");
    let viol = cx.violations.iter().map(|v| jstr(v)).collect::<Vec<_>>().join(", ");
    let obs = cx.amb_witness.as_ref().map(|w| jstr(&format!("smallest lf_ambiguous frame where the crate differs from libwebp: {}", hex(w)))).unwrap_or_default();
    if !cx.damaged_diffs.is_empty() {
        let text: String = cx.damaged_diffs.iter().map(|h| format!("vp8range {}\nvp8 {}\nvp8d #{}\n", h, h, h)).collect();
        let _ = std::fs::write(format!("{}/damaged_diffs.txt", outdir), text);
    }
    let stats = format!(
        "{{\"check\": \"vp8decode\", \"tier\": {}, \"seed\": {}, \"evaluations\": {}, \"cases\": {}, \"violations_total\": {}, \"distribution\": {{{}}}, \"observations\": [{}], \"violations\": [{}]}}",
        jstr(tier), seed, cx.out.n, cx.out.n, cx.n_violations, feat, obs, viol
    );
    cx.out.finish(&stats);
}
