//! c10io: correspondence of coq/Model/ContainerIO.v (the container layer over an abstract BufRead + Seek reader with a
//! delivery schedule and one injected fault) with the real `WebPDecoder::new`, `icc_profile`, `exif_metadata`,
//! `xmp_metadata` (component `cio`) and the ANMF header part of `read_frame` (component `ciof`), run over `IoReader`:
//! a reader whose k-th required-method call (read / fill_buf / seek) exposes `sched(k)` bytes and fails when
//! k == fail_at.  The implementation line and the model line must agree on the outcome class (with the io::ErrorKind
//! of an IoError), dimensions / flags / counters, the chunk table (hook `verif_chunk_table`), next_frame_start, the
//! metadata payloads and the value of the I/O call counter after every API call.
//!
//! case lines (one file per line, many runs per line):
//!   cio  <limit|-> <hex file> <sched>/<fail|-> ...                         -> results joined by " | "
//!   ciof <hex file> <sched>/<fail|->/<frame>;<frame>;... ...   with <frame> = <calls at the start of this read_frame>,
//!        <OK|ERR:cls|PANIC>,<calls at its end>,<next_frame_start after it>   -> "AGREE" per run (the oracle compares:
//!        the model stops where the payload decoder starts, so the comparison is one-sided when the header is fine;
//!        read_frame is called for successive frames until one is not OK, so the loop that steps over the chunks
//!        between two ANMF chunks is exercised)
//!   sched: w (whole) | c<k> (k bytes per call) | h<seed> (1 + top 4 bits of a 32-bit hash of call index + seed)
//!          | l<a.b.c> (explicit list, cyclic)
//! The property itself is also decided here on every run (independent of the model): fault-free results equal the
//! whole-file baseline for every schedule; the API call during which the injected fault fires returns Err; no panic.
use crate::corpus;
use crate::mux;
use crate::util::*;
use image_webp::{DecodingError, WebPDecoder};
use std::cell::Cell;
use std::io::{self, BufRead, Read, Seek, SeekFrom};
use std::rc::Rc;

#[derive(Clone, Debug)]
pub enum Sched { Whole, Const(u64), Hash(u64), List(Vec<u64>) }
impl Sched {
    fn word(&self) -> String {
        match self {
            Sched::Whole => "w".into(),
            Sched::Const(k) => format!("c{k}"),
            Sched::Hash(s) => format!("h{s}"),
            Sched::List(l) => format!("l{}", l.iter().map(|x| x.to_string()).collect::<Vec<_>>().join(".")),
        }
    }
    fn parse(w: &str) -> Option<Sched> {
        let (h, t) = w.split_at(1);
        match h {
            "w" => Some(Sched::Whole),
            "c" => t.parse().ok().map(Sched::Const),
            "h" => t.parse().ok().map(Sched::Hash),
            "l" => Some(Sched::List(t.split('.').filter_map(|x| x.parse().ok()).collect())),
            _ => None,
        }
    }
    /// bytes exposed by the call with index c (at least 1)
    fn window(&self, c: u64) -> u64 {
        let k = match self {
            Sched::Whole => 1u64 << 62,
            Sched::Const(k) => *k,
            Sched::Hash(seed) => 1 + (((c.wrapping_add(*seed)).wrapping_mul(2654435761) & 0xffff_ffff) >> 28),
            Sched::List(l) => if l.is_empty() { 1 } else { l[(c % l.len() as u64) as usize] },
        };
        k.max(1)
    }
}

pub struct IoReader {
    data: Rc<Vec<u8>>,
    pos: u64,
    sched: Sched,
    calls: Rc<Cell<u64>>,
    fail_at: Option<u64>,
    /// kind of the injected failure: false = ErrorKind::Other, true = ErrorKind::UnexpectedEof
    fail_eof: bool,
    fired: Rc<Cell<bool>>,
}
impl IoReader {
    pub fn new(data: Rc<Vec<u8>>, sched: Sched, fail_at: Option<u64>) -> (Self, Rc<Cell<u64>>, Rc<Cell<bool>>) {
        Self::new_kind(data, sched, fail_at, false)
    }
    pub fn new_kind(data: Rc<Vec<u8>>, sched: Sched, fail_at: Option<u64>, fail_eof: bool) -> (Self, Rc<Cell<u64>>, Rc<Cell<bool>>) {
        let calls = Rc::new(Cell::new(0));
        let fired = Rc::new(Cell::new(false));
        (IoReader { data, pos: 0, sched, calls: calls.clone(), fail_at, fail_eof, fired: fired.clone() }, calls, fired)
    }
    /// counts the call; returns its index, or the injected error
    fn tick(&mut self) -> io::Result<u64> {
        let c = self.calls.get();
        self.calls.set(c + 1);
        if self.fail_at == Some(c) {
            self.fired.set(true);
            let kind = if self.fail_eof { io::ErrorKind::UnexpectedEof } else { io::ErrorKind::Other };
            return Err(io::Error::new(kind, "injected fault"));
        }
        Ok(c)
    }
    fn avail(&self, c: u64) -> usize {
        let rem = (self.data.len() as u64).saturating_sub(self.pos);
        self.sched.window(c).min(rem) as usize
    }
}
impl Read for IoReader {
    fn read(&mut self, buf: &mut [u8]) -> io::Result<usize> {
        let c = self.tick()?;
        let n = self.avail(c).min(buf.len());
        let p = self.pos.min(self.data.len() as u64) as usize;
        buf[..n].copy_from_slice(&self.data[p..p + n]);
        self.pos += n as u64;
        Ok(n)
    }
}
impl BufRead for IoReader {
    fn fill_buf(&mut self) -> io::Result<&[u8]> {
        let c = self.tick()?;
        let n = self.avail(c);
        let p = self.pos.min(self.data.len() as u64) as usize;
        Ok(&self.data[p..p + n])
    }
    fn consume(&mut self, amt: usize) {
        self.pos += amt as u64;
    }
}
impl Seek for IoReader {
    fn seek(&mut self, s: SeekFrom) -> io::Result<u64> {
        self.tick()?;
        let np: i128 = match s {
            SeekFrom::Start(p) => p as i128,
            SeekFrom::Current(o) => self.pos as i128 + o as i128,
            SeekFrom::End(o) => self.data.len() as i128 + o as i128,
        };
        if np < 0 || np > u64::MAX as i128 {
            return Err(io::Error::new(io::ErrorKind::InvalidInput, "invalid seek"));
        }
        self.pos = np as u64;
        Ok(self.pos)
    }
}

/// a metadata payload: hex when short, otherwise `#<length>:<FNV-1a 64>` (the oracle prints the same)
fn payload_text(b: &[u8]) -> String {
    if b.len() <= 24 { return hex(b); }
    let mut x: u64 = 0xcbf29ce484222325;
    for &c in b { x ^= c as u64; x = x.wrapping_mul(0x100000001b3); }
    format!("#{}:{:016x}", b.len(), x)
}

fn class(e: &DecodingError) -> String {
    match e {
        DecodingError::IoError(e) => match e.kind() {
            io::ErrorKind::UnexpectedEof => "Io:Eof".into(),
            io::ErrorKind::InvalidInput => "Io:InvalidSeek".into(),
            io::ErrorKind::Other => "Io:Fault".into(),
            k => format!("Io:{k:?}"),
        },
        other => {
            let s = format!("{other:?}");
            s.split(|c: char| !c.is_alphanumeric()).next().unwrap_or("").to_string()
        }
    }
}

/// serialize ex_anim2 / serialize ex_meta of coq/Proofs/ContainerIO_examples.v
const COQ_ANIM_BYTES: &str = "524946469200000057454250565038580a000000120000001300001d0000414e494d06000000010203040000414e4d4620000000010000020000030000040000640000025650384c080000002f03000110090909414e4d463e00000000000000000003000004000028000001414c50480400000018050607565038200d000000d001009d012a0200034001020300616263640300000001020300";
const COQ_META_BYTES: &str = "524946464600000057454250565038580a000000280000000100000200004943435005000000090807060500565038200d000000d001009d012a0200034001020300455849460300000049492a00";

/// results of one run: the text of every API call (without call counters), the counter after each, and the index of
/// the API call during which the fault fired
pub struct RunRes { pub parts: Vec<String>, pub counts: Vec<u64>, pub fired_in: Option<usize>, pub panic: Option<String> }
impl RunRes {
    fn line(&self) -> String {
        if let Some(p) = &self.panic { return format!("PANIC {p}"); }
        self.parts.iter().zip(self.counts.iter()).map(|(p, c)| format!("{p} c={c}")).collect::<Vec<_>>().join(" ")
    }
}

pub fn run_cio(data: &Rc<Vec<u8>>, sched: &Sched, fail_at: Option<u64>, limit: Option<u64>) -> RunRes {
    run_cio_kind(data, sched, fail_at, false, limit)
}
pub fn run_cio_kind(data: &Rc<Vec<u8>>, sched: &Sched, fail_at: Option<u64>, fail_eof: bool, limit: Option<u64>) -> RunRes {
    let (r, calls, fired) = IoReader::new_kind(data.clone(), sched.clone(), fail_at, fail_eof);
    let calls2 = calls.clone();
    let res = catch(std::panic::AssertUnwindSafe(move || {
        let mut parts = vec![];
        let mut counts = vec![];
        let mut fired_in = None;
        let mut d = match WebPDecoder::new(r) {
            Ok(d) => d,
            Err(e) => {
                if fired.get() { fired_in = Some(0); }
                parts.push(format!("new=ERR {}", class(&e)));
                counts.push(calls.get());
                return (parts, counts, fired_in);
            }
        };
        if fired.get() { fired_in = Some(0); }
        let (w, h) = d.dimensions();
        let lc = match d.loop_count() { image_webp::LoopCount::Forever => 0u32, image_webp::LoopCount::Times(n) => n.get() as u32 };
        let (table, nfs) = d.verif_chunk_table();
        let t = if table.is_empty() { "-".to_string() } else {
            table.iter().map(|(cc, s, e)| format!("{}:{}-{}", hex(cc), s, e)).collect::<Vec<_>>().join(",")
        };
        parts.push(format!("new=OK {} {} {} {} {} {} {} {} nfs={} chunks={}", w, h, d.has_alpha() as u8, d.is_animated() as u8,
                           d.is_lossy() as u8, d.num_frames(), lc, d.loop_duration(), nfs, t));
        counts.push(calls.get());
        if let Some(l) = limit { d.set_memory_limit(l as usize); }
        for (i, nm) in ["icc", "exif", "xmp"].iter().enumerate() {
            let before = fired.get();
            let r = match i { 0 => d.icc_profile(), 1 => d.exif_metadata(), _ => d.xmp_metadata() };
            if fired.get() && !before { fired_in = Some(i + 1); }
            parts.push(match r {
                Ok(Some(b)) => format!("{nm}={}", payload_text(&b)),
                Ok(None) => format!("{nm}=none"),
                Err(e) => format!("{nm}=ERR {}", class(&e)),
            });
            counts.push(calls.get());
        }
        (parts, counts, fired_in)
    }));
    match res {
        Ok((parts, counts, fired_in)) => RunRes { parts, counts, fired_in, panic: None },
        Err(e) => RunRes { parts: vec![], counts: vec![calls2.get()], fired_in: None, panic: Some(e) },
    }
}

/// one read_frame call: calls at its start, outcome word, calls at its end, next_frame_start after it
pub struct FrameRes { pub c_start: u64, pub outcome: String, pub c_end: u64, pub nfs: u64, pub fired: bool }

/// new (must succeed, animated) + read_frame for up to `max_frames` frames, stopping at the first one that is not OK
pub fn run_frames(data: &Rc<Vec<u8>>, sched: &Sched, fail_at: Option<u64>, max_frames: u32) -> Option<Vec<FrameRes>> {
    let (r, calls, fired) = IoReader::new(data.clone(), sched.clone(), fail_at);
    let calls2 = calls.clone();
    let done: Rc<std::cell::RefCell<Vec<FrameRes>>> = Rc::new(std::cell::RefCell::new(vec![]));
    let done2 = done.clone();
    let res = catch(std::panic::AssertUnwindSafe(move || {
        let mut d = match WebPDecoder::new(r) { Ok(d) => d, Err(_) => return false };
        if !d.is_animated() { return false; }
        let Some(sz) = d.output_buffer_size() else { return false };
        if sz > 16 << 20 { return false; }
        let mut buf = vec![0u8; sz];
        for _ in 0..d.num_frames().min(max_frames) {
            let c_start = calls.get();
            let before = fired.get();
            // the entry is pushed before the call so that a panic leaves a trace of where it happened
            done.borrow_mut().push(FrameRes { c_start, outcome: "PANIC".into(), c_end: c_start, nfs: 0, fired: false });
            let o = match d.read_frame(&mut buf) { Ok(_) => "OK".to_string(), Err(e) => format!("ERR:{}", class(&e)) };
            let ok = o == "OK";
            let (_, nfs) = d.verif_chunk_table();
            *done.borrow_mut().last_mut().unwrap() = FrameRes { c_start, outcome: o, c_end: calls.get(), nfs, fired: fired.get() && !before };
            if !ok { break; }
        }
        true
    }));
    match res {
        Ok(true) => Some(std::mem::take(&mut *done2.borrow_mut())),
        Ok(false) => None,
        Err(_) => {
            let mut v = std::mem::take(&mut *done2.borrow_mut());
            if let Some(l) = v.last_mut() { l.c_end = calls2.get(); }
            if v.is_empty() { None } else { Some(v) }
        }
    }
}
fn frames_word(v: &[FrameRes]) -> String {
    v.iter().map(|f| format!("{},{},{},{}", f.c_start, f.outcome, f.c_end, f.nfs)).collect::<Vec<_>>().join(";")
}

/// animations of decodable (libwebp-encoded) frames with 1..3 unknown / metadata chunks between the ANMF chunks
/// (sometimes also before the first and after the last one): read_frame has to step over them
fn gap_animations(r: &mut Rng, n: usize) -> Vec<corpus::Item> {
    let mut v = vec![];
    for it in corpus::generated_animations(r, n, 12) {
        let cs = mux::parse_chunks(&it.bytes);
        let mut out: Vec<mux::Chunk> = vec![];
        let mut seen_anmf = false;
        let mut gaps = 0;
        let filler = |r: &mut Rng| -> mux::Chunk {
            let cc = *r.pick(&["abcd", "wxyz", "EXIF", "XMP ", "ICCP", "ALPH", "VP8 "]);
            let k = *r.pick(&[0usize, 1, 2, 3, 8, 17]);
            (mux::fourcc(cc), r.bytes(k))
        };
        // half of the files: one frame after the first gets a header error that read_frame detects only after it has
        // stepped over the chunks in front of it (x offset beyond the canvas -> FrameOutsideImage after 4 more reads;
        // or an ANMF chunk of 24..31 bytes in front of it -> ChunkHeaderInvalid), so that the call count of the
        // skipping loop is compared exactly
        let n_anmf = cs.iter().filter(|c| &c.0 == b"ANMF").count();
        let spoil = if n_anmf >= 2 && r.chance(1, 2) { Some((r.range(1, n_anmf as u64 - 1) as usize, r.chance(1, 2))) } else { None };
        let mut idx = 0usize;
        for mut c in cs {
            if &c.0 == b"ANMF" {
                if seen_anmf || r.chance(1, 4) {
                    for _ in 0..r.range(1, 3) { out.push(filler(r)); gaps += 1; }
                }
                if let Some((j, outside)) = spoil {
                    if j == idx {
                        if outside { c.1[0] = 0xff; c.1[1] = 0xff; c.1[2] = 0xff; }
                        else { let k = r.range(24, 31) as usize; out.push((mux::fourcc("ANMF"), c.1[..k.min(c.1.len())].to_vec())); }
                    }
                }
                idx += 1;
                seen_anmf = true;
            }
            out.push(c);
        }
        if r.chance(1, 3) { out.push(filler(r)); }
        v.push(corpus::Item { name: format!("gap_{}_{}", gaps, it.name), bytes: mux::riff(&out), kind: "gap_animation" });
    }
    v
}

// ---------------------------------------------------------------------------------------------------
// inputs
// ---------------------------------------------------------------------------------------------------
/// offsets of the chunk headers (top level, and the sub-chunks of ANMF chunks) of a RIFF file
fn header_offsets(b: &[u8]) -> Vec<usize> {
    let mut v = vec![0usize];
    let mut p = 12usize;
    while p + 8 <= b.len() {
        v.push(p);
        let sz = u32::from_le_bytes([b[p + 4], b[p + 5], b[p + 6], b[p + 7]]) as usize;
        if &b[p..p + 4] == b"ANMF" {
            let mut q = p + 8 + 16;
            let end = (p + 8 + sz).min(b.len());
            while q + 8 <= end {
                v.push(q);
                let s2 = u32::from_le_bytes([b[q + 4], b[q + 5], b[q + 6], b[q + 7]]) as usize;
                q = q.saturating_add(8 + s2 + (s2 & 1));
            }
        }
        p = p.saturating_add(8 + sz + (sz & 1));
    }
    v
}

const CCS: [&[u8; 4]; 12] = [b"RIFF", b"WEBP", b"VP8 ", b"VP8L", b"VP8X", b"ANIM", b"ANMF", b"ALPH", b"ICCP", b"EXIF", b"XMP ", b"zzzz"];

fn mutate(r: &mut Rng, src: &[u8]) -> (Vec<u8>, &'static str) {
    let mut b = src.to_vec();
    let hs = header_offsets(&b);
    match r.below(10) {
        0 | 1 => { let n = r.below(b.len() as u64) as usize; b.truncate(n); (b, "truncate") }
        2 | 3 | 4 => {
            let off = *r.pick(&hs) + 4;
            if off + 4 <= b.len() {
                let v = u32::from_le_bytes([b[off], b[off + 1], b[off + 2], b[off + 3]]);
                let nv = match r.below(10) {
                    0 => 0, 1 => 1, 2 => u32::MAX, 3 => u32::MAX - 1, 4 => v.wrapping_add(1), 5 => v.wrapping_sub(1), 6 => v.wrapping_add(2),
                    7 => 0x7FFF_FFFF, 8 => r.below(64) as u32, _ => r.next() as u32,
                };
                b[off..off + 4].copy_from_slice(&nv.to_le_bytes());
            }
            (b, "size_field")
        }
        5 | 6 => {
            let off = *r.pick(&hs);
            if off + 4 <= b.len() { let cc = *r.pick(&CCS); b[off..off + 4].copy_from_slice(cc); }
            (b, "fourcc")
        }
        7 => { if b.len() > 20 { b[20] = r.byte(); } (b, "vp8x_flags") }
        8 => { let n = b.len().min(64); if n > 0 { let i = r.below(n as u64) as usize; b[i] = r.byte(); } (b, "head_byte") }
        _ => { if !b.is_empty() { let i = r.below(b.len() as u64) as usize; b[i] = r.byte(); } (b, "any_byte") }
    }
}

/// small containers built with the muxer: every layout, metadata before / after the image, unknown chunks, odd sizes,
/// duplicates, missing chunks, ANMF frames with ALPH + VP8 / VP8L headers (payloads are header stubs: only the
/// container layer is exercised)
fn synthetic(r: &mut Rng, n: usize) -> Vec<corpus::Item> {
    let mut v = vec![];
    let vp8_stub = |r: &mut Rng, w: u32, h: u32| -> Vec<u8> {
        let mut p = vec![0x10, 0x02, 0x00, 0x9d, 0x01, 0x2a, w as u8, (w >> 8) as u8, h as u8, (h >> 8) as u8];
        let k = r.below(6) as usize; p.extend(r.bytes(k)); p
    };
    let vp8l_stub = |r: &mut Rng, w: u32, h: u32, alpha: bool| -> Vec<u8> {
        let hd = (w - 1) | ((h - 1) << 14) | ((alpha as u32) << 28);
        let mut p = vec![0x2f]; p.extend_from_slice(&hd.to_le_bytes());
        let k = r.below(6) as usize; p.extend(r.bytes(k)); p
    };
    for i in 0..n {
        let w = r.range(1, 300) as u32;
        let h = r.range(1, 300) as u32;
        let bytes = match r.below(6) {
            0 => { let p = vp8_stub(r, w, h); mux::riff(&[(mux::fourcc("VP8 "), p)]) }
            1 => { let a = r.chance(1, 2); let p = vp8l_stub(r, w, h, a); mux::riff(&[(mux::fourcc("VP8L"), p)]) }
            2 | 3 => {
                // extended still
                let (icc, exif, xmp) = (r.chance(1, 2), r.chance(1, 2), r.chance(1, 2));
                let lossy = r.chance(1, 2);
                let alpha = r.chance(1, 2);
                let mut flags = 0u8;
                if icc { flags |= mux::FLAG_ICC } if exif { flags |= mux::FLAG_EXIF } if xmp { flags |= mux::FLAG_XMP } if alpha { flags |= mux::FLAG_ALPHA }
                let mut cs: Vec<mux::Chunk> = vec![];
                if icc { let k = r.range(0, 40) as usize; cs.push((mux::fourcc("ICCP"), r.bytes(k))); }
                if r.chance(1, 3) { let k = r.range(0, 7) as usize; cs.push((mux::fourcc("abcd"), r.bytes(k))); }
                if lossy {
                    if alpha && r.chance(3, 4) { let k = r.range(1, 9) as usize; cs.push((mux::fourcc("ALPH"), r.bytes(k))); }
                    let p = vp8_stub(r, w, h); cs.push((mux::fourcc("VP8 "), p));
                } else { let p = vp8l_stub(r, w, h, alpha); cs.push((mux::fourcc("VP8L"), p)); }
                if exif { let k = r.range(0, 40) as usize; cs.push((mux::fourcc("EXIF"), r.bytes(k))); }
                if xmp { let k = r.range(0, 40) as usize; cs.push((mux::fourcc("XMP "), r.bytes(k))); }
                if r.chance(1, 4) { let k = r.range(0, 9) as usize; cs.push((mux::fourcc("EXIF"), r.bytes(k))); }   // duplicate
                if r.chance(1, 3) { let k = r.below(cs.len() as u64) as usize; let c = cs.remove(k); let j = r.below(cs.len() as u64 + 1) as usize; cs.insert(j, c); }
                let mut all = vec![mux::vp8x(flags, w, h)];
                all.extend(cs);
                mux::riff(&all)
            }
            _ => {
                // animation
                let nf = r.range(1, 4);
                let alpha = r.chance(1, 2);
                let (icc, exif) = (r.chance(1, 3), r.chance(1, 3));
                let mut flags = mux::FLAG_ANIM;
                if alpha { flags |= mux::FLAG_ALPHA } if icc { flags |= mux::FLAG_ICC } if exif { flags |= mux::FLAG_EXIF }
                let mut cs: Vec<mux::Chunk> = vec![mux::vp8x(flags, w, h)];
                if icc { let k = r.range(0, 20) as usize; cs.push((mux::fourcc("ICCP"), r.bytes(k))); }
                let mut anim = r.bytes(4); anim.extend_from_slice(&(r.below(4) as u16).to_le_bytes());
                cs.push((mux::fourcc("ANIM"), anim));
                for _ in 0..nf {
                    let fw = r.range(1, w as u64) as u32;
                    let fh = r.range(1, h as u64) as u32;
                    let fx = (r.below((w - fw) as u64 + 1) as u32) & !1;
                    let fy = (r.below((h - fh) as u64 + 1) as u32) & !1;
                    let mut sub: Vec<mux::Chunk> = vec![];
                    match r.below(3) {
                        0 => { let p = vp8l_stub(r, fw, fh, true); sub.push((mux::fourcc("VP8L"), p)); }
                        1 => { let p = vp8_stub(r, fw, fh); sub.push((mux::fourcc("VP8 "), p)); }
                        _ => { let k = r.range(1, 9) as usize; sub.push((mux::fourcc("ALPH"), r.bytes(k))); let p = vp8_stub(r, fw, fh); sub.push((mux::fourcc("VP8 "), p)); }
                    }
                    if r.chance(1, 4) { let k = r.range(0, 5) as usize; sub.push((mux::fourcc("wxyz"), r.bytes(k))); }
                    cs.push(mux::anmf(&mux::Frame { x: fx, y: fy, w: fw, h: fh, duration: r.below(1 << 24) as u32, blend: r.chance(1, 2), dispose: r.chance(1, 2), chunks: sub }));
                    if r.chance(1, 5) { let k = r.range(0, 5) as usize; cs.push((mux::fourcc("abcd"), r.bytes(k))); }
                }
                if exif { let k = r.range(0, 20) as usize; cs.push((mux::fourcc("EXIF"), r.bytes(k))); }
                mux::riff(&cs)
            }
        };
        v.push(corpus::Item { name: format!("syn_{i}"), bytes, kind: "synthetic" });
    }
    v
}

fn sample_ks(r: &mut Rng, n: u64, max: u64) -> Vec<u64> {
    if n <= max { (0..n).collect() } else {
        let mut v: Vec<u64> = (0..max).map(|i| i * n / max).collect();
        for _ in 0..max / 4 { v.push(r.below(n)); }
        v.push(n - 1);
        v.sort(); v.dedup(); v
    }
}

pub fn run(tier: &str, seed: u64, outdir: &str, extra: &[String]) {
    let mut out = Out::new(outdir);
    let mut violations: Vec<String> = vec![];
    let mut dist = std::collections::BTreeMap::<String, u64>::new();
    let mut add = |dist: &mut std::collections::BTreeMap<String, u64>, k: &str, n: u64| { *dist.entry(k.to_string()).or_insert(0) += n; };
    let (mut runs, mut fault_runs, mut sched_runs, mut frame_runs, mut files_n, mut max_calls) = (0u64, 0u64, 0u64, 0u64, 0u64, 0u64);
    let (mut eof_runs, mut eof_swallowed, mut eof_swallowed_partial) = (0u64, 0u64, 0u64);
    let mut eof_samples: Vec<String> = vec![];
    let mut frames_reached = 0u64;

    if tier == "replay" {
        // every line is a `cio` / `ciof` case line; the runs are redone and the property is decided again
        let txt = std::fs::read_to_string(&extra[0]).unwrap_or_default();
        for line in txt.lines() {
            let ws: Vec<&str> = line.split_whitespace().collect();
            if ws.len() >= 3 && ws[0] == "cio" {
                let limit = if ws[1] == "-" { None } else { ws[1].parse::<u64>().ok() };
                let data = Rc::new(unhex(ws[2]));
                let base = run_cio(&data, &Sched::Whole, None, limit);
                let mut res = vec![];
                for spec in &ws[3..] {
                    let mut it = spec.split('/');
                    let (Some(sw), Some(fw)) = (it.next(), it.next()) else { continue };
                    let Some(s) = Sched::parse(sw) else { continue };
                    let eof = fw.ends_with('e');
                    let f = if fw == "-" { None } else { fw.trim_end_matches('e').parse::<u64>().ok() };
                    let rr = run_cio_kind(&data, &s, f, eof, limit);
                    runs += 1;
                    if !eof { judge(&rr, &base, f, &format!("cio {} {} {}", ws[1], ws[2], spec), &mut violations); }
                    res.push(rr.line());
                }
                out.case(line, &res.join(" | "));
            }
        }
        let stats = format!("{{\"check\":\"c10io\",\"tier\":\"replay\",\"evaluations\":{runs},\"violations\":[{}]}}",
                            violations.iter().take(50).map(|v| jstr(v)).collect::<Vec<_>>().join(","));
        out.finish(&stats);
        return;
    }

    let thorough = tier == "thorough";
    let mut rng = Rng::new(seed);
    let mut files = corpus::standard(&mut rng, tier);
    files.extend(synthetic(&mut rng, if thorough { 400 } else { 80 }));
    files.extend(gap_animations(&mut rng, if thorough { 120 } else { 24 }));
    // the witness of coq/Proofs/ContainerIO_examples.v (eof_kind_fault_swallowed) and its still companion
    files.push(corpus::Item { name: "coq_anim_bytes".into(), bytes: unhex(COQ_ANIM_BYTES), kind: "synthetic" });
    files.push(corpus::Item { name: "coq_meta_bytes".into(), bytes: unhex(COQ_META_BYTES), kind: "synthetic" });
    // malformed: mutations of the small files
    let small: Vec<Vec<u8>> = files.iter().filter(|f| f.bytes.len() < 600).map(|f| f.bytes.clone()).collect();
    let n_mal = if thorough { 3000 } else { 300 };
    for i in 0..n_mal {
        let src = rng.pick(&small).clone();
        let (mut b, what) = mutate(&mut rng, &src);
        if rng.chance(1, 5) { let (b2, _) = mutate(&mut rng, &b); b = b2; }
        add(&mut dist, &format!("mutation:{what}"), 1);
        files.push(corpus::Item { name: format!("mal_{i}_{what}"), bytes: b, kind: "malformed" });
    }
    // truncation at every offset of a few small files
    for src in small.iter().filter(|b| b.len() < 260).take(if thorough { 12 } else { 2 }) {
        for n in 0..src.len() {
            add(&mut dist, "mutation:truncate_every_offset", 1);
            files.push(corpus::Item { name: format!("trunc_{n}"), bytes: src[..n].to_vec(), kind: "malformed" });
        }
    }

    // big files cost the oracle O(file) per read_exact: spread them over the shards, sample them less in the quick tier
    for i in (1..files.len()).rev() { let j = rng.below(i as u64 + 1) as usize; files.swap(i, j); }
    for it in &files {
        let big = it.bytes.len() > 8000 && !thorough;
        let max_fault = if thorough { 4000 } else if big { 16 } else { 48 };
        files_n += 1;
        add(&mut dist, &format!("kind:{}", it.kind), 1);
        let data = Rc::new(it.bytes.clone());
        // memory limit: mostly none; sometimes small, to reach MemoryLimitExceeded (decided before any I/O)
        let limit: Option<u64> = match rng.below(6) { 0 => Some(*rng.pick(&[0u64, 1, 6, 16, 1 << 20])), _ => None };
        // a huge registered metadata chunk would make read_chunk allocate its announced size: cap it
        let limit = limit.or(Some(1 << 24));
        let base = run_cio(&data, &Sched::Whole, None, limit);
        add(&mut dist, &format!("result:{}", base.parts.first().map(|p| p.split(' ').take(if p.starts_with("new=OK") { 1 } else { 2 }).collect::<Vec<_>>().join(" ")).unwrap_or("PANIC".into())), 1);
        let list: Vec<u64> = (0..rng.range(2, 12)).map(|_| rng.range(1, 16)).collect();
        let mut scheds = vec![Sched::Whole, Sched::Const(1), Sched::Const(2), Sched::Const(3), Sched::Const(7), Sched::Const(64),
                              Sched::Hash(rng.below(1000)), Sched::List(list)];
        if it.bytes.len() > 20_000 && !thorough { scheds.retain(|s| !matches!(s, Sched::Const(1) | Sched::Const(2))); }
        let mut specs: Vec<String> = vec![];
        let mut res: Vec<String> = vec![];
        let mut totals: Vec<(Sched, u64)> = vec![];
        for s in &scheds {
            let rr = run_cio(&data, s, None, limit);
            runs += 1; sched_runs += 1;
            judge(&rr, &base, None, &format!("cio {} {} {}/-", limit.map(|l| l.to_string()).unwrap_or("-".into()), hex(&it.bytes), s.word()), &mut violations);
            let total = *rr.counts.last().unwrap_or(&0);
            max_calls = max_calls.max(total);
            totals.push((s.clone(), total));
            specs.push(format!("{}/-", s.word()));
            res.push(rr.line());
        }
        // one injected fault: every call index under the whole-file schedule (sampled above max_fault), a sample under the others;
        // indices at and beyond the total are included (the fault never fires)
        for (si, (s, total)) in totals.iter().enumerate() {
            let cap = if si == 0 { max_fault } else if thorough { max_fault / 4 } else if big { 3 } else { 10 };
            let mut ks = sample_ks(&mut rng, *total, cap);
            ks.push(*total); ks.push(*total + 3);
            for k in ks {
                let rr = run_cio(&data, s, Some(k), limit);
                runs += 1; fault_runs += 1;
                judge(&rr, &base, Some(k), &format!("cio {} {} {}/{}", limit.map(|l| l.to_string()).unwrap_or("-".into()), hex(&it.bytes), s.word(), k), &mut violations);
                specs.push(format!("{}/{}", s.word(), k));
                res.push(rr.line());
            }
        }
        // failures of kind UnexpectedEof: the chunk scan of `WebPDecoder::new` takes them for the end of the file (known finding
        // F19, class eof-kind-fault-ends-chunk-scan: exactly the runs in which `new` reports success although the failure fired
        // inside it are counted under that class); an UnexpectedEof-kind failure swallowed anywhere else is a violation.
        {
            let (s, total) = &totals[0];
            let is_witness = it.name == "coq_anim_bytes";
            let ks = if is_witness { (0..*total).collect::<Vec<u64>>() } else { sample_ks(&mut rng, *total, if thorough { 200 } else { 8 }) };
            for k in ks {
                let rr = run_cio_kind(&data, s, Some(k), true, limit);
                runs += 1; eof_runs += 1;
                if let Some(p) = &rr.panic { violations.push(format!("cio {} {} {}/{}e : PANIC {p}", limit.map(|l| l.to_string()).unwrap_or("-".into()), hex(&it.bytes), s.word(), k)); }
                if rr.fired_in == Some(0) && rr.parts.first().map(|p| p.starts_with("new=OK")).unwrap_or(false) {
                    eof_swallowed += 1;
                    if rr.parts != base.parts { eof_swallowed_partial += 1; }
                    if eof_samples.len() < 3 || (is_witness && k == 21) {
                        eof_samples.push(format!("{} {}/{}e: {} (fault-free: {})", it.name, s.word(), k, rr.parts[0], base.parts[0]));
                    }
                }
                if let Some(i) = rr.fired_in {
                    if i > 0 && rr.parts.get(i).map(|p| !p.contains("=ERR")).unwrap_or(false) {
                        violations.push(format!("cio {} {} {}/{}e : failure of kind UnexpectedEof inside metadata getter {} is not reported: {}",
                            limit.map(|l| l.to_string()).unwrap_or("-".into()), hex(&it.bytes), s.word(), k, i, rr.parts[i]));
                    }
                }
                specs.push(format!("{}/{}e", s.word(), k));
                res.push(rr.line());
            }
        }
        out.case(&format!("cio {} {} {}", limit.map(|l| l.to_string()).unwrap_or("-".into()), hex(&it.bytes), specs.join(" ")), &res.join(" | "));

        // ---- read_frame headers of successive frames (animated files whose `new` succeeds)
        if base.parts.first().map(|p| p.starts_with("new=OK")).unwrap_or(false) {
            let mut fspecs: Vec<String> = vec![];
            let max_frames = if thorough { 8 } else { 5 };
            for s in [Sched::Whole, Sched::Const(1), Sched::Const(5), Sched::Hash(7)] {
                let Some(fr) = run_frames(&data, &s, None, max_frames) else { continue };
                if fr.is_empty() { continue; }
                frame_runs += 1; runs += 1;
                frames_reached = frames_reached.max(fr.len() as u64);
                if fr.iter().any(|f| f.outcome == "PANIC") { violations.push(format!("read_frame PANIC : ciof {} {}/-", hex(&it.bytes), s.word())); }
                fspecs.push(format!("{}/-/{}", s.word(), frames_word(&fr)));
                // one fault at each of the first calls of every read_frame (seek, skipped chunks, ANMF header, sub-chunk header)
                let span_max = if thorough { 120 } else if big { 10 } else { 30 };
                for f0 in &fr {
                    let span = (f0.c_end - f0.c_start).min(span_max);
                    for k in f0.c_start..f0.c_start + span {
                        let Some(ff) = run_frames(&data, &s, Some(k), max_frames) else { continue };
                        frame_runs += 1; runs += 1;
                        for f in &ff {
                            if f.fired && (f.outcome == "OK" || f.outcome == "PANIC") {
                                violations.push(format!("read_frame returned {} with a fault at call {k} : ciof {} {}/{k}", f.outcome, hex(&it.bytes), s.word()));
                            }
                            if f.outcome == "PANIC" && !f.fired { violations.push(format!("read_frame PANIC : ciof {} {}/{k}", hex(&it.bytes), s.word())); }
                        }
                        if ff.is_empty() { continue; }
                        fspecs.push(format!("{}/{}/{}", s.word(), k, frames_word(&ff)));
                    }
                }
            }
            if !fspecs.is_empty() {
                let agree = vec!["AGREE"; fspecs.len()].join(" | ");
                out.case(&format!("ciof {} {}", hex(&it.bytes), fspecs.join(" ")), &agree);
            }
        }
    }

    let stats = format!(
        "{{\"check\":\"c10io\",\"tier\":{},\"seed\":{seed},\"evaluations\":{runs},\"files\":{files_n},\"schedule_runs\":{sched_runs},\"fault_runs\":{fault_runs},\
\"frame_header_runs\":{frame_runs},\"max_frames_in_a_run\":{frames_reached},\"max_io_calls_in_a_run\":{max_calls},\"eof_kind_fault_runs\":{eof_runs},\"known_eof-kind-fault-ends-chunk-scan\":{eof_swallowed},\
\"eof_kind_faults_swallowed_with_partial_result\":{eof_swallowed_partial},\"eof_kind_samples\":[{}],\"distribution\":{{{}}},\"n_violations\":{},\"violations\":[{}]}}",
        jstr(tier), eof_samples.iter().map(|v| jstr(v)).collect::<Vec<_>>().join(","),
        dist.iter().map(|(k, v)| format!("{}:{}", jstr(k), v)).collect::<Vec<_>>().join(","),
        violations.len(), violations.iter().take(50).map(|v| jstr(v)).collect::<Vec<_>>().join(","));
    out.finish(&stats);
}

/// the property, decided on the implementation alone
fn judge(rr: &RunRes, base: &RunRes, fail_at: Option<u64>, case: &str, violations: &mut Vec<String>) {
    if violations.len() >= 50 { return; }
    if let Some(p) = &rr.panic {
        violations.push(format!("{case} : PANIC {p}"));
        return;
    }
    match fail_at {
        None => {
            if rr.parts != base.parts {
                violations.push(format!("{case} : results differ from the whole-file schedule: {:?} vs {:?}", rr.parts, base.parts));
            }
        }
        Some(k) => {
            match rr.fired_in {
                Some(i) => {
                    if !rr.parts[i].contains("=ERR Io:Fault") {
                        violations.push(format!("{case} : the fault at I/O call {k} fired during API call {i}, which reported {:?}", rr.parts[i]));
                    }
                    // the calls before and after the failing one are unaffected
                    for (j, p) in rr.parts.iter().enumerate() {
                        if j != i && base.parts.get(j) != Some(p) {
                            violations.push(format!("{case} : API call {j} reports {:?}, fault-free {:?}", p, base.parts.get(j)));
                        }
                    }
                }
                None => {
                    if rr.parts != base.parts {
                        violations.push(format!("{case} : fault index beyond the run but results differ: {:?} vs {:?}", rr.parts, base.parts));
                    }
                }
            }
        }
    }
}
