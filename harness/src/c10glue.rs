//! c10glue: correspondence of coq/Model/ReadImageIO.v (read_image of a non-animated file over the FILE reader: range_reader,
//! the VP8 decoder's reads through `Take<&mut R>`, the lossless decoder's fill_buf calls through `Take`, read_alpha_chunk)
//! with the public API `WebPDecoder::new` + `read_image` run over `IoReader`: a reader whose k-th required-method call
//! (read / fill_buf / seek) exposes `sched(k)` bytes and fails (io::ErrorKind::Other) when k == fail_at.
//!
//! case line (one file and schedule per line, many runs per line):
//!   rio <fill byte> <hex file> <sched> <fail|->,<fail|->,...            fail = index among ALL calls of the reader (from `new` on)
//! result: the runs joined by " | ", each
//!   new=<calls after new> OK len=<n> h=<h1>-<h2> c=<calls after read_image>
//!   new=<calls> ERR <class> c=<calls>         class = DecodingError variant, Io:Eof | Io:Fault | Io:InvalidSeek for IoError
//!   PANIC                                     |   newfail <class> c=<calls>   (WebPDecoder::new itself failed)
//!   sched: w (whole) | c<k> (k bytes per call) | h<seed> (1 + top 4 bits of a 32-bit hash of call index + seed) | l<a.b.c>
//! The property itself is decided here on every run (independent of the model): a fault at a call index the fault-free
//! read_image reaches makes read_image return IoError(kind Other) after exactly k + 1 calls; a fault beyond changes nothing;
//! fault-free results are the same under every schedule; no panic.
use crate::corpus;
use crate::mux::*;
use crate::util::*;
use image_webp::{DecodingError, WebPDecoder};
use std::cell::Cell;
use std::collections::BTreeMap;
use std::io::{self, BufRead, Read, Seek, SeekFrom};
use std::rc::Rc;

#[derive(Clone, Debug)]
pub enum Sched { Whole, Const(u64), Hash(u64), List(Vec<u64>) }
impl Sched {
    fn word(&self) -> String {
        match self {
            Sched::Whole => "w".into(),
            Sched::Const(k) => format!("c{k}"),
            Sched::Hash(s) => format!("h{s}"),
            Sched::List(l) => format!("l{}", l.iter().map(|x| x.to_string()).collect::<Vec<_>>().join(".")),
        }
    }
    fn parse(w: &str) -> Option<Sched> {
        let (h, t) = w.split_at(1);
        match h {
            "w" => Some(Sched::Whole),
            "c" => t.parse().ok().map(Sched::Const),
            "h" => t.parse().ok().map(Sched::Hash),
            "l" => Some(Sched::List(t.split('.').filter_map(|x| x.parse().ok()).collect())),
            _ => None,
        }
    }
    fn class(&self) -> &'static str {
        match self { Sched::Whole => "whole", Sched::Const(_) => "const", Sched::Hash(_) => "random", Sched::List(_) => "list" }
    }
    /// bytes exposed by the call with index c (at least 1)
    fn window(&self, c: u64) -> u64 {
        let k = match self {
            Sched::Whole => 1u64 << 62,
            Sched::Const(k) => *k,
            Sched::Hash(seed) => 1 + (((c.wrapping_add(*seed)).wrapping_mul(2654435761) & 0xffff_ffff) >> 28),
            Sched::List(l) => if l.is_empty() { 1 } else { l[(c % l.len() as u64) as usize] },
        };
        k.max(1)
    }
}

/// copy of harness/src/c10io.rs :: IoReader (failure kind Other only)
pub struct IoReader {
    data: Rc<Vec<u8>>,
    pos: u64,
    sched: Sched,
    calls: Rc<Cell<u64>>,
    fail_at: Option<u64>,
    fired: Rc<Cell<bool>>,
}
impl IoReader {
    pub fn new(data: Rc<Vec<u8>>, sched: Sched, fail_at: Option<u64>) -> (Self, Rc<Cell<u64>>, Rc<Cell<bool>>) {
        let calls = Rc::new(Cell::new(0));
        let fired = Rc::new(Cell::new(false));
        (IoReader { data, pos: 0, sched, calls: calls.clone(), fail_at, fired: fired.clone() }, calls, fired)
    }
    fn tick(&mut self) -> io::Result<u64> {
        let c = self.calls.get();
        self.calls.set(c + 1);
        if self.fail_at == Some(c) {
            self.fired.set(true);
            return Err(io::Error::new(io::ErrorKind::Other, "injected fault"));
        }
        Ok(c)
    }
    fn avail(&self, c: u64) -> usize {
        let rem = (self.data.len() as u64).saturating_sub(self.pos);
        self.sched.window(c).min(rem) as usize
    }
}
impl Read for IoReader {
    fn read(&mut self, buf: &mut [u8]) -> io::Result<usize> {
        let c = self.tick()?;
        let n = self.avail(c).min(buf.len());
        let p = self.pos.min(self.data.len() as u64) as usize;
        buf[..n].copy_from_slice(&self.data[p..p + n]);
        self.pos += n as u64;
        Ok(n)
    }
}
impl BufRead for IoReader {
    fn fill_buf(&mut self) -> io::Result<&[u8]> {
        let c = self.tick()?;
        let n = self.avail(c);
        let p = self.pos.min(self.data.len() as u64) as usize;
        Ok(&self.data[p..p + n])
    }
    fn consume(&mut self, amt: usize) {
        self.pos += amt as u64;
    }
}
impl Seek for IoReader {
    fn seek(&mut self, s: SeekFrom) -> io::Result<u64> {
        self.tick()?;
        let np: i128 = match s {
            SeekFrom::Start(p) => p as i128,
            SeekFrom::Current(o) => self.pos as i128 + o as i128,
            SeekFrom::End(o) => self.data.len() as i128 + o as i128,
        };
        if np < 0 || np > u64::MAX as i128 {
            return Err(io::Error::new(io::ErrorKind::InvalidInput, "invalid seek"));
        }
        self.pos = np as u64;
        Ok(self.pos)
    }
}

fn class(e: &DecodingError) -> String {
    match e {
        DecodingError::IoError(e) => match e.kind() {
            io::ErrorKind::UnexpectedEof => "Io:Eof".into(),
            io::ErrorKind::InvalidInput => "Io:InvalidSeek".into(),
            io::ErrorKind::Other => "Io:Fault".into(),
            k => format!("Io:{k:?}"),
        },
        other => {
            let s = format!("{other:?}");
            s.split(|c: char| !c.is_alphanumeric()).next().unwrap_or("").to_string()
        }
    }
}

fn pix_hash(b: &[u8]) -> String {
    let (mut h1, mut h2) = (0u64, 0u64);
    for &x in b {
        h1 = (h1 * 257 + x as u64 + 1) % 1_000_000_007;
        h2 = (h2 * 263 + x as u64 + 1) % 998_244_353;
    }
    format!("len={} h={}-{}", b.len(), h1, h2)
}

/// one run: (calls after new, text of the read_image outcome without counters, calls at the end, fault fired, fired during new)
pub struct Run { pub c_new: u64, pub text: String, pub c_end: u64, pub fired: bool, pub new_failed: bool }
impl Run {
    fn line(&self) -> String {
        if self.new_failed { format!("newfail {} c={}", self.text, self.c_new) }
        else if self.text == "PANIC" { "PANIC".to_string() }
        else { format!("new={} {} c={}", self.c_new, self.text, self.c_end) }
    }
}

pub fn run_one(data: &Rc<Vec<u8>>, sched: &Sched, fail_at: Option<u64>, fill: u8) -> Run {
    let (r, calls, fired) = IoReader::new(data.clone(), sched.clone(), fail_at);
    let calls2 = calls.clone();
    let res = catch(std::panic::AssertUnwindSafe(move || {
        match WebPDecoder::new(r) {
            Err(e) => (calls2.get(), Err(format!("ERR {}", class(&e))), true),
            Ok(mut dec) => {
                let c_new = calls2.get();
                let n = dec.output_buffer_size().unwrap_or(0);
                let mut buf = vec![fill; n];
                match dec.read_image(&mut buf) {
                    Ok(()) => (c_new, Ok(format!("OK {}", pix_hash(&buf))), false),
                    Err(e) => (c_new, Err(format!("ERR {}", class(&e))), false),
                }
            }
        }
    }));
    match res {
        Ok((c_new, Ok(t), nf)) | Ok((c_new, Err(t), nf)) =>
            Run { c_new, text: t, c_end: calls.get(), fired: fired.get(), new_failed: nf },
        Err(_) => Run { c_new: 0, text: "PANIC".into(), c_end: calls.get(), fired: fired.get(), new_failed: false },
    }
}

struct Ctx { out: Out, counts: BTreeMap<String, u64>, violations: Vec<String>, baseline: BTreeMap<String, String> }
impl Ctx {
    fn count(&mut self, k: &str, n: u64) { *self.counts.entry(k.to_string()).or_insert(0) += n; }
}

/// fault indices for a fault-free run that makes the calls c_new .. c_end - 1 during read_image
fn fault_indices(rng: &mut Rng, c_new: u64, c_end: u64, cap: u64) -> Vec<u64> {
    let n = c_end - c_new;
    let mut v: Vec<u64> = if n <= cap { (c_new..c_end).collect() } else {
        let mut s: Vec<u64> = vec![c_new, c_new + 1, c_new + 2, c_end - 3, c_end - 2, c_end - 1];
        while (s.len() as u64) < cap { s.push(c_new + rng.below(n)); }
        s.sort(); s.dedup(); s
    };
    v.push(c_end); v.push(c_end + 1 + rng.below(50));
    v
}

fn run_pair(cx: &mut Ctx, rng: &mut Rng, name: &str, kind: &str, data: &Rc<Vec<u8>>, sched: &Sched, fill: u8, cap: u64) {
    let free = run_one(data, sched, None, fill);
    if free.new_failed { cx.count("files_new_fails(skipped)", 1); return; }
    let mut lines = vec![free.line()];
    let mut fails = vec!["-".to_string()];
    cx.count(&format!("pairs_kind_{kind}"), 1);
    cx.count(&format!("pairs_sched_{}", sched.class()), 1);
    let oc = free.text.split(' ').take(2).collect::<Vec<_>>().join(" ");
    cx.count(&format!("faultfree_{}", if free.text.starts_with("OK") { "OK".to_string() } else { oc }), 1);
    cx.count("faultfree_read_image_calls", free.c_end - free.c_new);
    if free.text == "PANIC" { cx.violations.push(format!("{name} {}: fault-free PANIC", sched.word())); }
    if free.text.contains("Io:Fault") { cx.violations.push(format!("{name} {}: fault-free run reports an injected fault", sched.word())); }
    // schedule independence of the fault-free outcome (the pixels; an error keeps its class)
    match cx.baseline.get(name) {
        None => { cx.baseline.insert(name.to_string(), free.text.clone()); }
        Some(b) => if *b != free.text { cx.violations.push(format!("{name} {}: fault-free outcome `{}` differs from `{b}`", sched.word(), free.text)); }
    }
    for k in fault_indices(rng, free.c_new, free.c_end, cap) {
        let r = run_one(data, sched, Some(k), fill);
        if k < free.c_end {
            cx.count("runs_fault_reached", 1);
            if !(r.text == "ERR Io:Fault" && r.c_end == k + 1 && r.fired && r.c_new == free.c_new) {
                cx.violations.push(format!("{name} {} fail_at {k}: `{}` (fault-free `{}`)", sched.word(), r.line(), free.line()));
            }
        } else {
            cx.count("runs_fault_beyond", 1);
            if r.line() != free.line() || r.fired {
                cx.violations.push(format!("{name} {} fail_at {k} (beyond): `{}` vs `{}`", sched.word(), r.line(), free.line()));
            }
        }
        lines.push(r.line());
        fails.push(k.to_string());
    }
    cx.count("runs", lines.len() as u64);
    cx.out.case(&format!("rio {fill} {} {} {}", hex(data), sched.word(), fails.join(",")), &lines.join(" | "));
}

fn replace_chunk(file: &[u8], cc: &[u8; 4], f: impl Fn(&[u8]) -> Vec<u8>) -> Vec<u8> {
    let cs: Vec<Chunk> = parse_chunks(file).into_iter().map(|c| if &c.0 == cc { (c.0, f(&c.1)) } else { c }).collect();
    riff(&cs)
}

fn files(rng: &mut Rng, tier: &str) -> Vec<corpus::Item> {
    let quick = tier == "quick";
    // sizes chosen so that the extracted model (about 100 us per pixel and run, times every fault index) finishes the thorough tier in
    // about ten minutes on 16 shards
    let side = if quick { 32 } else { 40 };
    let mut v = corpus::generated_stills(rng, if quick { 24 } else { 48 }, side);
    v.extend(corpus::generated_filtered_alpha_stills(rng, if quick { 4 } else { 8 }, side));
    // lossy + ALPH re-muxed in the other chunk order and with extra chunks; lossy / lossless inside VP8X without alpha
    let base: Vec<(String, Vec<u8>, &'static str)> = v.iter().map(|i| (i.name.clone(), i.bytes.clone(), i.kind)).collect();
    for (name, bytes, kind) in base.iter() {
        let ic = image_chunks(bytes);
        if ic.is_empty() { continue; }
        let dims = ic.iter().find_map(|c| payload_dims(&c.0, &c.1));
        let Some((w, h)) = dims else { continue };
        if *kind == "lossy" && rng.chance(1, 2) {
            // announced alpha without ALPH (F18: opaque), and a plain extended lossy still
            let fl = if rng.chance(1, 2) { FLAG_ALPHA } else { 0 };
            let mut cs = vec![vp8x(fl | FLAG_EXIF, w, h)];
            cs.push((fourcc("UNKN"), rng.bytes(3)));
            cs.extend(ic.clone());
            cs.push((fourcc("EXIF"), rng.bytes(5)));
            v.push(corpus::Item { name: format!("{name}_vp8x{fl}"), bytes: riff(&cs), kind: "extended" });
        }
        if *kind == "lossy_alpha" && rng.chance(1, 2) {
            // VP8 before ALPH
            let mut cs = vec![vp8x(FLAG_ALPHA, w, h)];
            let mut rev = ic.clone(); rev.reverse();
            cs.extend(rev);
            v.push(corpus::Item { name: format!("{name}_swapped"), bytes: riff(&cs), kind: "lossy_alpha" });
        }
    }
    // multi-partition lossy stills (token partitions 2, 4, 8): the sized-partition reads of init_partitions
    for i in 0..(if quick { 4 } else { 8 }) {
        let w = rng.range(8, side as u64) as u32;
        let h = rng.range(8, side as u64) as u32;
        let img = corpus::synth_rgba(rng, w, h, [0u64, 1, 4][i % 3], 0);
        let parts = 1 + (i % 3) as i32;
        if let Some(f) = crate::ref_webp::encode(w as usize, h as usize, &corpus::rgb_of(&img), 3, 80.0, |c| { c.partitions = parts; c.segments = 1 + (i % 4) as i32; }) {
            v.push(corpus::Item { name: format!("gen_lossy_parts{}_{i}_{w}x{h}", 1 << parts), bytes: f, kind: "lossy" });
        }
    }
    // damaged copies: truncated files (the chunk range ends beyond the file), shortened / lengthened payloads, flipped bytes
    let base: Vec<(String, Vec<u8>, &'static str)> = v.iter().map(|i| (i.name.clone(), i.bytes.clone(), i.kind)).collect();
    for (j, (name, bytes, kind)) in base.iter().enumerate() {
        if j % 2 == 0 {
            let cut = rng.range(31, bytes.len().max(32) as u64 - 1) as usize;
            v.push(corpus::Item { name: format!("{name}_cut{cut}"), bytes: bytes[..cut.min(bytes.len())].to_vec(), kind });
        }
        if j % 3 == 0 {
            let cc: &[u8; 4] = if *kind == "lossless" || (*kind == "extended" && parse_chunks(bytes).iter().any(|c| &c.0 == b"VP8L")) { b"VP8L" } else { b"VP8 " };
            let drop = rng.range(1, 12) as usize;
            v.push(corpus::Item { name: format!("{name}_short{drop}"), bytes: replace_chunk(bytes, cc, |p| p[..p.len().saturating_sub(drop)].to_vec()), kind });
        }
        if j % 3 == 1 {
            let mut b = bytes.clone();
            let at = rng.range(20, b.len() as u64 - 1) as usize;
            b[at] ^= 1 << rng.below(8);
            v.push(corpus::Item { name: format!("{name}_flip{at}"), bytes: b, kind });
        }
        if j % 5 == 2 && *kind == "lossy_alpha" {
            let drop = rng.range(1, 6) as usize;
            v.push(corpus::Item { name: format!("{name}_alphshort{drop}"), bytes: replace_chunk(bytes, b"ALPH", |p| p[..p.len().saturating_sub(drop)].to_vec()), kind });
        }
    }
    v
}

fn gen(cx: &mut Ctx, rng: &mut Rng, tier: &str) {
    let quick = tier == "quick";
    let fs = files(rng, tier);
    for it in fs.iter() {
        if parse_chunks(&it.bytes).iter().any(|c| &c.0 == b"ANMF" || &c.0 == b"ANIM") { continue; }
        let data = Rc::new(it.bytes.clone());
        let lossless = parse_chunks(&it.bytes).iter().any(|c| &c.0 == b"VP8L");
        let cap = if lossless { if quick { 24 } else { 40 } } else if quick { 150 } else { 200 };
        let fill = *rng.pick(&[0u8, 0x5a, 0xff]);
        let mut scheds = vec![Sched::Whole, Sched::Const(*rng.pick(&[1u64, 2, 3, 7, 8, 9, 31, 32, 33, 64])), Sched::Hash(rng.below(1000))];
        if !quick { scheds.push(Sched::Const(1)); scheds.push(Sched::List(vec![rng.range(1, 40), rng.range(1, 9), rng.range(1, 100)])); }
        for s in scheds.iter() {
            run_pair(cx, rng, &it.name, it.kind, &data, s, fill, cap);
        }
    }
}

fn replay_line(cx: &mut Ctx, l: &str) {
    let ws: Vec<&str> = l.split_whitespace().collect();
    if ws.len() != 5 || ws[0] != "rio" { return; }
    let fill: u8 = ws[1].parse().unwrap_or(0);
    let data = Rc::new(unhex(ws[2]));
    let Some(s) = Sched::parse(ws[3]) else { return };
    let lines: Vec<String> = ws[4].split(',').map(|f| run_one(&data, &s, f.parse().ok(), fill).line()).collect();
    cx.out.case(l, &lines.join(" | "));
}

pub fn run(tier: &str, seed: u64, outdir: &str, extra: &[String]) {
    let mut cx = Ctx { out: Out::new(outdir), counts: BTreeMap::new(), violations: vec![], baseline: BTreeMap::new() };
    let mut rng = Rng::new(seed);
    if tier == "replay" {
        for l in std::fs::read_to_string(&extra[0]).unwrap().lines() { replay_line(&mut cx, l); }
    } else {
        gen(&mut cx, &mut rng, tier);
    }
    let counts: Vec<String> = cx.counts.iter().map(|(k, v)| format!("{}: {}", jstr(k), v)).collect();
    let viol: Vec<String> = cx.violations.iter().map(|s| jstr(s)).collect();
    let stats = format!(
        "{{\n \"check\": \"c10glue\", \"tier\": {}, \"seed\": {}, \"evaluations\": {},\n \"distribution\": {{{}}},\n \"violations\": [{}]\n}}\n",
        jstr(tier), seed, cx.out.n, counts.join(", "), viol.join(", ")
    );
    cx.out.finish(&stats);
}
