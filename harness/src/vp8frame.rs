//! vp8frame: the parsing side of the macroblock loop of `Vp8Decoder::decode_frame_` against Model.Vp8Frame.
//!
//! The REAL `decode_frame_` is run (hook `verif::decode_frame_traced` = `Vp8Decoder::decode_frame` over an in-memory
//! reader: header, macroblock loop with prediction, loop filter, crop).  Two `#[cfg(image_webp_verif)]` statements placed
//! in `decode_frame_` itself (`verif_parse::record_header` right after `read_frame_header`, `verif_parse::record_macroblock`
//! for every macroblock between parsing and prediction) record, per macroblock in loop order: the `MacroBlock` the loop
//! pushes to `macroblocks`, the `[i32; 384]` residuals handed to the prediction functions, and the parsing state at that
//! point (registers of the first-partition reader `b` and of `partitions[p]`, `top[mbx]`, `left`).
//!
//! Case: `vp8f #<payload hex>`.  Result: `<status> | H mbw mbh num_partitions width height | <record> | <record> ...` with
//! status `OK` / `ERR <DecodingError variant>` / `PANIC`, records = the macroblocks completed before a failure,
//! record = `M <30> R <24 blocks, `-` = all zero> B <15> P <15> T <30> L <30>` (macroblock numbers as in vp8parse: bpred 16,
//! complexity 9, luma, chroma, segment id, coeffs_skipped, non_zero_coeffs; registers: chunk_index, range, bit_count,
//! final_bytes_remaining, final_bytes 3, value as 8 big-endian bytes).
//!
//! Inputs: libwebp encodes (random configuration), the frame programs of gen_vp8 (for these the recorded modes, residuals and
//! non-zero flags are also compared with what the program wrote, computed with exact integer arithmetic: `violations`), the
//! `VP8 ` payloads of the repository's test images, damaged copies of all of them.
use crate::c02;
use crate::gen_vp8 as gv;
use crate::ref_webp as rw;
use crate::util::*;
use image_webp::verif::{DecState, FrameTrace, MbState, MbTrace};
use std::collections::BTreeMap;

fn dec_nums(d: &DecState) -> Vec<i64> {
    let mut v = vec![d.chunk_index as i64, d.range as i64, d.bit_count as i64, d.final_bytes_remaining as i64];
    v.extend(d.final_bytes.iter().map(|&b| b as i64));
    v.extend(d.value.to_be_bytes().iter().map(|&b| b as i64));
    v
}
fn mb_nums(m: &MbState) -> Vec<i64> {
    let mut v: Vec<i64> = m.bpred.iter().map(|&x| x as i64).collect();
    v.extend(m.complexity.iter().map(|&x| x as i64));
    v.extend([m.luma_mode as i64, m.chroma_mode as i64, m.segmentid as i64, m.coeffs_skipped as i64, m.non_zero_coeffs as i64]);
    v
}
fn words(n: &[i64]) -> String {
    n.iter().map(|x| x.to_string()).collect::<Vec<_>>().join(" ")
}
fn blocks_text(b: &[i32]) -> String {
    b.chunks(16)
        .map(|c| if c.iter().all(|&x| x == 0) { "-".to_string() } else { c.iter().map(|x| x.to_string()).collect::<Vec<_>>().join(",") })
        .collect::<Vec<_>>()
        .join(" ")
}
fn record_text(t: &MbTrace) -> String {
    format!("M {} R {} B {} P {} T {} L {}", words(&mb_nums(&t.mb)), blocks_text(&t.blocks), words(&dec_nums(&t.b)),
            words(&dec_nums(&t.partition)), words(&mb_nums(&t.top)), words(&mb_nums(&t.left)))
}
fn err_name(e: &image_webp::DecodingError) -> String {
    let d = format!("{:?}", e);
    d.chars().take_while(|c| c.is_ascii_alphanumeric()).collect()
}

/// the real decode_frame_ on `payload`, recorded
fn run_impl(payload: &[u8]) -> (String, FrameTrace, Option<String>) {
    image_webp::verif::trace_start();
    let pl = payload.to_vec();
    let r = catch(move || image_webp::verif::decode_frame_traced(pl));
    let tr = image_webp::verif::trace_take();
    let (status, panic_at) = match r {
        Ok(Ok(_)) => ("OK".to_string(), None),
        Ok(Err(e)) => (format!("ERR {}", err_name(&e)), None),
        Err(msg) => ("PANIC".to_string(), Some(msg)),
    };
    (status, tr, panic_at)
}
fn result_line(status: &str, tr: &FrameTrace) -> String {
    let mut s = status.to_string();
    if let Some(h) = tr.header {
        s.push_str(&format!(" | H {} {} {} {} {}", h[0], h[1], h[2], h[3], h[4]));
    }
    for t in &tr.mbs {
        s.push_str(" | ");
        s.push_str(&record_text(t));
    }
    s
}

struct Cx {
    out: Out,
    feat: BTreeMap<String, u64>,
    violations: Vec<String>,
    n_violations: u64,
}
impl Cx {
    fn inc(&mut self, k: &str) {
        *self.feat.entry(k.to_string()).or_insert(0) += 1;
    }
    fn add(&mut self, k: &str, n: u64) {
        *self.feat.entry(k.to_string()).or_insert(0) += n;
    }
    fn violation(&mut self, s: String) {
        self.n_violations += 1;
        if self.violations.len() < 20 {
            self.violations.push(s);
        }
    }
}

fn bucket(n: usize) -> &'static str {
    match n {
        0 => "0",
        1 => "1",
        2..=4 => "2-4",
        5..=16 => "5-16",
        17..=64 => "17-64",
        65..=400 => "65-400",
        _ => ">400",
    }
}

// ------------------------------------------------------------------------------------------------
// what a frame program wrote, with exact integer arithmetic (independent of the crate and of the model)
// ------------------------------------------------------------------------------------------------
const YMODE_TO_CRATE: [u8; 5] = [0, 3, 1, 2, 4]; // generator numbering DC TM V H B -> crate DC=0 V=1 H=2 TM=3 B=4
const BMODE_TO_CRATE: [u8; 10] = [0, 1, 2, 3, 5, 6, 4, 7, 8, 9]; // B_DC B_TM B_VE B_HE B_RD B_VR B_LD B_VL B_HD B_HU

fn ref_iwht(inp: &[i64; 16]) -> [i64; 16] {
    let mut tmp = [0i64; 16];
    for i in 0..4 {
        let a0 = inp[i] + inp[12 + i];
        let a1 = inp[4 + i] + inp[8 + i];
        let a2 = inp[4 + i] - inp[8 + i];
        let a3 = inp[i] - inp[12 + i];
        tmp[i] = a0 + a1;
        tmp[8 + i] = a0 - a1;
        tmp[4 + i] = a3 + a2;
        tmp[12 + i] = a3 - a2;
    }
    let mut out = [0i64; 16];
    for i in 0..4 {
        let dc = tmp[i * 4] + 3;
        let a0 = dc + tmp[3 + i * 4];
        let a1 = tmp[1 + i * 4] + tmp[2 + i * 4];
        let a2 = tmp[1 + i * 4] - tmp[2 + i * 4];
        let a3 = dc - tmp[3 + i * 4];
        out[i * 4] = (a0 + a1) >> 3;
        out[i * 4 + 1] = (a3 + a2) >> 3;
        out[i * 4 + 2] = (a0 - a1) >> 3;
        out[i * 4 + 3] = (a3 - a2) >> 3;
    }
    out
}
/// RFC 6386 section 14.4 inverse DCT, raster order in and out, exact
fn ref_idct(inp: &[i64; 16]) -> [i64; 16] {
    let mul1 = |a: i64| ((a * 20091) >> 16) + a;
    let mul2 = |a: i64| (a * 35468) >> 16;
    let mut tmp = [0i64; 16];
    for i in 0..4 {
        let a = inp[i] + inp[8 + i];
        let b = inp[i] - inp[8 + i];
        let c = mul2(inp[4 + i]) - mul1(inp[12 + i]);
        let d = mul1(inp[4 + i]) + mul2(inp[12 + i]);
        tmp[4 * i] = a + d;
        tmp[4 * i + 1] = b + c;
        tmp[4 * i + 2] = b - c;
        tmp[4 * i + 3] = a - d;
    }
    let mut out = [0i64; 16];
    for i in 0..4 {
        let dc = tmp[i] + 4;
        let a = dc + tmp[8 + i];
        let b = dc - tmp[8 + i];
        let c = mul2(tmp[4 + i]) - mul1(tmp[12 + i]);
        let d = mul1(tmp[4 + i]) + mul2(tmp[12 + i]);
        out[4 * i] = (a + d) >> 3;
        out[4 * i + 1] = (b + c) >> 3;
        out[4 * i + 2] = (b - c) >> 3;
        out[4 * i + 3] = (a - d) >> 3;
    }
    out
}
/// scan position at which the end-of-block token is read (16 when the scan runs to the end)
fn nz_of(b: &gv::Block, first: usize) -> usize {
    if b.run_to_end {
        16
    } else {
        let l = b.last(first);
        if l < first as i32 { first } else { l as usize + 1 }
    }
}
/// (384 residuals, non-zero flag in libwebp's sense) of a macroblock of a frame program
fn expected_residuals(sp: &gv::FrameSpec, m: &gv::MbSpec) -> (Vec<i64>, bool) {
    if sp.mb_skipped(m) {
        return (vec![0; 384], false);
    }
    let dq = sp.dequant(sp.mb_segment(m));
    let deq = |b: &gv::Block, first: usize, q: &[i32; 2]| -> [i64; 16] {
        let mut r = [0i64; 16];
        for n in first..16 {
            r[gv::ZIGZAG[n]] = b.levels[n] as i64 * q[(n > 0) as usize] as i64;
        }
        r
    };
    let first = if m.is_i4() { 0 } else { 1 };
    let mut dcs = [0i64; 16];
    if !m.is_i4() {
        dcs = ref_iwht(&deq(&m.blocks[24], 0, &dq.y2));
    }
    let mut out = Vec::with_capacity(384);
    let mut nonzero = false;
    for i in 0..24 {
        let (q, f) = if i < 16 { (&dq.y1, first) } else { (&dq.uv, 0) };
        let mut c = deq(&m.blocks[i], f, q);
        if i < 16 && !m.is_i4() {
            c[0] = dcs[i];
        }
        if nz_of(&m.blocks[i], f) > 1 || c[0] != 0 {
            nonzero = true;
        }
        out.extend_from_slice(&ref_idct(&c));
    }
    (out, nonzero)
}

fn check_intent(cx: &mut Cx, sp: &gv::FrameSpec, tr: &FrameTrace, payload: &[u8]) {
    let mbw = sp.mbw();
    if tr.mbs.len() != sp.mbs.len() {
        cx.violation(format!("vp8f #{} : {} macroblocks parsed, the frame program has {}", hex(payload), tr.mbs.len(), sp.mbs.len()));
        return;
    }
    for (k, (t, m)) in tr.mbs.iter().zip(sp.mbs.iter()).enumerate() {
        cx.inc("intent.macroblocks_checked");
        let mb = &t.mb;
        let mut bad = vec![];
        if mb.luma_mode != YMODE_TO_CRATE[m.ymode as usize] { bad.push("luma_mode"); }
        if mb.chroma_mode != YMODE_TO_CRATE[m.uvmode as usize] { bad.push("chroma_mode"); }
        if mb.segmentid as usize != sp.mb_segment(m) { bad.push("segment"); }
        if mb.coeffs_skipped != sp.mb_skipped(m) { bad.push("skipped"); }
        if m.is_i4() && (0..16).any(|i| mb.bpred[i] != BMODE_TO_CRATE[m.bmodes[i] as usize]) { bad.push("bpred"); }
        let (res, nonzero) = expected_residuals(sp, m);
        if t.blocks.iter().map(|&x| x as i64).ne(res.iter().copied()) { bad.push("residuals"); }
        if mb.non_zero_coeffs != nonzero { bad.push("non_zero_coeffs"); }
        if !bad.is_empty() {
            cx.violation(format!("vp8f #{} : macroblock ({}, {}) differs from the frame program in {:?}", hex(payload), k % mbw, k / mbw, bad));
            return;
        }
    }
}

fn one(cx: &mut Cx, src: &str, payload: &[u8], spec: Option<&gv::FrameSpec>) {
    let (status, tr, panic_at) = run_impl(payload);
    let line = result_line(&status, &tr);
    cx.inc(&format!("frames.{}", src));
    cx.inc(&format!("result.{}", status.replace(' ', "_")));
    cx.inc(&format!("result.{}.{}", src, status.replace(' ', "_")));
    cx.inc(&format!("payload_bytes.{}", match payload.len() { 0..=99 => "<100", 100..=999 => "<1000", 1000..=9999 => "<10000", _ => ">=10000" }));
    if let Some(h) = tr.header {
        cx.inc(&format!("header.num_partitions.{}", h[2]));
        cx.inc(&format!("header.macroblocks.{}", bucket((h[0] * h[1]) as usize)));
        cx.inc(&format!("header.mb_rows_vs_partitions.{}", if h[1] < h[2] { "fewer_rows" } else if h[1] == h[2] { "equal" } else { "more_rows" }));
        if status != "OK" {
            cx.inc(&format!("failed_after_macroblocks.{}", bucket(tr.mbs.len())));
        }
    }
    cx.add("macroblocks", tr.mbs.len() as u64);
    for t in &tr.mbs {
        cx.inc(&format!("mb.luma_mode.{}", t.mb.luma_mode));
        cx.inc(&format!("mb.chroma_mode.{}", t.mb.chroma_mode));
        cx.inc(&format!("mb.segmentid.{}", t.mb.segmentid));
        cx.inc(&format!("mb.skipped.{}.{}", t.mb.coeffs_skipped as u8, if t.mb.luma_mode == 4 { "bpred" } else { "i16" }));
        cx.inc(&format!("mb.non_zero_coeffs.{}", t.mb.non_zero_coeffs as u8));
        let nzb = t.blocks.chunks(16).filter(|c| c.iter().any(|&x| x != 0)).count();
        cx.inc(&format!("mb.nonzero_blocks.{}", match nzb { 0 => "0", 1..=4 => "1-4", 5..=15 => "5-15", _ => "16-24" }));
    }
    if let Some(msg) = panic_at {
        // a panic of the real decoder: the model only covers parsing, so say where it was raised
        cx.inc("impl_panics");
        if cx.violations.len() < 20 {
            cx.violations.push(format!("vp8f #{} : decode_frame panicked: {}", hex(payload), msg));
        }
        cx.n_violations += 1;
    }
    if let Some(sp) = spec {
        if status == "OK" {
            check_intent(cx, sp, &tr, payload);
        } else {
            cx.violation(format!("vp8f #{} : frame program rejected: {}", hex(payload), status));
        }
    }
    cx.out.case(&format!("vp8f #{}", hex(payload)), &line);
}

fn damage(rng: &mut Rng, p: &[u8]) -> (Vec<u8>, &'static str) {
    let mut d = p.to_vec();
    if d.is_empty() {
        return (d, "empty");
    }
    match rng.below(6) {
        0 => {
            d.truncate(rng.below(d.len() as u64 + 1) as usize);
            (d, "truncated_anywhere")
        }
        1 => {
            let k = 1 + rng.below(6) as usize;
            d.truncate(d.len().saturating_sub(k));
            (d, "truncated_tail")
        }
        2 => {
            let i = rng.below(d.len() as u64) as usize;
            d[i] ^= 1 << rng.below(8);
            (d, "bit_flipped")
        }
        3 => {
            // a bit of the first partition's first bytes (header fields)
            let i = (10 + rng.below(12) as usize).min(d.len() - 1);
            d[i] ^= 1 << rng.below(8);
            (d, "header_bit_flipped")
        }
        4 => {
            // first-partition length field
            let tag = d[0] as u32 | (d.get(1).copied().unwrap_or(0) as u32) << 8 | (d.get(2).copied().unwrap_or(0) as u32) << 16;
            let size = (tag >> 5) as i64 + rng.range(0, 6) as i64 - 3;
            let tag2 = (tag & 31) | ((size.max(0) as u32) << 5);
            d[0] = tag2 as u8;
            if d.len() > 2 {
                d[1] = (tag2 >> 8) as u8;
                d[2] = (tag2 >> 16) as u8;
            }
            (d, "first_partition_size_edited")
        }
        _ => {
            let n = d.len();
            for b in d.iter_mut().skip(n - (n / 4).max(1)) {
                *b = 0;
            }
            (d, "tail_zeroed")
        }
    }
}

pub fn run(tier: &str, seed: u64, outdir: &str, extra: &[String]) {
    let mut cx = Cx { out: Out::new(outdir), feat: BTreeMap::new(), violations: vec![], n_violations: 0 };
    let mut rng = Rng::new(seed ^ 0x7038_6672);
    if tier == "replay" {
        let text = std::fs::read_to_string(&extra[0]).unwrap_or_default();
        for l in text.lines() {
            if let Some(h) = l.strip_prefix("vp8f #") {
                one(&mut cx, "replay", &unhex(h.trim()), None);
            }
        }
    } else {
        let thorough = tier == "thorough";
        let (n_lw, n_gen, file_bytes, file_mbs) = if thorough { (1500, 3000, 40_000, 2000) } else { (120, 300, 8_000, 600) };
        let mut pool: Vec<Vec<u8>> = vec![];
        // (a) libwebp encodes
        for i in 0..n_lw {
            let big = i % 5 == 0;
            let w = 1 + rng.below(if big { 96 } else { 48 }) as usize;
            let h = 1 + rng.below(if big { 96 } else { 48 }) as usize;
            if let Some((file, _)) = c02::random_libwebp_encoding(&mut rng, w, h, false) {
                for pl in rw::vp8_payloads(&file) {
                    one(&mut cx, "libwebp", &pl, None);
                    if rng.chance(1, 3) {
                        pool.push(pl);
                    }
                }
            }
        }
        // (b) frame programs
        let opts = gv::GenOpts { max_dim: 64, ..Default::default() };
        for _ in 0..n_gen {
            let g = gv::generate(&mut rng, &opts);
            cx.inc(&format!("frames.program.{}", g.style));
            one(&mut cx, "program", &g.payload, Some(&g.spec));
            if rng.chance(1, 3) {
                pool.push(g.payload);
            }
        }
        // (c) `VP8 ` payloads of the repository's test images (animation frames included), by size
        let mut seen = 0;
        for (_name, file) in c02::lossy_test_files() {
            for pl in rw::vp8_payloads(&file) {
                let mbs = if pl.len() >= 10 {
                    let w = (pl[6] as usize | (pl[7] as usize) << 8) & 0x3fff;
                    let h = (pl[8] as usize | (pl[9] as usize) << 8) & 0x3fff;
                    ((w + 15) / 16) * ((h + 15) / 16)
                } else {
                    0
                };
                if pl.len() <= file_bytes && mbs <= file_mbs && seen < if thorough { 40 } else { 10 } {
                    seen += 1;
                    one(&mut cx, "testfile", &pl, None);
                    if pl.len() < 6000 {
                        pool.push(pl);
                    }
                } else {
                    cx.inc("frames.testfile_skipped_too_large_for_tier");
                }
            }
        }
        // (d) damaged copies
        let n_dmg = if thorough { 2500 } else { 200 };
        for _ in 0..n_dmg {
            if pool.is_empty() {
                break;
            }
            let src = rng.pick(&pool).clone();
            let (d, kind) = damage(&mut rng, &src);
            cx.inc(&format!("damage.{}", kind));
            one(&mut cx, "damaged", &d, None);
        }
    }
    let feat = cx.feat.iter().map(|(k, v)| format!("{}: {}", jstr(k), v)).collect::<Vec<_>>().join(", ");
    let viol = cx.violations.iter().map(|v| jstr(v)).collect::<Vec<_>>().join(", ");
    let stats = format!("{{\"check\": \"vp8frame\", \"tier\": {}, \"seed\": {}, \"evaluations\": {}, \"cases\": {}, \"violations_total\": {}, \"distribution\": {{{}}}, \"violations\": [{}]}}",
                        jstr(tier), seed, cx.out.n, cx.out.n, cx.n_violations, feat, viol);
    cx.out.finish(&stats);
}
