//! C09: the encoder's output is a well-formed RIFF/WEBP container carrying the metadata; and the encoder half of C10
//! (a failing Write sink surfaces as Err(IoError) without a panic; the bytes do not depend on how the sink splits writes).
//! For 4 colour types x predictor on/off x the 8 metadata subsets x payload lengths {1,2,3,odd,even,65535/65536}
//! (length 0 = "absent" is what the subsets cover):
//!  * `encode` case: bytes = Model (correspondence);
//!  * natively: strict independent parser (RIFF size = len - 8, even padding with zero pad byte, chunk order
//!    VP8X, ICCP, VP8L, EXIF, XMP, VP8X flags/canvas), libwebp demuxer and the crate's own decoder return every payload
//!    byte for byte, libwebp and the own decoder return the pixels; two runs give identical bytes;
//!  * `encfail` cases: a writer failing at write call k, for every k up to the number of calls: Err(IoError), no panic,
//!    bytes accepted before the failure = Model; splitting writers (1..n bytes per call, with Interrupted): same bytes.
use crate::encsup::*;
use crate::util::*;
use image_webp::ColorType;
use std::collections::BTreeMap;

pub fn run(tier: &str, seed: u64, outdir: &str, extra: &[String]) {
    let mut out = Out::new(outdir);
    let mut rng = Rng::new(seed ^ 0xC09);
    let mut violations: Vec<String> = vec![];
    let mut evals = 0u64;
    let mut subsets: BTreeMap<String, u64> = BTreeMap::new();
    let mut lens: BTreeMap<String, u64> = BTreeMap::new();
    let mut cts: BTreeMap<String, u64> = BTreeMap::new();
    let (mut fail_cases, mut fail_ok, mut split_cases, mut determinism) = (0u64, 0u64, 0u64, 0u64);
    let mut max_calls = 0usize;
    let push = |v: &mut Vec<String>, s: String| {
        if v.len() < 40 {
            v.push(s)
        }
    };

    let mut cases: Vec<EncCase> = vec![];
    if tier == "replay" {
        let txt = std::fs::read_to_string(&extra[0]).unwrap_or_default();
        for line in txt.lines() {
            let ws: Vec<&str> = line.split_whitespace().collect();
            if ws.len() == 9 && ws[0] == "encode" {
                if let Some(c) = EncCase::parse(&ws[1..]) {
                    cases.push(c);
                }
            } else if ws.len() == 10 && ws[0] == "encfail" {
                if let Some(c) = EncCase::parse(&ws[2..]) {
                    cases.push(c);
                }
            }
        }
    } else {
        let thorough = tier == "thorough";
        let big: [usize; 2] = [65535, 65536];
        let mut choice = 0usize;
        for &ct in &CTS {
            for pred in [false, true] {
                for subset in 0..8u64 {
                    // payload length classes: 1, 2, 3, odd, even, 64k (both parities); each present payload takes the
                    // class of this round, shifted per payload so that mixed parities occur together
                    let rounds = if subset == 0 { 1 } else if thorough { 12 } else { 6 };
                    for round in 0..rounds {
                        let mut len_of = |slot: usize, rng: &mut Rng| -> usize {
                            match (round + slot) % 6 {
                                0 => 1,
                                1 => 2,
                                2 => 3,
                                3 => 5 + 2 * rng.below(40) as usize,
                                4 => 4 + 2 * rng.below(40) as usize,
                                _ => {
                                    choice += 1;
                                    if thorough || choice % 4 == 0 { big[choice / 4 % 2] } else { 100 + rng.below(3000) as usize }
                                }
                            }
                        };
                        // payloads: random bytes, or (one time in three) bytes behind one of the signatures real metadata starts with,
                        // or exactly such a signature -- the container must carry them unchanged
                        const SIGS: [&[u8]; 7] = [b"Exif\0\0", b"II*\0", b"MM\0*", b"<?xpacket begin=", b"<x:xmpmeta", b"\0\0\x02\x0cacsp", b"http://ns.adobe.com/xap/1.0/\0"];
                        let mut realistic = |n: usize, rng: &mut Rng| -> Vec<u8> {
                            match rng.below(6) {
                                0 => { let mut v = rng.pick(&SIGS).to_vec(); v.extend(rng.bytes(n)); v }
                                1 => rng.pick(&SIGS).to_vec(),
                                _ => rng.bytes(n),
                            }
                        };
                        let icc = if subset & 1 != 0 { let n = len_of(0, &mut rng); realistic(n, &mut rng) } else { vec![] };
                        let exif = if subset & 2 != 0 { let n = len_of(1, &mut rng); realistic(n, &mut rng) } else { vec![] };
                        let xmp = if subset & 4 != 0 { let n = len_of(2, &mut rng); realistic(n, &mut rng) } else { vec![] };
                        let (w, h) = (rng.range(1, 9) as u32, rng.range(1, 9) as u32);
                        let style = rng.below(STYLES.len() as u64) as usize;
                        let data = gen_pixels(style, &mut rng, ct, w, h);
                        cases.push(EncCase { ct, w, h, pred, icc, exif, xmp, data, tag: format!("subset{subset}") });
                    }
                }
            }
        }
        // canvas sizes that need all three bytes of the VP8X fields' low part
        for &(w, h) in &[(256u32, 1u32), (1, 257), (16384, 1), (1, 16384)] {
            let data = gen_pixels(1, &mut rng, ColorType::L8, w, h);
            cases.push(EncCase { ct: ColorType::L8, w, h, pred: true, icc: vec![1, 2, 3], exif: vec![], xmp: vec![9], data, tag: "subset5-wide".into() });
        }
    }

    for (ci, c) in cases.iter().enumerate() {
        evals += 1;
        *subsets.entry(format!("icc={} exif={} xmp={}", !c.icc.is_empty() as u8, !c.exif.is_empty() as u8, !c.xmp.is_empty() as u8)).or_default() += 1;
        for p in [&c.icc, &c.exif, &c.xmp] {
            let class = match p.len() {
                0 => "0(absent)".to_string(),
                1 | 2 | 3 => p.len().to_string(),
                n if n >= 65535 => format!("{n}"),
                n if n % 2 == 1 => "odd".to_string(),
                _ => "even".to_string(),
            };
            *lens.entry(class).or_default() += 1;
        }
        *cts.entry(ct_name(c.ct).to_string()).or_default() += 1;
        let (o, bytes) = encode_vec(c);
        let line = result_line(&o, &bytes);
        out.case(&c.line(), &line);
        if !matches!(o, EncOut::Ok) {
            push(&mut violations, format!("{} -> encode failed: {}", c.short(), &line[..line.len().min(60)]));
            continue;
        }
        for b in judge_file(c, &bytes, true) {
            if b.starts_with("own decoder") && (c.w == 16384 || c.h == 16384) && !b.contains("payload") {
                continue; // F1, see c04
            }
            push(&mut violations, format!("{} -> {}", c.short(), b));
        }
        // determinism: a second run gives the same bytes (runtime observation)
        let (_, again) = encode_vec(c);
        determinism += 1;
        if again != bytes {
            push(&mut violations, format!("{} -> two runs produced different bytes", c.short()));
        }
        // splitting writers
        for (max, intr) in [(1usize, 0usize), (2, 0), (3, 5), (7, 0), (4096, 3)] {
            split_cases += 1;
            let mut sw = SplitWriter { rng: rng.fork(), max, intr, calls: 0, buf: vec![] };
            let o2 = encode_into(c, &mut sw);
            if !matches!(o2, EncOut::Ok) || sw.buf != bytes {
                push(&mut violations, format!("{} -> writer accepting <= {max} bytes per call (interrupt every {intr}): result differs", c.short()));
            }
        }
        // failing writers: every call index for the small files, a sample for the 64k payloads
        let small = c.icc.len() + c.exif.len() + c.xmp.len() < 4000 && (c.w as u64 * c.h as u64) < 1000;
        if tier == "replay" || ci % 3 == 0 || !small {
            let mut k = 0usize;
            loop {
                let mut fw = FailWriter { k, calls: 0, buf: vec![] };
                let o3 = encode_into(c, &mut fw);
                fail_cases += 1;
                let l3 = result_line(&o3, &fw.buf);
                match o3 {
                    EncOut::Io => {
                        fail_ok += 1;
                        if !bytes.starts_with(&fw.buf) {
                            push(&mut violations, format!("{} -> bytes accepted before the failure at call {k} are not a prefix of the file", c.short()));
                        }
                    }
                    EncOut::Ok => {
                        max_calls = max_calls.max(k);
                        if fw.buf != bytes {
                            push(&mut violations, format!("{} -> writer that never failed (k={k}) got different bytes", c.short()));
                        }
                    }
                    _ => push(&mut violations, format!("{} -> sink failing at write call {k}: {} instead of Err(IoError)", c.short(), &l3[..l3.len().min(60)])),
                }
                if small {
                    out.case(&c.fail_line(k), &l3);
                }
                if matches!(o3, EncOut::Ok) || k > 64 {
                    break;
                }
                k += 1;
            }
        }
    }

    let stats = format!(
        "{{\"evaluations\":{},\"violations\":{},\"metadata_subsets\":{},\"payload_length_classes\":{},\"colour_types\":{},\"determinism_reruns\":{},\"splitting_writer_runs\":{},\"failing_writer_runs\":{},\"failing_writer_io_errors\":{},\"max_write_calls\":{},\"libwebp_demux\":\"WebPDemux/WebPDemuxGetChunk from libwebp-sys (vendor/src/demux compiled in)\"}}",
        evals, jarr(&violations), jmap(&subsets), jmap(&lens), jmap(&cts), determinism, split_cases, fail_cases, fail_ok, max_calls
    );
    out.finish(&stats);
}
