//! C04: the lossless encoder round-trips every image.
//! For every generated image: WebPEncoder::encode (public API), then
//!  * the produced bytes are written as the implementation result of an `encode` case (Model correspondence);
//!  * natively: libwebp WebPDecodeRGBA and the crate's own decoder must both return exactly the input pixels
//!    (grey expanded, alpha 255 when absent) with the same dimensions; the container must pass the strict parser;
//!  * invalid dimensions (0, > 16384) must give Err(InvalidDimensions), never a panic.
use crate::encsup::*;
use crate::util::*;
use image_webp::ColorType;
use std::collections::BTreeMap;

struct St {
    out: Out,
    evals: u64,
    violations: Vec<String>,
    known_f1: u64,
    styles: BTreeMap<String, u64>,
    cts: BTreeMap<String, u64>,
    shapes: BTreeMap<String, u64>,
    outcomes: BTreeMap<String, u64>,
    pred: [u64; 2],
    meta: u64,
    pixels: u64,
    max_file: usize,
    documented_panics: u64,
}

impl St {
    fn run_valid(&mut self, c: &EncCase, shape: &str, emit: bool) {
        self.evals += 1;
        *self.styles.entry(c.tag.clone()).or_default() += 1;
        *self.cts.entry(ct_name(c.ct).to_string()).or_default() += 1;
        *self.shapes.entry(shape.to_string()).or_default() += 1;
        self.pred[c.pred as usize] += 1;
        if !c.icc.is_empty() || !c.exif.is_empty() || !c.xmp.is_empty() {
            self.meta += 1;
        }
        self.pixels += c.w as u64 * c.h as u64;
        let (o, bytes) = encode_vec(c);
        let line = result_line(&o, &bytes);
        *self.outcomes.entry(line.split(' ').next().unwrap_or("").to_string()).or_default() += 1;
        match o {
            EncOut::Ok => {
                self.max_file = self.max_file.max(bytes.len());
                for b in judge_file(c, &bytes, true) {
                    if b.starts_with("own decoder") && (c.w == 16384 || c.h == 16384) && !b.contains("payload") {
                        // F1: decoder.rs masks 16384 to 0 (fixed by another change)
                        self.known_f1 += 1;
                        continue;
                    }
                    if self.violations.len() < 40 {
                        self.violations.push(format!("{} -> {}", c.short(), b));
                    }
                }
            }
            _ => {
                if self.violations.len() < 40 {
                    self.violations.push(format!("{} -> encode of a valid image did not succeed: {}", c.short(), &line[..line.len().min(80)]));
                }
            }
        }
        if emit {
            self.out.case(&c.line(), &line);
        }
    }

    /// dimension 0 or > 16384 with a buffer of the matching length: Err(InvalidDimensions), no panic
    fn run_invalid(&mut self, ct: ColorType, w: u32, h: u32, pred: bool) {
        self.evals += 1;
        let n = w as usize * h as usize * bpp(ct);
        let c = EncCase { ct, w, h, pred, icc: vec![], exif: vec![], xmp: vec![], data: vec![7u8; n], tag: "invalid-dimensions".into() };
        let (o, bytes) = encode_vec(&c);
        let line = result_line(&o, &bytes);
        *self.outcomes.entry(line.clone().chars().take(24).collect()).or_default() += 1;
        match o {
            EncOut::InvalidDimensions => {
                if !bytes.is_empty() && self.violations.len() < 40 {
                    self.violations.push(format!("{} -> InvalidDimensions but {} bytes were written", c.short(), bytes.len()));
                }
            }
            _ => {
                if self.violations.len() < 40 {
                    self.violations.push(format!("{} -> expected Err(InvalidDimensions), got {}", c.short(), &line[..line.len().min(60)]));
                }
            }
        }
        // keep the oracle case small: only the empty / short buffers go to the Model
        if n <= 70000 {
            self.out.case(&c.line(), &line);
        }
    }

    /// buffer length that does not match the dimensions: the documented `# Panics` of encode (assert_eq!); recorded
    fn run_mismatch(&mut self, ct: ColorType, w: u32, h: u32, len: usize) {
        self.evals += 1;
        let c = EncCase { ct, w, h, pred: true, icc: vec![], exif: vec![], xmp: vec![], data: vec![1u8; len], tag: "buffer-length-mismatch".into() };
        let (o, bytes) = encode_vec(&c);
        let line = result_line(&o, &bytes);
        if let EncOut::Panic(_) = o {
            self.documented_panics += 1;
        } else if self.violations.len() < 40 {
            self.violations.push(format!("{} -> a mismatched buffer was accepted: {}", c.short(), &line[..line.len().min(60)]));
        }
        *self.outcomes.entry(format!("mismatch:{}", line.chars().take(16).collect::<String>())).or_default() += 1;
        self.out.case(&c.line(), &line);
    }
}

pub fn meta_for(rng: &mut Rng, k: u64) -> (Vec<u8>, Vec<u8>, Vec<u8>) {
    // k in 0..8 selects the subset; lengths small and of both parities
    let mut m = |on: bool| if on { let n = *rng.pick(&[1usize, 2, 3, 7, 10, 33]); rng.bytes(n) } else { vec![] };
    (m(k & 1 != 0), m(k & 2 != 0), m(k & 4 != 0))
}

pub fn run(tier: &str, seed: u64, outdir: &str, extra: &[String]) {
    let mut st = St {
        out: Out::new(outdir),
        evals: 0,
        violations: vec![],
        known_f1: 0,
        styles: BTreeMap::new(),
        cts: BTreeMap::new(),
        shapes: BTreeMap::new(),
        outcomes: BTreeMap::new(),
        pred: [0, 0],
        meta: 0,
        pixels: 0,
        max_file: 0,
        documented_panics: 0,
    };
    let mut rng = Rng::new(seed ^ 0xC04);

    if tier == "replay" {
        let txt = std::fs::read_to_string(&extra[0]).unwrap_or_default();
        for line in txt.lines() {
            let ws: Vec<&str> = line.split_whitespace().collect();
            if ws.len() == 9 && ws[0] == "encode" {
                if let Some(c) = EncCase::parse(&ws[1..]) {
                    let n = c.w as u64 * c.h as u64 * bpp(c.ct) as u64;
                    if c.w == 0 || c.h == 0 || c.w > 16384 || c.h > 16384 {
                        st.run_invalid(c.ct, c.w, c.h, c.pred);
                    } else if n != c.data.len() as u64 {
                        st.run_mismatch(c.ct, c.w, c.h, c.data.len());
                    } else {
                        st.run_valid(&c, "replay", true);
                    }
                }
            }
        }
    } else {
        let thorough = tier == "thorough";
        let mk = |rng: &mut Rng, style: usize, ct: ColorType, w: u32, h: u32, pred: bool, metak: u64| -> EncCase {
            let data = gen_pixels(style, rng, ct, w, h);
            let (icc, exif, xmp) = meta_for(rng, metak);
            EncCase { ct, w, h, pred, icc, exif, xmp, data, tag: STYLES[style % STYLES.len()].into() }
        };
        // every style x colour type x predictor on small random sizes (1..64 x 1..64), metadata subset rotating
        let reps = if thorough { 12 } else { 2 };
        let mut k = 0u64;
        for rep in 0..reps {
            for style in 0..STYLES.len() {
                for &ct in &CTS {
                    for pred in [false, true] {
                        let (w, h) = match (rep + style) % 4 {
                            0 => (rng.range(1, 64) as u32, rng.range(1, 64) as u32),
                            1 => (rng.range(1, 8) as u32, rng.range(1, 8) as u32),
                            2 => (rng.range(20, 64) as u32, rng.range(20, 64) as u32),
                            _ => (rng.range(1, 64) as u32, rng.range(1, 16) as u32),
                        };
                        k += 1;
                        let c = mk(&mut rng, style, ct, w, h, pred, if k % 3 == 0 { k / 3 % 8 } else { 0 });
                        st.run_valid(&c, "small", true);
                    }
                }
            }
        }
        // fixed corner sizes
        for &(w, h) in &[(1u32, 1u32), (1, 2), (2, 1), (2, 2), (3, 1), (1, 3), (64, 64), (64, 1), (1, 64), (16, 16), (32, 8)] {
            for &ct in &CTS {
                for pred in [false, true] {
                    for style in [0usize, 1, 7] {
                        let c = mk(&mut rng, style, ct, w, h, pred, 0);
                        st.run_valid(&c, "corner", true);
                    }
                }
            }
        }
        // 1xN and Nx1, including the run-length boundaries 4096 / 4097 and the 16384 extremes
        let mut lens: Vec<u32> = vec![5, 6, 255, 256, 257, 4095, 4096, 4097, 4098, 4099, 8193, 8194, 16383, 16384];
        if !thorough {
            lens = vec![6, 257, 4096, 4097, 4098, 8194, 16384];
        }
        for &n in &lens {
            for (i, &ct) in CTS.iter().enumerate() {
                for pred in [false, true] {
                    // constant (runs of exactly 4096), long runs, uniform, exact Fibonacci (forces the 15-bit limit)
                    for style in [1usize, 3, 0, 6] {
                        if !thorough && (style == 0 || style == 3) && (i + pred as usize) % 2 == 1 {
                            continue;
                        }
                        let horizontal = (n as usize + i + style) % 2 == 0;
                        let (w, h) = if horizontal { (n, 1) } else { (1, n) };
                        let c = mk(&mut rng, style, ct, w, h, pred, 0);
                        st.run_valid(&c, if n == 16384 { "16384-extreme" } else if horizontal { "Nx1" } else { "1xN" }, true);
                    }
                }
            }
        }
        // 2-D images large enough for the exact Fibonacci histogram to exceed 15 bits (>= 4180 pixels)
        for &(w, h) in &[(95u32, 44u32), (120, 57)] {
            for &ct in &CTS {
                for pred in [false, true] {
                    let c = mk(&mut rng, 6, ct, w, h, pred, 0);
                    st.run_valid(&c, "fib-2d", true);
                }
            }
        }
        // Fibonacci head plus tied tail: the tie order of sort_unstable_by_key decides code lengths
        let tie_sizes: &[(u32, u32)] = if thorough { &[(85, 367), (100, 120), (64, 200), (1, 9000), (12000, 1), (150, 150)] } else { &[(85, 367), (100, 120), (1, 9000)] };
        for &(w, h) in tie_sizes {
            for &ct in &CTS {
                let c = mk(&mut rng, 12, ct, w, h, false, 0);
                st.run_valid(&c, "fib-plus-ties", true);
            }
        }
        if thorough {
            // 16384 x 3 and 3 x 16384 checked natively only (too slow for the Model)
            for &(w, h) in &[(16384u32, 3u32), (3, 16384)] {
                for &ct in &CTS {
                    let c = mk(&mut rng, 3, ct, w, h, true, 0);
                    st.run_valid(&c, "16384x3(native only)", false);
                }
            }
        }
        // invalid dimensions with consistent buffers
        for &ct in &CTS {
            for pred in [false, true] {
                for &(w, h) in &[(0u32, 0u32), (0, 1), (1, 0), (0, 16384), (16385, 1), (1, 16385), (16385, 0), (65536, 1), (1, 100000), (0, u32::MAX), (u32::MAX, 0)] {
                    st.run_invalid(ct, w, h, pred);
                }
            }
        }
        // buffer length mismatch (documented panic)
        st.run_mismatch(ColorType::Rgba8, 2, 2, 15);
        st.run_mismatch(ColorType::Rgba8, 2, 2, 17);
        st.run_mismatch(ColorType::L8, 0, 5, 1);
        st.run_mismatch(ColorType::Rgb8, 16385, 1, 3);
        st.run_mismatch(ColorType::La8, 1, 1, 0);
    }

    let stats = format!(
        "{{\"evaluations\":{},\"violations\":{},\"known_F1_own_decoder_16384\":{},\"styles\":{},\"colour_types\":{},\"shapes\":{},\"outcomes\":{},\"predictor_off_on\":[{},{}],\"with_metadata\":{},\"pixels_total\":{},\"largest_file\":{},\"documented_panics_buffer_mismatch\":{}}}",
        st.evals, jarr(&st.violations), st.known_f1, jmap(&st.styles), jmap(&st.cts), jmap(&st.shapes), jmap(&st.outcomes), st.pred[0], st.pred[1], st.meta, st.pixels, st.max_file, st.documented_panics
    );
    st.out.finish(&stats);
}
