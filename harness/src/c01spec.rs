//! c01spec: adequacy of the executable VP8L specification (coq/Spec/VP8L.v) against libwebp 1.3.1.
//!
//! The "implementation" side of this check is libwebp's decoder (WebPDecodeRGBA on the payload wrapped in a
//! minimal RIFF container, no padding byte so that libwebp sees exactly the payload); the oracle evaluates
//! `Spec.VP8L.decode_rgba` / `decode_implicit_rgba` on the same payloads.  Zero differences = the Spec says what
//! libwebp says on these streams.  Payload sources:
//!   files     every VP8L chunk of every .webp under <repo>/tests/images (simple, VP8X, ANMF frames)
//!   encoder   libwebp's lossless encoder (methods 0..6, quality 0..100, exact=1) on seeded synthetic images
//!   handmade  legal streams with features libwebp's encoder never emits (built bit by bit here)
//!   invalid   truncations, bad signature/version, incomplete / over-subscribed codes, bad cache bits, ...
//!   mutated   encoder streams with 1..3 bits flipped after the header (either verdict, both must agree)
//!   implicit  `vp8l_implicit w h <payload minus the 5 header bytes>`; expected = the libwebp result of the full payload
//!   alph-*    `vp8l_implicit_green w h <ALPH chunk data after its header byte>` for lossless-compressed ALPH chunks of
//!             the lossy+alpha test files and of libwebp lossy+alpha encodings; expected green plane = the alpha
//!             plane libwebp decodes for the whole file, put through the forward filter named in the ALPH header
use crate::util::*;
use std::collections::BTreeMap;

// ------------------------------------------------------------------------------------------------
// libwebp
// ------------------------------------------------------------------------------------------------
pub fn riff_wrap(payload: &[u8]) -> Vec<u8> {
    let mut f = Vec::with_capacity(payload.len() + 20);
    f.extend_from_slice(b"RIFF");
    f.extend_from_slice(&((4 + 8 + payload.len()) as u32).to_le_bytes());
    f.extend_from_slice(b"WEBPVP8L");
    f.extend_from_slice(&(payload.len() as u32).to_le_bytes());
    f.extend_from_slice(payload);
    f
}

/// libwebp's verdict on a VP8L payload: Some((w, h, rgba)) or None (any failure)
pub fn libwebp_decode_payload(payload: &[u8]) -> Option<(u32, u32, Vec<u8>)> {
    let f = riff_wrap(payload);
    let (mut w, mut h) = (0i32, 0i32);
    unsafe {
        let p = libwebp_sys::WebPDecodeRGBA(f.as_ptr(), f.len(), &mut w, &mut h);
        if p.is_null() {
            return None;
        }
        let v = std::slice::from_raw_parts(p, (w as usize) * (h as usize) * 4).to_vec();
        libwebp_sys::WebPFree(p as *mut std::ffi::c_void);
        Some((w as u32, h as u32, v))
    }
}

pub fn libwebp_encode_lossless(w: u32, h: u32, rgba: &[u8], quality: f32, method: i32) -> Vec<u8> {
    unsafe {
        let mut cfg: libwebp_sys::WebPConfig = std::mem::zeroed();
        libwebp_sys::WebPConfigInitInternal(&mut cfg, libwebp_sys::WebPPreset::WEBP_PRESET_DEFAULT, quality, libwebp_sys::WEBP_ENCODER_ABI_VERSION as i32);
        cfg.lossless = 1;
        cfg.method = method;
        cfg.exact = 1;
        cfg.quality = quality;
        assert!(libwebp_sys::WebPValidateConfig(&cfg) != 0);
        let mut pic: libwebp_sys::WebPPicture = std::mem::zeroed();
        libwebp_sys::WebPPictureInitInternal(&mut pic, libwebp_sys::WEBP_ENCODER_ABI_VERSION as i32);
        pic.width = w as i32;
        pic.height = h as i32;
        pic.use_argb = 1;
        assert!(libwebp_sys::WebPPictureImportRGBA(&mut pic, rgba.as_ptr(), (w * 4) as i32) != 0);
        let mut wr: libwebp_sys::WebPMemoryWriter = std::mem::zeroed();
        libwebp_sys::WebPMemoryWriterInit(&mut wr);
        pic.writer = Some(libwebp_sys::WebPMemoryWrite);
        pic.custom_ptr = &mut wr as *mut _ as *mut std::ffi::c_void;
        assert!(libwebp_sys::WebPEncode(&cfg, &mut pic) != 0);
        let f = std::slice::from_raw_parts(wr.mem, wr.size).to_vec();
        libwebp_sys::WebPPictureFree(&mut pic);
        libwebp_sys::WebPMemoryWriterClear(&mut wr);
        f
    }
}


/// informational: the crate's own decoder on the same payload through the public API (RIFF-wrapped);
/// Ok(rgba-or-rgb bytes, has_alpha) / Err(text)
pub fn crate_decode_payload(payload: &[u8]) -> Result<(Vec<u8>, bool), String> {
    let f = riff_wrap(payload);
    let r = catch(move || -> Result<(Vec<u8>, bool), String> {
        let mut d = image_webp::WebPDecoder::new(std::io::Cursor::new(f)).map_err(|e| format!("{e:?}"))?;
        let n = d.output_buffer_size().ok_or("size overflow".to_string())?;
        let mut buf = vec![0u8; n];
        d.read_image(&mut buf).map_err(|e| format!("{e:?}"))?;
        Ok((buf, d.has_alpha()))
    });
    match r {
        Ok(x) => x,
        Err(p) => Err(format!("PANIC {p}")),
    }
}
/// does the crate agree with libwebp on this payload?
fn crate_agrees(payload: &[u8], lw: &Option<(u32, u32, Vec<u8>)>) -> Result<(), String> {
    let c = crate_decode_payload(payload);
    match (lw, c) {
        (None, Err(_)) => Ok(()),
        (None, Ok(_)) => Err("crate accepts, libwebp rejects".into()),
        (Some(_), Err(e)) => Err(format!("crate rejects ({}), libwebp accepts", e.chars().take(60).collect::<String>())),
        (Some((_, _, px)), Ok((buf, alpha))) => {
            let same = if alpha { buf == *px } else { buf.len() * 4 == px.len() * 3 && buf.chunks(3).zip(px.chunks(4)).all(|(a, b)| a == &b[..3]) };
            if same {
                Ok(())
            } else {
                Err("pixels differ".into())
            }
        }
    }
}

// ------------------------------------------------------------------------------------------------
// RIFF container: all VP8L payloads of a file
// ------------------------------------------------------------------------------------------------
fn chunks(b: &[u8], mut off: usize, end: usize, f: &mut dyn FnMut(&[u8], &[u8])) {
    while off + 8 <= end {
        let n = u32::from_le_bytes([b[off + 4], b[off + 5], b[off + 6], b[off + 7]]) as usize;
        let e = (off + 8 + n).min(end);
        f(&b[off..off + 4], &b[off + 8..e]);
        off += 8 + n + (n & 1);
    }
}
pub fn vp8l_payloads(file: &[u8]) -> Vec<Vec<u8>> {
    let mut out = vec![];
    if file.len() < 12 || &file[0..4] != b"RIFF" || &file[8..12] != b"WEBP" {
        return out;
    }
    chunks(file, 12, file.len(), &mut |cc, d| {
        if cc == b"VP8L" {
            out.push(d.to_vec());
        } else if cc == b"ANMF" && d.len() >= 16 {
            chunks(d, 16, d.len(), &mut |c2, d2| {
                if c2 == b"VP8L" {
                    out.push(d2.to_vec());
                }
            });
        }
    });
    out
}


// ------------------------------------------------------------------------------------------------
// ALPH chunks: the headerless VP8L stream of a lossy+alpha file; expected green plane = libwebp's decoded alpha
// plane put through the forward alpha filter named in the ALPH header
// ------------------------------------------------------------------------------------------------
/// (w, h, filter method, headerless VP8L stream, expected green plane) for a still VP8X file with a
/// lossless-compressed ALPH chunk
pub fn alph_case(file: &[u8]) -> Option<(u32, u32, u8, Vec<u8>, Vec<u8>)> {
    if file.len() < 12 || &file[0..4] != b"RIFF" || &file[8..12] != b"WEBP" {
        return None;
    }
    let mut canvas: Option<(u32, u32)> = None;
    let mut alph: Option<Vec<u8>> = None;
    chunks(file, 12, file.len(), &mut |cc, d| {
        if cc == b"VP8X" && d.len() >= 10 {
            let w = 1 + (d[4] as u32 | (d[5] as u32) << 8 | (d[6] as u32) << 16);
            let h = 1 + (d[7] as u32 | (d[8] as u32) << 8 | (d[9] as u32) << 16);
            canvas = Some((w, h));
        } else if cc == b"ALPH" && alph.is_none() {
            alph = Some(d.to_vec());
        }
    });
    let (w, h) = canvas?;
    let a = alph?;
    if a.is_empty() || a[0] & 3 != 1 {
        return None; // not lossless-compressed
    }
    let filter = (a[0] >> 2) & 3;
    let (mut ww, mut hh) = (0i32, 0i32);
    let rgba = unsafe {
        let p = libwebp_sys::WebPDecodeRGBA(file.as_ptr(), file.len(), &mut ww, &mut hh);
        if p.is_null() {
            return None;
        }
        let v = std::slice::from_raw_parts(p, (ww as usize) * (hh as usize) * 4).to_vec();
        libwebp_sys::WebPFree(p as *mut std::ffi::c_void);
        v
    };
    if ww as u32 != w || hh as u32 != h {
        return None;
    }
    let (wu, hu) = (w as usize, h as usize);
    let al = |x: usize, y: usize| rgba[(y * wu + x) * 4 + 3] as i32;
    let mut green = vec![0u8; wu * hu];
    for y in 0..hu {
        for x in 0..wu {
            let pred = if filter == 0 {
                0
            } else if x == 0 && y == 0 {
                0
            } else if y == 0 {
                al(x - 1, 0)
            } else if x == 0 {
                al(0, y - 1)
            } else {
                match filter {
                    1 => al(x - 1, y),
                    2 => al(x, y - 1),
                    _ => (al(x - 1, y) + al(x, y - 1) - al(x - 1, y - 1)).clamp(0, 255),
                }
            };
            green[y * wu + x] = (al(x, y) - pred) as u8;
        }
    }
    Some((w, h, filter, a[1..].to_vec(), green))
}

pub fn libwebp_encode_lossy_alpha(w: u32, h: u32, rgba: &[u8], quality: f32, method: i32, alpha_filtering: i32, alpha_quality: i32) -> Vec<u8> {
    unsafe {
        let mut cfg: libwebp_sys::WebPConfig = std::mem::zeroed();
        libwebp_sys::WebPConfigInitInternal(&mut cfg, libwebp_sys::WebPPreset::WEBP_PRESET_DEFAULT, quality, libwebp_sys::WEBP_ENCODER_ABI_VERSION as i32);
        cfg.lossless = 0;
        cfg.method = method;
        cfg.alpha_compression = 1;
        cfg.alpha_filtering = alpha_filtering;
        cfg.alpha_quality = alpha_quality;
        assert!(libwebp_sys::WebPValidateConfig(&cfg) != 0);
        let mut pic: libwebp_sys::WebPPicture = std::mem::zeroed();
        libwebp_sys::WebPPictureInitInternal(&mut pic, libwebp_sys::WEBP_ENCODER_ABI_VERSION as i32);
        pic.width = w as i32;
        pic.height = h as i32;
        pic.use_argb = 1;
        assert!(libwebp_sys::WebPPictureImportRGBA(&mut pic, rgba.as_ptr(), (w * 4) as i32) != 0);
        let mut wr: libwebp_sys::WebPMemoryWriter = std::mem::zeroed();
        libwebp_sys::WebPMemoryWriterInit(&mut wr);
        pic.writer = Some(libwebp_sys::WebPMemoryWrite);
        pic.custom_ptr = &mut wr as *mut _ as *mut std::ffi::c_void;
        assert!(libwebp_sys::WebPEncode(&cfg, &mut pic) != 0);
        let f = std::slice::from_raw_parts(wr.mem, wr.size).to_vec();
        libwebp_sys::WebPPictureFree(&mut pic);
        libwebp_sys::WebPMemoryWriterClear(&mut wr);
        f
    }
}

// ------------------------------------------------------------------------------------------------
// bit writer and stream pieces for the hand-made streams
// ------------------------------------------------------------------------------------------------
pub struct BW {
    out: Vec<u8>,
    acc: u32,
    n: u32,
}
impl BW {
    pub fn new() -> Self {
        BW { out: vec![], acc: 0, n: 0 }
    }
    /// ReadBits order: least significant bit first
    pub fn put(&mut self, v: u64, nb: u32) {
        for i in 0..nb {
            self.acc |= (((v >> i) & 1) as u32) << self.n;
            self.n += 1;
            if self.n == 8 {
                self.out.push(self.acc as u8);
                self.acc = 0;
                self.n = 0;
            }
        }
    }
    /// a prefix code word: most significant bit first
    pub fn code(&mut self, code: u32, len: u32) {
        for i in (0..len).rev() {
            self.put(((code >> i) & 1) as u64, 1);
        }
    }
    pub fn finish(mut self) -> Vec<u8> {
        if self.n > 0 {
            self.out.push(self.acc as u8);
        }
        self.out
    }
    pub fn header(&mut self, w: u32, h: u32) {
        self.put(0x2f, 8);
        self.put((w - 1) as u64, 14);
        self.put((h - 1) as u64, 14);
        self.put(1, 1);
        self.put(0, 3);
    }
    pub fn simple1(&mut self, s: u32) {
        self.put(1, 1);
        self.put(0, 1);
        if s < 2 {
            self.put(0, 1);
            self.put(s as u64, 1);
        } else {
            self.put(1, 1);
            self.put(s as u64, 8);
        }
    }
    pub fn simple2(&mut self, s0: u32, s1: u32) {
        self.put(1, 1);
        self.put(1, 1);
        self.put(1, 1);
        self.put(s0 as u64, 8);
        self.put(s1 as u64, 8);
    }
    /// normal code, every length written literally (no repeat codes, no max_symbol); the code-length code is
    /// a balanced code over the length values that occur
    pub fn normal(&mut self, lens: &[u32]) {
        let mut used = [false; 16];
        for &l in lens {
            used[l as usize] = true;
        }
        let syms: Vec<usize> = (0..16).filter(|&i| used[i]).collect();
        let k = syms.len();
        let mut cl = [0u32; 19];
        if k == 1 {
            cl[syms[0]] = 1;
        } else {
            let mut d = 0;
            while (1usize << d) < k {
                d += 1;
            }
            let short = (1usize << d) - k;
            for (i, &s) in syms.iter().enumerate() {
                cl[s] = if i < short { d as u32 - 1 } else { d as u32 };
            }
        }
        let clcodes = canon(&cl);
        self.put(0, 1);
        self.put(15, 4);
        for &o in ORDER.iter() {
            self.put(cl[o] as u64, 3);
        }
        self.put(0, 1);
        for &l in lens {
            if k > 1 {
                self.code(clcodes[l as usize], cl[l as usize]);
            }
        }
    }
}
const ORDER: [usize; 19] = [17, 18, 0, 1, 2, 3, 4, 5, 16, 6, 7, 8, 9, 10, 11, 12, 13, 14, 15];
/// canonical code words (MSB-first values) from lengths
pub fn canon(lens: &[u32]) -> Vec<u32> {
    let maxl = *lens.iter().max().unwrap();
    let mut codes = vec![0u32; lens.len()];
    let mut code = 0u32;
    for l in 1..=maxl {
        for (i, &li) in lens.iter().enumerate() {
            if li == l {
                codes[i] = code;
                code += 1;
            }
        }
        code <<= 1;
    }
    codes
}
fn cache_hash(argb: u32, bits: u32) -> u32 {
    0x1e35a7bdu32.wrapping_mul(argb) >> (32 - bits)
}

/// (name, payload, expected to be valid)
pub fn handmade() -> Vec<(String, Vec<u8>, bool)> {
    let mut v: Vec<(String, Vec<u8>, bool)> = vec![];
    let plain = |w: &mut BW| {
        w.put(0, 1); // no transform
        w.put(0, 1); // no cache
        w.put(0, 1); // no meta
    };
    let rba = |w: &mut BW| {
        w.simple1(0);
        w.simple1(0);
        w.simple1(255);
    };
    // descending simple code: code words follow symbol order
    {
        let mut w = BW::new();
        w.header(2, 1);
        plain(&mut w);
        w.simple2(200, 100);
        rba(&mut w);
        w.simple1(0);
        w.put(0, 1);
        w.put(1, 1);
        v.push(("simple2-descending-200-100".into(), w.finish(), true));
    }
    // two equal symbols: one symbol, zero bits
    {
        let mut w = BW::new();
        w.header(3, 1);
        plain(&mut w);
        w.simple2(77, 77);
        w.simple2(10, 20); // red: one bit per pixel; the green code must not consume any
        w.simple1(0);
        w.simple1(255);
        w.simple1(0);
        for b in [1u64, 0, 1] {
            w.put(b, 1);
        }
        v.push(("simple2-equal-77-77".into(), w.finish(), true));
    }
    // cache hit on a never-written slot, then on a slot written by that cache hit (cache bits 1)
    {
        let mut g = 1u32;
        while cache_hash(0xff000000 | (g << 8), 1) != 0 {
            g += 1;
        }
        let mut w = BW::new();
        w.header(4, 1);
        w.put(0, 1);
        w.put(1, 1);
        w.put(1, 4);
        w.put(0, 1);
        let mut lens = vec![0u32; 282];
        lens[g as usize] = 1;
        lens[280] = 2;
        lens[281] = 2;
        let codes = canon(&lens);
        w.normal(&lens);
        rba(&mut w);
        w.simple1(0);
        for s in [g as usize, 281, 280, 280] {
            w.code(codes[s], lens[s]);
        }
        v.push((format!("cache-unwritten-slot-then-slot-written-by-hit-g{g}"), w.finish(), true));
    }
    // cache bits 3: only cache references, all slots never written
    {
        let mut w = BW::new();
        w.header(5, 2);
        w.put(0, 1);
        w.put(1, 1);
        w.put(3, 4);
        w.put(0, 1);
        let mut lens = vec![0u32; 288];
        lens[283] = 1;
        lens[287] = 1;
        let codes = canon(&lens);
        w.normal(&lens);
        rba(&mut w);
        w.simple1(0);
        for i in 0..10 {
            let s = if i % 3 == 0 { 287 } else { 283 };
            w.code(codes[s], lens[s]);
        }
        v.push(("cache-only-references".into(), w.finish(), true));
    }
    // a normal code with a single used symbol whose length is 5 (libwebp: accepted, zero bits)
    {
        let mut w = BW::new();
        w.header(2, 2);
        plain(&mut w);
        let mut lens = vec![0u32; 280];
        lens[42] = 5;
        w.normal(&lens);
        rba(&mut w);
        w.simple1(0);
        v.push(("normal-single-symbol-length5".into(), w.finish(), true));
    }
    // simple code in the 40-symbol distance alphabet: (3, 200) -> only 3 remains; back reference uses it
    {
        let mut w = BW::new();
        w.header(6, 1);
        plain(&mut w);
        w.simple2(9, 255); // 255 is not a green literal here but symbol 255 < 280 is; use literal 9 and 255
        rba(&mut w);
        w.simple2(3, 200);
        // tokens: literal 9, literal 255, ... 6 literals
        for b in [0u64, 1, 1, 0, 0, 1] {
            w.put(b, 1);
        }
        v.push(("distance-simple-symbol-beyond-alphabet".into(), w.finish(), true));
    }
    // same, but the back reference really reads the distance code: green alphabet {7 literal, 257 = length 2}
    {
        let mut w = BW::new();
        w.header(7, 1);
        plain(&mut w);
        let mut lens = vec![0u32; 280];
        lens[7] = 1;
        lens[257] = 1;
        let codes = canon(&lens);
        w.normal(&lens);
        rba(&mut w);
        w.simple2(200, 1); // distance symbols {200 (dropped), 1} -> distance code 2 = (1,0) = previous pixel
        w.code(codes[7], 1);
        for _ in 0..3 {
            w.code(codes[257], 1);
        }
        v.push(("distance-simple-dropped-symbol-used".into(), w.finish(), true));
    }
    // distance alphabet simple code with no symbol below 40: invalid
    {
        let mut w = BW::new();
        w.header(2, 1);
        plain(&mut w);
        w.simple1(1);
        rba(&mut w);
        w.simple1(99);
        v.push(("distance-simple-only-beyond-alphabet".into(), w.finish(), false));
    }
    // predictor transform with modes 14 and 15 (and 13, 11 for contrast): 4 blocks of 4x4, image 8x8
    // (18 and 33 are beyond four bits: libwebp uses green & 15, i.e. modes 2 and 1)
    for modes in [[14u32, 15, 13, 11], [0, 1, 14, 12], [5, 10, 15, 3], [18, 33, 2, 1]] {
        let mut w = BW::new();
        w.header(8, 8);
        w.put(1, 1);
        w.put(0, 2);
        w.put(0, 3); // size_bits 2
        // predictor image 2x2: no cache, green normal over the modes, others single
        w.put(0, 1);
        let mut lens = vec![0u32; 280];
        for &m in &modes {
            lens[m as usize] = 2;
        }
        let codes = canon(&lens);
        w.normal(&lens);
        w.simple1(0);
        w.simple1(0);
        w.simple1(255);
        w.simple1(0);
        for &m in &modes {
            w.code(codes[m as usize], 2);
        }
        w.put(0, 1); // end of transforms
        w.put(0, 1); // no cache
        w.put(0, 1); // no meta
        w.simple2(3, 250);
        w.simple2(1, 128);
        w.simple2(0, 77);
        w.simple2(0, 255);
        w.simple1(0);
        let mut x = 0x1234567u32;
        for _ in 0..64 * 4 {
            x = x.wrapping_mul(1664525).wrapping_add(1013904223);
            w.put((x >> 20) as u64 & 1, 1);
        }
        v.push((format!("predictor-modes-{}-{}-{}-{}", modes[0], modes[1], modes[2], modes[3]), w.finish(), true));
    }
    // colour indexing: 3 colours (2 bits per pixel), indices 3 beyond the table; width 5 (partial last byte)
    {
        let mut w = BW::new();
        w.header(5, 2);
        w.put(1, 1);
        w.put(3, 2);
        w.put(2, 8); // 3 colours
        w.put(0, 1); // table: no cache
        w.simple2(10, 20);
        w.simple2(1, 2);
        w.simple2(5, 6);
        w.simple2(128, 255);
        w.simple1(0);
        for b in [0u64, 1, 0, 1, /**/ 1, 0, 1, 0, /**/ 1, 1, 0, 0] {
            w.put(b, 1);
        }
        w.put(0, 1); // end of transforms
        w.put(0, 1);
        w.put(0, 1);
        // packed width 2: green values 0b11100100 (0,1,2,3), 0b00000011 (3)
        let mut lens = vec![0u32; 280];
        lens[0b11100100] = 1;
        lens[0b00000011] = 2;
        lens[0b00011011] = 2;
        let codes = canon(&lens);
        w.normal(&lens);
        w.simple1(9);
        w.simple1(9);
        w.simple1(9);
        w.simple1(0);
        for s in [0b11100100usize, 0b00000011, 0b00011011, 0b11100100] {
            w.code(codes[s], lens[s]);
        }
        v.push(("color-indexing-index-beyond-table-2bit".into(), w.finish(), true));
    }
    // colour indexing with 17 colours (no bundling), literal index 200
    {
        let mut w = BW::new();
        w.header(3, 1);
        w.put(1, 1);
        w.put(3, 2);
        w.put(16, 8);
        w.put(0, 1);
        w.simple1(3);
        w.simple1(1);
        w.simple1(2);
        w.simple1(255);
        w.simple1(0);
        w.put(0, 1);
        w.put(0, 1);
        w.put(0, 1);
        w.simple2(16, 200);
        w.simple1(0);
        w.simple1(0);
        w.simple1(0);
        w.simple1(0);
        for b in [0u64, 1, 0] {
            w.put(b, 1);
        }
        v.push(("color-indexing-index-beyond-table-8bit".into(), w.finish(), true));
    }
    // width 1, distance code 4 = (-1, 1): xi + yi*xsize = 0 -> 1
    {
        let mut w = BW::new();
        w.header(1, 6);
        plain(&mut w);
        let mut lens = vec![0u32; 280];
        lens[50] = 1;
        lens[256 + 4] = 1; // length prefix 4: 5..6, 1 extra bit
        let codes = canon(&lens);
        w.normal(&lens);
        rba(&mut w);
        w.simple1(3); // distance prefix 3 -> distance code 4
        w.code(codes[50], 1);
        w.code(codes[260], 1);
        w.put(0, 1); // length 5
        v.push(("distance-below-one-clamped".into(), w.finish(), true));
    }
    // code 16 before any non-zero length repeats 8; code 17 / 18 runs; max_symbol present
    {
        let mut w = BW::new();
        w.header(4, 4);
        plain(&mut w);
        // green: lengths via tokens: 18(138 zeros) 16(x6 of 8) ... build 256 symbols of length 8 = complete
        // code-length code over {16, 18}: lengths 1, 1
        w.put(0, 1); // normal
        w.put(15, 4);
        let mut cl = [0u32; 19];
        cl[16] = 1;
        cl[18] = 1;
        for &o in ORDER.iter() {
            w.put(cl[o] as u64, 3);
        }
        // canonical: 16 -> 0, 18 -> 1.  max_symbol: 43 tokens of code 16 (x6) = 258 > 256: use 42 x6 = 252 + one x4
        w.put(1, 1);
        w.put(2, 3); // length_nbits = 6
        w.put(43 - 2, 6); // max_symbol = 43
        for _ in 0..42 {
            w.put(0, 1);
            w.put(3, 2);
        }
        w.put(0, 1);
        w.put(1, 2); // repeat 4 -> 256 lengths of 8; remaining 24 lengths are zero
        rba(&mut w);
        w.simple1(0);
        for i in 0..16u32 {
            w.code(i * 13 % 256, 8);
        }
        v.push(("code16-first-repeats-8-with-max-symbol".into(), w.finish(), true));
    }
    // meta prefix codes: entropy image 1x1 with group index 5 in a 2x2 image: six groups, five of them unused
    // (more groups than pixels: libwebp takes its "mapping" path and only validates the unused ones)
    for bad_unused in [false, true] {
        let mut w = BW::new();
        w.header(2, 2);
        w.put(0, 1); // no transform
        w.put(0, 1); // no cache
        w.put(1, 1); // meta
        w.put(0, 3); // prefix_bits 2
        w.put(0, 1); // entropy image: no cache
        w.simple1(5); // green = low byte of the group index
        w.simple1(0); // red = high byte
        w.simple1(0);
        w.simple1(0);
        w.simple1(0);
        for gi in 0..6u32 {
            w.simple2(10 + gi, 100 + gi);
            w.simple1(gi);
            w.simple1(2 * gi);
            w.simple1(255);
            w.simple1(if bad_unused && gi == 2 { 99 } else { 0 });
        }
        for b in [0u64, 1, 1, 0] {
            w.put(b, 1);
        }
        w.put(0, 64);
        v.push((if bad_unused { "meta-unused-group-invalid" } else { "meta-unused-groups" }.into(), w.finish(), !bad_unused));
    }
    // transform orders: predictor then colour indexing (predictor works on the expanded width 6), and colour
    // indexing then predictor (predictor works on the packed width 2)
    for predictor_first in [true, false] {
        let mut w = BW::new();
        w.header(6, 2);
        let predictor = |w: &mut BW| {
            w.put(1, 1);
            w.put(0, 2);
            w.put(0, 3); // size_bits 2: predictor image 2x1 (width 6) or 1x1 (width 2)
            w.put(0, 1);
            w.simple2(2, 11);
            w.simple1(0);
            w.simple1(0);
            w.simple1(255);
            w.simple1(0);
            w.put(1, 1);
            if predictor_first {
                w.put(0, 1);
            }
        };
        let indexing = |w: &mut BW| {
            w.put(1, 1);
            w.put(3, 2);
            w.put(3, 8); // 4 colours, 2 bits per pixel
            w.put(0, 1);
            w.simple2(1, 30);
            w.simple2(0, 100);
            w.simple2(0, 7);
            w.simple2(0, 255);
            w.simple1(0);
            for b in [1u64, 0, 1, 1, /**/ 0, 1, 0, 0, /**/ 1, 1, 1, 0, /**/ 0, 0, 1, 1] {
                w.put(b, 1);
            }
        };
        if predictor_first {
            predictor(&mut w);
            indexing(&mut w);
        } else {
            indexing(&mut w);
            predictor(&mut w);
        }
        w.put(0, 1);
        w.put(0, 1);
        w.put(0, 1);
        let mut lens = vec![0u32; 280];
        for s in [0b00011011usize, 0b11100100, 0b01010101, 0b10110001] {
            lens[s] = 2;
        }
        let codes = canon(&lens);
        w.normal(&lens);
        w.simple1(0);
        w.simple1(0);
        w.simple1(0);
        w.simple1(0);
        for s in [0b11100100usize, 0b00011011, 0b10110001, 0b01010101] {
            w.code(codes[s], 2);
        }
        v.push((if predictor_first { "predictor-then-color-indexing" } else { "color-indexing-then-predictor" }.into(), w.finish(), true));
    }
    // subresolution image (predictor modes, 3x3) that uses its own colour cache
    {
        let mut w = BW::new();
        w.header(12, 12);
        w.put(1, 1);
        w.put(0, 2);
        w.put(0, 3);
        w.put(1, 1);
        w.put(2, 4); // cache bits 2 inside the predictor image
        let h1 = cache_hash(0xff000100, 2) as usize;
        let h12 = cache_hash(0xff000c00, 2) as usize;
        let mut lens = vec![0u32; 284];
        lens[1] = 2;
        lens[12] = 2;
        if h1 == h12 {
            lens[280 + h1] = 1;
        } else {
            lens[280 + h1] = 2;
            lens[280 + h12] = 2;
        }
        let codes = canon(&lens);
        w.normal(&lens);
        w.simple1(0);
        w.simple1(0);
        w.simple1(255);
        w.simple1(0);
        for s in [1usize, 12, 280 + h1, 280 + h12, 280 + h12, 1, 280 + h1, 12, 280 + h12] {
            w.code(codes[s], lens[s]);
        }
        w.put(0, 1);
        w.put(0, 1);
        w.put(0, 1);
        w.simple2(3, 250);
        w.simple2(1, 128);
        w.simple2(0, 77);
        w.simple2(0, 255);
        w.simple1(0);
        let mut x = 0x2345678u32;
        for _ in 0..144 * 4 {
            x = x.wrapping_mul(1664525).wrapping_add(1013904223);
            w.put((x >> 20) as u64 & 1, 1);
        }
        v.push(("subimage-with-colour-cache".into(), w.finish(), true));
    }
    // colour transform with negative and positive coefficients
    {
        let mut w = BW::new();
        w.header(4, 4);
        w.put(1, 1);
        w.put(1, 2);
        w.put(0, 3);
        w.put(0, 1);
        w.simple1(0x30); // green channel = green_to_blue
        w.simple1(0x9c); // red channel = red_to_blue
        w.simple1(0xe5); // blue channel = green_to_red
        w.simple1(255);
        w.simple1(0);
        w.put(0, 1);
        w.put(0, 1);
        w.put(0, 1);
        w.simple2(17, 200);
        w.simple2(5, 130);
        w.simple2(64, 255);
        w.simple1(255);
        w.simple1(0);
        let mut x = 0x3456789u32;
        for _ in 0..16 * 3 {
            x = x.wrapping_mul(1664525).wrapping_add(1013904223);
            w.put((x >> 20) as u64 & 1, 1);
        }
        v.push(("colour-transform-signed-coefficients".into(), w.finish(), true));
    }
    // longest copy (4096, prefix 23 with 10 extra bits) and a distance code above 120 with 10 extra bits
    {
        let mut w = BW::new();
        w.header(70, 70);
        plain(&mut w);
        let mut lens = vec![0u32; 280];
        for s in [33usize, 34, 256 + 19, 256 + 23] {
            lens[s] = 2;
        }
        let codes = canon(&lens);
        w.normal(&lens);
        rba(&mut w);
        w.simple2(1, 22); // distance prefix codes 1 (distance code 2 = previous pixel) and 22
        w.code(codes[33], 2);
        w.code(codes[256 + 23], 2);
        w.put(1023, 10); // length 4096
        w.put(0, 1); // distance prefix 1
        w.code(codes[256 + 19], 2);
        w.put(34, 8); // length 768 + 34 + 1 = 803
        w.put(1, 1); // distance prefix 22
        w.put(71, 10); // distance code 2048 + 71 + 1 = 2120 -> distance 2000
        v.push(("copy-4096-and-distance-code-2120".into(), w.finish(), true));
    }
    // ---- invalid ----
    // incomplete code (lengths 1 and 2: Kraft sum 3/4)
    {
        let mut w = BW::new();
        w.header(2, 1);
        plain(&mut w);
        let mut lens = vec![0u32; 280];
        lens[1] = 1;
        lens[2] = 2;
        w.normal(&lens);
        rba(&mut w);
        w.simple1(0);
        w.put(0, 2);
        w.put(0, 64);
        v.push(("kraft-incomplete".into(), w.finish(), false));
    }
    // over-subscribed code (1, 1, 2)
    {
        let mut w = BW::new();
        w.header(2, 1);
        plain(&mut w);
        let mut lens = vec![0u32; 280];
        lens[1] = 1;
        lens[2] = 1;
        lens[3] = 2;
        w.normal(&lens);
        rba(&mut w);
        w.simple1(0);
        w.put(0, 64);
        v.push(("kraft-oversubscribed".into(), w.finish(), false));
    }
    // all lengths zero
    {
        let mut w = BW::new();
        w.header(2, 1);
        plain(&mut w);
        w.normal(&vec![0u32; 280]);
        rba(&mut w);
        w.simple1(0);
        w.put(0, 64);
        v.push(("all-lengths-zero".into(), w.finish(), false));
    }
    // colour cache bits 0 and 12
    for cb in [0u64, 12] {
        let mut w = BW::new();
        w.header(2, 1);
        w.put(0, 1);
        w.put(1, 1);
        w.put(cb, 4);
        w.put(0, 1);
        w.simple1(1);
        rba(&mut w);
        w.simple1(0);
        w.put(0, 64);
        v.push((format!("cache-bits-{cb}"), w.finish(), false));
    }
    // the same transform twice
    {
        let mut w = BW::new();
        w.header(2, 1);
        w.put(1, 1);
        w.put(2, 2);
        w.put(1, 1);
        w.put(2, 2);
        w.put(0, 1);
        w.put(0, 1);
        w.put(0, 1);
        w.simple1(1);
        rba(&mut w);
        w.simple1(0);
        w.put(0, 64);
        v.push(("subtract-green-twice".into(), w.finish(), false));
    }
    // back reference before the first pixel / past the last pixel
    for (name, first_literal) in [("backref-before-start", false), ("backref-past-end", true)] {
        let mut w = BW::new();
        w.header(3, 1);
        plain(&mut w);
        let mut lens = vec![0u32; 280];
        lens[50] = 1;
        lens[256 + 2] = 1; // length 3
        let codes = canon(&lens);
        w.normal(&lens);
        rba(&mut w);
        w.simple1(1); // distance code 2 = (1, 0) -> 1
        if first_literal {
            w.code(codes[50], 1);
        }
        w.code(codes[258], 1);
        w.put(0, 64);
        v.push((name.into(), w.finish(), false));
    }
    // max_symbol larger than the alphabet (distance alphabet 40, max_symbol 2 + 63)
    {
        let mut w = BW::new();
        w.header(2, 1);
        plain(&mut w);
        w.simple1(1);
        rba(&mut w);
        w.put(0, 1);
        w.put(15, 4);
        let mut cl = [0u32; 19];
        cl[0] = 1;
        cl[1] = 1;
        for &o in ORDER.iter() {
            w.put(cl[o] as u64, 3);
        }
        w.put(1, 1);
        w.put(2, 3);
        w.put(63, 6);
        w.put(0, 64);
        v.push(("max-symbol-beyond-alphabet".into(), w.finish(), false));
    }
    // repeat code running past the alphabet (distance alphabet 40: code 18 with 11+40 zeros)
    {
        let mut w = BW::new();
        w.header(2, 1);
        plain(&mut w);
        w.simple1(1);
        rba(&mut w);
        w.put(0, 1);
        w.put(15, 4);
        let mut cl = [0u32; 19];
        cl[1] = 1;
        cl[18] = 1;
        for &o in ORDER.iter() {
            w.put(cl[o] as u64, 3);
        }
        w.put(0, 1);
        w.put(0, 1); // length 1 for symbol 0
        w.put(1, 1);
        w.put(40, 7); // 51 zeros
        w.put(0, 64);
        v.push(("repeat-past-alphabet".into(), w.finish(), false));
    }
    v
}

// ------------------------------------------------------------------------------------------------
// synthetic images for the encoder
// ------------------------------------------------------------------------------------------------
const STYLES: [&str; 9] = ["noise", "palette-noise", "palette-blocks", "gradient", "noisy-gradient", "runs", "vertical-repeat", "stripes", "constant"];

fn synth_image(rng: &mut Rng, w: usize, h: usize, style: usize, ncol: usize, alpha: bool) -> Vec<u8> {
    let n = w * h;
    let a = |rng: &mut Rng| if alpha { rng.byte() } else { 255 };
    let pal: Vec<[u8; 4]> = (0..ncol).map(|_| [rng.byte(), rng.byte(), rng.byte(), a(rng)]).collect();
    let mut rgba = vec![0u8; n * 4];
    for i in 0..n {
        let (x, y) = (i % w, i / w);
        let p: [u8; 4] = match style {
            0 => [rng.byte(), rng.byte(), rng.byte(), a(rng)],
            1 => pal[rng.below(ncol as u64) as usize],
            2 => pal[(x / 3 + y / 2) % ncol],
            3 => [(x * 3) as u8, (y * 5) as u8, (x + y) as u8, if alpha { (255 - x * 2) as u8 } else { 255 }],
            4 => [(x * 3 + rng.below(3) as usize) as u8, (y * 5) as u8, (x ^ y) as u8, if alpha { (255 - x) as u8 } else { 255 }],
            5 => {
                if i == 0 || rng.chance(1, 20) {
                    pal[rng.below(ncol as u64) as usize]
                } else {
                    [rgba[i * 4 - 4], rgba[i * 4 - 3], rgba[i * 4 - 2], rgba[i * 4 - 1]]
                }
            }
            6 => {
                if y > 0 && !rng.chance(1, 4) {
                    let j = (i - w) * 4;
                    [rgba[j], rgba[j + 1], rgba[j + 2], rgba[j + 3]]
                } else {
                    pal[rng.below(ncol as u64) as usize]
                }
            }
            7 => [200, (x % 7 * 30) as u8, 10, 255],
            _ => pal[0],
        };
        rgba[i * 4..i * 4 + 4].copy_from_slice(&p);
    }
    rgba
}


/// tier "alphprobe" (documentation of a known deviation, not part of the diffed cases): libwebp's bit reader pads
/// data shorter than 8 bytes with zero bits up to 64 bits.  A whole VP8L payload needs at least 60 bits, so this
/// cannot matter for `vp8l` cases; a headerless ALPH stream can be shorter.  Builds a 2x2 lossy+alpha file, swaps
/// its ALPH chunk for a hand-made 5-byte stream whose four pixel bits lie beyond the data, and prints what libwebp
/// decodes.  Spec.VP8L.decode_implicit says ERR for the same stream (run the printed case through the oracle).
fn alph_probe(outdir: &str) {
    let rgba: Vec<u8> = vec![10, 20, 30, 100, 40, 50, 60, 110, 70, 80, 90, 120, 15, 25, 35, 130];
    let file = libwebp_encode_lossy_alpha(2, 2, &rgba, 80.0, 4, 0, 100);
    let mut w = BW::new();
    w.put(0, 1); // no transform
    w.put(0, 1); // no cache
    w.put(0, 1); // no meta
    w.simple2(77, 200); // green: one bit per pixel
    w.simple1(0);
    w.simple1(0);
    w.simple1(0);
    w.simple1(0);
    let full = {
        let mut w2 = BW::new();
        w2.out = w.out.clone();
        w2.acc = w.acc;
        w2.n = w.n;
        w2.put(0, 4);
        w2.finish()
    };
    let mut short = full.clone();
    short.truncate(5); // 40 bits: all five codes are complete (38 bits), the four pixel bits are not all there
    let mut report = String::new();
    for (name, stream) in [("complete-6-bytes", full), ("short-5-bytes", short)] {
        // rebuild the file with the new ALPH chunk
        let mut out: Vec<u8> = file[..12].to_vec();
        chunks(&file, 12, file.len(), &mut |cc, d| {
            let body: Vec<u8> = if cc == b"ALPH" {
                let mut b = vec![0x01u8];
                b.extend_from_slice(&stream);
                b
            } else {
                d.to_vec()
            };
            out.extend_from_slice(cc);
            out.extend_from_slice(&(body.len() as u32).to_le_bytes());
            out.extend_from_slice(&body);
            if body.len() & 1 == 1 {
                out.push(0);
            }
        });
        let n = (out.len() - 8) as u32;
        out[4..8].copy_from_slice(&n.to_le_bytes());
        let (mut ww, mut hh) = (0i32, 0i32);
        let res = unsafe {
            let p = libwebp_sys::WebPDecodeRGBA(out.as_ptr(), out.len(), &mut ww, &mut hh);
            if p.is_null() {
                "libwebp: decode failed".to_string()
            } else {
                let v = std::slice::from_raw_parts(p, 16).to_vec();
                libwebp_sys::WebPFree(p as *mut std::ffi::c_void);
                format!("libwebp alpha plane: {} {} {} {}", v[3], v[7], v[11], v[15])
            }
        };
        report.push_str(&format!("{name}: case `vp8l_implicit_green 2 2 {}` -> {res}\n", hex(&stream)));
    }
    std::fs::create_dir_all(outdir).unwrap();
    std::fs::write(format!("{outdir}/alphprobe.txt"), &report).unwrap();
    print!("{report}");
}

// ------------------------------------------------------------------------------------------------
fn result_line(r: &Option<(u32, u32, Vec<u8>)>) -> String {
    match r {
        // above 16384 pixels the result is compared as an FNV-1a 64 hash (same rule as harness c01 and the oracle)
        Some((w, h, px)) if (*w as u64) * (*h as u64) > 16384 => {
            let mut x: u64 = 0xcbf29ce484222325;
            for &b in px.iter() { x = (x ^ b as u64).wrapping_mul(0x100000001b3); }
            format!("OKH {} {} {:016x}", w, h, x)
        }
        Some((w, h, px)) => format!("OK {} {} {}", w, h, hex(px)),
        None => "ERR".to_string(),
    }
}

struct Case {
    class: &'static str,
    line: String,
    result: String,
    heavy: bool,
}

pub fn run(tier: &str, seed: u64, outdir: &str, extra: &[String]) {
    if tier == "alphprobe" {
        alph_probe(outdir);
        return;
    }
    let mut out = Out::new(outdir);
    if tier == "replay" {
        // re-run stored case lines: libwebp's verdict is recomputed
        let txt = std::fs::read_to_string(&extra[0]).unwrap_or_default();
        let mut n = 0;
        for l in txt.lines() {
            let ws: Vec<&str> = l.split_whitespace().collect();
            if ws.len() == 2 && ws[0] == "vp8l" {
                out.case(l, &result_line(&libwebp_decode_payload(&unhex(ws[1]))));
                n += 1;
            }
        }
        out.finish(&format!("{{\"evaluations\": {n}, \"violations\": []}}"));
        return;
    }
    let repo = std::env::var("VERIF_REPO").unwrap_or_else(|_| "/repo".to_string());
    let mut rng = Rng::new(seed);
    let mut cases: Vec<Case> = vec![];
    let mut notes: Vec<String> = vec![];
    let mut count: BTreeMap<String, u64> = BTreeMap::new();
    let mut bump = |k: &str| *count.entry(k.to_string()).or_insert(0) += 1;

    // ---- (a) files ----
    let mut files: Vec<std::path::PathBuf> = vec![];
    for sub in ["animated", "gallery1", "gallery2", "regression"] {
        if let Ok(rd) = std::fs::read_dir(format!("{repo}/tests/images/{sub}")) {
            for e in rd.flatten() {
                if e.path().extension().map(|x| x == "webp").unwrap_or(false) {
                    files.push(e.path());
                }
            }
        }
    }
    files.sort();
    let mut file_cases = 0;
    for f in &files {
        let b = std::fs::read(f).unwrap();
        for (i, p) in vp8l_payloads(&b).into_iter().enumerate() {
            let r = libwebp_decode_payload(&p);
            if r.is_none() {
                notes.push(format!("libwebp rejects payload {} of {}", i, f.display()));
            }
            let pixels = r.as_ref().map(|x| x.0 as u64 * x.1 as u64).unwrap_or(0);
            bump("files");
            file_cases += 1;
            cases.push(Case { class: "files", line: format!("vp8l {}", hex(&p)), result: result_line(&r), heavy: pixels > 20000 });
            if pixels <= 20000 && p.len() > 5 {
                if let Some((w, h, _)) = &r {
                    bump("implicit");
                    cases.push(Case { class: "implicit", line: format!("vp8l_implicit {} {} {}", w, h, hex(&p[5..])), result: result_line(&r), heavy: false });
                }
            }
        }
    }

    // ---- ALPH chunks of the lossy+alpha files, and of libwebp lossy+alpha encodings ----
    let mut alph_filters = [0u64; 4];
    for f in &files {
        let b = std::fs::read(f).unwrap();
        if let Some((w, h, filter, stream, green)) = alph_case(&b) {
            alph_filters[filter as usize] += 1;
            bump("alph-files");
            cases.push(Case { class: "alph-files", line: format!("vp8l_implicit_green {} {} {}", w, h, hex(&stream)), result: format!("OK {} {} {}", w, h, hex(&green)), heavy: (w as u64) * (h as u64) > 20000 });
        }
    }
    let n_alph = if tier == "thorough" { 300 } else { 40 };
    for _ in 0..n_alph {
        let mut r = rng.fork();
        let (w, h) = (1 + r.below(48) as usize, 1 + r.below(48) as usize);
        let style = r.below(STYLES.len() as u64) as usize;
        let ncol = 1 + r.below(40) as usize;
        let mut rgba = synth_image(&mut r, w, h, style, ncol, true);
        if r.chance(1, 3) {
            // smooth alpha ramps favour the gradient / horizontal / vertical filters
            for i in 0..w * h {
                rgba[i * 4 + 3] = ((i % w) * 5 + (i / w) * 3) as u8;
            }
        }
        let file = libwebp_encode_lossy_alpha(w as u32, h as u32, &rgba, r.below(101) as f32, r.below(7) as i32, r.below(3) as i32, r.below(101) as i32);
        if let Some((w, h, filter, stream, green)) = alph_case(&file) {
            alph_filters[filter as usize] += 1;
            bump("alph-encoder");
            cases.push(Case { class: "alph-encoder", line: format!("vp8l_implicit_green {} {} {}", w, h, hex(&stream)), result: format!("OK {} {} {}", w, h, hex(&green)), heavy: false });
        }
    }

    // ---- (b) encoder ----
    let n_enc = if tier == "thorough" { 1500 } else { 150 };
    let mut size_hist: BTreeMap<String, u64> = BTreeMap::new();
    let mut style_hist: BTreeMap<String, u64> = BTreeMap::new();
    let mut method_hist = [0u64; 7];
    let mut roundtrip_failures: Vec<String> = vec![];
    let mut enc_payloads: Vec<Vec<u8>> = vec![];
    let mut crate_vs_libwebp: Vec<String> = vec![];
    let (mut alpha_imgs, mut max_payload) = (0u64, 0usize);
    for it in 0..n_enc {
        let mut r = rng.fork();
        let (w, h) = match r.below(20) {
            0 | 1 => (1 + r.below(3) as usize, 1 + r.below(40) as usize),
            2 | 3 => (1 + r.below(40) as usize, 1 + r.below(3) as usize),
            4 => (1, 1),
            // a few larger ones so that meta prefix codes and several transform blocks appear
            5 | 6 | 7 => (41 + r.below(88) as usize, 41 + r.below(88) as usize),
            8..=13 => (17 + r.below(24) as usize, 17 + r.below(24) as usize),
            _ => (1 + r.below(40) as usize, 1 + r.below(40) as usize),
        };
        // the photographic styles (more than 256 colours: no palette) get half of the weight
        let style = if r.chance(1, 2) { *r.pick(&[0usize, 3, 4, 4]) } else { r.below(STYLES.len() as u64) as usize };
        let ncol = *r.pick(&[1usize, 2, 3, 4, 5, 16, 17, 60, 200]);
        let ncol = if r.chance(1, 3) { 1 + r.below(200) as usize } else { ncol };
        let alpha = r.chance(1, 2);
        let quality = r.below(101) as f32;
        let method = r.below(7) as i32;
        let rgba = synth_image(&mut r, w, h, style, ncol, alpha);
        let file = libwebp_encode_lossless(w as u32, h as u32, &rgba, quality, method);
        let ps = vp8l_payloads(&file);
        if ps.len() != 1 {
            notes.push(format!("encoder output {it} has {} VP8L chunks", ps.len()));
            continue;
        }
        let p = ps.into_iter().next().unwrap();
        let res = libwebp_decode_payload(&p);
        match &res {
            Some((ww, hh, px)) if *ww as usize == w && *hh as usize == h && *px == rgba => {}
            _ => roundtrip_failures.push(format!("it={it} {w}x{h} style={} q={quality} m={method}", STYLES[style])),
        }
        *size_hist.entry(format!("{}", if w * h == 1 { "1x1" } else if w <= 3 || h <= 3 { "thin" } else if w > 40 { "41..128" } else { "4..40" })).or_insert(0) += 1;
        *style_hist.entry(STYLES[style].to_string()).or_insert(0) += 1;
        method_hist[method as usize] += 1;
        alpha_imgs += alpha as u64;
        max_payload = max_payload.max(p.len());
        if let Err(e) = crate_agrees(&p, &res) {
            crate_vs_libwebp.push(format!("encoder it={it}: {e}"));
        }
        bump("encoder");
        cases.push(Case { class: "encoder", line: format!("vp8l {}", hex(&p)), result: result_line(&res), heavy: false });
        if it % 3 == 0 && p.len() > 5 {
            bump("implicit");
            cases.push(Case { class: "implicit", line: format!("vp8l_implicit {} {} {}", w, h, hex(&p[5..])), result: result_line(&res), heavy: false });
        }
        enc_payloads.push(p);
    }

    // ---- hand-made ----
    let mut handmade_unexpected: Vec<String> = vec![];
    let mut handmade_listing = String::new();
    for (name, p, valid) in handmade() {
        let r = libwebp_decode_payload(&p);
        let agree = crate_agrees(&p, &r);
        handmade_listing.push_str(&format!("{name} | {} | libwebp: {} | crate: {}\n", hex(&p), { let l = result_line(&r); if l.len() > 200 { format!("{}... ({} chars)", &l[..200], l.len()) } else { l } },
            match &agree { Ok(()) => "agrees".to_string(), Err(e) => e.clone() }));
        if let Err(e) = agree {
            crate_vs_libwebp.push(format!("handmade {name}: {e}"));
        }
        if r.is_some() != valid {
            handmade_unexpected.push(format!("{name}: libwebp {} but the stream was built to be {}", if r.is_some() { "accepts" } else { "rejects" }, if valid { "valid" } else { "invalid" }));
        }
        bump(if valid { "handmade" } else { "invalid" });
        cases.push(Case { class: if valid { "handmade" } else { "invalid" }, line: format!("vp8l {}", hex(&p)), result: result_line(&r), heavy: false });
        if valid {
            if let Some((w, h, _)) = &r {
                bump("implicit");
                cases.push(Case { class: "implicit", line: format!("vp8l_implicit {} {} {}", w, h, hex(&p[5..])), result: result_line(&r), heavy: false });
            }
        }
    }

    // ---- invalid: truncations, signature, version; mutated ----
    // libwebp pads payloads shorter than 8 bytes with zero bits up to 64 bits (VP8LInitBitReader), the Spec does
    // not: only payloads of at least 8 bytes are compared here (see REPORT.md).
    let n_inv = if tier == "thorough" { 400 } else { 60 };
    let n_mut = if tier == "thorough" { 1500 } else { 200 };
    let (mut trunc_err, mut trunc_ok, mut mut_ok, mut mut_err) = (0u64, 0u64, 0u64, 0u64);
    if !enc_payloads.is_empty() {
        for k in 0..n_inv {
            let p = &enc_payloads[rng.below(enc_payloads.len() as u64) as usize];
            if p.len() < 10 {
                continue;
            }
            let mut q = p.clone();
            let kind = k % 6;
            match kind {
                0 => q.truncate(8 + rng.below((p.len() - 8) as u64) as usize),
                1 => q.truncate(p.len() - 1),
                2 => q.truncate((p.len() / 2).max(8)),
                3 => q.truncate((p.len() * 9 / 10).max(8)),
                4 => q[4] |= (1 + rng.below(7) as u8) << 5, // version != 0
                _ => q[0] = rng.byte() | 0x40,               // signature != 0x2f
            }
            let r = libwebp_decode_payload(&q);
            if r.is_some() {
                trunc_ok += 1;
            } else {
                trunc_err += 1;
            }
            bump("invalid");
            cases.push(Case { class: "invalid", line: format!("vp8l {}", hex(&q)), result: result_line(&r), heavy: false });
        }
        for _ in 0..n_mut {
            let p = &enc_payloads[rng.below(enc_payloads.len() as u64) as usize];
            if p.len() < 10 {
                continue;
            }
            let mut q = p.clone();
            // half of the mutations hit the first 40 bytes after the header (transforms and prefix codes)
            let span = if rng.chance(1, 2) { (p.len() - 5).min(40) } else { p.len() - 5 };
            for _ in 0..1 + rng.below(3) {
                let byte = 5 + rng.below(span as u64) as usize;
                q[byte] ^= 1 << rng.below(8);
            }
            let r = libwebp_decode_payload(&q);
            if r.is_some() {
                mut_ok += 1;
            } else {
                mut_err += 1;
            }
            if let Err(e) = crate_agrees(&q, &r) {
                crate_vs_libwebp.push(format!("mutated {}: {e}", hex(&q)));
            }
            bump("mutated");
            cases.push(Case { class: "mutated", line: format!("vp8l {}", hex(&q)), result: result_line(&r), heavy: false });
        }
    }

    // ---- write: spread the heavy cases evenly (the oracle is run on contiguous shards) ----
    let heavy: Vec<usize> = (0..cases.len()).filter(|&i| cases[i].heavy).collect();
    let light: Vec<usize> = (0..cases.len()).filter(|&i| !cases[i].heavy).collect();
    let total = cases.len();
    let mut order: Vec<usize> = Vec::with_capacity(total);
    let (mut hi, mut li) = (0usize, 0usize);
    for pos in 0..total {
        let due = !heavy.is_empty() && hi < heavy.len() && pos * heavy.len() / total.max(1) >= hi;
        if due || li >= light.len() {
            order.push(heavy[hi]);
            hi += 1;
        } else {
            order.push(light[li]);
            li += 1;
        }
    }
    let mut classes = String::new();
    for &i in &order {
        out.case(&cases[i].line, &cases[i].result);
        classes.push_str(cases[i].class);
        classes.push('\n');
    }
    std::fs::write(format!("{outdir}/classes.txt"), classes).unwrap();
    std::fs::write(format!("{outdir}/handmade.txt"), handmade_listing).unwrap();
    std::fs::write(format!("{outdir}/crate_vs_libwebp.txt"), crate_vs_libwebp.join("\n") + "\n").unwrap();

    let jmap = |m: &BTreeMap<String, u64>| format!("{{{}}}", m.iter().map(|(k, v)| format!("{}: {}", jstr(k), v)).collect::<Vec<_>>().join(", "));
    let jlist = |v: &Vec<String>| format!("[{}]", v.iter().map(|s| jstr(s)).collect::<Vec<_>>().join(", "));
    let stats = format!(
        "{{\"evaluations\": {}, \"classes\": {}, \"file_payloads\": {}, \"files_scanned\": {}, \"encoder_images\": {}, \"encoder_sizes\": {}, \"encoder_styles\": {}, \
         \"encoder_methods\": [{}], \"encoder_alpha_images\": {}, \"encoder_max_payload_bytes\": {}, \"encoder_roundtrip_failures\": {}, \
         \"truncated_or_header_damaged\": {{\"libwebp_err\": {}, \"libwebp_ok\": {}}}, \"mutated\": {{\"libwebp_ok\": {}, \"libwebp_err\": {}}}, \
         \"alph_filter_methods\": [{}], \"handmade_unexpected\": {}, \"notes\": {}, \"crate_vs_libwebp_disagreements_informational\": {}, \"violations\": []}}",
        total,
        jmap(&count),
        file_cases,
        files.len(),
        enc_payloads.len(),
        jmap(&size_hist),
        jmap(&style_hist),
        method_hist.iter().map(|x| x.to_string()).collect::<Vec<_>>().join(", "),
        alpha_imgs,
        max_payload,
        jlist(&roundtrip_failures),
        trunc_err,
        trunc_ok,
        mut_ok,
        mut_err,
        alph_filters.iter().map(|x| x.to_string()).collect::<Vec<_>>().join(", "),
        jlist(&handmade_unexpected),
        jlist(&notes),
        crate_vs_libwebp.len()
    );
    out.finish(&stats);
}
