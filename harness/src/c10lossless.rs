//! c10lossless: the whole lossless decoder (`LosslessDecoder::decode_frame`, lossless.rs) over a reader whose `fill_buf`
//! fails once, against coq/Model/LosslessIO.v (property C10, second half, decoder level).
//!
//! One payload is decoded through the existing hook `image_webp::verif::vp8l_decode_reader` over `&mut FaultyReader`
//! (the reader type of c10bits.rs, copied): a BufRead whose k-th `fill_buf` call exposes min(max(1, sched[k]), remaining)
//! bytes and whose call number `fail_at` returns io::ErrorKind::Other.  The reader is lent, so the harness still owns it
//! after an error and knows the number of `fill_buf` calls made.
//! For every payload and schedule: the fault-free run, then a fault at EVERY call index of the fault-free run when that
//! count is <= 64, else at a sample of 40 indices including the first, the last and last + 1.
//! Case kind (ocaml/o_c10lossless.ml):
//!     llio <sched> <fail_at | -> <w> <h> <implicit 0|1> <prefill byte> <hex payload>
//!     -> OK len=<bytes> h=<hash of the pixel buffer> calls=N | ERR <DecodingError variant> calls=N | IOERR calls=N | PANIC <kind>
//! (IOERR only if io::ErrorKind::Other came back; calls = fill_buf calls made, the failing one included)
//! `violations`: decided on the implementation alone: a fault at a call index the fault-free run reaches must give
//! IoError(kind Other) after exactly fail_at + 1 calls; a fault beyond must change nothing (same outcome, same pixels,
//! same number of calls); the fault-free run must not be an I/O error.
use crate::c01model::panic_kind;
use crate::util::*;
use image_webp::verif::vp8l_decode_reader;
use image_webp::DecodingError;
use std::collections::BTreeMap;
use std::io::{BufRead, Read};

#[derive(Clone, Debug)]
enum Sched {
    Whole,
    Const(usize),
    /// a finite prefix, then a constant
    Random(Vec<usize>, usize),
}
impl Sched {
    fn at(&self, k: usize) -> usize {
        match self {
            Sched::Whole => usize::MAX,
            Sched::Const(c) => (*c).max(1),
            Sched::Random(p, c) => if k < p.len() { p[k].max(1) } else { (*c).max(1) },
        }
    }
    /// text for `calls` fill_buf calls: items `k` or `kxN`
    fn text(&self, calls: usize) -> String {
        match self {
            Sched::Whole => "-".to_string(),
            Sched::Const(c) => format!("{}x{}", c, calls.max(1)),
            Sched::Random(p, c) => {
                let mut items: Vec<String> = p.iter().take(calls.max(1)).map(|k| k.to_string()).collect();
                if calls > p.len() {
                    items.push(format!("{}x{}", c, calls - p.len()));
                }
                items.join(",")
            }
        }
    }
    fn label(&self) -> String {
        match self {
            Sched::Whole => "whole".into(),
            Sched::Const(c) => format!("const{}", c),
            Sched::Random(..) => "random".into(),
        }
    }
}

/// scheduled + failing reader (as in c10bits.rs)
struct FaultyReader {
    data: Vec<u8>,
    pos: usize,
    sched: Sched,
    calls: usize,
    fail_at: Option<usize>,
}
impl Read for FaultyReader {
    fn read(&mut self, out: &mut [u8]) -> std::io::Result<usize> {
        let n = {
            let b = self.fill_buf()?;
            let n = b.len().min(out.len());
            out[..n].copy_from_slice(&b[..n]);
            n
        };
        self.consume(n);
        Ok(n)
    }
}
impl BufRead for FaultyReader {
    fn fill_buf(&mut self) -> std::io::Result<&[u8]> {
        let idx = self.calls;
        self.calls += 1;
        if self.fail_at == Some(idx) {
            return Err(std::io::Error::new(std::io::ErrorKind::Other, "injected fault"));
        }
        let k = self.sched.at(idx);
        let end = self.pos.saturating_add(k).min(self.data.len());
        Ok(&self.data[self.pos..end])
    }
    fn consume(&mut self, n: usize) {
        self.pos += n;
    }
}

#[derive(Clone, PartialEq, Debug)]
enum Class {
    Ok,
    Err,
    Io,
    Panic,
}
struct Outcome {
    /// the result without the `calls=` field
    word: String,
    class: Class,
    calls: usize,
}
impl Outcome {
    fn line(&self) -> String {
        if self.class == Class::Panic { self.word.clone() } else { format!("{} calls={}", self.word, self.calls) }
    }
}

/// two 30-bit polynomial hashes of the pixel buffer (cheap to recompute in the oracle with native ints)
fn pix_hash(b: &[u8]) -> String {
    let (mut h1, mut h2) = (0u64, 0u64);
    for &x in b {
        h1 = (h1 * 257 + x as u64 + 1) % 1_000_000_007;
        h2 = (h2 * 263 + x as u64 + 1) % 998_244_353;
    }
    format!("len={} h={}-{}", b.len(), h1, h2)
}

fn err_word(e: &DecodingError) -> String {
    match e {
        DecodingError::IoError(e) => if e.kind() == std::io::ErrorKind::Other { "IOERR".to_string() } else { format!("IOERR-kind-{:?}", e.kind()) },
        DecodingError::BitStreamError => "ERR BitStreamError".into(),
        DecodingError::HuffmanError => "ERR HuffmanError".into(),
        DecodingError::TransformError => "ERR TransformError".into(),
        DecodingError::LosslessSignatureInvalid(_) => "ERR LosslessSignatureInvalid".into(),
        DecodingError::VersionNumberInvalid(_) => "ERR VersionNumberInvalid".into(),
        DecodingError::InvalidColorCacheBits(_) => "ERR InvalidColorCacheBits".into(),
        DecodingError::InconsistentImageSizes => "ERR InconsistentImageSizes".into(),
        e => format!("ERR other:{:?}", e).replace(' ', "_"),
    }
}

fn run_one(payload: &[u8], w: u32, h: u32, implicit: bool, prefill: u8, sched: &Sched, fail_at: Option<usize>) -> Outcome {
    let n = (w as usize) * (h as usize) * 4;
    let mut rd = FaultyReader { data: payload.to_vec(), pos: 0, sched: sched.clone(), calls: 0, fail_at };
    let mut buf = vec![prefill; n];
    let r = {
        let rdr = &mut rd;
        let b = &mut buf;
        catch(std::panic::AssertUnwindSafe(move || vp8l_decode_reader(rdr, w, h, implicit, b)))
    };
    let calls = rd.calls;
    match r {
        Ok(Ok(())) => Outcome { word: format!("OK {}", pix_hash(&buf)), class: Class::Ok, calls },
        Ok(Err(e)) => {
            let word = err_word(&e);
            let class = if word.starts_with("IOERR") { Class::Io } else { Class::Err };
            Outcome { word, class, calls }
        }
        Err(m) => Outcome { word: format!("PANIC {}", panic_kind(&m)), class: Class::Panic, calls },
    }
}

fn pick_sched(rng: &mut Rng) -> Sched {
    match rng.below(9) {
        0 | 1 => Sched::Whole,
        2 => Sched::Const(1),
        3 => Sched::Const(2),
        4 => Sched::Const(3),
        5 => Sched::Const(7),
        6 => Sched::Const(8),
        7 => Sched::Const(9),
        _ => {
            let n = rng.range(1, 48) as usize;
            let p: Vec<usize> = (0..n).map(|_| if rng.chance(1, 3) { rng.range(8, 20) } else { rng.range(1, 9) } as usize).collect();
            let c = *rng.pick(&[1usize, 2, 5, 8, 13, 1000]);
            Sched::Random(p, c)
        }
    }
}

fn parse_sched(text: &str) -> Sched {
    if text == "-" {
        return Sched::Whole;
    }
    let mut p = vec![];
    for it in text.split(',') {
        match it.find('x') {
            Some(i) => {
                let k: usize = it[..i].parse().unwrap();
                let n: usize = it[i + 1..].parse().unwrap();
                for _ in 0..n {
                    p.push(k);
                }
            }
            None => p.push(it.parse().unwrap()),
        }
    }
    // the Model exposes the whole remainder once the schedule is used up
    Sched::Random(p, usize::MAX)
}

struct Ctx {
    out: Out,
    counts: BTreeMap<String, u64>,
    violations: Vec<String>,
}
impl Ctx {
    fn bump(&mut self, k: &str) {
        *self.counts.entry(k.to_string()).or_insert(0) += 1;
    }
    fn add(&mut self, k: &str, n: u64) {
        *self.counts.entry(k.to_string()).or_insert(0) += n;
    }
}

fn class_name(c: &Class) -> &'static str {
    match c {
        Class::Ok => "OK",
        Class::Err => "ERR",
        Class::Io => "IOERR",
        Class::Panic => "PANIC",
    }
}

/// one payload under one schedule: fault-free, then the fault indices
fn run_payload(cx: &mut Ctx, rng: &mut Rng, tag: &str, payload: &[u8], w: u32, h: u32, implicit: bool, prefill: u8, sched: &Sched) {
    let free = run_one(payload, w, h, implicit, prefill, sched, None);
    // a faulty run never makes more calls than the fault-free one; one spare entry
    let stext = sched.text(free.calls + 1);
    let tail = format!("{} {} {} {} {}", w, h, if implicit { 1 } else { 0 }, prefill, hex(payload));
    cx.out.case(&format!("llio {} - {}", stext, tail), &free.line());
    cx.bump("pairs");
    cx.bump(&format!("source.{}", tag));
    cx.bump(&format!("sched.{}", sched.label()));
    cx.bump(&format!("free.result.{}", class_name(&free.class)));
    if free.class == Class::Err {
        cx.bump(&format!("free.error.{}", &free.word[4..]));
    }
    cx.bump(if implicit { "implicit_dimensions" } else { "with_header" });
    let px = (w as u64) * (h as u64);
    cx.bump(&format!("pixels.{}", if px <= 16 { "le16" } else if px <= 256 { "le256" } else if px <= 1024 { "le1024" } else if px <= 4096 { "le4096" } else { "gt4096" }));
    cx.add("free.fill_buf_calls", free.calls as u64);
    cx.bump(if free.calls <= 64 { "fault_indices.every_call" } else { "fault_indices.sample_of_40" });
    if free.class == Class::Io {
        cx.violations.push(format!("llio {} - {} :: fault-free run reports {}", stext, &tail[..tail.len().min(200)], free.line()));
    }
    let n = free.calls;
    let mut fails: Vec<usize> = if n <= 64 {
        (0..=n).collect()
    } else {
        let mut v = vec![0, n - 1, n];
        while v.len() < 40 {
            let k = rng.below(n as u64) as usize;
            if !v.contains(&k) { v.push(k); }
        }
        v.sort();
        v
    };
    if n <= 64 && rng.chance(1, 4) {
        fails.push(n + 1 + rng.below(1000) as usize);
    }
    for k in fails {
        let o = run_one(payload, w, h, implicit, prefill, sched, Some(k));
        let case = format!("llio {} {} {}", stext, k, tail);
        let short: String = case.chars().take(300).collect();
        if k < n {
            cx.bump("fault.reached");
            cx.bump(&format!("fault.reached.result.{}", class_name(&o.class)));
            if free.class != Class::Ok {
                cx.bump("fault.reached.in_a_run_that_ends_in_a_decoding_error");
            }
            if !(o.class == Class::Io && o.word == "IOERR" && o.calls == k + 1) {
                cx.violations.push(format!("{} :: fault at a reached call gives `{}` (fault-free `{}`)", short, o.line(), free.line()));
            }
        } else {
            cx.bump("fault.beyond");
            if o.line() != free.line() {
                cx.violations.push(format!("{} :: fault beyond the calls made changes the result: `{}` vs `{}`", short, o.line(), free.line()));
            }
        }
        cx.out.case(&case, &o.line());
    }
}

/// VP8L payloads (with dimensions) and ALPH lossless payloads (implicit dimensions) of a WebP file (as in c01model.rs)
fn payloads_of_file(b: &[u8]) -> Vec<(Vec<u8>, u32, u32, bool)> {
    let mut res = vec![];
    if b.len() < 12 || &b[..4] != b"RIFF" {
        return res;
    }
    fn scan(b: &[u8], mut pos: usize, end: usize, canvas: Option<(u32, u32)>, res: &mut Vec<(Vec<u8>, u32, u32, bool)>) {
        let mut canvas = canvas;
        while pos + 8 <= end {
            let cc = &b[pos..pos + 4];
            let n = u32::from_le_bytes([b[pos + 4], b[pos + 5], b[pos + 6], b[pos + 7]]) as usize;
            let s = pos + 8;
            let e = (s + n).min(end);
            let p = &b[s..e];
            match cc {
                b"VP8X" if p.len() >= 10 => {
                    let w = 1 + (p[4] as u32 | (p[5] as u32) << 8 | (p[6] as u32) << 16);
                    let h = 1 + (p[7] as u32 | (p[8] as u32) << 8 | (p[9] as u32) << 16);
                    canvas = Some((w, h));
                }
                b"VP8L" if p.len() >= 5 => {
                    let bits = u32::from_le_bytes([p[1], p[2], p[3], p[4]]);
                    res.push((p.to_vec(), (bits & 0x3fff) + 1, ((bits >> 14) & 0x3fff) + 1, false));
                }
                b"ALPH" if !p.is_empty() && p[0] & 3 == 1 => {
                    if let Some((w, h)) = canvas {
                        res.push((p[1..].to_vec(), w, h, true));
                    }
                }
                b"ANMF" if p.len() >= 16 => {
                    let w = 1 + (p[6] as u32 | (p[7] as u32) << 8 | (p[8] as u32) << 16);
                    let h = 1 + (p[9] as u32 | (p[10] as u32) << 8 | (p[11] as u32) << 16);
                    scan(b, s + 16, e, Some((w, h)), res);
                }
                _ => {}
            }
            pos = s + n + (n & 1);
        }
    }
    scan(b, 12, b.len(), None, &mut res);
    res
}

/// libwebp encoder (as in c01model.rs): lossless VP8L, or lossy + compressed ALPH when `lossless` is false
fn encode_webp(w: i32, h: i32, rgba: &[u8], lossless: bool, q: f32, method: i32, alpha_q: i32) -> Vec<u8> {
    unsafe {
        let mut cfg: libwebp_sys::WebPConfig = std::mem::zeroed();
        libwebp_sys::WebPConfigInitInternal(&mut cfg, libwebp_sys::WebPPreset::WEBP_PRESET_DEFAULT, q, libwebp_sys::WEBP_ENCODER_ABI_VERSION as i32);
        cfg.lossless = if lossless { 1 } else { 0 };
        cfg.method = method;
        cfg.exact = 1;
        cfg.alpha_compression = 1;
        cfg.alpha_quality = alpha_q;
        assert!(libwebp_sys::WebPValidateConfig(&cfg) != 0);
        let mut pic: libwebp_sys::WebPPicture = std::mem::zeroed();
        libwebp_sys::WebPPictureInitInternal(&mut pic, libwebp_sys::WEBP_ENCODER_ABI_VERSION as i32);
        pic.width = w;
        pic.height = h;
        pic.use_argb = 1;
        libwebp_sys::WebPPictureImportRGBA(&mut pic, rgba.as_ptr(), w * 4);
        let mut wr: libwebp_sys::WebPMemoryWriter = std::mem::zeroed();
        libwebp_sys::WebPMemoryWriterInit(&mut wr);
        pic.writer = Some(libwebp_sys::WebPMemoryWrite);
        pic.custom_ptr = &mut wr as *mut _ as *mut std::ffi::c_void;
        let ok = libwebp_sys::WebPEncode(&cfg, &mut pic) != 0;
        let f = if ok { std::slice::from_raw_parts(wr.mem, wr.size).to_vec() } else { vec![] };
        libwebp_sys::WebPPictureFree(&mut pic);
        libwebp_sys::WebPMemoryWriterClear(&mut wr);
        f
    }
}

fn random_image(rng: &mut Rng, w: usize, h: usize) -> Vec<u8> {
    let n = w * h;
    let style = rng.below(8);
    let ncol = *rng.pick(&[1usize, 2, 3, 4, 5, 16, 17, 200]);
    let pal: Vec<[u8; 4]> = (0..ncol).map(|_| [rng.byte(), rng.byte(), rng.byte(), if rng.chance(1, 2) { 255 } else { rng.byte() }]).collect();
    let mut rgba = vec![0u8; n * 4];
    for i in 0..n {
        let (x, y) = (i % w, i / w);
        let p: [u8; 4] = match style {
            0 => [rng.byte(), rng.byte(), rng.byte(), rng.byte()],
            1 => pal[rng.below(ncol as u64) as usize],
            2 => pal[(x / 3 + y / 2) % ncol],
            3 => [(x * 3) as u8, (y * 5) as u8, (x + y) as u8, 255],
            4 => [(x * 3 + rng.below(3) as usize) as u8, (y * 5) as u8, (x ^ y) as u8, (255 - x) as u8],
            5 => {
                if rng.chance(1, 20) { pal[rng.below(ncol as u64) as usize] } else if i > 0 { [rgba[i * 4 - 4], rgba[i * 4 - 3], rgba[i * 4 - 2], rgba[i * 4 - 1]] } else { pal[0] }
            }
            6 => {
                if y > 0 && !rng.chance(1, 4) { let j = (i - w) * 4; [rgba[j], rgba[j + 1], rgba[j + 2], rgba[j + 3]] } else { pal[rng.below(ncol as u64) as usize] }
            }
            _ => [200, (x % 7 * 30) as u8, 10, 255],
        };
        rgba[i * 4..][..4].copy_from_slice(&p);
    }
    rgba
}

fn mutate(rng: &mut Rng, p: &[u8]) -> (Vec<u8>, &'static str) {
    let mut q = p.to_vec();
    match rng.below(4) {
        0 if q.len() > 1 => { let k = rng.range(1, q.len() as u64 - 1) as usize; q.truncate(k); (q, "truncated") }
        1 | 0 => { if !q.is_empty() { let i = rng.below(q.len() as u64) as usize; q[i] ^= 1 << rng.below(8); } (q, "bitflip") }
        2 => { if !q.is_empty() { let i = rng.below(q.len() as u64) as usize; q[i] = rng.byte(); } (q, "bytechange") }
        _ => { let k = rng.range(1, 6) as usize; for _ in 0..k { if !q.is_empty() { let lim = q.len().min(40) as u64; let i = rng.below(lim) as usize; q[i] = rng.byte(); } } (q, "headchange") }
    }
}

const ALL_SCHEDS: [usize; 6] = [1, 2, 3, 7, 8, 9];

fn gen(cx: &mut Ctx, rng: &mut Rng, tier: &str) {
    let thorough = tier == "thorough";
    let repo = crate::corpus::repo_dir();
    // (a) lossless payloads of the repository's test images (small ones)
    let max_px: u64 = if thorough { 4200 } else { 1024 };
    let mut files: Vec<std::path::PathBuf> = vec![];
    for d in ["regression", "gallery1", "gallery2", "animated"] {
        if let Ok(rd) = std::fs::read_dir(format!("{repo}/tests/images/{d}")) {
            for e in rd.flatten() {
                if e.path().extension().map(|x| x == "webp").unwrap_or(false) { files.push(e.path()); }
            }
        }
    }
    files.sort();
    for f in &files {
        let b = match std::fs::read(f) { Ok(b) => b, Err(_) => continue };
        let name = f.file_name().unwrap().to_string_lossy().to_string();
        let mut frames = 0;
        for (p, w, h, implicit) in payloads_of_file(&b) {
            let px = w as u64 * h as u64;
            if px > max_px { cx.bump("testimage_payload_skipped_too_large"); continue; }
            frames += 1;
            if frames > (if thorough { 3 } else { 1 }) { break; }
            let mut scheds = vec![Sched::Whole, Sched::Const(1)];
            if thorough {
                for c in [2usize, 3, 7, 8, 9] { scheds.push(Sched::Const(c)); }
                scheds.push(pick_sched(rng));
            } else {
                scheds.push(Sched::Const(*rng.pick(&ALL_SCHEDS)));
            }
            for s in scheds {
                run_payload(cx, rng, &format!("testimage:{}", name), &p, w, h, implicit, 0xa5, &s);
            }
        }
    }
    // (b) libwebp lossless encodes and ALPH streams of small images, some mutated
    let n_enc = if thorough { 900 } else { 110 };
    let side: u64 = if thorough { 24 } else { 12 };
    for it in 0..n_enc {
        let (w, h) = match rng.below(6) { 0 => (1 + rng.below(side) as usize, 1), 1 => (1, 1 + rng.below(side) as usize), _ => (1 + rng.below(side) as usize, 1 + rng.below(side) as usize) };
        let rgba = random_image(rng, w, h);
        let alpha_via_lossy = it % 4 == 3;
        let f = encode_webp(w as i32, h as i32, &rgba, !alpha_via_lossy, rng.below(101) as f32, rng.below(7) as i32, rng.below(101) as i32);
        let ps = payloads_of_file(&f);
        if ps.is_empty() { cx.bump("libwebp_no_lossless_payload"); continue; }
        for (p, pw, ph, implicit) in ps {
            let prefill = *rng.pick(&[0u8, 0xff, 0xa5]);
            let s = match it % 9 { 0 => Sched::Whole, 1 => Sched::Const(1), 2 => Sched::Const(8), _ => pick_sched(rng) };
            run_payload(cx, rng, if implicit { "libwebp_alph" } else { "libwebp_vp8l" }, &p, pw, ph, implicit, prefill, &s);
            if rng.chance(1, 3) {
                let (q, what) = mutate(rng, &p);
                let s2 = pick_sched(rng);
                run_payload(cx, rng, &format!("mutated:{}", what), &q, pw, ph, implicit, prefill, &s2);
            }
            if rng.chance(1, 20) {
                let (w2, h2) = if rng.chance(1, 2) { (pw + 1, ph) } else { (pw, ph.max(2) - 1) };
                let s2 = pick_sched(rng);
                run_payload(cx, rng, "wrong_dims", &p, w2, h2, implicit, prefill, &s2);
            }
        }
    }
    // (c) legal streams from the generator (features libwebp's encoder never emits), small
    let mut gp = crate::gen_vp8l::Params::full();
    gp.deep = false;
    gp.strips = false;
    gp.max16384 = false;
    gp.max_dim = if thorough { 24 } else { 10 };
    let n_gen = if thorough { 700 } else { 90 };
    let gen_px: u64 = if thorough { 1024 } else { 200 };
    let mut made = 0;
    let mut tries = 0;
    while made < n_gen && tries < n_gen * 20 {
        tries += 1;
        let g = crate::gen_vp8l::generate(rng.next(), &gp, false);
        if (g.width as u64) * (g.height as u64) > gen_px || g.payload.len() > 6000 { cx.bump("generated_skipped_too_large"); continue; }
        made += 1;
        let s = match made % 7 { 0 => Sched::Whole, 1 => Sched::Const(1), _ => pick_sched(rng) };
        let pre = *rng.pick(&[0u8, 0x5a]);
        run_payload(cx, rng, "generated_legal", &g.payload, g.width, g.height, false, pre, &s);
        if rng.chance(1, 6) {
            let (q, what) = mutate(rng, &g.payload);
            let s2 = pick_sched(rng);
            run_payload(cx, rng, &format!("generated_mutated:{}", what), &q, g.width, g.height, false, 0, &s2);
        }
    }
    // (d) noise and empty payloads
    for _ in 0..(if thorough { 150 } else { 25 }) {
        let n = rng.range(0, 60) as usize;
        let mut p = rng.bytes(n);
        let (w, h) = (rng.range(1, 8) as u32, rng.range(1, 8) as u32);
        let implicit = rng.chance(1, 2);
        if !implicit && p.len() >= 5 {
            let hd = 0x2fu64 | ((w as u64 - 1) << 8) | ((h as u64 - 1) << 22);
            for i in 0..5 { p[i] = (hd >> (8 * i)) as u8; }
            p[4] &= 0x0f;
        }
        let s2 = pick_sched(rng);
        run_payload(cx, rng, "noise", &p, w, h, implicit, 0x11, &s2);
    }
}

fn replay_line(cx: &mut Ctx, line: &str) {
    let w: Vec<&str> = line.split_whitespace().collect();
    if w.len() != 8 || w[0] != "llio" {
        return;
    }
    let sched = parse_sched(w[1]);
    let fail = if w[2] == "-" { None } else { Some(w[2].parse::<usize>().unwrap()) };
    let (wd, ht): (u32, u32) = (w[3].parse().unwrap(), w[4].parse().unwrap());
    let o = run_one(&unhex(w[7]), wd, ht, w[5] == "1", w[6].parse().unwrap(), &sched, fail);
    cx.out.case(line, &o.line());
}

pub fn run(tier: &str, seed: u64, outdir: &str, extra: &[String]) {
    let mut cx = Ctx { out: Out::new(outdir), counts: BTreeMap::new(), violations: vec![] };
    let mut rng = Rng::new(seed);
    if tier == "replay" {
        for l in std::fs::read_to_string(&extra[0]).unwrap().lines() {
            replay_line(&mut cx, l);
        }
    } else {
        gen(&mut cx, &mut rng, tier);
    }
    let counts: Vec<String> = cx.counts.iter().map(|(k, v)| format!("{}: {}", jstr(k), v)).collect();
    let viol: Vec<String> = cx.violations.iter().map(|s| jstr(s)).collect();
    let stats = format!(
        "{{\n \"check\": \"c10lossless\", \"tier\": {}, \"seed\": {}, \"evaluations\": {},\n \"distribution\": {{{}}},\n \"violations\": [{}]\n}}\n",
        jstr(tier), seed, cx.out.n, counts.join(", "), viol.join(", ")
    );
    cx.out.finish(&stats);
}
